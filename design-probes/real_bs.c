#include <stddef.h>
#include <stdbool.h>
#include <assert.h>
typedef unsigned long IndexType;
typedef struct XalanNode XalanNode;
typedef XalanNode** NodeListIteratorType;
#define MAXN 100000000
/* ghost state */
IndexType *g_idx; NodeListIteratorType g_base; size_t g_n; IndexType g_nodeIndex; size_t g_w;
#define OFF(p) ((size_t)__CPROVER_POINTER_OFFSET(p) / sizeof(XalanNode*))
#define ALIGNED(p) (__CPROVER_POINTER_OFFSET(p) % sizeof(XalanNode*) == 0)

/* accessor stub: (*it)->getIndex() ; contract = positional read + sortedness instantiated at ghost witness */
IndexType xv_index_at(NodeListIteratorType it)
__CPROVER_requires(__CPROVER_same_object(it, g_base) && ALIGNED(it) && OFF(it) < g_n)
__CPROVER_assigns()
__CPROVER_ensures(__CPROVER_return_value == g_idx[OFF(it)])
__CPROVER_ensures(OFF(it) < g_w ==> __CPROVER_return_value < g_idx[g_w])
__CPROVER_ensures(OFF(it) > g_w ==> __CPROVER_return_value > g_idx[g_w])
;
IndexType xv_node_index(XalanNode* n)
__CPROVER_assigns()
__CPROVER_ensures(__CPROVER_return_value == g_nodeIndex)
;

bool
findInsertionPointBinarySearch(
            XalanNode*                                  node,
            NodeListIteratorType    begin,
            NodeListIteratorType    end,
            NodeListIteratorType*   insertionPoint)
__CPROVER_requires(g_n > 0 && g_n <= MAXN && g_w < g_n)
__CPROVER_requires(__CPROVER_is_fresh(begin, g_n * sizeof(XalanNode*)))
__CPROVER_requires(__CPROVER_is_fresh(g_idx, g_n * sizeof(IndexType)))
__CPROVER_requires(end == begin + g_n && g_base == begin)
__CPROVER_requires(__CPROVER_is_fresh(insertionPoint, sizeof(*insertionPoint)))
__CPROVER_assigns(*insertionPoint)
__CPROVER_ensures(__CPROVER_return_value == true ==> (__CPROVER_same_object(*insertionPoint, begin) && ALIGNED(*insertionPoint) && OFF(*insertionPoint) <= g_n))
__CPROVER_ensures(__CPROVER_return_value == true ==> ((g_w < OFF(*insertionPoint)) ==> g_idx[g_w] < g_nodeIndex) && ((g_w >= OFF(*insertionPoint)) ==> g_idx[g_w] > g_nodeIndex))
{
    
    /* dropped assert: node type / indexed (becomes requires) */

    bool    fInsert = true;

    // At this point, we are guaranteed that the range is only for this
    // document, and that the range is indexed...
    const IndexType  theIndex = xv_node_index(node);

    

    // End points to one past the last valid point,
    // so subtract 1.
    NodeListIteratorType last = (end - 1);
    /* assert(*last != 0): list invariant, in stub requires */

    // Do a quick check to see if we just need to append...
    if (xv_index_at(last) < theIndex)
    {
        (*insertionPoint) = end;
    }
    else
    {
        // Do a binary search for the insertion point...
        NodeListIteratorType first = (begin);
        NodeListIteratorType current = (end);

        IndexType    theCurrentIndex = 0;

        while (first <= last)
        __CPROVER_assigns(first, last, current, theCurrentIndex, fInsert)
        __CPROVER_loop_invariant(__CPROVER_same_object(first, begin) && __CPROVER_same_object(last, begin)&& __CPROVER_same_object(current, begin))
        __CPROVER_loop_invariant(ALIGNED(first) && ALIGNED(last) && ALIGNED(current))
        __CPROVER_loop_invariant(OFF(first) <= g_n && OFF(last) < g_n && OFF(current) <= g_n && OFF(first) <= OFF(last) + 1)
        __CPROVER_loop_invariant(fInsert == true)
        __CPROVER_loop_invariant((OFF(first) == 0 && OFF(last) == g_n - 1 && OFF(current) == g_n) || (OFF(current) < g_n && theCurrentIndex != theIndex && theCurrentIndex == g_idx[OFF(current)] && (theCurrentIndex < theIndex ? OFF(first) == OFF(current) + 1 : OFF(last) + 1 == OFF(current))))
        __CPROVER_loop_invariant(((g_w < OFF(first)) ==> g_idx[g_w] < theIndex) && ((g_w > OFF(last)) ==> g_idx[g_w] > theIndex))
        __CPROVER_decreases(OFF(last) + 1 - OFF(first))
        {
            current = first + (last - first) / 2;
            /* assert(*current != 0): list invariant, in stub requires */

            theCurrentIndex = xv_index_at(current);

            if (theIndex < theCurrentIndex)
            {
                if (current == begin)
                {
                    break;
                }
                else
                {
                    last = current - 1;
                }
            }
            else if (theIndex > theCurrentIndex)
            {
                first = current + 1;
            }
            else if (theIndex == theCurrentIndex)
            {
                // Duplicate, don't insert...
                fInsert = false;

                break;
            }
        }

        if (theIndex != theCurrentIndex)
        {
            if (current == end || first == end)
            {
                // We either didn't search, or we're
                // at the end...
                (*insertionPoint) = end;
            }
            else if (theCurrentIndex < theIndex)
            {
                // We're inserting after the current position...
                assert(xv_index_at(current) < theIndex &&
                       (current + 1 == end || xv_index_at(current + 1) > theIndex));

                (*insertionPoint) = current + 1;
            }
            else
            {
                // We're inserting before the current position...
                assert(theCurrentIndex > theIndex);
                assert(xv_index_at(current) > theIndex &&
                       (current == begin || xv_index_at(current) > theIndex));

                (*insertionPoint) = current;
            }
        }
    }

    return fInsert;
}

void harness(void){ XalanNode*n; NodeListIteratorType b,e,*ip; findInsertionPointBinarySearch(n,b,e,ip);}
