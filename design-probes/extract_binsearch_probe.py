import re,sys
def cut(src, sig_re):
    m=re.search(sig_re, src, re.M)
    assert m, sig_re
    i=src.index('{', m.end())
    depth=0;j=i
    in_s=None
    while True:
        c=src[j]
        if in_s:
            if c=='\\': j+=1
            elif c==in_s: in_s=None
        elif src.startswith('//',j): j=src.index('\n',j)
        elif src.startswith('/*',j): j=src.index('*/',j)+1
        elif c in '"\'': in_s=c
        elif c=='{': depth+=1
        elif c=='}':
            depth-=1
            if depth==0: break
        j+=1
    return src[m.start():i], src[i:j+1]
def apply(body, rules):
    log=[]
    for pat,rep,cnt in rules:
        body,n=re.subn(pat,rep,body)
        log.append((pat,n))
        if cnt is not None and n!=cnt: raise SystemExit(f"RULE MISFIRE {pat!r}: {n} != {cnt}")
        if cnt is None and n==0: raise SystemExit(f"RULE DID NOT FIRE {pat!r}")
    return body,log
if __name__=="__main__":
  pass
src=open('/repo/src/xalanc/XPath/MutableNodeRefList.cpp').read()
head,body=cut(src, r'^findInsertionPointBinarySearch\(')
rules=[
 (r'(?s)assert\(\s*node->getNodeType\(\).*?isIndexed\(\) == true\)\);', '/* dropped assert: node type / indexed (becomes requires) */', 1),
 (r'assert\(node != 0\);', '', 1),
 (r'typedef MutableNodeRefList::NodeListIteratorType\s+NodeListIteratorType;', '', 1),
 (r'XalanNode::IndexType', 'IndexType', 2),
 (r'NodeListIteratorType\s+(\w+)\((.*?)\);', r'NodeListIteratorType \1 = (\2);', 3),
 (r'node->getIndex\(\)', 'xv_node_index(node)', 1),
 (r'\(\*\(?(\w+(?: \+ 1)?)\)?\)->getIndex\(\)', r'xv_index_at(\1)', None),
 (r'assert\(\*(\w+) != 0\);', r'/* assert(*\1 != 0): list invariant, in stub requires */', 2),
 (r'\binsertionPoint\b', '(*insertionPoint)', None),
]
body,log=apply(body,rules)
print(body)
for l in log: print('//',l, file=sys.stderr)
