#include "c11_shim.h"
XObjectPtr executeMore_generic(XalanNode* context, OpCodeMapPositionType opPos, Ctx* executionContext)
#include "gen_body.c"

void executeMore_bool(XalanNode* context, OpCodeMapPositionType opPos, Ctx* executionContext, bool* result)
#include "bool_body.c"

void harness(void)
{
  XalanNode* c; Ctx* e; OpCodeMapPositionType p;
  bool r; bool r0 = r;
  { bool v_; g_And_3 = v_; }
  { bool v_; g_Or_3 = v_; }
  { XObjectPtr v_; g_Union_3 = v_; }
  { double v_; g_div_3 = v_; }
  { bool v_; g_equals_3 = v_; }
  { bool v_; g_functionBoolean_3 = v_; }
  { double v_; g_functionCeiling_3 = v_; }
  { double v_; g_functionCount_3 = v_; }
  { double v_; g_functionFloor_3 = v_; }
  { double v_; g_functionLast_1 = v_; }
  { xv_str v_; g_functionLocalName_1 = v_; }
  { xv_str v_; g_functionLocalName_3 = v_; }
  { xv_str v_; g_functionName_1 = v_; }
  { xv_str v_; g_functionName_3 = v_; }
  { bool v_; g_functionNot_3 = v_; }
  { double v_; g_functionNumber_2 = v_; }
  { double v_; g_functionNumber_3 = v_; }
  { double v_; g_functionPosition_2 = v_; }
  { double v_; g_functionRound_3 = v_; }
  { XObjectPtr v_; g_functionString_1 = v_; }
  { XObjectPtr v_; g_functionString_3 = v_; }
  { double v_; g_functionStringLength_2 = v_; }
  { double v_; g_functionStringLength_3 = v_; }
  { double v_; g_functionSum_3 = v_; }
  { XObjectPtr v_; g_group_3 = v_; }
  { bool v_; g_gt_3 = v_; }
  { bool v_; g_gte_3 = v_; }
  { XObjectPtr v_; g_literal_2 = v_; }
  { XObjectPtr v_; g_locationPath_3 = v_; }
  { bool v_; g_lt_3 = v_; }
  { bool v_; g_lte_3 = v_; }
  { double v_; g_minus_3 = v_; }
  { double v_; g_mod_3 = v_; }
  { double v_; g_mult_3 = v_; }
  { double v_; g_neg_3 = v_; }
  { bool v_; g_notequals_3 = v_; }
  { XObjectPtr v_; g_numberlit_2 = v_; }
  { double v_; g_plus_3 = v_; }
  { XObjectPtr v_; g_runExtFunction_3 = v_; }
  { XObjectPtr v_; g_runFunction_3 = v_; }
  { XObjectPtr v_; g_variable_2 = v_; }
  { int v_; g_opcode = v_; }
  g_threw = false;
  XObjectPtr g = executeMore_generic(c, p, e);
  bool threw_g = g_threw; g_threw = false;
  executeMore_bool(c, p, e, &r);
  bool threw_b = g_threw;
  __CPROVER_assert(threw_g == threw_b, "both reject the same op codes");
  if (!threw_g) __CPROVER_assert(r == g.b, "bool overload == boolean(generic)");
}
