#include <math.h>
#include <limits.h>
#include <stdbool.h>
static bool isNaN(double d){ return d != d; }
static bool isPositiveInfinity(double d){ return d == HUGE_VAL; }
static bool isNegativeInfinity(double d){ return d == -HUGE_VAL; }
static double getNaN(void){ return NAN; }
static double getPositiveInfinity(void){ return HUGE_VAL; }
static double getNegativeInfinity(void){ return -HUGE_VAL; }
static inline double
modfRound(double  theValue)
{
    double          intPart = 0;
        modf(theValue + 0.5, &intPart);
    return intPart;
}
double
DoubleSupport_round(double     theValue)
{
    if (isNaN(theValue)) { return getNaN(); }
    else if (isPositiveInfinity(theValue)) { return getPositiveInfinity(); }
    else if (isNegativeInfinity(theValue)) { return getNegativeInfinity(); }
    else if (theValue == 0) { return 0.0; }
    else if (theValue > 0)
    {
        if (theValue < LONG_MAX) { return (long)(theValue + 0.5); }
        else { return modfRound(theValue); }
    }
    else
    {
        double          intPart = 0;
        const double    fracPart = modf(theValue, &intPart);
        const double    theAdjustedValue = fracPart == -0.5 ? theValue + 0.5 : theValue - 0.5;
        if (theAdjustedValue > LONG_MIN) { return (long)(theAdjustedValue); }
        else { return modfRound(theAdjustedValue); }
    }
}
void harness(void)
{
  double x; 
  __CPROVER_assume(!isnan(x) && !isinf(x));
  double r = DoubleSupport_round(x);
  /* spec: r integral, r - 0.5 <= x < r + 0.5 (exact when |x| < 2^52), else r == x */
  if (fabs(x) >= 4503599627370496.0) { __CPROVER_assert(r == x, "large: identity"); }
  else {
    __CPROVER_assert(r == floor(r), "integral");
    __CPROVER_assert(r - 0.5 <= x && x < r + 0.5, "nearest, ties up");
  }
}
