#include <stdbool.h>
#include <stddef.h>
#include "opcodes.h"
typedef struct XalanNode XalanNode; typedef struct Ctx Ctx; typedef int OpCodeMapPositionType;
typedef enum { T_NULL, T_BOOL, T_NUM, T_STR, T_NODESET } xv_type;
/* ghost XObject record: value seen through each standard conversion */
typedef struct { xv_type type; bool b; double n; int s; } XObjectPtr;
typedef struct { int id; bool nonempty; } xv_str;   /* ghost string: identity + emptiness */
int g_opcode; bool g_threw;
int xv_opcode(OpCodeMapPositionType p) { return g_opcode; }
static bool isNaN_(double d){ return d!=d; }
/* REAL conversions (XObject.hpp) */
static bool XObject_boolean_d(double theNumber) { return !isNaN_(theNumber) && !(theNumber == 0.0); }
static bool XObject_boolean_s(xv_str theString) { return theString.nonempty; }
#define XObject_boolean(x) _Generic((x), double: XObject_boolean_d, xv_str: XObject_boolean_s)(x)
XObjectPtr xv_createBoolean(bool v){ XObjectPtr r; r.type=T_BOOL; r.b=v; r.n=v?1.0:0.0; r.s=-1; return r; }
XObjectPtr xv_createNumber(double v){ XObjectPtr r; r.type=T_NUM; r.n=v; r.b=XObject_boolean_d(v); r.s=-2; return r; }
XObjectPtr xv_createStringReference(xv_str v){ XObjectPtr r; r.type=T_STR; r.s=v.id; r.b=XObject_boolean_s(v); r.n=0; return r; }
XObjectPtr xv_null_xobject(void){ XObjectPtr r; r.type=T_NULL; r.b=false; r.n=0; r.s=-3; return r; }
void unknownOpCodeError(XalanNode* c, Ctx* e, OpCodeMapPositionType p){ g_threw = true; }
#define NARGS_(_1,_2,_3,_4,N,...) N
#define NARGS(...) NARGS_(__VA_ARGS__,4,3,2,1)
#define CAT_(a,b) a##_##b
#define CAT(a,b) CAT_(a,b)
bool g_And_3; bool And_3_impl(void){ return g_And_3; }
bool g_Or_3; bool Or_3_impl(void){ return g_Or_3; }
XObjectPtr g_Union_3; XObjectPtr Union_3_impl(void){ return g_Union_3; }
void Union_b_impl(bool* result);
#define Union_b(...) Union_b_impl(result)
double g_div_3; double div_3_impl(void){ return g_div_3; }
bool g_equals_3; bool equals_3_impl(void){ return g_equals_3; }
bool g_functionBoolean_3; bool functionBoolean_3_impl(void){ return g_functionBoolean_3; }
double g_functionCeiling_3; double functionCeiling_3_impl(void){ return g_functionCeiling_3; }
double g_functionCount_3; double functionCount_3_impl(void){ return g_functionCount_3; }
double g_functionFloor_3; double functionFloor_3_impl(void){ return g_functionFloor_3; }
double g_functionLast_1; double functionLast_1_impl(void){ return g_functionLast_1; }
xv_str g_functionLocalName_1; xv_str functionLocalName_1_impl(void){ return g_functionLocalName_1; }
xv_str g_functionLocalName_3; xv_str functionLocalName_3_impl(void){ return g_functionLocalName_3; }
xv_str g_functionName_1; xv_str functionName_1_impl(void){ return g_functionName_1; }
xv_str g_functionName_3; xv_str functionName_3_impl(void){ return g_functionName_3; }
bool g_functionNot_3; bool functionNot_3_impl(void){ return g_functionNot_3; }
double g_functionNumber_2; double functionNumber_2_impl(void){ return g_functionNumber_2; }
double g_functionNumber_3; double functionNumber_3_impl(void){ return g_functionNumber_3; }
double g_functionPosition_2; double functionPosition_2_impl(void){ return g_functionPosition_2; }
double g_functionRound_3; double functionRound_3_impl(void){ return g_functionRound_3; }
XObjectPtr g_functionString_1; XObjectPtr functionString_1_impl(void){ return g_functionString_1; }
XObjectPtr g_functionString_3; XObjectPtr functionString_3_impl(void){ return g_functionString_3; }
double g_functionStringLength_2; double functionStringLength_2_impl(void){ return g_functionStringLength_2; }
double g_functionStringLength_3; double functionStringLength_3_impl(void){ return g_functionStringLength_3; }
double g_functionSum_3; double functionSum_3_impl(void){ return g_functionSum_3; }
XObjectPtr g_group_3; XObjectPtr group_3_impl(void){ return g_group_3; }
void group_b_impl(bool* result);
#define group_b(...) group_b_impl(result)
bool g_gt_3; bool gt_3_impl(void){ return g_gt_3; }
bool g_gte_3; bool gte_3_impl(void){ return g_gte_3; }
XObjectPtr g_literal_2; XObjectPtr literal_2_impl(void){ return g_literal_2; }
void literal_b_impl(bool* result);
#define literal_b(...) literal_b_impl(result)
XObjectPtr g_locationPath_3; XObjectPtr locationPath_3_impl(void){ return g_locationPath_3; }
void locationPath_b_impl(bool* result);
#define locationPath_b(...) locationPath_b_impl(result)
bool g_lt_3; bool lt_3_impl(void){ return g_lt_3; }
bool g_lte_3; bool lte_3_impl(void){ return g_lte_3; }
double g_minus_3; double minus_3_impl(void){ return g_minus_3; }
double g_mod_3; double mod_3_impl(void){ return g_mod_3; }
double g_mult_3; double mult_3_impl(void){ return g_mult_3; }
double g_neg_3; double neg_3_impl(void){ return g_neg_3; }
bool g_notequals_3; bool notequals_3_impl(void){ return g_notequals_3; }
XObjectPtr g_numberlit_2; XObjectPtr numberlit_2_impl(void){ return g_numberlit_2; }
void numberlit_b_impl(bool* result);
#define numberlit_b(...) numberlit_b_impl(result)
double g_plus_3; double plus_3_impl(void){ return g_plus_3; }
XObjectPtr g_runExtFunction_3; XObjectPtr runExtFunction_3_impl(void){ return g_runExtFunction_3; }
XObjectPtr g_runFunction_3; XObjectPtr runFunction_3_impl(void){ return g_runFunction_3; }
XObjectPtr g_variable_2; XObjectPtr variable_2_impl(void){ return g_variable_2; }
#define And(...) CAT(CAT(And,NARGS(__VA_ARGS__)),impl)()
#define Or(...) CAT(CAT(Or,NARGS(__VA_ARGS__)),impl)()
#define Union(...) CAT(CAT(Union,NARGS(__VA_ARGS__)),impl)()
#define div(...) CAT(CAT(div,NARGS(__VA_ARGS__)),impl)()
#define equals(...) CAT(CAT(equals,NARGS(__VA_ARGS__)),impl)()
#define functionBoolean(...) CAT(CAT(functionBoolean,NARGS(__VA_ARGS__)),impl)()
#define functionCeiling(...) CAT(CAT(functionCeiling,NARGS(__VA_ARGS__)),impl)()
#define functionCount(...) CAT(CAT(functionCount,NARGS(__VA_ARGS__)),impl)()
#define functionFloor(...) CAT(CAT(functionFloor,NARGS(__VA_ARGS__)),impl)()
#define functionLast(...) CAT(CAT(functionLast,NARGS(__VA_ARGS__)),impl)()
#define functionLocalName(...) CAT(CAT(functionLocalName,NARGS(__VA_ARGS__)),impl)()
#define functionName(...) CAT(CAT(functionName,NARGS(__VA_ARGS__)),impl)()
#define functionNot(...) CAT(CAT(functionNot,NARGS(__VA_ARGS__)),impl)()
#define functionNumber(...) CAT(CAT(functionNumber,NARGS(__VA_ARGS__)),impl)()
#define functionPosition(...) CAT(CAT(functionPosition,NARGS(__VA_ARGS__)),impl)()
#define functionRound(...) CAT(CAT(functionRound,NARGS(__VA_ARGS__)),impl)()
#define functionString(...) CAT(CAT(functionString,NARGS(__VA_ARGS__)),impl)()
#define functionStringLength(...) CAT(CAT(functionStringLength,NARGS(__VA_ARGS__)),impl)()
#define functionSum(...) CAT(CAT(functionSum,NARGS(__VA_ARGS__)),impl)()
#define group(...) CAT(CAT(group,NARGS(__VA_ARGS__)),impl)()
#define gt(...) CAT(CAT(gt,NARGS(__VA_ARGS__)),impl)()
#define gte(...) CAT(CAT(gte,NARGS(__VA_ARGS__)),impl)()
#define literal(...) CAT(CAT(literal,NARGS(__VA_ARGS__)),impl)()
#define locationPath(...) CAT(CAT(locationPath,NARGS(__VA_ARGS__)),impl)()
#define lt(...) CAT(CAT(lt,NARGS(__VA_ARGS__)),impl)()
#define lte(...) CAT(CAT(lte,NARGS(__VA_ARGS__)),impl)()
#define minus(...) CAT(CAT(minus,NARGS(__VA_ARGS__)),impl)()
#define mod(...) CAT(CAT(mod,NARGS(__VA_ARGS__)),impl)()
#define mult(...) CAT(CAT(mult,NARGS(__VA_ARGS__)),impl)()
#define neg(...) CAT(CAT(neg,NARGS(__VA_ARGS__)),impl)()
#define notequals(...) CAT(CAT(notequals,NARGS(__VA_ARGS__)),impl)()
#define numberlit(...) CAT(CAT(numberlit,NARGS(__VA_ARGS__)),impl)()
#define plus(...) CAT(CAT(plus,NARGS(__VA_ARGS__)),impl)()
#define runExtFunction(...) CAT(CAT(runExtFunction,NARGS(__VA_ARGS__)),impl)()
#define runFunction(...) CAT(CAT(runFunction,NARGS(__VA_ARGS__)),impl)()
#define variable(...) CAT(CAT(variable,NARGS(__VA_ARGS__)),impl)()

void Union_b_impl(bool* result){ *result = g_Union_3.b; }

void group_b_impl(bool* result){ *result = g_group_3.b; }

void locationPath_b_impl(bool* result){ *result = g_locationPath_3.b; }

void literal_b_impl(bool* result){ *result = g_literal_2.b; }

void numberlit_b_impl(bool* result){ *result = g_numberlit_2.b; }
