#include <stddef.h>
#include <stdbool.h>
#include <assert.h>
typedef unsigned short XalanDOMChar; typedef size_t size_type;
enum { eNone = 0u, eAttr = 1u, eBoth = 2u, eForb = 4u, eCRFb = 5u };
static const size_t s_lastSpecial = 0x7fu;
static const char s_specialChars[0x7f + 1] =
{
 /* 00-07 */    eForb,  eForb,  eForb,  eForb,  eForb,  eForb,  eForb,  eForb,
 /* 08-0F */    eForb,  eAttr,  eBoth,  eForb,  eForb,  eBoth,  eForb,  eForb,
 /* 10-17 */    eForb,  eForb,  eForb,  eForb,  eForb,  eForb,  eForb,  eForb,
 /* 18-1F */    eForb,  eForb,  eForb,  eForb,  eForb,  eForb,  eForb,  eForb,
 /* 20-27 */    eNone,  eNone,  eAttr,  eNone,  eNone,  eNone,  eBoth,  eNone,
 /* 28-2F */    eNone,  eNone,  eNone,  eNone,  eNone,  eNone,  eNone,  eNone,
 /* 30-37 */    eNone,  eNone,  eNone,  eNone,  eNone,  eNone,  eNone,  eNone,
 /* 38-3F */    eNone,  eNone,  eNone,  eNone,  eBoth,  eNone,  eBoth,  eNone,
};
static bool cp_content(XalanDOMChar theChar){ return theChar > s_lastSpecial ? false : s_specialChars[theChar] > eAttr; }
static bool cp_range(XalanDOMChar theChar){ /* dropped (R11): assert(theChar > 0) */ return theChar > s_lastSpecial; }
static bool cp_isForbidden(XalanDOMChar theChar){ return theChar > s_lastSpecial ? false : s_specialChars[theChar] == eForb; }

/* ---- ghost protocol state ---- */
size_t g_w; bool g_w_raw; const XalanDOMChar* g_in; size_t g_len; size_t g_consumed; bool g_threw;
#define MARKUP(c) ((c)=='<' || (c)=='&' || (c)=='>')
#define XMLCHAR(c) ((c)==0x9 || (c)==0xA || (c)==0xD || ((c)>=0x20 && (c)<=0xD7FF) || ((c)>=0xE000 && (c)<=0xFFFD))

/* m_writer.write(value_type(ch)) reached through safeWriteContent: RAW emission of input units */
void xv_safeWriteContent(const XalanDOMChar* theChars, size_type theLength)
__CPROVER_requires(g_consumed + theLength <= g_len && theChars == g_in + g_consumed)
/* raw units must be harmless: ghost witness position checked by caller's invariant */
__CPROVER_assigns(g_consumed, g_w_raw)
__CPROVER_ensures(g_consumed == __CPROVER_old(g_consumed) + theLength)
__CPROVER_ensures(g_w_raw == (__CPROVER_old(g_w_raw) || (__CPROVER_old(g_consumed) <= g_w && g_w < __CPROVER_old(g_consumed) + theLength)))
;
/* escape emission: consumes exactly the current unit */
void xv_emit_entity(XalanDOMChar ch)
__CPROVER_requires(g_consumed < g_len && g_in[g_consumed] == ch && MARKUP(ch))
__CPROVER_assigns(g_consumed) __CPROVER_ensures(g_consumed == __CPROVER_old(g_consumed) + 1);
void xv_emit_newline(XalanDOMChar ch)
__CPROVER_requires(g_consumed < g_len && g_in[g_consumed] == ch && ch == 0xA)
__CPROVER_assigns(g_consumed) __CPROVER_ensures(g_consumed == __CPROVER_old(g_consumed) + 1);
void xv_emit_charref(XalanDOMChar ch)
__CPROVER_requires(g_consumed < g_len && g_in[g_consumed] == ch && XMLCHAR(ch))
__CPROVER_assigns(g_consumed) __CPROVER_ensures(g_consumed == __CPROVER_old(g_consumed) + 1);
void xv_throwInvalidXMLCharacter(XalanDOMChar ch)
__CPROVER_requires(!XMLCHAR(ch))
__CPROVER_assigns() __CPROVER_ensures(false);
/* writeNormalizedCharBig: one or two units (surrogate pair) >= 0x80, returns index of last unit consumed */
size_type xv_writeNormalizedCharBig(const XalanDOMChar* chars, size_type start, size_type length)
__CPROVER_requires(chars == g_in && length == g_len && start == g_consumed && start < length && chars[start] > 0x7f)
__CPROVER_assigns(g_consumed)
__CPROVER_ensures((__CPROVER_return_value == start || __CPROVER_return_value == start + 1) && __CPROVER_return_value < length && g_consumed == __CPROVER_return_value + 1);

static bool writeDefaultEntity(XalanDOMChar ch)
{
    if ('<' == ch) { xv_emit_entity(ch); }
    else if ('>' == ch) { xv_emit_entity(ch); }
    else if ('&' == ch) { xv_emit_entity(ch); }
    else { return false; }
    return true;
}
static void writeDefaultEscape(XalanDOMChar ch)
{
    assert(cp_content(ch) == true);
    if(!writeDefaultEntity(ch))
    {
        if (0xA == ch) { xv_emit_newline(ch); }
        else
        {
            if(cp_isForbidden(ch) == true) { xv_throwInvalidXMLCharacter(ch); }
            else { xv_emit_charref(ch); }
        }
    }
}
void writeCharacters(const XalanDOMChar* chars, size_type length)
__CPROVER_requires(length != 0 && length <= 100000000 && __CPROVER_is_fresh(chars, length * sizeof(XalanDOMChar)))
__CPROVER_requires(__CPROVER_pointer_in_range_dfcc(chars, g_in, chars) && g_len == length && g_consumed == 0 && g_w < length && g_w_raw == false)
__CPROVER_requires(chars[g_w] != 0) /* NUL never occurs in XalanDOMString content (range() asserts ch > 0) */
__CPROVER_assigns(g_consumed, g_w_raw)
__CPROVER_ensures(g_consumed == length)
/* witness: if the unit at g_w was passed through safeWriteContent it is not markup-significant and is an XML Char */
__CPROVER_ensures(g_w_raw ==> (!MARKUP(chars[g_w]) && chars[g_w] != 0xA && chars[g_w] <= 0x7f && XMLCHAR(chars[g_w])))
{
    size_type   i = 0;
    size_type   firstIndex = 0;
    while(i < length)
    __CPROVER_assigns(i, firstIndex, g_consumed, g_w_raw)
    __CPROVER_loop_invariant(firstIndex <= i && i <= length && g_consumed == firstIndex)
    __CPROVER_loop_invariant((firstIndex <= g_w && g_w < i) ==> (!MARKUP(chars[g_w]) && chars[g_w] != 0xA && chars[g_w] <= 0x7f && XMLCHAR(chars[g_w])))
    __CPROVER_loop_invariant(g_w_raw ==> (g_w < firstIndex && !MARKUP(chars[g_w]) && chars[g_w] != 0xA && chars[g_w] <= 0x7f && XMLCHAR(chars[g_w])))
    __CPROVER_decreases(length - i)
    {
        const XalanDOMChar  ch = chars[i];
        if(cp_range(ch) == true)
        {
            xv_safeWriteContent(chars + firstIndex, i - firstIndex);
            i = xv_writeNormalizedCharBig(chars, i, length);
            ++i;
            firstIndex = i;
        }
        else if(cp_content(ch) == false)
        {
            ++i;
        }
        else
        {
            xv_safeWriteContent(chars + firstIndex, i - firstIndex);
            writeDefaultEscape(ch);
            ++i;
            firstIndex = i;
        }
    }
    xv_safeWriteContent(chars + firstIndex, i - firstIndex);
}
void h(void){ const XalanDOMChar* c; size_type n; { size_t v; g_w = v; } { bool v; g_w_raw = v; } { size_t v; g_len = v; } { size_t v; g_consumed = v; } { const XalanDOMChar* v; g_in = v; } writeCharacters(c, n);}
