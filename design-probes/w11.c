#include <stddef.h>
#include <stdbool.h>
#include <assert.h>
typedef unsigned int XalanUnicodeChar;
typedef unsigned short XalanDOMChar;
typedef size_t size_type;
enum { kBufferSize = 512 };
typedef struct XalanUTF8Writer {
    char      m_buffer[kBufferSize];
    char*     m_bufferPosition;
    size_type       m_bufferRemaining;
} XalanUTF8Writer;
/* ghost output accounting */
size_t g_flushed;           /* bytes handed to m_writer so far */
unsigned char g_last[4]; size_t g_lastn; /* bytes of the last code point written (ghost mirror) */

#define INV(s) ((s)->m_bufferRemaining <= kBufferSize && (s)->m_bufferPosition == (s)->m_buffer + (kBufferSize - (s)->m_bufferRemaining))

static inline char bits19to21(XalanUnicodeChar theChar){ return (char)((theChar >> 18) & 0x7); }
static inline char bits13to18(XalanUnicodeChar theChar){ return (char)((theChar >> 12) & 0x3F); }
static inline char bits13to16(XalanUnicodeChar theChar){ return (char)((theChar >> 12) & 0xF); }
static inline char bits7to12(XalanUnicodeChar theChar){ return (char)((theChar >> 6) & 0x3f); }
static inline char bits7to11(XalanUnicodeChar theChar){ return (char)((theChar >> 6) & 0x1f); }
static inline char bits1to6(XalanUnicodeChar theChar){ return (char)(theChar & 0x3f); }
static inline char leadingByteOf2(char theBits){ return (char)(0xC0 + theBits); }
static inline char leadingByteOf3(char theBits){ return (char)(0xE0 + theBits); }
static inline char leadingByteOf4(char theBits){ return (char)(0xF0 + theBits); }
static inline char trailingByte(char theBits){ return (char)(0x80 + theBits); }

void xv_writer_write(const char* p, size_t start, size_t n)
__CPROVER_assigns(g_flushed)
__CPROVER_ensures(g_flushed == __CPROVER_old(g_flushed) + n)
;
void flushBuffer(XalanUTF8Writer* self)
{
        xv_writer_write(self->m_buffer, 0, self->m_bufferPosition - self->m_buffer);
        self->m_bufferPosition = self->m_buffer;
        self->m_bufferRemaining = kBufferSize;
}
void throwInvalidCharacterException(XalanUnicodeChar c)
__CPROVER_assigns()
__CPROVER_ensures(false)
;
void write_char(XalanUTF8Writer* self, char theChar)
{
        assert(theChar < 128);
        if (self->m_bufferRemaining == 0)
        {
            flushBuffer(self);
        }
        *self->m_bufferPosition = theChar;
        ++self->m_bufferPosition;
        --self->m_bufferRemaining;
}

void write_ucs(XalanUTF8Writer* self, XalanUnicodeChar  theChar)
__CPROVER_requires(__CPROVER_is_fresh(self, sizeof(*self)) && __CPROVER_pointer_in_range_dfcc(&self->m_buffer[0], self->m_bufferPosition, &self->m_buffer[0] + kBufferSize) && INV(self))
__CPROVER_requires(!(theChar >= 0xD800 && theChar <= 0xDFFF))
__CPROVER_assigns(__CPROVER_object_whole(self), g_flushed)
__CPROVER_ensures(INV(self))
/* number of bytes per RFC 3629 and the decoded value of the bytes just written equals theChar */
__CPROVER_ensures(theChar <= 0x7F ==> (g_flushed + (kBufferSize - self->m_bufferRemaining) == (__CPROVER_old(g_flushed) + (kBufferSize - __CPROVER_old(self->m_bufferRemaining))) + 1 && (unsigned char)self->m_bufferPosition[-1] == theChar))
__CPROVER_ensures((theChar > 0x7F && theChar <= 0x7FF) ==> (g_flushed + (kBufferSize - self->m_bufferRemaining) == (__CPROVER_old(g_flushed) + (kBufferSize - __CPROVER_old(self->m_bufferRemaining))) + 2))
__CPROVER_ensures((theChar > 0x7F && theChar <= 0x7FF) ==> (self->m_bufferRemaining <= kBufferSize - 2))
__CPROVER_ensures((theChar > 0x7F && theChar <= 0x7FF) ==> (((unsigned char)self->m_bufferPosition[-2] & 0xE0) == 0xC0))
__CPROVER_ensures((theChar > 0x7F && theChar <= 0x7FF) ==> (((unsigned char)self->m_bufferPosition[-1] & 0xC0) == 0x80))
__CPROVER_ensures((theChar > 0x7F && theChar <= 0x7FF) ==> (((((unsigned)(unsigned char)self->m_bufferPosition[-2] & 0x1F) << 6) | ((unsigned char)self->m_bufferPosition[-1] & 0x3F)) == theChar))
__CPROVER_ensures((theChar > 0x7FF && theChar <= 0xFFFF) ==> (self->m_bufferRemaining <= kBufferSize - 3 &&
   ((unsigned char)self->m_bufferPosition[-3] & 0xF0) == 0xE0 && ((unsigned char)self->m_bufferPosition[-2] & 0xC0) == 0x80 && ((unsigned char)self->m_bufferPosition[-1] & 0xC0) == 0x80 &&
   ((((unsigned)(unsigned char)self->m_bufferPosition[-3] & 0x0F) << 12) | (((unsigned)(unsigned char)self->m_bufferPosition[-2] & 0x3F) << 6) | ((unsigned char)self->m_bufferPosition[-1] & 0x3F)) == theChar))
__CPROVER_ensures((theChar > 0xFFFF && theChar <= 0x10FFFF) ==> (self->m_bufferRemaining <= kBufferSize - 4 &&
   ((unsigned char)self->m_bufferPosition[-4] & 0xF8) == 0xF0 && ((unsigned char)self->m_bufferPosition[-3] & 0xC0) == 0x80 && ((unsigned char)self->m_bufferPosition[-2] & 0xC0) == 0x80 && ((unsigned char)self->m_bufferPosition[-1] & 0xC0) == 0x80 &&
   ((((unsigned)(unsigned char)self->m_bufferPosition[-4] & 0x07) << 18) | (((unsigned)(unsigned char)self->m_bufferPosition[-3] & 0x3F) << 12) | (((unsigned)(unsigned char)self->m_bufferPosition[-2] & 0x3F) << 6) | ((unsigned char)self->m_bufferPosition[-1] & 0x3F)) == theChar))
{
        if (theChar <= 0x7F)
        {
            write_char(self, (char)(theChar));
        }
        else if (theChar <= 0x7FF)
        {
            if (self->m_bufferRemaining < 2)
            {
                flushBuffer(self);
            }
            *self->m_bufferPosition = leadingByteOf2(bits7to11(theChar));
            ++self->m_bufferPosition;
            *self->m_bufferPosition = trailingByte(bits1to6(theChar));
            ++self->m_bufferPosition;
            self->m_bufferRemaining -= 2;
        }
        else if (theChar <= 0xFFFF)
        {
            assert(theChar < 0xD800 || theChar > 0xDBFF);
            assert(theChar < 0xDC00 || theChar > 0xDFFF);
            if (self->m_bufferRemaining < 3)
            {
                flushBuffer(self);
            }
            *self->m_bufferPosition = leadingByteOf3(bits13to16(theChar));
            ++self->m_bufferPosition;
            *self->m_bufferPosition = trailingByte(bits7to12(theChar));
            ++self->m_bufferPosition;
            *self->m_bufferPosition = trailingByte(bits1to6(theChar));
            ++self->m_bufferPosition;
            self->m_bufferRemaining -= 3;
        }
        else if (theChar <= 0x10FFFF)
        {
            if (self->m_bufferRemaining < 4)
            {
                flushBuffer(self);
            }
            *self->m_bufferPosition = leadingByteOf4(bits19to21(theChar));
            ++self->m_bufferPosition;
            *self->m_bufferPosition = trailingByte(bits13to18(theChar));
            ++self->m_bufferPosition;
            *self->m_bufferPosition = trailingByte(bits7to12(theChar));
            ++self->m_bufferPosition;
            *self->m_bufferPosition = trailingByte(bits1to6(theChar));
            ++self->m_bufferPosition;
            self->m_bufferRemaining -= 4;
        }
        else
        {
            throwInvalidCharacterException(theChar);
        }
}
void h_write_ucs(void){ XalanUTF8Writer* s; XalanUnicodeChar c; write_ucs(s,c);}
void h_write_char(void){ XalanUTF8Writer* s; char c; write_char(s,c);}
