{
    switch(xv_opcode(opPos))
    {
    case XPathExpression_eOP_OR:
        *result = Or(context, opPos, executionContext);
        break;

    case XPathExpression_eOP_AND:
        *result = And(context, opPos, executionContext);
        break;

    case XPathExpression_eOP_NOTEQUALS:
        *result = notequals(context, opPos, executionContext);
        break;

    case XPathExpression_eOP_EQUALS:
        *result = equals(context, opPos, executionContext);
        break;

    case XPathExpression_eOP_LTE:
        *result = lte(context, opPos, executionContext);
        break;

    case XPathExpression_eOP_LT:
        *result = lt(context, opPos, executionContext);
        break;

    case XPathExpression_eOP_GTE:
        *result = gte(context, opPos, executionContext);
        break;

    case XPathExpression_eOP_GT:
        *result = gt(context, opPos, executionContext);
        break;

    case XPathExpression_eOP_PLUS:
        *result = XObject_boolean(plus(context, opPos, executionContext));
        break;

    case XPathExpression_eOP_MINUS:
        *result = XObject_boolean(minus(context, opPos, executionContext));
        break;

    case XPathExpression_eOP_MULT:
        *result = XObject_boolean(mult(context, opPos, executionContext));
        break;

    case XPathExpression_eOP_DIV:
        *result = XObject_boolean(div(context, opPos, executionContext));
        break;

    case XPathExpression_eOP_MOD:
        *result = XObject_boolean(mod(context, opPos, executionContext));
        break;

    case XPathExpression_eOP_NEG:
        *result = XObject_boolean(neg(context, opPos, executionContext));
        break;

    case XPathExpression_eOP_UNION:
        Union_b(context, opPos, executionContext, result);
        break;

    case XPathExpression_eOP_LITERAL:
        literal_b(opPos, result);
        break;

    case XPathExpression_eOP_VARIABLE:
        *result = variable(opPos, executionContext).b;
        break;

    case XPathExpression_eOP_GROUP:
        group_b(context, opPos, executionContext, result);
        break;

    case XPathExpression_eOP_NUMBERLIT:
        numberlit_b(opPos, result);
        break;

    case XPathExpression_eOP_EXTFUNCTION:
        *result = runExtFunction(context, opPos, executionContext).b;
        break;

    case XPathExpression_eOP_FUNCTION:
        *result = runFunction(context, opPos, executionContext).b;
        break;

    case XPathExpression_eOP_LOCATIONPATH:
        locationPath_b(context, opPos, executionContext, result);
        break;

    case XPathExpression_eOP_FUNCTION_POSITION:
        *result = XObject_boolean(functionPosition(context, executionContext));
        break;

    case XPathExpression_eOP_FUNCTION_LAST:
        *result = XObject_boolean(functionLast(executionContext));
        break;

    case XPathExpression_eOP_FUNCTION_COUNT:
        *result = XObject_boolean(functionCount(context, opPos, executionContext));
        break;

    case XPathExpression_eOP_FUNCTION_NOT:
        *result = functionNot(context, opPos, executionContext);
        break;

    case XPathExpression_eOP_FUNCTION_TRUE:
        *result = true;
        break;

    case XPathExpression_eOP_FUNCTION_FALSE:
        *result = false;
        break;

    case XPathExpression_eOP_FUNCTION_BOOLEAN:
        *result = functionBoolean(context, opPos, executionContext);
        break;

    case XPathExpression_eOP_FUNCTION_NAME_0:
        *result = XObject_boolean(functionName(context));
        break;

    case XPathExpression_eOP_FUNCTION_NAME_1:
        *result = XObject_boolean(functionName(context, opPos, executionContext));
        break;

    case XPathExpression_eOP_FUNCTION_LOCALNAME_0:
        *result = XObject_boolean(functionLocalName(context));
        break;

    case XPathExpression_eOP_FUNCTION_LOCALNAME_1:
        *result = XObject_boolean(functionLocalName(context, opPos, executionContext));
        break;

    case XPathExpression_eOP_FUNCTION_FLOOR:
        *result = XObject_boolean(functionFloor(context, opPos, executionContext));
        break;

    case XPathExpression_eOP_FUNCTION_CEILING:
        *result = XObject_boolean(functionCeiling(context, opPos, executionContext));
        break;

    case XPathExpression_eOP_FUNCTION_ROUND:
        *result = XObject_boolean(functionRound(context, opPos, executionContext));
        break;

    case XPathExpression_eOP_FUNCTION_NUMBER_0:
        *result = XObject_boolean(functionNumber(context, executionContext));
        break;

    case XPathExpression_eOP_FUNCTION_NUMBER_1:
        *result = XObject_boolean(functionNumber(context, opPos, executionContext));
        break;

    case XPathExpression_eOP_FUNCTION_STRINGLENGTH_0:
        *result = XObject_boolean(functionStringLength(context, executionContext));
        break;

    case XPathExpression_eOP_FUNCTION_STRINGLENGTH_1:
        *result = XObject_boolean(functionStringLength(context, opPos, executionContext));
        break;

    case XPathExpression_eOP_FUNCTION_SUM:
        *result = XObject_boolean(functionSum(context, opPos, executionContext));
        break;

    default:
        unknownOpCodeError(context, executionContext, opPos);
        break;
    }
}