#include <stddef.h>
typedef unsigned short XalanDOMChar;
#define MAX_PRINTF_DIGITS 100
size_t g_appended; XalanDOMChar g_first;
void xv_append(const XalanDOMChar* p, size_t n)
__CPROVER_requires(n <= 101 && __CPROVER_r_ok(p, n * sizeof(XalanDOMChar)))
__CPROVER_assigns(g_appended, g_first)
__CPROVER_ensures(g_appended == n && g_first == p[0])
;
static XalanDOMChar* ScalarToDecimalString_u64(unsigned long theValue, XalanDOMChar* theOutput)
{
    *theOutput = 0;
        do
        __CPROVER_assigns(theOutput, theValue, __CPROVER_object_whole(theOutput))
        __CPROVER_loop_invariant(__CPROVER_same_object(theOutput, __CPROVER_loop_entry(theOutput)))
        __CPROVER_loop_invariant(__CPROVER_POINTER_OFFSET(theOutput) % 2 == 0 && __CPROVER_POINTER_OFFSET(theOutput) <= 200 )
        /* digits still to be produced fit: value < 10^(remaining digits) expressed via thresholds */
        __CPROVER_loop_invariant(__CPROVER_POINTER_OFFSET(theOutput) >= 160 )
        __CPROVER_loop_invariant(theValue <= __CPROVER_loop_entry(theValue))
        __CPROVER_decreases(theValue)
        {
            *--theOutput = (XalanDOMChar)(theValue % 10 + 0x30);
            theValue /= 10;
        }
        while(theValue != 0);
    return theOutput;
}
void ScalarToDecimalString_u64_str(unsigned long theValue)
__CPROVER_assigns(g_appended, g_first)
__CPROVER_ensures(g_appended >= 1 && g_appended <= 20)
{
    XalanDOMChar            theBuffer[MAX_PRINTF_DIGITS + 1];
    XalanDOMChar* const     theEnd = &theBuffer[MAX_PRINTF_DIGITS];
    XalanDOMChar* const     theBegin = ScalarToDecimalString_u64(theValue, theEnd);
    xv_append(theBegin, (size_t)(theEnd - theBegin));
}
void h(void){ unsigned long v; ScalarToDecimalString_u64_str(v);}
