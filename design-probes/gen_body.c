{
    switch(xv_opcode(opPos))
    {
    case XPathExpression_eOP_OR:
        return xv_createBoolean(Or(context, opPos, executionContext));
        break;

    case XPathExpression_eOP_AND:
        return xv_createBoolean(And(context, opPos, executionContext));
        break;

    case XPathExpression_eOP_NOTEQUALS:
        return xv_createBoolean(notequals(context, opPos, executionContext));
        break;

    case XPathExpression_eOP_EQUALS:
        return xv_createBoolean(equals(context, opPos, executionContext));
        break;

    case XPathExpression_eOP_LTE:
        return xv_createBoolean(lte(context, opPos, executionContext));
        break;

    case XPathExpression_eOP_LT:
        return xv_createBoolean(lt(context, opPos, executionContext));
        break;

    case XPathExpression_eOP_GTE:
        return xv_createBoolean(gte(context, opPos, executionContext));
        break;

    case XPathExpression_eOP_GT:
        return xv_createBoolean(gt(context, opPos, executionContext));
        break;

    case XPathExpression_eOP_PLUS:
        return xv_createNumber(plus(context, opPos, executionContext));
        break;

    case XPathExpression_eOP_MINUS:
        return xv_createNumber(minus(context, opPos, executionContext));
        break;

    case XPathExpression_eOP_MULT:
        return xv_createNumber(mult(context, opPos, executionContext));
        break;

    case XPathExpression_eOP_DIV:
        return xv_createNumber(div(context, opPos, executionContext));
        break;

    case XPathExpression_eOP_MOD:
        return xv_createNumber(mod(context, opPos, executionContext));
        break;

    case XPathExpression_eOP_NEG:
        return xv_createNumber(neg(context, opPos, executionContext));
        break;

    case XPathExpression_eOP_UNION:
        return Union(context, opPos, executionContext);
        break;

    case XPathExpression_eOP_LITERAL:
        return literal(opPos, executionContext);
        break;

    case XPathExpression_eOP_VARIABLE:
        return variable(opPos, executionContext);
        break;

    case XPathExpression_eOP_GROUP:
        return group(context, opPos, executionContext);
        break;

    case XPathExpression_eOP_NUMBERLIT:
        return numberlit(opPos, executionContext);
        break;

    case XPathExpression_eOP_EXTFUNCTION:
        return runExtFunction(context, opPos, executionContext);
        break;

    case XPathExpression_eOP_FUNCTION:
        return runFunction(context, opPos, executionContext);
        break;

    case XPathExpression_eOP_LOCATIONPATH:
        return locationPath(context, opPos, executionContext);
        break;

    case XPathExpression_eOP_FUNCTION_POSITION:
        return xv_createNumber(functionPosition(context, executionContext));
        break;

    case XPathExpression_eOP_FUNCTION_LAST:
        return xv_createNumber(functionLast(executionContext));
        break;

    case XPathExpression_eOP_FUNCTION_COUNT:
        return xv_createNumber(functionCount(context, opPos, executionContext));
        break;

    case XPathExpression_eOP_FUNCTION_NOT:
        return xv_createBoolean(functionNot(context, opPos, executionContext));
        break;

    case XPathExpression_eOP_FUNCTION_TRUE:
        return xv_createBoolean(true);
        break;

    case XPathExpression_eOP_FUNCTION_FALSE:
        return xv_createBoolean(false);
        break;

    case XPathExpression_eOP_FUNCTION_BOOLEAN:
        return xv_createBoolean(functionBoolean(context, opPos, executionContext));
        break;

    case XPathExpression_eOP_FUNCTION_NAME_0:
        return xv_createStringReference(functionName(context));
        break;

    case XPathExpression_eOP_FUNCTION_NAME_1:
        return xv_createStringReference(functionName(context, opPos, executionContext));
        break;

    case XPathExpression_eOP_FUNCTION_LOCALNAME_0:
        return xv_createStringReference(functionLocalName(context));
        break;

    case XPathExpression_eOP_FUNCTION_LOCALNAME_1:
        return xv_createStringReference(functionLocalName(context, opPos, executionContext));
        break;

    case XPathExpression_eOP_FUNCTION_FLOOR:
        return xv_createNumber(functionFloor(context, opPos, executionContext));
        break;

    case XPathExpression_eOP_FUNCTION_CEILING:
        return xv_createNumber(functionCeiling(context, opPos, executionContext));
        break;

    case XPathExpression_eOP_FUNCTION_ROUND:
        return xv_createNumber(functionRound(context, opPos, executionContext));
        break;

    case XPathExpression_eOP_FUNCTION_NUMBER_0:
        return xv_createNumber(functionNumber(context, executionContext));
        break;

    case XPathExpression_eOP_FUNCTION_NUMBER_1:
        return xv_createNumber(functionNumber(context, opPos, executionContext));
        break;

//  case XPathExpression_eOP_FUNCTION_STRING_0:
//      return functionString(context);
//      break;

//  case XPathExpression_eOP_FUNCTION_STRING_1:
//      return functionString(context, opPos, executionContext);
//      break;

    case XPathExpression_eOP_FUNCTION_STRINGLENGTH_0:
        return xv_createNumber(functionStringLength(context, executionContext));
        break;

    case XPathExpression_eOP_FUNCTION_STRINGLENGTH_1:
        return xv_createNumber(functionStringLength(context, opPos, executionContext));
        break;

    case XPathExpression_eOP_FUNCTION_SUM:
        return xv_createNumber(functionSum(context, opPos, executionContext));
        break;

    default:
        unknownOpCodeError(context, executionContext, opPos);
        break;
    }

    return xv_null_xobject();
}