#!/bin/sh
# validates MANIFEST.json and every evidence file against the schemas (uses the tooling venv)
python3-vt - <<'PY'
import json,jsonschema,glob
jsonschema.validate(json.load(open('/verif/MANIFEST.json')), json.load(open('/root/.vp/MANIFEST.schema.json')))
print('manifest valid')
for f in sorted(glob.glob('/verif/evidence/*.json')):
    jsonschema.validate(json.load(open(f)), json.load(open('/root/.vp/EVIDENCE.schema.json')))
    print('valid', f)
PY
