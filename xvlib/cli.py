import argparse
import concurrent.futures
import json
import os
import re
import shutil
import subprocess
import sys
import tempfile
import time

from . import extract as X
from . import run as R

VERIF = R.VERIF
KNOWN = os.path.join(VERIF, 'known_findings.txt')
NCPU = int(os.environ.get('XV_JOBS', str(os.cpu_count() or 4)))


# ------------------------------------------------------------------ known findings

def load_known():
    res = []
    if not os.path.exists(KNOWN):
        return res
    for line in open(KNOWN):
        line = line.strip()
        if not line.startswith('finding:'):
            continue
        d = {'text': line}
        for m in re.finditer(r'(\w+)=("([^"]*)"|\S+)', line):
            d[m.group(1)] = m.group(3) if m.group(3) is not None else m.group(2)
        res.append(d)
    return res


def match_known(known, pid, unit, job, o):
    for k in known:
        if k.get('unit') != unit or k.get('job', job) != job:
            continue
        if k.get('obligation', '') and k['obligation'] not in (o['desc'] + ' ' + o['name']):
            continue
        if 'function' in k and k['function'] != o['function']:
            continue
        return k
    return None


# ------------------------------------------------------------------ running

def mkwork():
    base = os.environ.get('XV_TMP') or tempfile.gettempdir()
    return tempfile.mkdtemp(prefix='xv-', dir=base)


def run_units(units, tier, workdir, repo=None, only_jobs=None):
    """Returns {unit: {'prov':..., 'dropped':..., 'break': str|None, 'jobs': {job: JobResult}, 'cpath':...}}"""
    repo = repo or R.REPO
    out = {}
    tasks = []
    for u in units:
        ent = {'prov': [], 'dropped': [], 'break': None, 'jobs': {}, 'cpath': None}
        out[u.name] = ent
        try:
            cpath, prov, dropped = R.build_unit(u, repo, workdir)
            ent['prov'], ent['dropped'], ent['cpath'] = prov, dropped, cpath
        except X.ExtractionBreak as e:
            ent['break'] = str(e)
            continue
        for j in u.jobs:
            if j.thorough_only and tier != 'thorough':
                continue
            if only_jobs and j.name not in only_jobs:
                continue
            tasks.append((u, j, cpath))
    with concurrent.futures.ThreadPoolExecutor(max_workers=NCPU) as ex:
        futs = {ex.submit(R.run_job, u, j, cpath, workdir, tier): (u, j) for u, j, cpath in tasks}
        for f in concurrent.futures.as_completed(futs):
            u, j = futs[f]
            try:
                out[u.name]['jobs'][j.name] = f.result()
            except Exception as e:  # tool crash -> undecided
                r = R.JobResult(u, j)
                r.reason = 'internal error: %r' % (e,)
                out[u.name]['jobs'][j.name] = r
    return out


def hex_of(binary):
    try:
        return hex(int(binary, 2))
    except Exception:
        return None


def native_replay(unit, inputs, workdir, repo):
    """Compile /verif/replay/<unit.replay>.cpp against the real tree and run it
    with the counterexample inputs.  Returns (reproduced: bool|None, output)."""
    if not unit.replay:
        return None, 'no native replay driver for this unit'
    src = os.path.join(VERIF, 'replay', unit.replay + '.cpp')
    if not os.path.exists(src):
        return None, 'replay driver %s missing' % src
    exe = os.path.join(workdir, 'replay_' + unit.replay)
    if not os.path.exists(exe):
        cmd = ['g++', '-std=c++11', '-O0', '-g', '-w', '-DNDEBUG', '-fsanitize=address,undefined', '-fno-sanitize-recover=all',
               '-fsanitize=float-cast-overflow',
               '-I', os.path.join(repo, 'src'), '-I', os.path.join(repo, '_build', 'src'),
               '-I', os.path.join(repo, 'src', 'xalanc', 'PlatformSupport'),
               '-I', os.path.join(R.REPO, '_build', 'src', 'xalanc', 'PlatformSupport'), '-I', os.path.join(R.REPO, '_build', 'src'),
               '-I', os.path.join(VERIF, 'replay'),
               '-DXV_REPO="%s"' % repo, src, '-o', exe,
               '-L', os.path.join(repo, '_build', 'src', 'xalanc'), '-lxalan-c',
               '-L', os.path.join(repo, '_build', 'src', 'xalanc', 'Utils', 'XalanMsgLib'), '-lxalanMsg',
               '-lxerces-c', '-licuuc', '-licui18n',
               '-Wl,-rpath,' + os.path.join(repo, '_build', 'src', 'xalanc'),
               '-Wl,-rpath,' + os.path.join(repo, '_build', 'src', 'xalanc', 'Utils', 'XalanMsgLib')]
        p = subprocess.run(cmd, stdout=subprocess.PIPE, stderr=subprocess.STDOUT, timeout=900)
        if p.returncode != 0:
            return None, 'replay driver does not compile against the current tree:\n' + p.stdout.decode(errors='replace')[-3000:]
    args = ['%s=%s' % (k, v) for k, v in sorted(inputs.items())]
    try:
        env = dict(os.environ, ASAN_OPTIONS='detect_leaks=0')
        p = subprocess.run([exe] + args, stdout=subprocess.PIPE, stderr=subprocess.STDOUT, timeout=120, env=env)
    except subprocess.TimeoutExpired:
        return None, 'replay timed out'
    out = p.stdout.decode(errors='replace')[-4000:]
    # protocol: exit 1 = postcondition/sanitizer failure reproduced on the real code, 0 = not reproduced
    if p.returncode == 0:
        return False, out
    return True, 'exit=%d\n%s' % (p.returncode, out)


def cmd_unit(args):
    units = R.load_units()
    sel = [units[n] for n in args.names] if args.names else list(units.values())
    work = mkwork()
    rc = 0
    try:
        res = run_units(sel, args.tier, work, only_jobs=args.job)
        for u in sel:
            ent = res[u.name]
            if ent['break']:
                print('UNIT %s EXTRACTION BREAK: %s' % (u.name, ent['break']))
                rc = max(rc, 2)
                continue
            for jn, r in sorted(ent['jobs'].items()):
                real = [o for o in r.obligations if o['cls'] != 'reach']
                ok = [o for o in real if o['status'] == 'SUCCESS']
                print('UNIT %s JOB %s [%s]: %s  obligations=%d discharged=%d reach=%d wall=%.1fs %s'
                      % (u.name, jn, r.job.cls, r.status.upper(), len(real), len(ok),
                         len(r.obligations) - len(real), r.wall, r.reason[:3000]))
                if r.status == 'undecided':
                    rc = max(rc, 2)
                shown = 0
                for o in real:
                    if (o['status'] == 'FAILURE' and shown < 15) or args.verbose:
                        shown += 1
                        print('   %-8s %s  [%s] %s (%s:%s)' % (o['status'], o['name'], o['cls'], o['desc'], o['file'], o['line']))
                if r.status == 'fail':
                    rc = max(rc, 1)
        if args.keep:
            print('kept', work)
    finally:
        if not args.keep:
            shutil.rmtree(work, ignore_errors=True)
    return rc


def cmd_show(args):
    units = R.load_units()
    u = units[args.name]
    work = mkwork()
    try:
        cpath, prov, dropped = R.build_unit(u, R.REPO, work)
        sys.stdout.write(open(cpath).read())
        print('/* provenance:')
        print(json.dumps(prov, indent=1))
        print('dropped by conditional resolution:', dropped[:50])
        print('*/')
    except X.ExtractionBreak as e:
        print('EXTRACTION BREAK:', e)
        return 2
    finally:
        shutil.rmtree(work, ignore_errors=True)
    return 0


def props_table():
    t = {}
    for line in open(os.path.join(VERIF, 'properties.jsonl')):
        line = line.strip()
        if line:
            p = json.loads(line)
            t[p['id']] = p
    return t


def units_for(pid, units):
    sel = []
    for u in units.values():
        if pid in u.props:
            sel.append((u, 'full'))
        elif pid == 'C03' and u.safety_c03:
            sel.append((u, 'safety'))
    return sel


def is_safety(o):
    return o['cls'] in R.SAFETY_CLASSES


def cmd_check(args):
    t0 = time.time()
    pid = args.pid
    tier = args.tier or os.environ.get('VERIF_TIER') or 'quick'
    seed = int(os.environ.get('VERIF_SEED', '0') or 0)
    units = R.load_units()
    sel = units_for(pid, units)
    if not sel:
        print('UNDECIDED property=%s reason=no unit built for this property' % pid)
        return 2
    known = load_known()   # a finding suppresses its obligation under every property; it is printed only under its own
    work = mkwork()
    viol_lines = []
    undecided = []
    known_hit = []
    ev_units = []
    n_obl = n_dis = 0
    n_obl_b = n_dis_b = 0
    n_kf = 0
    samples = []
    fns = []
    assumptions = set()
    mech_cov = set()
    cmds = []
    solver_s = 0.0
    try:
        res = run_units([u for u, _ in sel], tier, work)
        os.makedirs(os.path.join(VERIF, 'replays'), exist_ok=True)
        for u, mode in sel:
            ent = res[u.name]
            if ent['break']:
                undecided.append('%s: extraction break: %s' % (u.name, ent['break']))
                continue
            fns.extend(dict(p, unit=u.name) for p in ent['prov'])
            for a in u.assumptions:
                assumptions.add(a)
            if mode == 'full':
                for m in u.mechanisms:
                    mech_cov.add(m)
            for jn, r in sorted(ent['jobs'].items()):
                j = r.job
                solver_s += r.wall
                if r.status == 'undecided':
                    undecided.append('%s/%s: %s' % (u.name, jn, r.reason[:400]))
                    ev_units.append({'unit': u.name, 'job': jn, 'class': j.cls, 'status': 'undecided', 'reason': r.reason[:400]})
                    continue
                real = [o for o in r.obligations if o['cls'] != 'reach']
                if mode == 'safety':
                    real = [o for o in real if is_safety(o)]
                ok = [o for o in real if o['status'] == 'SUCCESS']
                bad = [o for o in real if o['status'] != 'SUCCESS']
                reach_n = len([o for o in r.obligations if o['cls'] == 'reach'])
                kf_bad = [o for o in bad if match_known(known, pid, u.name, jn, o)]
                n_kf += len(kf_bad)
                if j.cls == 'B':
                    n_obl_b += len(real) - len(kf_bad)
                    n_dis_b += len(ok)
                else:
                    n_obl += len(real) - len(kf_bad)
                    n_dis += len(ok)
                cmds.extend(r.cmds[-2:] if not cmds else [])
                ev_units.append({'unit': u.name, 'job': jn, 'class': j.cls, 'mode': mode,
                                 'bound': (('unwind %s; ' % j.unwind) if j.unwind is not None else '') + j.bound_note,
                                 'backend': 'cbmc 6.11.0 / ' + ('SAT (MiniSat)' if not any('smt' in f or 'z3' in f or 'cvc5' in f for f in j.flags) else 'SMT'),
                                 'obligations': len(real), 'discharged': len(ok),
                                 'reach_assertions_failed_as_required': reach_n,
                                 'status': r.status, 'wall_s': round(r.wall, 2), 'enforced': j.enforce + j.enforce_rec,
                                 'replaced_by_contract': j.replace})
                for o in ok[:2]:
                    if len(samples) < 12:
                        samples.append({'unit': u.name, 'job': jn, 'obligation': o['name'], 'text': o['desc'], 'status': o['status']})
                if not bad:
                    continue
                new_bad = []
                for o in bad:
                    k = match_known(known, pid, u.name, jn, o)
                    if k:
                        known_hit.append((k, u.name, jn, o))
                    else:
                        new_bad.append(o)
                if not new_bad:
                    continue
                # violation: trace + replay
                gbi = os.path.join(work, '%s.%s.i.gb' % (u.name, jn))
                if not os.path.exists(gbi):
                    gbi = os.path.join(work, '%s.%s.gb' % (u.name, jn))
                traces = R.trace_for(u, j, gbi, [o['name'] for o in new_bad[:6]], work)
                for idx, o in enumerate(new_bad):
                    tr = traces.get(o['name'], {})
                    inputs = {}
                    for nm, key in (u.replay_inputs or {}).items():
                        asg = tr.get('assignments', {})
                        v = asg.get(key)
                        if v is None and key.startswith('*'):
                            for k2 in asg:
                                if k2.endswith(key[1:]):
                                    v = asg[k2]
                        if v is not None:
                            hx = hex_of(v.get('binary') or '')
                            inputs[nm] = hx if hx is not None else str(v.get('data'))
                    reproduced, rout = (None, 'no counterexample values extracted')
                    if inputs or (u.replay and not u.replay_inputs):
                        inputs['job'] = jn
                        reproduced, rout = native_replay(u, inputs, work, R.REPO)
                    path = os.path.join(VERIF, 'replays', '%s-%s-%s-%d.json' % (pid, u.name, jn, idx))
                    with open(path, 'w') as f:
                        json.dump({'property': pid, 'unit': u.name, 'job': jn, 'proof_class': j.cls,
                                   'failed_obligation': o, 'functions': [p for p in ent['prov']],
                                   'verifier_cmds': r.cmds, 'counterexample_inputs': inputs,
                                   'counterexample_assignments': dict(list(tr.get('assignments', {}).items())[:80]),
                                   'native_replay': {'reproduced': reproduced, 'output': rout}}, f, indent=1)
                    line = 'VIOLATION property=%s replay=%s' % (pid, path)
                    if not reproduced:
                        line += ' no-failing-input-found'
                    viol_lines.append(line)
                    print('FAILED OBLIGATION unit=%s job=%s %s [%s] %s (%s:%s)' % (u.name, jn, o['name'], o['cls'], o['desc'], o['file'], o['line']))
    finally:
        if os.environ.get('XV_KEEP'):
            print('kept', work)
        else:
            shutil.rmtree(work, ignore_errors=True)

    seen = set()
    for k, un, jn, o in known_hit:
        if k['text'] in seen or k.get('property') != pid:
            continue
        seen.add(k['text'])
        print('KNOWN-FINDING: property=%s %s' % (pid, re.sub(r'^property=\S+\s*', '', k['text'][len('finding:'):].strip())))
    for l in viol_lines:
        print(l)
    for u_ in undecided:
        print('UNDECIDED property=%s reason=%s' % (pid, u_))

    ptab = props_table()
    mechs = [m['name'] for m in ptab[pid]['anchors']['mechanism']]
    covered = [m for m in mechs if any(c in m or m in c for c in mech_cov)]
    ev = {
        'property_id': pid, 'tier': tier, 'seed': seed, 'level': 'proof',
        'coverage': {
            'obligations': n_obl, 'discharged': n_dis,
            'checker_cmd': ' ; '.join(cmds[:2]) or 'goto-cc; goto-instrument --dfcc; cbmc',
            'trusted_base': ['cbmc/goto-cc/goto-instrument 6.11.0 (DFCC contract instrumentation)', 'MiniSat 2.2.1 (cbmc default SAT back end)',
                             'extraction rules R1-R12 of DESIGN.md 3.1 (xvlib/extract.py)', 'stub contracts and typedefs in /verif/shim and the unit templates'],
            'samples': samples,
            'units': ev_units,
            'functions_under_contract': fns,
            'bounded_standins': {'obligations': n_obl_b, 'discharged': n_dis_b,
                                 'note': 'class B jobs; NOT counted in obligations/discharged above'},
            'mechanisms_covered': covered,
            'mechanisms_not_covered': [m for m in mechs if m not in covered],
            'known_findings_hit': sorted(set(k['text'] for k, _, _, _ in known_hit)),
            'known_finding_obligations_failed_and_excluded_from_counts': n_kf,
            'undecided': undecided,
            'solver_wall_s_sum': round(solver_s, 1),
            'explanation': 'component-level contract proof: every obligation generated by cbmc for the extracted real functions listed under functions_under_contract; the property as a whole-system statement is NOT proved (see mechanisms_not_covered)',
        },
        'assumptions': sorted(assumptions) + [
            'machine arithmetic is bit-precise (no mathematical-integer idealisation); long is 64 bit; IEEE binary64',
            'a thrown exception ends the path (stub ensures(false)); exception safety not verified',
            'callees replaced by contract are listed per unit under replaced_by_contract: their contracts are assumed, not proved, unless the same function is enforced in another job'],
        'wall_s': round(time.time() - t0, 2),
        'violations': len(viol_lines),
    }
    os.makedirs(os.path.join(VERIF, 'evidence'), exist_ok=True)
    with open(os.path.join(VERIF, 'evidence', pid + '.json'), 'w') as f:
        json.dump(ev, f, indent=1)
    print('property=%s tier=%s obligations=%d discharged=%d bounded(obl=%d,dis=%d) known=%d violations=%d undecided=%d wall=%.1fs'
          % (pid, tier, n_obl, n_dis, n_obl_b, n_dis_b, len(seen), len(viol_lines), len(undecided), time.time() - t0))
    if viol_lines:
        return 1
    if undecided:
        return 2
    return 0


def cmd_selftest(args):
    """Seeded-mutant self-test: apply each mutant to a scratch copy of the file
    (outside /repo), extract and prove; every mutant must fail a named obligation."""
    units = R.load_units()
    sel = [units[n] for n in args.names] if args.names else list(units.values())
    rc = 0
    allknown = load_known()
    for u in sel:
        for m in u.mutants:
            work = mkwork()
            try:
                fake = os.path.join(work, 'repo')
                files = set(f.file for f in u.functions) | set(b.file for b in u.blocks)
                for rel in files:
                    os.makedirs(os.path.dirname(os.path.join(fake, rel)), exist_ok=True)
                    shutil.copy(os.path.join(R.REPO, rel), os.path.join(fake, rel))
                p = os.path.join(fake, m.file)
                s = open(p, encoding='utf-8', errors='replace').read()
                s2, n = re.subn(m.pat, m.rep, s, count=m.count, flags=re.S)
                if n == 0:
                    print('MUTANT %s/%s: pattern did not match (stale mutant)' % (u.name, m.name))
                    rc = max(rc, 2)
                    continue
                open(p, 'w', encoding='utf-8').write(s2)
                res = run_units([u], 'quick', work, repo=fake)
                ent = res[u.name]
                if ent['break']:
                    print('MUTANT %s/%s: extraction break (%s) -> undecided, not killed' % (u.name, m.name, ent['break'][:200]))
                    rc = max(rc, 2)
                    continue
                failed = []
                und = []
                for jn, r in ent['jobs'].items():
                    if r.status == 'undecided':
                        und.append('%s: %s' % (jn, r.reason[:200]))
                    failed += [(jn, o) for o in r.obligations if o['cls'] != 'reach' and o['status'] == 'FAILURE'
                               and not any(match_known(allknown, k.get('property'), u.name, jn, o) for k in allknown)]
                hit = [(jn, o) for jn, o in failed if m.expect is None or m.expect in o['desc'] or m.expect in o['name']]
                if hit:
                    jn, o = hit[0]
                    print('MUTANT %s/%s: KILLED by %s/%s "%s" (%d failed obligations)' % (u.name, m.name, jn, o['name'], o['desc'][:100], len(failed)))
                elif failed:
                    jn, o = failed[0]
                    print('MUTANT %s/%s: killed by OTHER obligation %s/%s "%s" (expected %r)' % (u.name, m.name, jn, o['name'], o['desc'][:100], m.expect))
                elif und:
                    print('MUTANT %s/%s: UNDECIDED %s' % (u.name, m.name, und))
                    rc = max(rc, 2)
                else:
                    print('MUTANT %s/%s: SURVIVED  <-- weak contract' % (u.name, m.name))
                    rc = max(rc, 1)
            finally:
                shutil.rmtree(work, ignore_errors=True)
    return rc


def cmd_setup(args):
    ok = True
    for tool in ('cbmc', 'goto-cc', 'goto-instrument', 'g++'):
        if shutil.which(tool) is None:
            print('missing tool', tool)
            ok = False
    units = R.load_units()
    print('xv setup: %d units, tools %s; nothing to build (checks extract from /repo on every run)' % (len(units), 'ok' if ok else 'MISSING'))
    return 0 if ok else 2


def cmd_replay(args):
    d = json.load(open(args.path))
    units = R.load_units()
    u = units[d['unit']]
    work = mkwork()
    try:
        print('failed obligation:', d['failed_obligation']['name'], d['failed_obligation']['desc'])
        print('inputs:', d.get('counterexample_inputs'))
        rep, out = native_replay(u, d.get('counterexample_inputs') or {}, work, R.REPO)
        print('native replay on current tree: reproduced=%s' % rep)
        print(out)
        return 1 if rep else 0
    finally:
        shutil.rmtree(work, ignore_errors=True)


def cmd_replay_input(args):
    units = R.load_units()
    u = units[args.unit]
    work = mkwork()
    try:
        inputs = dict(a.split('=', 1) for a in args.kv)
        rep, out = native_replay(u, inputs, work, R.REPO)
        print('native replay on current tree: reproduced=%s' % rep)
        print(out)
        return 1 if rep else 0
    finally:
        shutil.rmtree(work, ignore_errors=True)


def main(argv):
    ap = argparse.ArgumentParser(prog='xv')
    sub = ap.add_subparsers(dest='cmd')
    a = sub.add_parser('unit')
    a.add_argument('names', nargs='*')
    a.add_argument('--tier', default='quick')
    a.add_argument('--job', action='append')
    a.add_argument('--keep', action='store_true')
    a.add_argument('-v', '--verbose', action='store_true')
    a = sub.add_parser('show')
    a.add_argument('name')
    a = sub.add_parser('check')
    a.add_argument('pid')
    a.add_argument('--tier', default=None)
    a = sub.add_parser('selftest')
    a.add_argument('names', nargs='*')
    a = sub.add_parser('list')
    a = sub.add_parser('setup')
    a = sub.add_parser('replay-input')
    a.add_argument('unit')
    a.add_argument('kv', nargs='*')
    a = sub.add_parser('replay')
    a.add_argument('path')
    args = ap.parse_args(argv)
    if args.cmd == 'unit':
        return cmd_unit(args)
    if args.cmd == 'show':
        return cmd_show(args)
    if args.cmd == 'check':
        return cmd_check(args)
    if args.cmd == 'selftest':
        return cmd_selftest(args)
    if args.cmd == 'setup':
        return cmd_setup(args)
    if args.cmd == 'replay-input':
        return cmd_replay_input(args)
    if args.cmd == 'replay':
        return cmd_replay(args)
    if args.cmd == 'list':
        for u in R.load_units().values():
            print(u.name, u.props, [j.name + ':' + j.cls for j in u.jobs])
        return 0
    ap.print_help()
    return 2
