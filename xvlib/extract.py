"""Mechanical extraction of C-style C++ functions from /repo into C text.

Everything this module does to the text is one of the rule classes R1..R12 of
DESIGN.md section 3.1.  A rule that does not fire its expected number of times,
or a signature that is not found, raises ExtractionBreak: the caller turns that
into exit 2 (undecided), never into a violation.
"""
import hashlib
import os
import re


class ExtractionBreak(Exception):
    pass


# configuration of /repo/_build (DESIGN 3.1 step 1)
CONFIG_MACROS = {
    'XALAN_DEBUG': False,
    'XALAN_NEWLINE_IS_CRLF': False,
    'XALAN_ICU_DEFAULT_LOCALE_PROBLEM': False,
    'XALAN_AUTO_PTR_REQUIRES_DEFINITION': True,
    'XALAN_NON_ASCII_PLATFORM': False,
    'XALAN_RECURSIVE_STYLESHEET_EXECUTION': False,
    'XALAN_USE_ICU': True,
    'NDEBUG': True,
    'XALAN_OLD_STYLE_CASTS': False,
    'XALAN_FULL_WCHAR_SUPPORT': False,
    'XALAN_WINDOWS': False,
    'XALAN_INLINE_INITIALIZATION': True,
    'XALAN_NO_MUTABLE': False,
    'XALAN_NO_COVARIANT_RETURN_TYPE': False,
    'XALAN_STRICT_ANSI_HEADERS': False,
    'XALAN_USE_WINDOWS_COLLATION': False,
    'XALAN_HAS_STD_DISTANCE': True,
    'XALAN_LSTRSUPPORT': False,
    'XALAN_HASH_CONTAINERS_AVAILABLE': False,
    'XALAN_NEEDS_EXPLICIT_TEMPLATE_INSTANTIATION': False,
    'XALAN_INDEX_VALUE_TYPE_BUG': False,
    'XALAN_NO_DEFAULT_TEMPLATE_ARGUMENTS': False,
    'XALAN_ALLOW_INDEXING_IN_PATTERNS': False,
    'XALAN_HAVE_STD_ISNAN': True,
    'XALAN_HAVE_ISNAN': True,
    'XALAN_HAVE__ISNAN': False,
    '__cplusplus': True,
    '_MSC_VER': False,
    'XALAN_VQ_SPECIAL_TRACE': False,
    'XALAN_QUANTIFY': False,
    'XALAN_DEVELOPMENT': False,
    'XALAN_NODESORTER_CACHE_XOBJECTS': False,   # never defined in the tree
    'XALAN_XPATH_EXPRESSION_USE_ITERATORS': True,   # #define'd unconditionally in XPathExpression.hpp
    '__INTEL_COMPILER': False,
    '_WIN32': False,
    'WIN32': False,
    '__GNUC__': True,
}


def read_repo(repo, rel):
    p = os.path.join(repo, rel)
    try:
        with open(p, encoding='utf-8', errors='replace') as f:
            return f.read()
    except OSError as e:
        raise ExtractionBreak('cannot read %s: %s' % (rel, e))


def strip_comments(text):
    """Remove // and /* */ comments (string/char-literal aware); keeps newlines."""
    out = []
    i = 0
    n = len(text)
    while i < n:
        c = text[i]
        if c == '"' or c == "'":
            j = i + 1
            while j < n and text[j] != c:
                if text[j] == '\\':
                    j += 1
                j += 1
            out.append(text[i:j + 1])
            i = j + 1
        elif text.startswith('//', i):
            j = text.find('\n', i)
            if j < 0:
                j = n
            i = j
        elif text.startswith('/*', i):
            j = text.find('*/', i + 2)
            if j < 0:
                raise ExtractionBreak('unterminated comment')
            out.append('\n' * text.count('\n', i, j + 2))
            i = j + 2
        else:
            out.append(c)
            i += 1
    return ''.join(out)


_cond_re = re.compile(r'^[ \t]*#[ \t]*(if|ifdef|ifndef|elif|else|endif)\b(.*)$')


def _eval_cond(kind, expr, dropped):
    expr = expr.strip()
    if kind == 'ifdef':
        expr = 'defined(%s)' % expr
    elif kind == 'ifndef':
        expr = '!defined(%s)' % expr

    def rep(m):
        name = m.group(1)
        if '_HEADER_GUARD' in name or name.endswith('_INCLUDE_GUARD') or name.endswith('_HPP'):
            return ' False '
        if name not in CONFIG_MACROS:
            raise ExtractionBreak('preprocessor conditional on unknown macro %s' % name)
        return ' True ' if CONFIG_MACROS[name] else ' False '
    e = re.sub(r'defined\s*\(?\s*(\w+)\s*\)?', rep, expr)
    def bare(m):
        name = m.group(0)
        if name in ('True', 'False'):
            return name
        if name not in CONFIG_MACROS:
            raise ExtractionBreak('preprocessor conditional on unknown macro %s' % name)
        return ' True ' if CONFIG_MACROS[name] else ' False '
    e = re.sub(r'\b[A-Za-z_]\w*\b', bare, e)
    e = e.replace('&&', ' and ').replace('||', ' or ')
    e = re.sub(r'!(?!=)', ' not ', e)
    e = re.sub(r'(?<![\w.])0(?![\w.])', ' False ', e)
    e = re.sub(r'(?<![\w.])[1-9]\d*(?![\w.])', ' True ', e)
    if not re.fullmatch(r'[\sA-Za-z()<>=]*', e):
        raise ExtractionBreak('unsupported preprocessor expression: %s' % expr)
    try:
        return bool(eval(e, {'__builtins__': {}}, {}))
    except Exception:
        raise ExtractionBreak('unsupported preprocessor expression: %s' % expr)


def resolve_conditionals(text, dropped=None):
    """Resolve #if/#ifdef/#else/#endif for CONFIG_MACROS; dropped branches are
    replaced by empty lines (line numbers are preserved)."""
    out = []
    stack = []  # (parent_active, this_taken_already, currently_active)
    active = True
    for line in text.split('\n'):
        m = _cond_re.match(line)
        if not m:
            if active:
                out.append(line)
            else:
                out.append('')
                if dropped is not None and line.strip():
                    dropped.append(line.strip())
            continue
        kind, rest = m.group(1), m.group(2)
        rest = strip_comments(rest)
        if kind in ('if', 'ifdef', 'ifndef'):
            if active:
                v = _eval_cond(kind, rest, dropped)
            else:
                v = False
            stack.append((active, v, active and v))
            active = active and v
        elif kind == 'elif':
            parent, taken, _ = stack.pop()
            v = parent and not taken and _eval_cond('if', rest, dropped)
            stack.append((parent, taken or v, v))
            active = v
        elif kind == 'else':
            parent, taken, _ = stack.pop()
            v = parent and not taken
            stack.append((parent, True, v))
            active = v
        elif kind == 'endif':
            parent, _, _ = stack.pop()
            active = parent
        out.append('')
    if stack:
        raise ExtractionBreak('unbalanced preprocessor conditionals')
    return '\n'.join(out)


def match_close(text, i, open_ch='(', close_ch=')'):
    """text[i] == open_ch; return index of the matching close (literal aware)."""
    assert text[i] == open_ch, (text[i:i + 20], open_ch)
    depth = 0
    j = i
    n = len(text)
    while j < n:
        c = text[j]
        if c == '"' or c == "'":
            k = j + 1
            while k < n and text[k] != c:
                if text[k] == '\\':
                    k += 1
                k += 1
            j = k
        elif c == open_ch:
            depth += 1
        elif c == close_ch:
            depth -= 1
            if depth == 0:
                return j
        j += 1
    raise ExtractionBreak('unbalanced %s' % open_ch)


def cut_function(src, sig, occurrence=0, after=None):
    """Locate a function definition by signature regex (multi-line mode) in
    comment-stripped, conditional-resolved text; return (head, body, line0, line1).
    `after`: optional regex that must be found first (search starts there)."""
    start = 0
    if after is not None:
        m = re.search(after, src, re.M)
        if not m:
            raise ExtractionBreak('anchor not found: %s' % after)
        start = m.end()
    ms = list(re.finditer(sig, src[start:], re.M))
    # keep only matches followed by a body (not declarations)
    defs = []
    for m in ms:
        s = start + m.start()
        e = start + m.end()
        # find the opening paren of the parameter list at/after match start
        p = src.find('(', s)
        if p < 0:
            continue
        if src[p:p + 3] == '()(' and src[max(0, p - 8):p] == 'operator':
            p += 2          # operator()(parameters)
        q = match_close(src, p)
        k = q + 1
        # skip trailing const / whitespace / initialiser lists are not supported
        mm = re.match(r'\s*(const)?\s*', src[k:])
        k += mm.end()
        if k < len(src) and src[k] == '{':
            defs.append((s, k))
    if len(defs) <= occurrence:
        raise ExtractionBreak('definition not found: %s (occurrence %d, %d candidates)' % (sig, occurrence, len(defs)))
    s, k = defs[occurrence]
    e = match_close(src, k, '{', '}')
    # extend head backwards to the start of the declaration (previous blank line / ; / })
    hs = s
    back = src.rfind('\n\n', 0, s)
    semi = max(src.rfind(';', 0, s), src.rfind('}', 0, s), src.rfind('{', 0, s))
    hs = max(back, semi) + 1 if max(back, semi) >= 0 else 0
    head = src[hs:k]
    body = src[k:e + 1]
    line0 = src.count('\n', 0, s) + 1
    line1 = src.count('\n', 0, e) + 1
    return head.strip(), body, line0, line1


def cut_block(src, start_re, end_re=None, after=None):
    """Cut a non-function region (e.g. a table initialiser) from start_re to the
    matching close brace + ';' (or end_re)."""
    pos = 0
    if after is not None:
        m = re.search(after, src, re.M)
        if not m:
            raise ExtractionBreak('anchor not found: %s' % after)
        pos = m.end()
    m = re.search(start_re, src[pos:], re.M)
    if not m:
        raise ExtractionBreak('block not found: %s' % start_re)
    s = pos + m.start()
    if end_re is not None:
        m2 = re.search(end_re, src[s:], re.M)
        if not m2:
            raise ExtractionBreak('block end not found: %s' % end_re)
        e = s + m2.end()
    else:
        k = src.find('{', s)
        e = match_close(src, k, '{', '}') + 1
        mm = re.match(r'\s*;', src[e:])
        if mm:
            e += mm.end()
    return src[s:e], src.count('\n', 0, s) + 1, src.count('\n', 0, e) + 1


# ---------------------------------------------------------------- rewrites

def rewrite_casts(text, log):
    """R1: static_cast<T>(e) / reinterpret_cast / const_cast -> ((T)(e))."""
    n = 0
    pat = re.compile(r'\b(static_cast|reinterpret_cast|const_cast)\s*<')
    while True:
        m = pat.search(text)
        if not m:
            break
        lt = m.end() - 1
        gt = match_close(text, lt, '<', '>')
        ty = text[lt + 1:gt].strip()
        p = gt + 1
        while text[p].isspace():
            p += 1
        if text[p] != '(':
            raise ExtractionBreak('cast without parenthesised operand')
        q = match_close(text, p)
        text = text[:m.start()] + '((' + ty + ')(' + text[p + 1:q] + '))' + text[q + 1:]
        n += 1
    log.append(('R1 named casts -> C casts', n))
    return text


def rewrite_functional_casts(text, types, log):
    """R1: T(e) -> ((T)(e)) for the listed type names (not preceded by an
    identifier character, '.', '>' or ':' so calls/ctors named like that are not hit)."""
    total = 0
    for ty in types:
        pat = re.compile(r'(?<![\w.>:])' + re.escape(ty) + r'\s*\(')
        pos = 0
        n = 0
        while True:
            m = pat.search(text, pos)
            if not m:
                break
            p = m.end() - 1
            q = match_close(text, p)
            inner = text[p + 1:q]
            # skip declarations like "long (x)" - not used in xalan; skip empty "T()"
            if inner.strip() == '':
                rep = '((' + ty + ')0)'
            else:
                rep = '((' + ty + ')(' + inner + '))'
            text = text[:m.start()] + rep + text[q + 1:]
            pos = m.start() + 2 + len(ty) + 1
            n += 1
        total += n
    log.append(('R1 functional casts %s -> C casts' % ','.join(types), total))
    return text


def rewrite_scope(text, log, keep=()):
    """R2: A::b -> A_b ; std::x -> x ; 'using std::x;' dropped."""
    text, n0 = re.subn(r'\busing\s+std::\w+\s*;', '', text)
    text, n1 = re.subn(r'\bstd::', '', text)
    text, n2 = re.subn(r'\b([A-Za-z_]\w*)::(?=[A-Za-z_~])', lambda m: m.group(1) + '_', text)
    log.append(('R2 using-std dropped', n0))
    log.append(('R2 std:: dropped', n1))
    log.append(('R2 scope :: -> _', n2))
    return text


def apply_rules(text, rules, log, where=''):
    """rules: list of (pattern, replacement, expected) with expected an int
    (exact), None (>=1) or a (lo,hi) tuple; or the strings 'CASTS', 'SCOPE',
    ('FCASTS', [types])."""
    for r in rules:
        if r == 'CASTS':
            text = rewrite_casts(text, log)
            continue
        if r == 'SCOPE':
            text = rewrite_scope(text, log)
            continue
        if isinstance(r, tuple) and r[0] == 'FCASTS':
            text = rewrite_functional_casts(text, r[1], log)
            continue
        pat, rep, cnt = r
        text, n = re.subn(pat, rep, text, flags=re.S)
        log.append((pat, n))
        ok = (n >= 1) if cnt is None else ((cnt[0] <= n <= cnt[1]) if isinstance(cnt, tuple) else n == cnt)
        if not ok:
            raise ExtractionBreak('rule misfire in %s: %r fired %d times, expected %s'
                                  % (where, pat, n, '>=1' if cnt is None else cnt))
    return text


_loop_re = re.compile(r'\b(while|for|do)\b')


def find_loops(body):
    """Return list of insertion offsets (one per loop, in textual order) where a
    loop contract goes: after the ')' of while/for heads; for do-loops after the
    ')' of the trailing while(cond)."""
    res = []
    pending_do_end = set()
    # first pass: find do-loops to know which 'while' heads are tails
    for m in _loop_re.finditer(body):
        if _in_literal(body, m.start()):
            continue
        if m.group(1) == 'do':
            k = m.end()
            while True:
                while body[k].isspace():
                    k += 1
                mc = re.match(r'__CPROVER_\w+\s*\(', body[k:])
                if not mc:
                    break
                k = match_close(body, k + mc.end() - 1) + 1
            if body[k] != '{':
                raise ExtractionBreak('do-loop without braces')
            e = match_close(body, k, '{', '}')
            mm = re.match(r'\s*while\s*\(', body[e + 1:])
            if not mm:
                raise ExtractionBreak('do-loop tail not found')
            p = e + 1 + mm.end() - 1
            q = match_close(body, p)
            res.append((m.start(), m.end(), 'do', q + 1))
            pending_do_end.add(p)
    for m in _loop_re.finditer(body):
        if _in_literal(body, m.start()):
            continue
        if m.group(1) == 'do':
            continue
        k = m.end()
        while body[k].isspace():
            k += 1
        if body[k] != '(':
            continue
        if k in pending_do_end:
            continue
        q = match_close(body, k)
        res.append((m.start(), q + 1, m.group(1), q + 1))
    res.sort()
    return res


def _in_literal(text, pos):
    # cheap check: count unescaped quotes on the line before pos
    ls = text.rfind('\n', 0, pos) + 1
    seg = text[ls:pos]
    return seg.count('"') % 2 == 1


def insert_loop_contracts(body, loops, expected_loops, where=''):
    found = find_loops(body)
    if expected_loops is not None and len(found) != expected_loops:
        raise ExtractionBreak('%s: expected %d loops, found %d' % (where, expected_loops, len(found)))
    for k in loops:
        if k >= len(found):
            raise ExtractionBreak('%s: loop contract for loop %d but only %d loops' % (where, k, len(found)))
    # insert from the back so offsets stay valid
    for idx in sorted(loops, reverse=True):
        off = found[idx][1]
        body = body[:off] + '\n' + loops[idx].strip() + '\n' + body[off:]
    return body, len(found)


def sha(text):
    return hashlib.sha256(text.encode()).hexdigest()
