"""Blocks and stub texts shared by several units."""
from .unit import Block

# XalanUnicode::charX constants, generated from the real header on every run
UNICODE_BLOCK = Block('src/xalanc/PlatformSupport/XalanUnicode.hpp', r'^namespace XalanUnicode\s*\{', 'XalanUnicode',
                      rules=[(r'^namespace XalanUnicode\s*\{', '/* namespace XalanUnicode */', 1),
                             (r'static const XalanDOMChar\s+(\w+)\s*=\s*([^;]+);', r'#define XalanUnicode_\1 ((XalanDOMChar)\2)', None),
                             (r'\}\s*$', '', 1)])

# contract of isXMLWhitespace(XalanDOMChar): PROVED against the real 65536-entry
# table XalanXMLChar::theUnicodeTable in unit c04_chartables (job xmlchar_ws)
ISWS_STUB = r'''
#define XV_IS_WS(c) ((c) == 0x20 || (c) == 0x09 || (c) == 0x0A || (c) == 0x0D)
bool isXMLWhitespace(XalanDOMChar theChar)
__CPROVER_requires(1)
__CPROVER_assigns()
__CPROVER_ensures(__CPROVER_return_value == XV_IS_WS(theChar))
;
'''
