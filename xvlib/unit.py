"""Data model of a verification unit (DESIGN.md 3.1-3.6)."""


class Fn:
    """One function of /repo that is extracted and put under contract.

    file      path relative to /repo
    sig       regex (re.M) locating the definition in comment-stripped text
    name      C name of the extracted function
    head      C head (return type, name, parameters) replacing the C++ head
    head_expect  regex the whitespace-normalised original head must match
              (a changed signature is an extraction break, not a violation)
    rules     ordered rewrite rules (extract.apply_rules)
    contract  text inserted between head and body (function contract) or ''
    loops     {loop ordinal: loop-contract text}
    nloops    expected number of loops in the body (None = do not check)
    reach     insert XV_REACH at body entry and after each braced loop
    after     optional anchor regex; the search for sig starts after it
    occurrence  which definition matching sig (0-based)
    """

    def __init__(self, file, sig, name, head, head_expect=None, rules=(), contract='',
                 loops=None, nloops=None, reach=True, after=None, occurrence=0,
                 strip_asserts=False, ref_params=None):
        self.file = file
        self.sig = sig
        self.name = name
        self.head = head
        self.head_expect = head_expect
        self.rules = list(rules)
        self.contract = contract
        self.loops = dict(loops or {})
        self.nloops = nloops
        self.reach = reach
        self.after = after
        self.occurrence = occurrence
        self.strip_asserts = strip_asserts
        self.ref_params = dict(ref_params or {})   # {C++ reference parameter: its value type in C}: see run.extract_fn


class Block:
    """A non-function region (table, enum, constants) cut from /repo and rewritten."""

    def __init__(self, file, start, name, rules=(), end=None, after=None, loops=None, nloops=None, hidden=False):
        self.hidden = hidden   # used only by Unit.gen, not placed in the template
        self.loops = dict(loops or {})
        self.nloops = nloops
        self.file = file
        self.start = start
        self.name = name
        self.rules = list(rules)
        self.end = end
        self.after = after


class Job:
    """One cbmc run over the unit's C file.

    entry     harness function (goto-cc --function / --dfcc entry)
    enforce   functions whose contract is enforced (checked against the body)
    replace   stubs / callees replaced by their contract
    cls       'P' proved unbounded, 'W' width-bounded unwinding (complete when
              the unwinding assertions pass), 'B' bounded stand-in
    unwind    bound for W / B
    reach     list of XV_REACH tags that must FAIL (be reachable), or 'all'
    flags     extra cbmc flags
    timeout   seconds
    thorough_only  run only in the thorough tier
    """

    def __init__(self, name, entry, enforce=(), replace=(), cls='P', unwind=None,
                 loop_contracts=False, reach='all', flags=(), timeout=600,
                 thorough_only=False, bound_note='', dfcc=True, min_obligations=1,
                 defines=(), enforce_rec=()):
        self.name = name
        self.entry = entry
        self.enforce = list(enforce)
        self.enforce_rec = list(enforce_rec)
        self.replace = list(replace)
        self.cls = cls
        self.unwind = unwind
        self.loop_contracts = loop_contracts
        self.reach = reach
        self.flags = list(flags)
        self.timeout = timeout
        self.thorough_only = thorough_only
        self.bound_note = bound_note
        self.dfcc = dfcc
        self.min_obligations = min_obligations
        self.defines = list(defines)


class Mutant:
    """A seeded semantic mutant of the real source, used by the self-test.
    file: repo-relative; pat/rep: regex substitution applied (count=1 unless all);
    expect: substring that must occur in the description of a failed obligation
    (or None: any non-reach failure)."""

    def __init__(self, name, file, pat, rep, expect=None, count=1):
        self.name = name
        self.file = file
        self.pat = pat
        self.rep = rep
        self.expect = expect
        self.count = count


class Unit:
    def __init__(self, name, props, functions, template, jobs, blocks=(), mutants=(),
                 mechanisms=(), assumptions=(), replay=None, notes='',
                 replay_inputs=None, safety_c03=True, gen=None):
        self.name = name
        self.props = list(props)          # property ids this unit contributes to
        self.functions = list(functions)
        self.blocks = list(blocks)
        self.template = template          # C text with @@FN name@@ / @@BLOCK name@@ placeholders
        self.jobs = list(jobs)
        self.mutants = list(mutants)
        self.mechanisms = list(mechanisms)  # anchors.mechanism names covered (substring match)
        self.assumptions = list(assumptions)
        self.replay = replay              # name of replay driver in /verif/replay or None
        self.notes = notes
        self.replay_inputs = dict(replay_inputs or {})  # replay arg name -> 'function::var' in the cbmc trace
        self.safety_c03 = safety_c03
        self.gen = gen
