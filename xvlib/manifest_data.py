"""Static text of MANIFEST.json (claims per property, not-applicable reasons)."""

FIX_COMMITS = ['4d9d134', 'f54a28a', 'a4ae092', 'c891418', '64aab20', '1d1cf24', '916dd96', '70f0952', 'a087607', 'dcd7c22', '2f66dcb', '296795c', '78699d2', '09de1e4', '5d4d796', '649d3b0', '7c47f12', 'cfa2159', '09fee46', '0f13caa', 'e7f9f7c', '9e55caf', 'e743bc0', '87e1be6', 'af1585c', '651e1aa', 'f75ceef', '803899d']

_NOTE = ('Trusted: cbmc/goto-instrument 6.11 (DFCC) + MiniSat; the extraction rules R1-R12 (DESIGN 3.1); every stub contract in the unit '
         'templates and /verif/shim (listed per unit in the evidence under replaced_by_contract / assumptions); bit-precise 64-bit machine '
         'arithmetic and IEEE binary64; exceptions end the path. The claim is about the functions listed in the evidence under '
         'functions_under_contract, not the whole-system sentence; mechanisms_not_covered lists what stays unverified.')

CLAIMS = {
    'C02': dict(kernel='XObject comparisons, DoubleSupport arithmetic/comparison, FunctionSubstring index arithmetic, normalize-space(), translate() and indexOf, preceding-axis ancestor test',
                text='Component-level proof: the XPath comparison/arithmetic/rounding kernels of the real code are proved, for all 2^64 doubles and all operand type pairs, to return the value XPath 1.0 3.4/3.5/4.4 defines, with no UB; normalize-space() and translate() are proved per UTF-16 unit for strings of any length. Known finding: the string functions work on UTF-16 units, not characters (surrogate pairs). The parser, most axes and the rest of the function library are not covered.',
                design_ref='DESIGN.md 4 C02', note=_NOTE, technique='CBMC function contracts (DFCC) on mechanically extracted real functions; loop-free full symbolic domain'),
    'C03': dict(kernel='memory-safety/UB obligations of every unit + fixed-buffer conversions',
                text='Component-level proof: bounds, pointer, overflow, division and shift obligations of every extracted function, for all inputs; plus the fixed-size buffer conversions the property singles out. Exception-to-status mapping, leaks and parser paths are not covered.',
                design_ref='DESIGN.md 4 C03', note=_NOTE, technique='CBMC safety instrumentation under function and loop contracts on extracted real functions'),
    'C04': dict(kernel='UTF-8 and UTF-16 writers, surrogate decoding, escaping and CDATA state machines of FormatterToXMLUnicode',
                text='Component-level proof: the UTF-8 writer emits exactly the RFC 3629 encoding of every code point for every buffer fill level and the UTF-16 writer passes every unit through once and in order (buffered or direct); escaping loops emit every input unit once, in order, raw only when not markup-significant; CDATA splitting automaton. Serializer selection, legacy FormatterToXML and transcoders are not covered.',
                design_ref='DESIGN.md 4 C04', note=_NOTE, technique='CBMC function+loop contracts with ghost output-protocol state in stub contracts'),
    'C06': dict(kernel='the six reset() functions the transformer relies on (StylesheetExecutionContextDefault, XPathExecutionContextDefault, XSLTEngineImpl, XObjectFactoryDefault, VariablesStack, XalanTransformer/EnsureReset)',
                text='Component-level proof: each reset() re-establishes the constructed state of every per-transformation data member (member lists generated from the headers on every run), re-primes the stacks the constructor primes, resets every attached collaborator, destroys owned objects first, and leaves settings and sticky parameters alone; VariablesStack::reset brings the search-start index back to 0 through its pop() loop (loop contract). History equivalence with a fresh transformer, RAII unwinding and the sub-object resets that are not among the six are not covered.',
                design_ref='DESIGN.md 4 C06', note=_NOTE, technique='CBMC assertions/contracts over ghost member records generated from headers; loop contract for VariablesStack::reset'),
    'C08': dict(kernel='indentation state machine of FormatterToXMLUnicode + XalanIndentWriter; FormatterToHTML::writeAttrURI; the html-switch block of XSLTEngineImpl::flushPending',
                text='Component-level proof of the invariant "indent whitespace is never emitted next to character data" per public operation of the XML serializer; of the per-unit escaping of HTML URI attribute values (no raw quote or ampersand, %HH escapes are the UTF-8 bytes); and of the on-the-fly switch to the html method (exact conditions, cdata-section-elements off afterwards). Option selection (setupFormatterListener), the text method and the rest of FormatterToHTML are not covered.',
                design_ref='DESIGN.md 4 C08', note=_NOTE, technique='CBMC contracts, representation invariant per operation with ghost output state'),
    'C10': dict(kernel='addToList ordering, Stylesheet::findTemplate (both paths), findTemplateInImports, XPath::getTargetData (default priority per union alternative), getMatchScoreValue',
                text='Component-level proof: rule lists stay ordered by priority then position; findTemplate returns, with or without conflict reporting, the template of the first list entry that is in mode and matches, else what the imports give; every import is consulted; each union alternative gets the default priority class of XSLT 5.5. The agreement of the run-time match score with the priority the list was ordered by, table construction by name and the built-in rules are not covered.',
                design_ref='DESIGN.md 4 C10', note=_NOTE, technique='CBMC function+loop contracts with ghost-witness instantiation'),
    'C11': dict(kernel='the six XPath::executeMore overloads and the static XObject conversions',
                text='Component-level relational proof: for every op code, each specialised evaluation entry point returns the standard conversion of the generic result.',
                design_ref='DESIGN.md 4 C11', note=_NOTE, technique='CBMC relational harness over mechanically extracted switch tables, full op-code domain'),
    'C12': dict(kernel='ordered de-duplicating insert of MutableNodeRefList (binary/linear search, dispatch), order flags of addNodesInDocOrder and of the namespace axis',
                text='Component-level proof: the insertion point splits a strictly ordered list at the key for lists of any length (<= 1e8) and all index values; sortedness/duplicate-freedom preserved by insert; a source list is copied verbatim only when flagged document-ordered; the namespace axis collects in strictly descending document order before it reverses and flags its result. The other axes, Union/step merging and the bulk merge of lists from several documents are not covered.',
                design_ref='DESIGN.md 4 C12', note=_NOTE, technique='CBMC function+loop contracts with ghost-witness instantiation (unbounded)'),
    'C13': dict(kernel='whitespace-stripping decision, its cached flag, and the observation paths that consult it: node tests text()/node(), the DOMServices string-value family (24 functions, both sinks), copying to the result tree',
                text='Component-level proof: declarations stay ordered by priority with the later one first among equals and the first matching declaration decides; the cached flag is computed after the import merge; text()/node() never match a stripped text node; in the string-value family every text node is strip-checked before its data is emitted and no container is handed to the context-free walk while declarations exist; source subtrees copied to the result consult the declarations, result tree fragments never do. That the tree walks enumerate every node exactly once, keys, xsl:number and the source-tree builders are not covered.',
                design_ref='DESIGN.md 4 C13', note=_NOTE, technique='CBMC function+loop contracts on extracted functions; mutual recursion cut by interface contracts with ghost call log'),
    'C16': dict(kernel='NodeSorter::NodeSortKeyCompare::compare, its number-key cache, NodeSorter::sort copy loops, ElemForEach::sortChildren (sort-key construction), the ICU collation functor',
                text='Component-level proof that the comparator handed to std::stable_sort is the lexicographic key order of XSLT 10 and a strict weak order (<= 4 keys); that the cache returns the key value of the queried (key, original position); that every selected node enters the sort with its original position and the list is rebuilt in sorted order; that every sort key is built from the attributes of its own xsl:sort element and still has them when the sort runs (any number of keys); and that each ICU comparison sets case-first from its own key. std::stable_sort, the string-key cache and ICU itself are assumed.',
                design_ref='DESIGN.md 4 C16', note=_NOTE, technique='CBMC recursive function contract + relational harnesses; loop contract with ghost witness for the key list'),
    'C17': dict(kernel='ElemNumber::int2alphaCount, toRoman, Counter::getPreviouslyCounted',
                text='Component-level proof of the alphabetic/roman formatting kernels (buffer safety for all 64-bit values; value round-trip) and the counter lookup.',
                design_ref='DESIGN.md 4 C17', note=_NOTE, technique='CBMC contracts; width-bounded unwinding with unwinding assertions'),
    'C18': dict(kernel='DoubleSupport::round, doValidate (Number grammar), convertHelper, NumberToDOMString(double)',
                text='Component-level proof: round() is XPath 4.4 for all 2^64 doubles; the Number-grammar validator accepts exactly the grammar for NUL-terminated strings of any length; conversion buffers are safe. libc printf/strtod correctness is assumed.',
                design_ref='DESIGN.md 4 C18', note=_NOTE, technique='CBMC function+loop contracts on mechanically extracted real functions; ghost DFA in loop invariants'),
    'C20': dict(kernel='XalanDOMString mutators over a contract model of XalanVector; XalanBitmap; XalanVector::insert(iterator, value); XalanMap::doCreateEntry',
                text='Component-level proof of the string-class representation invariant and length/content effects of each mutator against the std::basic_string model; bitmap bit arithmetic; the iterator returned by XalanVector::insert designates the inserted element in the current storage; a new XalanMap entry is filed under the bucket index of the table size in force. The other container templates are assumed.',
                design_ref='DESIGN.md 4 C20', note=_NOTE, technique='CBMC function contracts with ghost-witness content model'),
}

NOT_APPLICABLE = [
    {'property_id': 'C01', 'reason': 'whole-language XSLT conformance: needs the XSLT 1.0 semantics as specification and the C++ interpreter (virtual Elem* hierarchy) as subject; CBMC enforces contracts on C only and no function contract states "the tree the Recommendation defines" (DESIGN.md 4 C01)'},
    {'property_id': 'C05', 'reason': 'relational equivalence of whole pipelines across API forms; every form funnels through C++ object graphs outside the reach of C contracts (DESIGN.md 4 C05)'},
    {'property_id': 'C07', 'reason': 'quantifies over thread interleavings; function contracts have no concurrency semantics and CBMC thread support does not cover this C++ (DESIGN.md 4 C07)'},
    {'property_id': 'C09', 'reason': 'relational property of two interpreters (pattern matcher vs forward evaluator) over unbounded DOM trees; neither is extractable to C (DESIGN.md 4 C09)'},
    {'property_id': 'C14', 'reason': 'namespace fix-up is a string/object decision tree in C++ classes; the only C-like piece expresses no clause of the property (DESIGN.md 4 C14)'},
    {'property_id': 'C15', 'reason': 'completeness of a tree walk over an unbounded DOM with map-of-map caches needs heap-shape reasoning CBMC contracts cannot express (DESIGN.md 4 C15)'},
    {'property_id': 'C19', 'reason': 'allocation balance over ~1000 sites and "k-th allocation fails" is fault enumeration over C++ RAII templates, a different family (DESIGN.md 4 C19)'},
]

# ---- claims brought up to date with the units added after the first report (one place, overrides the texts above) ----
CLAIMS['C03'].update(
    kernel='memory-safety/UB obligations of every unit + fixed-buffer conversions, URI dot-segment removal, xsl:number count arrays, XPath token-queue cursor, ICU object caches',
    text='Component-level proof: bounds, pointer, overflow, conversion, division and shift obligations of every extracted function, for all inputs; the fixed-size buffer conversions the property singles out; the token-queue cursor of the XPath parser never leaves the queue (also on the error path); eviction in the ICU DecimalFormat/Collator caches destroys exactly the object of the entry that leaves. Exception-to-status mapping, leaks in general, the parsers and termination outside the listed loops are not covered.')
CLAIMS['C04'].update(
    kernel='UTF-8 and UTF-16 writers, surrogate decoding, escaping and CDATA state machines of FormatterToXMLUnicode, XalanOutputStream::write buffering and multi-pass transcoding loop, xsl:comment and xsl:processing-instruction content repair (loop contracts), raw-text flag of XalanXMLSerializerBase',
    text=CLAIMS['C04']['text'].replace(' Serializer selection,', ' XalanOutputStream::write keeps the order of buffered and direct blocks and never overfills its buffer; XalanOutputStream::transcode continues every pass where the previous one stopped and appends its bytes inside the destination; xsl:comment content reaches the serializer without "--" or a trailing "-" (loop contract on the real repair loop, strings of up to 1024 units; that nothing but spaces is added stays a bounded stand-in, <= 7 units) and xsl:processing-instruction data without "?>" (same kind of loop contract); the raw-text flag is armed by the marker processing instruction only and used up by the text event that follows, characters() or cdata(). Serializer selection,'))
CLAIMS['C06'].update(
    kernel=CLAIMS['C06']['kernel'] + '; NodeSorter scratch/caches under clear-guards; ElemForEach push/pop balance; install/uninstall of extension functions',
    text=CLAIMS['C06']['text'].replace(' History equivalence', ' The sorter copies nodes into its long-lived scratch vector only under a guard that clears it on every exit; what createSelectedAndSortedNodeList pushes is what releaseSelectedAndSortedNodeList pops; installExternalFunction maps the name to a clone of the new function also when the name was installed before. History equivalence'))
CLAIMS['C08'].update(
    kernel=CLAIMS['C08']['kernel'] + '; FormatterToHTML::processAttribute (minimisation); XalanXMLSerializerFactory::create; CDATA splitting (c04_cdata)',
    text=CLAIMS['C08']['text'].replace(' Option selection', ' HTML attribute minimisation applies only to boolean attributes whose value equals their name; the serializer factory picks writer, character table and version constant consistently with encoding, XML version and indent for all 12 instantiations. Option selection'))
CLAIMS['C10'].update(
    kernel=CLAIMS['C10']['kernel'] + ', pattern-table choice per node kind (locateMatchPatternDataList), wildcard merge in postConstruction, construction of the built-in rules',
    text=CLAIMS['C10']['text'].replace('table construction by name and the built-in rules are not covered', 'the list searched for a node is the one its kind and name select and wildcard rules are merged into every per-name list of their own family; the three built-in rules are built as XSLT 5.8 gives them, their instruction flagged to keep the current mode. The agreement of addToTable with the name a pattern can match is assumed'))
CLAIMS['C11'].update(
    kernel='the six XPath::executeMore overloads, the XPath::execute entry points (context set-up), the static XObject conversions, literal/number-literal specialisations, number(node)',
    text='Component-level relational proof: for every op code, each specialised evaluation entry point returns the standard conversion of the generic result; the typed entry points evaluate with the same context node / current node as the general one; literal op codes give the same token in every form. Sub-expression evaluators are taken by contract.')
CLAIMS['C12'].update(
    kernel=CLAIMS['C12']['kernel'] + ', the ordering predicates of MutableNodeRefList, DOMServices::isNodeAfter, source-tree index assignment (slice)',
    text=CLAIMS['C12']['text'].replace(' The other axes', ' The ordering predicates treat the document node as first node of its own tree; DOMServices::isNodeAfter orders ancestors before descendants and siblings by position (tree modelled by depth/branch handles); every node construction site of the default source tree takes the index counter and advances it (slice). The other axes'))
CLAIMS['C13'].update(
    kernel=CLAIMS['C13']['kernel'] + ', match score of a strip/preserve-space name test, merge order of imported declarations',
    text=CLAIMS['C13']['text'].replace(' That the tree walks', ' A name test gets the score of its form (name > prefix:* > *), and imported declarations are appended highest import precedence first. That the tree walks'))
CLAIMS['C16'].update(
    kernel=CLAIMS['C16']['kernel'] + ', NodeSorter::sort(context) (algorithm, range, cache guards), ElemForEach::createSelectedAndSortedNodeList, the collator cache lookup',
    text=CLAIMS['C16']['text'].replace(' std::stable_sort, the string-key cache', ' The sort is std::stable_sort over the whole scratch vector; two or more selected nodes are sorted wherever the select expression left them (list or node-set object); the collator used is the one cached for the key\'s own language. std::stable_sort, the string-key cache'))
CLAIMS['C17'].update(
    kernel='ElemNumber::int2alphaCount, toRoman, Counter::getPreviouslyCounted, CountersTable::countNode, getCountMatchPattern, getMatchingAncestors, getPreviousNode, findAncestor/findPrecedingOrAncestorOrSelf, getCountString (value rounding), NumberFormatStringTokenizer',
    text='Component-level proof of the alphabetic/roman formatting kernels (buffer safety for all 64-bit values; value round-trip, bounded for the alphabetic table), the counter cache, the default count pattern per node kind, level="multiple" ancestor collection and level="any" backward walk honouring from/count, rounding of value=, and the format-token classification. Traditional/Greek/CJK numbering and grouping separators are not covered.')
CLAIMS['C18'].update(
    kernel='DoubleSupport::round, doValidate (Number grammar), convertHelper, WideStringToLong alphabet (bounded), NumberToDOMString(double)/NumberToCharacters, typed numeric evaluation dispatch',
    text=CLAIMS['C18']['text'])
CLAIMS['C20'].update(
    kernel=CLAIMS['C20']['kernel'] + '; XalanDOMString::assign(self range), substr, resize; XalanDeque resize and block management; XalanList::splice on real pointers',
    text=CLAIMS['C20']['text'].replace(' The other container templates are assumed.', ' assign(source, pos, n) is exact also for the string itself; XalanDeque resize/push_back/pop_back keep count and block ownership (index vs free list); XalanList::splice(pos, list, element) keeps every node of a 6-node closed world well linked for every aliasing. The other container operations are assumed.'))

# ---- session 3 ----
CLAIMS['C02'].update(
    kernel=CLAIMS['C02'].get('kernel', '') + '; node-set comparison loops doCompareNodeSets / doCompareString / doCompareNumber and their dispatch compareNodeSets',
    text=CLAIMS['C02']['text'].replace(' Known finding:', ' A comparison with a node-set operand is true iff the comparison is true for some node (pair of nodes), each comparison on the string-value (number) of exactly one node per side, operands in order; a result tree fragment operand is compared by string-value (XSLT 11.1). Known finding:'))
CLAIMS['C12'].update(
    text=CLAIMS['C12']['text'].replace(' The ordering predicates treat', ' The linear search keeps the nodes of one document together when the list holds nodes of several documents (two-witness postcondition + loop-free lemma over the search and predicate contracts). The ordering predicates treat'))
CLAIMS['C20'].update(
    text=CLAIMS['C20']['text'].replace(' The other container operations are assumed.', ' The in-place block of XalanVector::insert(pos, count, value) adds exactly count elements, never pushes beyond the capacity and fills slots inside the vector. The other container operations are assumed.'))
CLAIMS['C08'].update(
    text=CLAIMS['C08']['text'].replace('Option selection (setupFormatterListener), the text method and the rest of FormatterToHTML are not covered.', 'The text method writes every unit of a text once, in order and unescaped, whether it arrives as characters, raw characters or CDATA (FormatterToText; LF platform). Unrepresentable characters under the text method and the rest of FormatterToHTML are not covered.'))
