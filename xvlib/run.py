"""Pipeline: extract -> goto-cc -> goto-instrument (contracts) -> cbmc -> classify."""
import concurrent.futures
import importlib.util
import json
import os
import re
import resource
import shutil
import subprocess
import sys
import tempfile
import time

from . import extract as X
from .unit import Unit

VERIF = os.path.dirname(os.path.dirname(os.path.abspath(__file__)))
REPO = os.environ.get('XV_REPO', '/repo')
MEM_LIMIT = int(os.environ.get('XV_MEM_GB', '12')) << 30

SAFETY_CLASSES = ('bounds', 'pointer_dereference', 'pointer', 'overflow', 'division-by-zero',
                  'undefined-shift', 'pointer_arithmetic', 'pointer_primitives', 'NaN',
                  'float-overflow', 'conversion', 'unwind', 'array_bounds', 'memory-leak', 'enum-range')

BASE_FLAGS = ['--bounds-check', '--pointer-check', '--pointer-overflow-check',
              '--signed-overflow-check', '--div-by-zero-check', '--undefined-shift-check',
              '--pointer-primitive-check']


def load_units():
    units = {}
    if VERIF not in sys.path:
        sys.path.insert(0, VERIF)
    d = os.path.join(VERIF, 'units')
    files = [(d, fn) for fn in sorted(os.listdir(d))]
    if os.environ.get('XV_EXTRA_UNITS'):      # development only: units not yet moved into units/ (never set by a registered command)
        files += [(os.environ['XV_EXTRA_UNITS'], fn) for fn in sorted(os.listdir(os.environ['XV_EXTRA_UNITS']))]
    for d, fn in files:
        if not fn.endswith('.py') or fn.startswith('_'):
            continue
        spec = importlib.util.spec_from_file_location('xv_unit_' + fn[:-3], os.path.join(d, fn))
        mod = importlib.util.module_from_spec(spec)
        spec.loader.exec_module(mod)
        us = getattr(mod, 'UNITS', None) or [mod.UNIT]
        for u in us:
            assert isinstance(u, Unit)
            assert u.name not in units, u.name
            units[u.name] = u
    return units


# ------------------------------------------------------------------ extraction

def _prepare_source(repo, rel, cache, dropped):
    if rel not in cache:
        raw = X.read_repo(repo, rel)
        txt = X.strip_comments(raw)
        txt = X.resolve_conditionals(txt, dropped)
        cache[rel] = txt
    return cache[rel]


def _norm_ws(s):
    return re.sub(r'\s+', ' ', s).strip()


def _insert_reach(body, fname):
    """XV_REACH at body entry and after every braced loop."""
    loops = X.find_loops(body)
    inserts = []
    for k, (start, hd_end, kind, tail_end) in enumerate(loops):
        if kind == 'do':
            # hd_end is after the tail "while(cond)"; statement ends at ';'
            j = body.find(';', tail_end)
            inserts.append((j + 1, ' XV_REACH("after_loop%d:%s");' % (k, fname)))
        else:
            j = hd_end
            # skip an already inserted loop contract (lines starting with __CPROVER_)
            while True:
                m = re.match(r'\s*(#line[^\n]*\n|__CPROVER_\w+\s*\()', body[j:])
                if not m:
                    break
                if m.group(1).startswith('#line'):
                    j += m.end()
                else:
                    p = j + m.end() - 1
                    j = X.match_close(body, p) + 1
            m = re.match(r'\s*', body[j:])
            j += m.end()
            if body[j] != '{':
                continue
            e = X.match_close(body, j, '{', '}')
            inserts.append((e + 1, ' XV_REACH("after_loop%d:%s");' % (k, fname)))
    inserts.append((1, ' XV_REACH("entry:%s");' % fname))
    for off, txt in sorted(inserts, reverse=True):
        body = body[:off] + txt + body[off:]
    return body


def extract_fn(repo, fn, cache, dropped):
    src = _prepare_source(repo, fn.file, cache, dropped)
    head, body, l0, l1 = X.cut_function(src, fn.sig, fn.occurrence, fn.after)
    orig_hash = X.sha(_norm_ws(head) + _norm_ws(body))
    if fn.head_expect is not None and not re.search(fn.head_expect, _norm_ws(head)):
        raise X.ExtractionBreak('%s: head %r does not match %r' % (fn.name, _norm_ws(head), fn.head_expect))
    log = []
    rules = list(fn.rules)
    prologue = ''
    for name, ctype in (getattr(fn, 'ref_params', None) or {}).items():
        # a C++ reference parameter is a pointer in the C head.  Whether the ORIGINAL head still declares it as a reference decides the
        # translation: by reference -> every use is (*name); by value -> the function works on a local copy and the caller's object is untouched
        if re.search(r'&\s*%s\b' % re.escape(name), head):
            rules.insert(0, (r'\b%s\b' % re.escape(name), '(*%s)' % name, None))
        else:
            prologue += ' %s %s__byval = *%s;' % (ctype, name, name)
            rules.insert(0, (r'\b%s\b' % re.escape(name), '%s__byval' % name, None))
    body2 = X.apply_rules(body, rules, log, where=fn.name)
    if prologue:
        k = body2.index('{')
        body2 = body2[:k + 1] + ' /* parameter(s) passed BY VALUE in the current source */' + prologue + body2[k + 1:]
    body2, nl = X.insert_loop_contracts(body2, fn.loops, fn.nloops, where=fn.name)
    if fn.reach:
        body2 = _insert_reach(body2, fn.name)
    text = '/* extracted from %s:%d-%d */\n%s\n%s\n%s\n' % (fn.file, l0, l1, fn.head, fn.contract.strip(), body2)
    prov = {'function': fn.name, 'file': fn.file, 'lines': [l0, l1], 'sha256_original': orig_hash,
            'original_head': _norm_ws(head), 'rules_fired': [[p if isinstance(p, str) else str(p), n] for p, n in log],
            'loops': nl, 'loop_contracts': sorted(fn.loops)}
    return text, prov


def extract_block(repo, blk, cache, dropped):
    src = _prepare_source(repo, blk.file, cache, dropped)
    text, l0, l1 = X.cut_block(src, blk.start, blk.end, blk.after)
    log = []
    h = X.sha(_norm_ws(text))
    text2 = X.apply_rules(text, blk.rules, log, where=blk.name)
    if blk.loops or blk.nloops is not None:
        text2, _ = X.insert_loop_contracts(text2, blk.loops, blk.nloops, where=blk.name)
    prov = {'block': blk.name, 'file': blk.file, 'lines': [l0, l1], 'sha256_original': h,
            'rules_fired': [[str(p), n] for p, n in log]}
    return '/* extracted from %s:%d-%d */\n%s\n' % (blk.file, l0, l1, text2), prov


def build_unit(unit, repo, workdir):
    cache = {}
    dropped = []
    provs = []
    text = unit.template
    fn_texts = {}
    blk_texts = {}
    for fn in unit.functions:
        t, p = extract_fn(repo, fn, cache, dropped)
        provs.append(p)
        fn_texts[fn.name] = t
    for blk in unit.blocks:
        t, p = extract_block(repo, blk, cache, dropped)
        provs.append(p)
        blk_texts[blk.name] = t
    if getattr(unit, 'gen', None):
        # mechanical second pass over the extracted texts (e.g. call sites -> ghost reads, DESIGN R6/R7);
        # returns {placeholder name: generated text}; may rewrite fn_texts in place; raises ExtractionBreak
        import inspect
        res = unit.gen(fn_texts, blk_texts) if len(inspect.signature(unit.gen).parameters) >= 2 else unit.gen(fn_texts)
        for k, v in res.items():
            key = '@@GEN %s@@' % k
            if key not in text:
                raise X.ExtractionBreak('template of %s lacks %s' % (unit.name, key))
            text = text.replace(key, v)
    for fn in unit.functions:
        key = '@@FN %s@@' % fn.name
        if key not in text:
            raise X.ExtractionBreak('template of %s lacks %s' % (unit.name, key))
        text = text.replace(key, fn_texts[fn.name])
    for blk in unit.blocks:
        key = '@@BLOCK %s@@' % blk.name
        if key not in text:
            if getattr(blk, 'hidden', False):
                continue
            raise X.ExtractionBreak('template of %s lacks %s' % (unit.name, key))
        text = text.replace(key, blk_texts[blk.name])
    if '@@' in text:
        raise X.ExtractionBreak('unexpanded placeholder in template of %s' % unit.name)
    path = os.path.join(workdir, unit.name + '.c')
    with open(path, 'w') as f:
        f.write(text)
    return path, provs, dropped


# ------------------------------------------------------------------ running tools

def _limit():
    resource.setrlimit(resource.RLIMIT_AS, (MEM_LIMIT, MEM_LIMIT))


def _run(cmd, timeout, cwd=None):
    t0 = time.time()
    try:
        p = subprocess.run(cmd, stdout=subprocess.PIPE, stderr=subprocess.PIPE, timeout=timeout,
                           cwd=cwd, preexec_fn=_limit)
        return p.returncode, p.stdout.decode(errors='replace'), p.stderr.decode(errors='replace'), time.time() - t0
    except subprocess.TimeoutExpired as e:
        return -9, (e.stdout or b'').decode(errors='replace'), 'TIMEOUT after %ss' % timeout, time.time() - t0


def classify(prop_name, desc):
    if desc.startswith('XV_REACH'):
        return 'reach'
    m = re.search(r'\.([A-Za-z_\-]+)\.\d+$', prop_name)
    cls = m.group(1) if m else 'other'
    if cls == 'assertion':
        if 'unwinding assertion' in desc:
            return 'unwind'
        return 'assertion'
    return cls


def _ordinal(name):
    m = re.search(r'\.(\d+)$', name)
    return int(m.group(1)) if m else None


def clause_label(clines, ln, loop=False, ordinal=None, count=None):
    """Label of the contract clause that contains line ln of the unit's C file:
    the /* comment */ that opens the clause if there is one, else its text.
    Loop obligations are reported at the loop head; their clauses follow it and
    cbmc numbers the obligations in clause order (loop_invariant_step.k = k-th clause
    of that kind in the function), so the ordinal picks the clause when it is in range."""
    k = ln - 1
    if loop:
        found = []
        # cbmc reports while/for loops at their head and do-loops at the '{' after the contract: go back to the head
        h = k
        for i in range(k, max(-1, k - 24), -1):
            if re.match(r'^\s*(do\b|while\s*\(|for\s*\()', clines[i]):
                h = i
                break
        k = h
        for i in range(k, min(len(clines), k + 24)):
            if i > k and re.search(r'^\s*\{\s*$', clines[i]):
                break
            if re.search(r'__CPROVER_loop_invariant\s*\(', clines[i]):
                m = re.search(r'__CPROVER_loop_invariant\s*\(\s*/\*(.*?)\*/', clines[i])
                found.append(m.group(1).strip() if m else re.sub(r'\s+', ' ', clines[i].strip())[:200])
        if found:
            if ordinal is not None and count == len(found) and 1 <= ordinal <= len(found):
                return found[ordinal - 1]
            return found[0] if len(found) == 1 else 'one of the loop invariants: ' + ' | '.join(found)
    lo = max(0, k - 8)
    start = k
    for i in range(k, lo - 1, -1):
        if re.search(r'__CPROVER_(ensures|requires|loop_invariant|decreases|assigns)\s*\(', clines[i]):
            start = i
            break
    txt = ' '.join(x.strip() for x in clines[start:k + 1])
    m = re.search(r'__CPROVER_\w+\s*\(\s*/\*(.*?)\*/', txt)
    if m:
        return m.group(1).strip()
    return re.sub(r'\s+', ' ', txt)[:200]


class JobResult:
    def __init__(self, unit, job):
        self.unit = unit
        self.job = job
        self.status = 'undecided'     # ok | fail | undecided
        self.reason = ''
        self.obligations = []         # dicts: name, desc, cls, status, function, line, file
        self.wall = 0.0
        self.cmds = []
        self.log = ''


def run_job(unit, job, cpath, workdir, tier):
    r = JobResult(unit, job)
    base = os.path.join(workdir, '%s.%s' % (unit.name, job.name))
    shim = os.path.join(VERIF, 'shim')
    gb = base + '.gb'
    cmd = ['goto-cc', '-DXV_VERIF', '-I', shim] + ['-D' + d for d in job.defines] + ['--function', job.entry, cpath, '-o', gb]
    r.cmds.append(' '.join(cmd))
    rc, out, err, w = _run(cmd, 300)
    r.wall += w
    if rc != 0:
        r.reason = 'goto-cc failed: ' + (err + out)[-1500:]
        return r
    cur = gb
    if job.dfcc and (job.enforce or job.replace or job.loop_contracts or job.enforce_rec):
        gi = base + '.i.gb'
        cmd = ['goto-instrument', '--dfcc', job.entry]
        for f in job.enforce:
            cmd += ['--enforce-contract', f]
        for f in job.enforce_rec:
            cmd += ['--enforce-contract-rec', f]
        # macro-expanded text of the unit: a stub that is declared but never called has no symbol in the binary
        # (goto-instrument refuses it), so it is left out of the command line
        try:
            rc0, ctext, err0, w0 = _run(['goto-cc', '-E', '-DXV_VERIF', '-I', shim] + ['-D' + d for d in job.defines] + [cpath], 120)
            if rc0 != 0:
                ctext = ''
        except Exception:
            ctext = ''
        for f in job.replace:
            # a stub that is declared but never called has no symbol in the binary (goto-instrument refuses it)
            if ctext and len(re.findall(r'\b%s\b' % re.escape(f), ctext)) <= 1:
                continue
            cmd += ['--replace-call-with-contract', f]
        if job.loop_contracts:
            cmd += ['--apply-loop-contracts']
        cmd += [cur, gi]
        r.cmds.append(' '.join(cmd))
        rc, out, err, w = _run(cmd, 600)
        r.wall += w
        tries = 0
        while rc != 0 and tries < 80:
            # a stub that the (changed) code no longer calls does not exist in the binary: drop it and retry
            m = re.search(r"Function to replace '(\w+)' not found", err + out)
            if not m or m.group(1) not in cmd:
                break
            k = cmd.index(m.group(1))
            del cmd[k - 1:k + 1]
            tries += 1
            rc, out, err, w = _run(cmd, 600)
            r.wall += w
        if rc != 0:
            r.reason = 'goto-instrument failed: ' + (err + out)[-2500:]
            return r
        cur = gi
    cmd = ['cbmc', cur] + BASE_FLAGS + ['--drop-unused-functions', '--json-ui', '--verbosity', '6']
    cmd += job.flags
    if job.unwind is not None:
        cmd += ['--unwind', str(job.unwind), '--unwinding-assertions']
    r.cmds.append(' '.join(cmd))
    to = job.timeout * (3 if tier == 'thorough' else 1)
    rc, out, err, w = _run(cmd, to)
    r.wall += w
    if 'too many addressed objects' in out and '--object-bits' not in job.flags:
        # the default of 8 object bits is much cheaper; widen only when cbmc asks for it
        cmd += ['--object-bits', '12']
        job.flags = job.flags + ['--object-bits', '12']
        r.cmds.append(' '.join(cmd))
        rc, out, err, w = _run(cmd, to)
        r.wall += w
    r.log = out[-200000:] if len(out) > 200000 else out
    if rc == -9:
        r.reason = 'cbmc timeout after %ds' % to
        return r
    try:
        js = json.loads(out)
    except Exception:
        r.reason = 'cbmc output not JSON (rc=%s): %s' % (rc, (err + out)[-1500:])
        return r
    results = None
    msgs = []
    try:
        clines = open(cpath).read().split('\n')
    except OSError:
        clines = []
    for item in js:
        if isinstance(item, dict):
            if 'result' in item:
                results = item['result']
            if 'messageText' in item:
                msgs.append(item['messageText'])
    alltext = '\n'.join(msgs)
    for bad in ('ignoring forall', 'ignoring exists', 'Parse Error', 'SMT2 solver returned'):
        if bad in alltext:
            r.reason = 'cbmc log contains %r' % bad
            return r
    if results is None:
        r.reason = 'no result list from cbmc (rc=%s): %s' % (rc, alltext[-1500:])
        return r
    # loop obligations are numbered per function across its loops; the k-th smallest number among the step (base)
    # obligations reported at one loop head belongs to that loop's k-th invariant clause when the counts agree
    groups = {}
    for it in results:
        loc = it.get('sourceLocation', {}) or {}
        m = re.match(r'(.*)\.(loop_invariant_step|loop_invariant_base)\.(\d+)$', it.get('property', ''))
        if m:
            groups.setdefault((m.group(1), m.group(2), loc.get('line', '')), []).append(int(m.group(3)))
    def _rank(name, line):
        m = re.match(r'(.*)\.(loop_invariant_step|loop_invariant_base)\.(\d+)$', name)
        if not m:
            return None, None
        g = sorted(groups.get((m.group(1), m.group(2), line), []))
        return (g.index(int(m.group(3))) + 1, len(g)) if int(m.group(3)) in g else (None, None)
    for it in results:
        loc = it.get('sourceLocation', {}) or {}
        o = {'name': it.get('property', ''), 'desc': it.get('description', ''),
             'status': it.get('status', ''), 'function': loc.get('function', ''),
             'line': loc.get('line', ''), 'file': loc.get('file', '')}
        o['cls'] = classify(o['name'], o['desc'])
        if o['file'] == cpath and o['cls'] in ('postcondition', 'precondition', 'loop_invariant_base', 'loop_invariant_step',
                                                 'loop_decreases', 'loop_step_unwinding'):
            try:
                ln = int(o['line'])
                rk, cnt = _rank(o['name'], o['line'])
                o['desc'] = o['desc'] + ' :: ' + clause_label(clines, ln, loop=o['cls'].startswith('loop_'), ordinal=rk, count=cnt)
            except Exception:
                pass
        r.obligations.append(o)
    for o in r.obligations:
        if o['status'] == 'FAILURE' and 'undefined function should be unreachable' in o['desc']:
            r.reason = 'call of a function without body or contract: %s' % o['name']
            return r
    # vacuity / sanity guards -------------------------------------------------
    stat = set(o['status'] for o in r.obligations)
    if stat - {'SUCCESS', 'FAILURE'}:
        # an obligation cbmc left undetermined decides nothing; but a FAILURE it reports next to it is still a concrete counterexample
        # (seen with a write past a buffer: the obligations behind the corrupted pointer come back UNKNOWN)
        odd = [o for o in r.obligations if o['status'] not in ('SUCCESS', 'FAILURE')]
        definite = [o for o in r.obligations if o['status'] == 'FAILURE' and o['cls'] != 'reach']
        if not definite or any(o['cls'] == 'reach' for o in odd):
            r.reason = 'obligation with status %s' % sorted(stat - {'SUCCESS', 'FAILURE'})
            return r
        r.notes = getattr(r, 'notes', []) + ['%d obligation(s) left undetermined by cbmc (status %s), not counted as discharged: %s'
                                             % (len(odd), sorted(stat - {'SUCCESS', 'FAILURE'}), ', '.join(o['name'] for o in odd[:6]))]
    real = [o for o in r.obligations if o['cls'] != 'reach']
    if len(real) < job.min_obligations:
        r.reason = 'only %d obligations generated (< %d): vacuous' % (len(real), job.min_obligations)
        return r
    reach = [o for o in r.obligations if o['cls'] == 'reach']
    tags = {}
    for o in reach:
        tags.setdefault(o['desc'][len('XV_REACH '):], []).append(o)
    must = sorted(tags) if job.reach == 'all' else list(job.reach)
    for t in must:
        if t not in tags:
            r.reason = 'reach assertion %r not generated' % t
            return r
        if any(o['status'] != 'FAILURE' for o in tags[t]):
            r.reason = 'reach assertion %r is unreachable: contradictory requires/invariant (vacuous proof)' % t
            return r
    if job.loop_contracts:
        if not any(o['cls'] == 'loop_invariant_step' or 'loop invariant is preserved' in o['desc'].lower() or 'invariant after step' in o['desc'].lower() for o in r.obligations):
            if not any('loop' in o['desc'].lower() and 'invariant' in o['desc'].lower() for o in r.obligations):
                r.reason = 'loop contracts requested but no loop-invariant obligations generated'
                return r
    fails = [o for o in real if o['status'] == 'FAILURE']
    r.status = 'fail' if fails else 'ok'
    return r


def trace_for(unit, job, cpath_gb, props, workdir, timeout=900):
    """Re-run cbmc with --trace for the failed properties; return
    {prop: {'inputs': {...}, 'raw_steps': n}}"""
    cmd = ['cbmc', cpath_gb] + BASE_FLAGS + ['--drop-unused-functions', '--json-ui', '--trace'] + job.flags
    if job.unwind is not None:
        cmd += ['--unwind', str(job.unwind), '--unwinding-assertions']
    for p in props:
        cmd += ['--property', p]
    rc, out, err, w = _run(cmd, timeout)
    res = {}
    try:
        js = json.loads(out)
    except Exception:
        return res
    for item in js:
        if isinstance(item, dict) and 'result' in item:
            for it in item['result']:
                if it.get('status') != 'FAILURE' or 'trace' not in it:
                    continue
                vals = {}
                for st in it['trace']:
                    if st.get('stepType') == 'assignment' and not st.get('hidden', False):
                        lhs = st.get('lhs', '')
                        v = st.get('value', {})
                        fnm = (st.get('sourceLocation') or {}).get('function', '')
                        if 'data' in v or 'binary' in v:
                            vals['%s::%s' % (fnm, lhs)] = {'data': v.get('data'), 'binary': v.get('binary'), 'type': v.get('type')}
                res[it.get('property')] = {'assignments': vals}
    return res
