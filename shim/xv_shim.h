/* xv_shim.h -- the C environment every extracted unit is compiled in.
 *
 * Hand-written, therefore TRUSTED (DESIGN.md section 6, A3): typedefs of the
 * xalan-c scalar types for the x86-64 build in /repo/_build, the XV_REACH
 * vacuity marker, and one-line C renderings of DoubleSupport's inline
 * classification helpers (which use a C++ union class in the header).
 */
#ifndef XV_SHIM_H
#define XV_SHIM_H
#include <stdint.h>
#include <stdbool.h>
#include <stddef.h>
#include <limits.h>
#include <math.h>
#include <float.h>

typedef uint16_t XalanDOMChar;       /* = XMLCh = char16_t (Xerces-C 3.2) */
typedef uint32_t XalanUnicodeChar;   /* = XMLUInt32 */
typedef size_t   XalanSize_t;
typedef size_t   size_type;
typedef int64_t  XMLInt64;
typedef uint64_t XMLUInt64;
typedef int32_t  XMLInt32;
typedef uint32_t XMLUInt32;

/* must-fail reachability marker (DESIGN 3.6): never changes state */
#define XV_REACH(tag) __CPROVER_assert(0, "XV_REACH " tag)

/* a nondeterministic _Bool in CBMC may hold any byte value: harnesses normalise with this */
#define XV_BOOL(b) ((b) ? true : false)

/* in-code asserts are kept as proof obligations (R11) */
#undef assert
#define assert(e) __CPROVER_assert((e), "in-code assert: " #e)

/* specification helpers (library functions must not be called from contract
 * clauses: goto-instrument does not link their models there) */
#define XV_TWO52 4503599627370496.0
#define XV_ABS(x) ((x) < 0 ? -(x) : (x))
#define XV_IS_INTEGRAL(r) (XV_ABS(r) >= XV_TWO52 || (double)(long)(r) == (r))
#define XV_ISNAN(x) ((x) != (x))
#define XV_ISINF(x) (XV_ABS(x) > DBL_MAX)
#define XV_FINITE(x) (!XV_ISNAN(x) && !XV_ISINF(x))

#define XV_SIGNBIT(x) ((xv_bits(x) >> 63) != 0)
#define XV_SAME(a, b) ((XV_ISNAN(a) && XV_ISNAN(b)) || xv_bits(a) == xv_bits(b))
static inline uint64_t xv_bits(double d);

/* DoubleSupport.hpp inline helpers (XALAN_HAVE_STD_ISNAN configuration;
 * NumberUnion::operator== is a bitwise compare of the two 32-bit halves). */
static inline uint64_t xv_bits(double d) { union { double d; uint64_t u; } x; x.d = d; return x.u; }
static inline bool DoubleSupport_isNaN(double d) { return isnan(d) != 0; }
static inline bool DoubleSupport_isPositiveInfinity(double d) { return xv_bits(d) == 0x7FF0000000000000ull; }
static inline bool DoubleSupport_isNegativeInfinity(double d) { return xv_bits(d) == 0xFFF0000000000000ull; }
static inline bool DoubleSupport_isPositiveZero(double d) { return xv_bits(d) == 0x0000000000000000ull; }
static inline bool DoubleSupport_isNegativeZero(double d) { return xv_bits(d) == 0x8000000000000000ull; }
static inline double DoubleSupport_getNaN(void) { return NAN; }
static inline double DoubleSupport_getPositiveInfinity(void) { return HUGE_VAL; }
static inline double DoubleSupport_getNegativeInfinity(void) { return -HUGE_VAL; }
#define isNaN DoubleSupport_isNaN
#define isPositiveInfinity DoubleSupport_isPositiveInfinity
#define isNegativeInfinity DoubleSupport_isNegativeInfinity
#define isPositiveZero DoubleSupport_isPositiveZero
#define isNegativeZero DoubleSupport_isNegativeZero
#define getNaN DoubleSupport_getNaN
#define getPositiveInfinity DoubleSupport_getPositiveInfinity
#define getNegativeInfinity DoubleSupport_getNegativeInfinity

#endif
