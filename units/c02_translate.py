"""C02: translate() (XPath 1.0 4.2) and the first-occurrence search it rests on.  Proved for strings of UTF-16 units in the Basic
Multilingual Plane: every unit of the first argument that does not occur in the second is copied, one that occurs is replaced by the unit at
the position of its FIRST occurrence in the third argument, or removed when the third argument is shorter; units are handled in order, none
twice.  KNOWN FINDING: the function works on UTF-16 units, so a character above U+FFFF (a surrogate pair) is looked up half by half."""
from xvlib.unit import Fn, Job, Unit, Mutant

FT = 'src/xalanc/XPath/FunctionTranslate.cpp'
DH = 'src/xalanc/PlatformSupport/DOMStringHelper.hpp'
TEMPLATE = r'''
#include "xv_shim.h"
typedef struct Ctx XPathExecutionContext; typedef struct XalanNode XalanNode; typedef int XObjectPtr; typedef struct Locator Locator;
#define IS_SURR(c) ((c) >= 0xD800u && (c) <= 0xDFFFu)
#define MAXL ((size_t)1 << 40)
size_t g_w;                                   /* witness index */
const XalanDOMChar *g_s1, *g_s2, *g_s3; size_t g_n1, g_n2, g_n3;
/* ghost of the translate loop: the unit being handled, where it first occurs in the second argument, whether its output was written */
size_t g_i; bool g_have; XalanDOMChar g_cur; size_t g_k; bool g_looked_up; bool g_appended; bool g_done;
#define NEEDS_OUTPUT (g_k >= g_n2 || g_k < g_n3)
@@FN indexOf_z@@
@@FN indexOf_str@@
XalanDOMChar xv_at1(const XalanDOMChar* s, size_t i)
__CPROVER_requires(s == g_s1 && /* reads stay inside the first argument */ i < g_n1 && (g_have == true ? i == g_i + 1 : i == 0))
__CPROVER_requires(/* the previous unit was dealt with: looked up, and copied or replaced unless it is to be removed */ g_have == true ==> (g_looked_up == true && (NEEDS_OUTPUT ==> g_appended == true)))
__CPROVER_assigns(g_i, g_have, g_cur, g_looked_up, g_appended)
__CPROVER_ensures(__CPROVER_return_value == g_s1[i] && g_cur == g_s1[i] && g_i == i && g_have == true && g_looked_up == false && g_appended == false) ;
/* indexOf(theSecondString, unit): interface contract of indexOf_str for strings without embedded NUL (implementation: jobs indexOf_z, indexOf_str) */
size_t xv_indexOf2(const XalanDOMChar* s, size_t n, XalanDOMChar c)
__CPROVER_requires(s == g_s2 && n == g_n2 && g_have == true && c == g_cur && g_looked_up == false)
__CPROVER_requires(/* ALSO for characters above U+FFFF: what is looked up is a whole character, never one half of a surrogate pair */ !IS_SURR(c))
__CPROVER_assigns(g_k, g_looked_up)
__CPROVER_ensures(__CPROVER_return_value == g_k && g_looked_up == true && g_k <= g_n2 && (g_k < g_n2 ==> g_s2[g_k] == c) && ((g_w < g_k && g_w < g_n2) ==> g_s2[g_w] != c)) ;
void xv_append(XalanDOMChar c)
__CPROVER_requires(g_have == true && g_looked_up == true && /* one output unit per input unit at most */ g_appended == false)
__CPROVER_requires(/* translate(): a unit that does not occur in the second argument is copied; one that occurs is replaced by the unit at the position of its first occurrence in the third argument */
    g_k >= g_n2 ? c == g_cur : (g_k < g_n3 && c == g_s3[g_k]))
__CPROVER_assigns(g_appended) __CPROVER_ensures(g_appended == true) ;
XObjectPtr xv_result(void) __CPROVER_requires(1) __CPROVER_assigns(g_done) __CPROVER_ensures(g_done == true) ;
@@FN translate@@
static void xv_havoc(void) { size_t a, b, c, w, i, k; const XalanDOMChar *p, *q, *r; XalanDOMChar u; g_n1 = a; g_n2 = b; g_n3 = c; g_w = w; g_s1 = p; g_s2 = q; g_s3 = r; g_i = i; g_have = false; g_cur = u; g_k = k; g_looked_up = false; g_appended = false; g_done = false; }
void h_indexOf_z(void) { xv_havoc(); const XalanDOMChar* s; XalanDOMChar c; indexOf_z(s, c); }
void h_indexOf_str(void) { xv_havoc(); const XalanDOMChar* s; size_t n; XalanDOMChar c; indexOf_str(s, n, c); }
void h_translate(void) { xv_havoc(); translate(0, 0, 0, 0, 0, 0); }
'''
RT = [(r'assert\(arg1\.null\(\) == false && arg2\.null\(\) == false && arg3\.null\(\) == false\);', '', 1),
      (r'const XalanDOMString&\s+theFirstString = arg1->str\(executionContext\);', 'const XalanDOMChar* const theFirstString = g_s1;', 1),
      (r'const XalanDOMString&\s+theSecondString = arg2->str\(executionContext\);', 'const XalanDOMChar* const theSecondString = g_s2;', 1),
      (r'const XalanDOMString&\s+theThirdString = arg3->str\(executionContext\);', 'const XalanDOMChar* const theThirdString = g_s3;', 1),
      (r'theFirstString\.length\(\)', 'g_n1', 1), (r'theSecondString\.length\(\)', 'g_n2', 1), (r'theThirdString\.length\(\)', 'g_n3', 1),
      (r'typedef XalanVector<XalanDOMChar>\s+VectorType;', '', (0, 1)),
      (r'GetCachedString\s+theResult\(executionContext\);\s*XalanDOMString&\s+theString = theResult\.get\(\);', '', 1),
      (r'theString\.reserve\(theFirstStringLength \+ 1\);', '', 1),
      (r'XalanDOMString::size_type', 'size_t', None),
      (r'const XalanDOMChar\s+theCurrentChar = theFirstString\[i\];', 'const XalanDOMChar theCurrentChar = xv_at1(theFirstString, i);', 1),
      (r'(?<![\w.>])indexOf\(theSecondString, theCurrentChar\)', 'xv_indexOf2(theSecondString, theSecondStringLength, theCurrentChar)', 1),
      (r'theString\.append\(1, ', 'xv_append(', (0, 3)),
      (r'return executionContext\.getXObjectFactory\(\)\.createString\(theResult\);', 'return xv_result();', 1)]
UNIT = Unit(
    name='c02_translate',
    props=['C02', 'C03'],
    functions=[
        Fn(DH, r'^indexOf\(\s*const XalanDOMChar\*\s+theString,\s*XalanDOMChar\s+theChar\)', 'indexOf_z', 'size_t indexOf_z(const XalanDOMChar* theString, XalanDOMChar theChar)',
           rules=[('FCASTS', ['XalanDOMString::size_type']), (r'XalanDOMString::size_type', 'size_t', (0, 2))], nloops=1,
           loops={0: '''__CPROVER_assigns(thePointer)
__CPROVER_loop_invariant(__CPROVER_same_object(thePointer, theString) && (size_t)__CPROVER_POINTER_OFFSET(thePointer) % sizeof(XalanDOMChar) == 0 && (size_t)__CPROVER_POINTER_OFFSET(thePointer) / sizeof(XalanDOMChar) <= g_n1)
__CPROVER_loop_invariant(/* nothing skipped so far is the unit searched for or the terminator (witness) */ g_w < (size_t)__CPROVER_POINTER_OFFSET(thePointer) / sizeof(XalanDOMChar) ==> (theString[g_w] != theChar && theString[g_w] != 0))
__CPROVER_decreases(g_n1 - (size_t)__CPROVER_POINTER_OFFSET(thePointer) / sizeof(XalanDOMChar))'''},
           contract='''__CPROVER_requires(g_n1 <= MAXL && __CPROVER_is_fresh(theString, (g_n1 + 1) * sizeof(XalanDOMChar)) && /* NUL-terminated */ theString[g_n1] == 0)
__CPROVER_assigns()
__CPROVER_ensures(/* indexOf: the scan stops inside the string, at the first unit that is the one searched for or the terminator */
    __CPROVER_return_value <= g_n1 && (theString[__CPROVER_return_value] == theChar || theString[__CPROVER_return_value] == 0)
    && (g_w < __CPROVER_return_value ==> (theString[g_w] != theChar && theString[g_w] != 0)))'''),
        Fn(DH, r'^indexOf\(\s*const XalanDOMString&\s+theString,\s*XalanDOMChar\s+theChar\)', 'indexOf_str', 'size_t indexOf_str(const XalanDOMChar* theString, size_t theString_length, XalanDOMChar theChar)',
           rules=[(r'theString\.length\(\)', 'theString_length', 1), (r'indexOf\(theString\.c_str\(\), theChar\)', 'indexOf_z(theString, theChar)', 1)], nloops=0,
           contract='''__CPROVER_requires(theString_length == g_n1 && g_n1 <= MAXL && __CPROVER_is_fresh(theString, (g_n1 + 1) * sizeof(XalanDOMChar)) && theString[g_n1] == 0 && theChar != 0)
__CPROVER_requires(/* XML strings hold no NUL (witness) */ g_w < g_n1 ==> theString[g_w] != 0)
__CPROVER_assigns()
__CPROVER_ensures(/* first occurrence, or the length when there is none */ __CPROVER_return_value <= g_n1 && (g_w < __CPROVER_return_value ==> theString[g_w] != theChar)
    && ((__CPROVER_return_value < g_n1 && __CPROVER_return_value == g_w) ==> theString[__CPROVER_return_value] == theChar))'''),
        Fn(FT, r'^FunctionTranslate::execute\(', 'translate',
           'XObjectPtr translate(XPathExecutionContext* executionContext, XalanNode* context, const XObjectPtr arg1, const XObjectPtr arg2, const XObjectPtr arg3, const Locator* locator)',
           rules=RT, nloops=1,
           loops={0: '''__CPROVER_assigns(i, g_i, g_have, g_cur, g_k, g_looked_up, g_appended)
__CPROVER_loop_invariant(i <= theFirstStringLength && (g_have == true ? (i > 0 && g_i == i - 1) : i == 0))
__CPROVER_loop_invariant(/* the unit handled last was looked up and, unless it is to be removed, written */ g_have == true ==> (g_looked_up == true && (NEEDS_OUTPUT ==> g_appended == true)))
__CPROVER_decreases(theFirstStringLength - i)'''},
           contract='''__CPROVER_requires(g_n1 <= MAXL && g_n2 <= MAXL && g_n3 <= MAXL && __CPROVER_is_fresh(g_s1, (g_n1 + 1) * sizeof(XalanDOMChar)) && __CPROVER_is_fresh(g_s2, (g_n2 + 1) * sizeof(XalanDOMChar)) && __CPROVER_is_fresh(g_s3, (g_n3 + 1) * sizeof(XalanDOMChar)))
__CPROVER_requires(g_have == false && g_done == false)
__CPROVER_assigns(g_i, g_have, g_cur, g_k, g_looked_up, g_appended, g_done)
__CPROVER_ensures(/* every unit of the first argument was dealt with, the last one included */ g_done == true && (g_n1 == 0 ? g_have == false : (g_have == true && g_i == g_n1 - 1 && g_looked_up == true && (NEEDS_OUTPUT ==> g_appended == true))))'''),
    ],
    template=TEMPLATE,
    jobs=[Job('indexOf_z', 'h_indexOf_z', enforce=['indexOf_z'], loop_contracts=True, reach='all', timeout=300, min_obligations=4),
          Job('indexOf_str', 'h_indexOf_str', enforce=['indexOf_str'], replace=['indexOf_z'], reach='all', timeout=300, min_obligations=3),
          Job('translate', 'h_translate', enforce=['translate'], replace=['xv_at1', 'xv_indexOf2', 'xv_append', 'xv_result'], loop_contracts=True, reach='all', timeout=600, min_obligations=6)],
    mutants=[
        Mutant('removed_when_equal_length', FT, r'else if \(theIndex < theThirdStringLength\)', 'else if (theIndex + 1 < theThirdStringLength)', expect=None),
        Mutant('not_found_dropped', FT, r'(// is not translated\.\s*)theString\.append\(1, theCurrentChar\);', r'\1', expect='dealt with'),
        Mutant('replacement_from_second', FT, r'theString\.append\(1, theThirdString\[theIndex\]\);', 'theString.append(1, theSecondString[theIndex]);', expect='replaced by the unit'),
        Mutant('scan_ignores_terminator_order', DH, r'(indexOf\(\s*const XalanDOMChar\*\s+theString,\s*XalanDOMChar\s+theChar\)\s*\{.*?)while\(\*thePointer != theChar && \*thePointer != 0\)', r'\1while(*thePointer != theChar)', expect=None),
    ],
    mechanisms=['string functions of the core library (translate)'],
    assumptions=['XML strings contain no NUL unit, so the NUL-terminated scan of indexOf finds the first occurrence within the string',
                 'XalanDOMString::append(1, c) appends one unit (c20_string); the result string is modelled by the sequence of append calls'],
)
