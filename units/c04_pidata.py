"""C04: xsl:processing-instruction content repair (XSLT 1.0 7.3 / XML 2.6): the data handed to the serializer contains no "?>"; nothing but
a single space between a '?' and the '>' that follows it is inserted.  Class P: loop contract on the real in-place repair loop of
ElemPI::endElement, strings of any length up to 1024 units over the full 16-bit alphabet; XalanDOMString::insert(iterator, char) as a
contract (ghost-witness instantiation, as in c04_comment); the postcondition is the precondition of the processingInstruction() stub."""
from xvlib.unit import Fn, Job, Unit, Mutant
from xvlib.common import UNICODE_BLOCK

EP = 'src/xalanc/XSLT/ElemPI.cpp'
TEMPLATE = r'''
#include "xv_shim.h"
@@BLOCK XalanUnicode@@
#define MAXN 1024
#define CAP (2 * MAXN + 2)
typedef struct Self Self; typedef struct Ctx StylesheetExecutionContext; typedef struct XS XStr;
typedef XalanDOMChar* XalanDOMString_iterator;
XalanDOMChar g_buf[CAP]; size_t g_len; size_t g_n; size_t g_w; bool g_written; XStr* g_str_p;
#define IDX(p) ((size_t)(__CPROVER_POINTER_OFFSET(p) / sizeof(XalanDOMChar)))
#define INBUF(p) (__CPROVER_same_object(p, &g_buf[0]) && __CPROVER_POINTER_OFFSET(p) % sizeof(XalanDOMChar) == 0 && IDX(p) < CAP)
#define NO_QG_AT(k) (!(g_buf[k] == 0x3F && g_buf[(k) + 1] == 0x3E))
static XalanDOMChar* xv_begin(XStr* s) { return &g_buf[0]; }
static XalanDOMChar* xv_end(XStr* s) { return &g_buf[g_len]; }
/* XalanDOMString::insert(iterator, char) (unit c20_string): the units before the position stay, the new unit is at the position, the unit
   that was there follows it; returns an iterator to the inserted unit.  Universal facts instantiated at g_w and next to the position. */
XalanDOMChar* xv_insert(XStr* s, XalanDOMChar* pos, XalanDOMChar c)
__CPROVER_requires(INBUF(pos) && IDX(pos) < g_len && g_len + 1 < CAP)
__CPROVER_requires(/* nothing but a space is inserted, and only between a question mark and the greater-than sign that follows it */ c == 0x20 && IDX(pos) > 0 && g_buf[IDX(pos) - 1] == 0x3F && g_buf[IDX(pos)] == 0x3E)
__CPROVER_assigns(g_len, __CPROVER_object_whole(g_buf))
__CPROVER_ensures(__CPROVER_pointer_in_range_dfcc(&g_buf[0], __CPROVER_return_value, &g_buf[CAP - 1]))
__CPROVER_ensures(__CPROVER_return_value == __CPROVER_old(pos) && g_len == __CPROVER_old(g_len) + 1)
__CPROVER_ensures(g_buf[IDX(__CPROVER_return_value)] == 0x20)
__CPROVER_ensures(g_buf[IDX(__CPROVER_return_value) - 1] == 0x3F)
__CPROVER_ensures(g_buf[IDX(__CPROVER_return_value) + 1] == 0x3E)
__CPROVER_ensures(g_w < IDX(__CPROVER_return_value) ==> g_buf[g_w] == __CPROVER_old(g_buf[g_w < CAP ? g_w : 0]))
__CPROVER_ensures(g_w + 1 < IDX(__CPROVER_return_value) ==> g_buf[g_w + 1] == __CPROVER_old(g_buf[g_w + 1 < CAP ? g_w + 1 : 0]))
__CPROVER_ensures(IDX(__CPROVER_return_value) + 2 < g_len ==> g_buf[IDX(__CPROVER_return_value) + 2] == __CPROVER_old(g_buf[IDX(pos) + 1 < CAP ? IDX(pos) + 1 : 0])) ;
/* XML 2.6: PI ::= '<?' PITarget (S (Char* - (Char* '?>' Char*)))? '?>' : the data that reaches the serializer has no "?>" (at the arbitrary index g_w) */
void xv_pi(StylesheetExecutionContext* e, XStr* s)
__CPROVER_requires(/* processing instruction data: no "?>" reaches the serializer */ g_w + 1 < g_len ==> NO_QG_AT(g_w))
__CPROVER_requires(/* at most one space per two original units was added */ g_len <= 2 * g_n)
__CPROVER_assigns(g_written) __CPROVER_ensures(g_written == true) ;
@@FN endElement@@
void h_pidata(void)
{
    size_t n, w; XalanDOMChar fill[CAP];
    __CPROVER_array_copy(g_buf, fill);
    g_n = n; g_len = n; g_w = w; g_written = false;
    endElement(0, 0);
}
'''
R = [(r'endChildrenToString\(executionContext\);', '', 1),
     (r'XalanDOMString&\s+piData =\s*executionContext\.getAndPopCachedString\(\);', 'XStr* const piData_p = g_str_p;', 1),
     (r'const XalanDOMString&\s+piName =\s*executionContext\.getAndPopCachedString\(\);', '', 1),
     (r'XalanDOMString::iterator', 'XalanDOMString_iterator', None),
     (r'piData\.end\(\)', 'xv_end(piData_p)', (1, 2)),
     (r'piData\.begin\(\)', 'xv_begin(piData_p)', 1),
     (r'piData\.insert\(\s*(\w+),\s*XalanUnicode::charSpace\)', r'xv_insert(piData_p, \1, XalanUnicode::charSpace)', 1),
     (r'executionContext\.processingInstruction\(\s*piName\.c_str\(\),\s*piData\.c_str\(\)\);', 'xv_pi(executionContext, piData_p);', 1),
     (r'executionContext\.popCopyTextNodesOnly\(\);', '', 1),
     'SCOPE']
INV = '''__CPROVER_assigns(theCurrent, theEnd, g_len, __CPROVER_object_whole(g_buf))
__CPROVER_loop_invariant(INBUF(theCurrent) && INBUF(theEnd) && IDX(theEnd) == g_len && IDX(theCurrent) <= g_len && g_len < CAP)
__CPROVER_loop_invariant(/* one space at most per unit already passed: room is left */ 2 * g_len <= 2 * g_n + IDX(theCurrent))
__CPROVER_loop_invariant(/* the part already passed has no "?>" (at the arbitrary index g_w) */ g_w + 1 < IDX(theCurrent) ==> NO_QG_AT(g_w))
__CPROVER_loop_invariant(/* a question mark just passed is not followed by a greater-than sign */ (IDX(theCurrent) > 0 && g_buf[IDX(theCurrent) - 1] == 0x3F && IDX(theCurrent) < g_len) ==> g_buf[IDX(theCurrent)] != 0x3E)
__CPROVER_decreases(g_len - IDX(theCurrent))'''
UNIT = Unit(
    name='c04_pidata',
    props=['C04'],
    blocks=[UNICODE_BLOCK],
    functions=[Fn(EP, r'^ElemPI::endElement\(StylesheetExecutionContext&\s+executionContext\) const', 'endElement', 'void endElement(const Self* self, StylesheetExecutionContext* executionContext)',
                  rules=R, nloops=1, reach=True, loops={0: INV},
                  contract='''__CPROVER_requires(g_n <= MAXN && g_len == g_n && g_written == false && g_w < CAP - 1)
__CPROVER_assigns(g_len, g_written, __CPROVER_object_whole(g_buf))
__CPROVER_ensures(g_written == true)''')],
    template=TEMPLATE,
    jobs=[Job('pidata', 'h_pidata', enforce=['endElement'], replace=['xv_insert', 'xv_pi'], loop_contracts=True, reach='all', timeout=900, min_obligations=6)],
    mutants=[
        Mutant('inserts_before_question_mark', EP, r'piData\.insert\(\s*theNext,', 'piData.insert(\n                        theCurrent,', expect=None),
        Mutant('last_pair_skipped', EP, r'if \(theNext != theEnd &&\s*\*theNext == XalanUnicode::charGreaterThanSign\)', 'if (theNext != theEnd && theNext + 1 != theEnd &&\n                *theNext == XalanUnicode::charGreaterThanSign)', expect=None),
    ],
    mechanisms=["comment '--' and PI '?>' repair before serialization"],
    assumptions=['XalanDOMString::insert(iterator, char) is a contract stub (c20_string proves insert against the vector model); endChildrenToString / processingInstruction() of the execution context are not under contract',
                 'strings of at most 1024 units (the staging array of the harness); that the PI target is a legal name is checked in ElemPI::startElement, not here'],
)
