"""C11 / C06: the cached string and number value of a node-set XObject (XNodeSetBase).  Representation invariant: the number cache is the
"not computed" sentinel or number(string value) of the node-set the object holds NOW.  num() answers under that invariant and keeps it;
clearCachedValues() - called when a recycled object is bound to another node-set - resets BOTH caches unconditionally (an empty node-set
caches NaN while its string cache stays empty, so "reset the number only when a string was cached" leaves a stale NaN behind)."""
from xvlib.unit import Fn, Job, Unit, Mutant

XN = 'src/xalanc/XPath/XNodeSetBase.cpp'
TEMPLATE = r'''
#include "xv_shim.h"
typedef struct Ctx Ctx;
typedef struct Self { double m_cachedNumberValue; } Self;
static const double theBogusNumberValue = 123456789;
/* ghost: the string cache (empty or not), the number of the current node-set's string value */
bool g_str_cached; double g_true_num; bool g_str_asked;
#define SAME(a, b) ((a) == (b) || ((a) != (a) && (b) != (b)))
#define INV(s) ((s)->m_cachedNumberValue == theBogusNumberValue || SAME((s)->m_cachedNumberValue, g_true_num))
bool xv_ds_equal(double a, double b) __CPROVER_requires(1) __CPROVER_assigns() __CPROVER_ensures(__CPROVER_return_value == (a == b)) ;      /* DoubleSupport::equal: unit c02_dsarith */
double xv_number_of_string_value(const Self* s, Ctx* c) __CPROVER_requires(1) __CPROVER_assigns(g_str_asked, g_str_cached) __CPROVER_ensures(g_str_asked == true && SAME(__CPROVER_return_value, g_true_num)) ;
void xv_string_cache_clear(Self* s) __CPROVER_requires(1) __CPROVER_assigns(g_str_cached) __CPROVER_ensures(g_str_cached == false) ;
bool xv_string_cache_empty(const Self* s) __CPROVER_requires(1) __CPROVER_assigns() __CPROVER_ensures(__CPROVER_return_value == !g_str_cached) ;
Self g_self;
@@FN num@@
@@FN clearCachedValues@@
void h_num(void) { double a, t; bool c; g_self.m_cachedNumberValue = a; g_true_num = t; g_str_cached = XV_BOOL(c); g_str_asked = false; num(&g_self, 0); }
void h_clearCachedValues(void) { double a, t; bool c; g_self.m_cachedNumberValue = a; g_true_num = t; g_str_cached = XV_BOOL(c); clearCachedValues(&g_self); }
'''
R = [(r'DoubleSupport::equal\(', 'xv_ds_equal(', (0, 2)),
     (r'DoubleSupport::toDouble\(\s*str\(executionContext\),\s*getMemoryManager\(\)\)', 'xv_number_of_string_value(self, executionContext)', (0, 1)),
     (r'm_cachedStringValue\.clear\(\);', 'xv_string_cache_clear(self);', (0, 1)),
     (r'm_cachedStringValue\.empty\(\)', 'xv_string_cache_empty(self)', (0, 2)),
     (r'(?<![\w.>])m_cachedNumberValue\b', 'self->m_cachedNumberValue', (0, 6))]
UNIT = Unit(
    name='c11_nodesetcache',
    props=['C11', 'C06'],
    functions=[
        Fn(XN, r'^XNodeSetBase::num\(XPathExecutionContext&\s+executionContext\) const', 'num', 'double num(Self* self, Ctx* executionContext)', rules=R, nloops=0,
           contract='''__CPROVER_requires(self == &g_self && INV(self))
__CPROVER_assigns(self->m_cachedNumberValue, g_str_asked, g_str_cached)
__CPROVER_ensures(/* number(node-set) = number(string(node-set)), cached or not */ SAME(__CPROVER_return_value, g_true_num) && INV(self))'''),
        Fn(XN, r'^XNodeSetBase::clearCachedValues\(\)', 'clearCachedValues', 'void clearCachedValues(Self* self)', rules=R, nloops=0,
           contract='''__CPROVER_requires(self == &g_self)
__CPROVER_assigns(self->m_cachedNumberValue, g_str_cached)
__CPROVER_ensures(/* both caches are empty afterwards, whatever they held (the object is about to hold another node-set) */ self->m_cachedNumberValue == theBogusNumberValue && g_str_cached == false)'''),
    ],
    template=TEMPLATE,
    jobs=[Job('num', 'h_num', enforce=['num'], replace=['xv_ds_equal', 'xv_number_of_string_value'], reach='all', timeout=120, min_obligations=3),
          Job('clearCachedValues', 'h_clearCachedValues', enforce=['clearCachedValues'], replace=['xv_string_cache_clear', 'xv_string_cache_empty'], reach='all', timeout=120, min_obligations=2)],
    mutants=[
        Mutant('number_cache_reset_only_with_string', XN, r'    m_cachedNumberValue = theBogusNumberValue;\n\n    m_cachedStringValue\.clear\(\);', '    if (m_cachedStringValue.empty() == false)\n    {\n        m_cachedNumberValue = theBogusNumberValue;\n\n        m_cachedStringValue.clear();\n    }', expect='both caches'),
        Mutant('num_never_caches_but_returns_cache', XN, r'        m_cachedNumberValue =\s*DoubleSupport::toDouble\(\s*str\(executionContext\),\s*getMemoryManager\(\)\);', '        DoubleSupport::toDouble(\n                str(executionContext),\n                getMemoryManager());', expect=None),
    ],
    mechanisms=['node-set XObject value caches (recycled by XObjectFactoryDefault)'],
    assumptions=['the sentinel value 123456789 is repeated in the template (the static const of the .cpp is not extracted); a node-set whose number IS the sentinel is simply recomputed',
                 'str(executionContext) followed by DoubleSupport::toDouble is one stub returning number(string value) of the current node-set; DoubleSupport::equal is IEEE == (unit c02_dsarith)'],
)
