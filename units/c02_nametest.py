"""C02 (XPath 1.0 2.3 node tests): the name tests of XPath::NodeTester compare EXPANDED names.  An unprefixed test `name` matches a node of
the principal node type whose local name is `name` and whose namespace URI is null - not a node that merely has no prefix (an element put
into a namespace by xmlns="..." has no prefix but has a namespace); `p:name` matches local name and the URI bound to p; `p:*` the URI only."""
from xvlib.unit import Fn, Job, Unit, Mutant

XP = 'src/xalanc/XPath/XPath.cpp'
TEMPLATE = r'''
#include "xv_shim.h"
typedef struct XalanNode XalanNode; typedef struct XalanNode XalanElement; typedef struct XalanDOMString XalanDOMString; typedef int XalanNode_NodeType; typedef int eMatchScore;
enum { eMatchScoreNone = 0, eMatchScoreNodeTest, eMatchScoreNSWild, eMatchScoreQName, eMatchScoreOther };
enum { XalanNode_ELEMENT_NODE = 1, XalanNode_ATTRIBUTE_NODE = 2 };
typedef struct Self { const XalanDOMString* m_targetNamespace; const XalanDOMString* m_targetLocalName; } Self;
/* ghost: facts about the node: its namespace URI is empty / equals the target URI, its local name equals the target local name, its prefix is empty, it is a namespace declaration */
bool g_uri_empty, g_uri_is_target, g_local_is_target, g_prefix_empty, g_is_nsdecl;
XalanDOMString g_ns_str, g_local_str;
bool xv_uri_empty(const XalanNode* n) __CPROVER_requires(n != 0) __CPROVER_assigns() __CPROVER_ensures(__CPROVER_return_value == g_uri_empty) ;
bool xv_prefix_empty(const XalanNode* n) __CPROVER_requires(n != 0) __CPROVER_assigns() __CPROVER_ensures(__CPROVER_return_value == g_prefix_empty) ;
bool xv_uri_equals(const XalanNode* n, const XalanDOMString* s) __CPROVER_requires(n != 0 && s == &g_ns_str) __CPROVER_assigns() __CPROVER_ensures(__CPROVER_return_value == g_uri_is_target) ;
bool xv_local_equals(const XalanNode* n, const XalanDOMString* s) __CPROVER_requires(n != 0 && s == &g_local_str) __CPROVER_assigns() __CPROVER_ensures(__CPROVER_return_value == g_local_is_target) ;
bool xv_is_nsdecl(const XalanNode* n) __CPROVER_requires(n != 0) __CPROVER_assigns() __CPROVER_ensures(__CPROVER_return_value == g_is_nsdecl) ;
Self g_self;
@@FN matchLocalName@@
@@FN matchLocalNameAndNamespaceURI@@
@@FN matchNamespaceURI@@
@@FN testElementNCName@@
@@FN testAttributeNCName@@
@@FN testElementQName@@
@@FN testElementNCName2@@
@@FN testElementQName2@@
static void xv_world(void) { bool a, b, c, d, e; g_uri_empty = XV_BOOL(a); g_uri_is_target = XV_BOOL(b); g_local_is_target = XV_BOOL(c); g_prefix_empty = XV_BOOL(d); g_is_nsdecl = XV_BOOL(e); g_self.m_targetNamespace = &g_ns_str; g_self.m_targetLocalName = &g_local_str; }
void h_testElementNCName(void) { xv_world(); g_self.m_targetNamespace = 0; const XalanNode* n; int t; __CPROVER_assume(n != 0); testElementNCName(&g_self, n, t); }
void h_testAttributeNCName(void) { xv_world(); g_self.m_targetNamespace = 0; const XalanNode* n; int t; __CPROVER_assume(n != 0); testAttributeNCName(&g_self, n, t); }
void h_testElementQName(void) { xv_world(); const XalanNode* n; int t; __CPROVER_assume(n != 0); testElementQName(&g_self, n, t); }
void h_testElementNCName2(void) { xv_world(); g_self.m_targetNamespace = 0; const XalanNode* n; __CPROVER_assume(n != 0); testElementNCName2(&g_self, n); }
void h_testElementQName2(void) { xv_world(); const XalanNode* n; __CPROVER_assume(n != 0); testElementQName2(&g_self, n); }
'''
R = [(r'context\.getNamespaceURI\(\)\.empty\(\) == true', 'xv_uri_empty(context)', (0, 1)),
     (r'context\.getPrefix\(\)\.empty\(\) == true', 'xv_prefix_empty(context)', (0, 1)),
     (r'context\.getNamespaceURI\(\) == \*m_targetNamespace', 'xv_uri_equals(context, self->m_targetNamespace)', (0, 1)),
     (r'DOMServices::getLocalNameOfNode\(context\) == \*m_targetLocalName', 'xv_local_equals(context, self->m_targetLocalName)', (0, 1)),
     (r'(?<![\w.>:])isNamespaceDeclaration\(context\)', 'xv_is_nsdecl(context)', (0, 1)),
     (r'(?<![\w.>])(matchLocalName|matchLocalNameAndNamespaceURI|matchNamespaceURI)\(context\)', r'\1(self, context)', (0, 1)),
     (r'XalanNode::(ELEMENT_NODE|ATTRIBUTE_NODE)', r'XalanNode_\1', (0, 2)),
     (r'(?<![\w.>])(m_targetNamespace|m_targetLocalName)\b', r'self->\1', (0, 4))]
PRE = '__CPROVER_requires(self == &g_self && self->m_targetNamespace == %s && self->m_targetLocalName == &g_local_str && context != 0)\n__CPROVER_assigns()\n'
NC = '(g_uri_empty == true && g_local_is_target == true)'
QN = '(g_uri_is_target == true && g_local_is_target == true)'


def helper(name):
    return Fn(XP, r'^XPath::NodeTester::%s\(const XalanNode&\s+context\) const' % name, name, 'static bool %s(const Self* self, const XalanNode* context)' % name, rules=R, nloops=0, reach=False)


def tester(name, two, cond, kind):
    sig = r'^XPath::NodeTester::%s\(const XalanElement&\s+context\) const' % name if two else r'^XPath::NodeTester::%s\(\s*const XalanNode&\s+context,\s*XalanNode::NodeType\s+nodeType\) const' % name
    head = 'eMatchScore %s(const Self* self, const XalanNode* context%s)' % (name, '' if two else ', XalanNode_NodeType nodeType')
    typ = '1' if two else 'nodeType == XalanNode_%s' % kind
    extra = ' && g_is_nsdecl == false' if kind == 'ATTRIBUTE_NODE' else ''
    return Fn(XP, sig, name, head, rules=R, nloops=0,
              contract=PRE % ('0' if cond is NC else '&g_ns_str') + '__CPROVER_ensures(/* %s */ __CPROVER_return_value == ((%s%s && %s) ? eMatchScoreQName : eMatchScoreNone))' % (
                  'an unprefixed name test matches the local name in NO namespace' if cond is NC else 'a prefixed name test matches local name and namespace URI', typ, extra, cond))


UNIT = Unit(
    name='c02_nametest',
    props=['C02', 'C13'],
    functions=[helper('matchLocalName'), helper('matchLocalNameAndNamespaceURI'), helper('matchNamespaceURI'),
               tester('testElementNCName', False, NC, 'ELEMENT_NODE'), tester('testAttributeNCName', False, NC, 'ATTRIBUTE_NODE'), tester('testElementQName', False, QN, 'ELEMENT_NODE'),
               tester('testElementNCName2', True, NC, 'ELEMENT_NODE'), tester('testElementQName2', True, QN, 'ELEMENT_NODE')],
    template=TEMPLATE,
    jobs=[Job(n, 'h_' + n, enforce=[n], replace=['xv_uri_empty', 'xv_prefix_empty', 'xv_uri_equals', 'xv_local_equals', 'xv_is_nsdecl'], reach=['entry:' + n], timeout=120, min_obligations=2)
          for n in ('testElementNCName', 'testAttributeNCName', 'testElementQName', 'testElementNCName2', 'testElementQName2')],
    mutants=[
        Mutant('no_prefix_taken_for_no_namespace', XP, r'(XPath::NodeTester::matchLocalName\(const XalanNode&  context\) const\s*\{\s*assert\(m_targetLocalName != 0\);\s*return )context\.getNamespaceURI\(\)\.empty\(\) == true', r'\1context.getPrefix().empty() == true', expect='NO namespace'),
        Mutant('qname_ignores_namespace', XP, r'return DOMServices::getLocalNameOfNode\(context\) == \*m_targetLocalName &&\s*context\.getNamespaceURI\(\) == \*m_targetNamespace;', 'return DOMServices::getLocalNameOfNode(context) == *m_targetLocalName;', expect='prefixed name test'),
    ],
    mechanisms=['XPath name tests (also the name tests of xsl:strip-space / xsl:preserve-space: testElement*2)'],
    assumptions=['string comparisons (namespace URI / local name against the target) are stubs returning ghost facts about the node; DOMServices::getLocalNameOfNode and XalanNode::getNamespaceURI / getPrefix are the DOM accessors'],
)
