"""C08 (HTML specifics): FormatterToHTML::processAttribute.  An attribute is written in the minimised form (name only) exactly when it is a
boolean attribute of that element AND its value is empty or equals its name; every other attribute is written as name="value" with the value
escaped as a URI (URL attributes) or as an attribute string.  Minimising a non-boolean attribute changes the value an HTML parser sees."""
from xvlib.unit import Fn, Job, Unit, Mutant
from xvlib.common import UNICODE_BLOCK

FH = 'src/xalanc/XMLSupport/FormatterToHTML.cpp'
TEMPLATE = r'''
#include "xv_shim.h"
@@BLOCK XalanUnicode@@
typedef struct Self Self; typedef struct Props ElementProperties;
enum { ATTREMPTY = 1, ATTRURL = 2 };
size_t g_nlen, g_vlen; bool g_value_is_name, g_is_boolean, g_is_url; int g_step; bool g_minimised, g_value_written, g_as_uri;
size_t xv_length(const XalanDOMChar* s, bool isname) __CPROVER_requires(1) __CPROVER_assigns() __CPROVER_ensures(__CPROVER_return_value == (isname ? g_nlen : g_vlen)) ;
bool xv_equalsIgnoreCase(const XalanDOMChar* a, size_t al, const XalanDOMChar* b, size_t bl) __CPROVER_requires(al == g_nlen && bl == g_vlen) __CPROVER_assigns()
__CPROVER_ensures(__CPROVER_return_value == g_value_is_name && (__CPROVER_return_value == true ==> g_nlen == g_vlen)) ;
bool xv_isAttribute(const ElementProperties* p, const XalanDOMChar* name, int flag) __CPROVER_requires(flag == ATTREMPTY || flag == ATTRURL) __CPROVER_assigns()
__CPROVER_ensures(__CPROVER_return_value == (flag == ATTREMPTY ? g_is_boolean : g_is_url)) ;
/* output protocol: ' ' name [ '=' '"' value '"' ] */
void xv_out_space(Self* s) __CPROVER_requires(g_step == 0) __CPROVER_assigns(g_step) __CPROVER_ensures(g_step == 1) ;
void xv_out_name(Self* s) __CPROVER_requires(g_step == 1) __CPROVER_assigns(g_step) __CPROVER_ensures(g_step == 2) ;
void xv_out_literal(Self* s, XalanDOMChar c)
__CPROVER_requires((g_step == 2 && c == 0x3D) || (g_step == 3 && c == 0x22) || (g_step == 5 && c == 0x22)) __CPROVER_assigns(g_step) __CPROVER_ensures(g_step == __CPROVER_old(g_step) + 1) ;
void xv_out_value(Self* s, bool uri) __CPROVER_requires(g_step == 4) __CPROVER_assigns(g_step, g_value_written, g_as_uri) __CPROVER_ensures(g_step == 5 && g_value_written == true && g_as_uri == uri) ;
@@FN processAttribute@@
void h_processAttribute(void)
{ size_t a, b; bool x, y, z; g_nlen = a; g_vlen = b; g_value_is_name = XV_BOOL(x); g_is_boolean = XV_BOOL(y); g_is_url = XV_BOOL(z); g_step = 0; g_value_written = false; g_as_uri = false;
  processAttribute(0, 0, 0, 0); }
'''
R = [(r'const size_type\s+nameLength = length\(name\);', 'const size_t nameLength = xv_length(name, true);', 1),
     (r'const size_type\s+valueLength = length\(value\);', 'const size_t valueLength = xv_length(value, false);', 1),
     (r'accumContent\(XalanUnicode::charSpace\);', 'xv_out_space(self);', 1),
     (r'equalsIgnoreCaseASCII\(name, nameLength, value, valueLength\)', 'xv_equalsIgnoreCase(name, nameLength, value, valueLength)', 1),
     (r'elemProperties\.isAttribute\(name, XalanHTMLElementsProperties::(ATTR\w+)\)', r'xv_isAttribute(elemProperties, name, \1)', 2),
     (r'accumName\(name(?:, 0, nameLength)?\);', 'xv_out_name(self);', 2),
     (r'accumContent\((XalanUnicode::char\w+)\);', r'xv_out_literal(self, \1);', 3),
     (r'writeAttrURI\(value, valueLength\);', 'xv_out_value(self, true);', (0, 1)),
     (r'writeAttrString\(value, valueLength\);', 'xv_out_value(self, false);', (0, 1)),
     'SCOPE']
UNIT = Unit(
    name='c08_htmlattr',
    props=['C08'],
    blocks=[UNICODE_BLOCK],
    functions=[Fn(FH, r'^FormatterToHTML::processAttribute\(', 'processAttribute', 'void processAttribute(Self* self, const XalanDOMChar* name, const XalanDOMChar* value, const ElementProperties* elemProperties)',
                  rules=R, nloops=0,
                  contract='''__CPROVER_requires(g_step == 0 && g_value_written == false && (g_value_is_name == true ==> g_nlen == g_vlen))
__CPROVER_assigns(g_step, g_value_written, g_as_uri)
__CPROVER_ensures(/* HTML attribute minimisation: only a boolean attribute of the element whose value is empty or its own name is written as the bare name */
    (g_step == 2) == (g_is_boolean == true && (g_vlen == 0 || g_value_is_name == true)))
__CPROVER_ensures(/* every other attribute is written in full: space name = quote value quote, URL attributes through the URI escaper */
    g_step != 2 ==> (g_step == 6 && g_value_written == true && g_as_uri == g_is_url))''')],
    template=TEMPLATE,
    jobs=[Job('processAttribute', 'h_processAttribute', enforce=['processAttribute'],
              replace=['xv_length', 'xv_equalsIgnoreCase', 'xv_isAttribute', 'xv_out_space', 'xv_out_name', 'xv_out_literal', 'xv_out_value'], reach='all', timeout=120, min_obligations=4)],
    mutants=[
        Mutant('minimise_any_name_valued', FH, r'if\(\(valueLength == 0 \|\| equalsIgnoreCaseASCII\(name, nameLength, value, valueLength\)\) &&\s*elemProperties\.isAttribute\(name, XalanHTMLElementsProperties::ATTREMPTY\) == true\)',
               'if(equalsIgnoreCaseASCII(name, nameLength, value, valueLength) ||\n       (valueLength == 0 &&\n        elemProperties.isAttribute(name, XalanHTMLElementsProperties::ATTREMPTY) == true))', expect='minimisation'),
        Mutant('url_attr_as_string', FH, r'if\(elemProperties\.isAttribute\(name, XalanHTMLElementsProperties::ATTRURL\) == true\)', 'if(elemProperties.isAttribute(name, XalanHTMLElementsProperties::ATTRURL) == false)', expect='written in full'),
    ],
    mechanisms=['HTML specifics: META insertion, raw script/style, attribute URI escaping, boolean attributes'],
    assumptions=['the table of boolean / URL attributes per element (XalanHTMLElementsProperties) is not under contract',
                 'writeAttrURI is unit c08_attruri; writeAttrString (HTML flavour) is not under contract'],
)
