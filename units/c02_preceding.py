from xvlib.unit import Fn, Job, Unit, Mutant, Block

EN = 'src/xalanc/XSLT/ElemNumber.cpp'
XP = 'src/xalanc/XPath/XPath.cpp'

ISPARENT = Block(XP, r'^\s*bool\s+isParent = false;', 'isparent', end=r'parent = [^;]*;\s*\}',
                 rules=['SCOPE', (r'DOMServices_getParentOfNode\(\*(\w+)\)', r'xv_xpath_parent(\1)', (0, 3)),
                        (r'(\w+)->getParentNode\(\)', r'xv_dom_parent(\1)', (0, 3))],
                 loops={0: '''
__CPROVER_assigns(parent, isParent, g_depth_walked)
__CPROVER_loop_invariant(isParent == false && g_depth_walked >= 1 && g_depth_walked <= g_depth + 1)
__CPROVER_loop_invariant(parent == (g_depth_walked <= g_depth ? g_anc[g_depth_walked - 1] : (XalanNode*)0) && (g_depth_walked <= g_depth ==> parent != 0))
__CPROVER_loop_invariant(g_w + 1 < g_depth_walked ==> g_anc[g_w] != pos)
__CPROVER_decreases(g_depth + 1 - g_depth_walked)
'''}, nloops=1)

TEMPLATE = r'''
#include "xv_shim.h"
typedef struct XalanNode XalanNode; typedef struct Ctx StylesheetExecutionContext; typedef struct XPath XPath; typedef struct Self Self;
enum { XPath_eMatchScoreNone = 0 };
#define MAXD 1000000
/* ghost: the XPath ancestor chain of the context node: g_anc[0] its parent (for an attribute: the owner element), ... g_anc[g_depth-1] the root */
XalanNode** g_anc; size_t g_depth; size_t g_depth_walked; size_t g_w; XalanNode* g_context; bool g_context_is_attribute;
/* DOMServices::getParentOfNode: the XPath parent (owner element for attributes): walks the ghost chain */
XalanNode* xv_xpath_parent(const XalanNode* n)
__CPROVER_requires((g_depth_walked == 0 && n == g_context) || (g_depth_walked >= 1 && g_depth_walked <= g_depth && n == g_anc[g_depth_walked - 1]))
__CPROVER_assigns(g_depth_walked)
__CPROVER_ensures(g_depth_walked == __CPROVER_old(g_depth_walked) + 1 && __CPROVER_return_value == (__CPROVER_old(g_depth_walked) < g_depth ? g_anc[__CPROVER_old(g_depth_walked)] : (XalanNode*)0) && (__CPROVER_old(g_depth_walked) < g_depth ==> __CPROVER_return_value != 0)) ;
/* XalanNode::getParentNode: the DOM parent, which is null for attribute nodes: XPath code walking ancestors of a node that may be
   an attribute must use DOMServices::getParentOfNode */
XalanNode* xv_dom_parent(const XalanNode* n)
__CPROVER_requires(/* the raw DOM parent is only asked of nodes known not to be attributes */ !(n == g_context && g_context_is_attribute))
__CPROVER_requires((g_depth_walked == 0 && n == g_context) || (g_depth_walked >= 1 && g_depth_walked <= g_depth && n == g_anc[g_depth_walked - 1]))
__CPROVER_assigns(g_depth_walked)
__CPROVER_ensures(g_depth_walked == __CPROVER_old(g_depth_walked) + 1 && __CPROVER_return_value == (__CPROVER_old(g_depth_walked) < g_depth ? g_anc[__CPROVER_old(g_depth_walked)] : (XalanNode*)0) && (__CPROVER_old(g_depth_walked) < g_depth ==> __CPROVER_return_value != 0)) ;

/* the ancestor test of XPath::findPreceeding (preceding axis excludes ancestors), cut out of the function as a block */
bool is_ancestor_of_context(XalanNode* context, XalanNode* pos)
__CPROVER_requires(g_depth <= MAXD && __CPROVER_is_fresh(g_anc, (g_depth + 1) * sizeof(void*)) && context == g_context && g_depth_walked == 0 && pos != 0 && g_w < g_depth + 1)
__CPROVER_assigns(g_depth_walked)
__CPROVER_ensures(/* preceding axis: a node is excluded as an ancestor iff it is on the XPath ancestor chain of the context node (owner element included for attribute contexts) -- ghost witness over the chain */
    (__CPROVER_return_value == true ==> (g_depth_walked >= 1 && g_depth_walked <= g_depth && g_anc[g_depth_walked - 1] == pos)) &&
    (__CPROVER_return_value == false ==> (g_w < g_depth ==> g_anc[g_w] != pos)) && (__CPROVER_return_value == true || __CPROVER_return_value == false))
{
    XV_REACH("entry:is_ancestor_of_context");
@@BLOCK isparent@@
    XV_REACH("exit:is_ancestor_of_context");
    return isParent;
}
void h_isparent(void) { XalanNode** a; size_t d, w, k; XalanNode* c; bool at; g_anc = a; g_depth = d; g_w = w; g_depth_walked = k; g_context = c; g_context_is_attribute = XV_BOOL(at); XalanNode* p; is_ancestor_of_context(c, p); }
'''

UNIT = Unit(
    name='c02_preceding',
    props=['C02'],
    blocks=[ISPARENT],
    functions=[],
    template=TEMPLATE,
    jobs=[Job('isparent', 'h_isparent', enforce=['is_ancestor_of_context'], replace=['xv_xpath_parent', 'xv_dom_parent'], loop_contracts=True,
              reach=['entry:is_ancestor_of_context', 'exit:is_ancestor_of_context'], timeout=300)],
    mutants=[Mutant('dom_parent', XP, r'XalanNode\*\s+parent = DOMServices::getParentOfNode\(\*context\);', 'XalanNode*  parent = context->getParentNode();', expect='raw DOM parent')],
    mechanisms=['location steps per axis; reverse axes collected in reverse document order'],
    assumptions=['DOMServices::getParentOfNode is the XPath parent function; XalanNode::getParentNode() returns null for attributes (DOM)',
                 'only the ancestor-exclusion test of findPreceeding is under contract (block extraction); the tree walk itself is not'],
)
