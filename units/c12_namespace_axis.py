"""C12: XPath::findNamespace flags its result as document-ordered.  Proved: the namespace nodes are collected in strictly
descending document order (element by element upwards, and within one element from the last attribute to the first), so
that reverse() yields document order before setDocumentOrder() is called; duplicates of a prefix are never added twice."""
from xvlib.unit import Fn, Job, Unit, Mutant

XP = 'src/xalanc/XPath/XPath.cpp'

TEMPLATE = r'''
#include "xv_shim.h"
typedef struct XalanNode XalanNode; typedef struct Map XalanNamedNodeMap; typedef struct Ctx XPathExecutionContext; typedef struct List MutableNodeRefList;
typedef int OpCodeMapPositionType; typedef int OpCodeMapValueType; typedef int eMatchScore; typedef size_t NodeRefListBase_size_type; typedef size_t XalanSize_t;
enum { eMatchScoreNone = 0 }; enum { XalanNode_ELEMENT_NODE = 1, XalanNode_ATTRIBUTE_NODE = 2 };
enum { NAME_XMLNS = 1 };     /* node names and values by identity; value 0 is the empty string */
/* ghost: the attribute fetched last (its index in its element's attribute map), the node added last, whether it came from the element now being
   scanned; how many were added; the order state of the list */
int g_cur_name, g_cur_value; bool g_default_seen, g_default_seen_before;   /* default-namespace declarations (xmlns=...) that passed the node test, nearest first */
const XalanNode* g_cur_attr; size_t g_cur_index; bool g_any_added, g_last_same_element; size_t g_last_index; size_t g_count; bool g_reversed, g_flagged;
int xv_arg_len(OpCodeMapPositionType p) __CPROVER_requires(1) __CPROVER_assigns() __CPROVER_ensures(__CPROVER_return_value >= 0 && __CPROVER_return_value < 1000) ;
int xv_node_type(const XalanNode* n) __CPROVER_requires(n != 0) __CPROVER_assigns() __CPROVER_ensures(1) ;
const XalanNode* xv_owner_document(const XalanNode* n) __CPROVER_requires(n != 0) __CPROVER_assigns() __CPROVER_ensures(__CPROVER_return_value != 0) ;
const XalanNamedNodeMap* xv_attributes(const XalanNode* n) __CPROVER_requires(n != 0) __CPROVER_assigns() __CPROVER_ensures(1) ;
size_t xv_attr_count(const XalanNamedNodeMap* m) __CPROVER_requires(m != 0) __CPROVER_assigns() __CPROVER_ensures(1) ;
XalanNode* xv_attr_item(const XalanNamedNodeMap* m, size_t i) __CPROVER_requires(m != 0) __CPROVER_assigns(g_cur_attr, g_cur_index)
__CPROVER_ensures(__CPROVER_return_value != 0 && g_cur_attr == __CPROVER_return_value && g_cur_index == i) ;
int xv_node_name(const XalanNode* n) __CPROVER_requires(n != 0) __CPROVER_assigns(g_cur_name) __CPROVER_ensures(g_cur_name == __CPROVER_return_value) ;
int xv_node_value(const XalanNode* n) __CPROVER_requires(n != 0) __CPROVER_assigns(g_cur_value) __CPROVER_ensures(g_cur_value == __CPROVER_return_value) ;
bool xv_is_ns_decl(int name) __CPROVER_requires(1) __CPROVER_assigns() __CPROVER_ensures(name == NAME_XMLNS ==> __CPROVER_return_value == true) ;
eMatchScore xv_test(const XalanNode* attr) __CPROVER_requires(attr != 0 && attr == g_cur_attr) __CPROVER_assigns(g_default_seen, g_default_seen_before)
__CPROVER_ensures(g_default_seen_before == __CPROVER_old(g_default_seen) && g_default_seen == (__CPROVER_old(g_default_seen) || (g_cur_name == NAME_XMLNS && __CPROVER_return_value != eMatchScoreNone))) ;
int xv_result_name(const MutableNodeRefList* l, size_t i) __CPROVER_requires(/* the duplicate scan stays inside the nodes found so far */ i < g_count) __CPROVER_assigns() __CPROVER_ensures(1) ;
/* the element above: an ancestor precedes everything below it in document order, so whatever is added next is earlier than all nodes added so far */
const XalanNode* xv_parent(const XalanNode* n) __CPROVER_requires(n != 0) __CPROVER_assigns(g_last_same_element) __CPROVER_ensures(g_last_same_element == false) ;
void xv_add_node(MutableNodeRefList* l, const XalanNode* n)
__CPROVER_requires(n != 0 && n == g_cur_attr && g_reversed == false && g_flagged == false)
__CPROVER_requires(/* XPath 5.4: the default namespace of an element is the NEAREST xmlns declaration; xmlns="" undeclares it (no node), and no declaration further out counts once one was seen */
    g_cur_name == NAME_XMLNS ==> (g_cur_value != 0 && g_default_seen_before == false))
__CPROVER_requires(/* nodes are collected in strictly descending document order: within one element from the last attribute to the first */
    !(g_any_added == true && g_last_same_element == true) || g_cur_index < g_last_index)
__CPROVER_assigns(g_any_added, g_last_same_element, g_last_index, g_count)
__CPROVER_ensures(g_any_added == true && g_last_same_element == true && g_last_index == g_cur_index && g_count == __CPROVER_old(g_count) + 1) ;
void xv_reverse(MutableNodeRefList* l) __CPROVER_requires(g_reversed == false && g_flagged == false) __CPROVER_assigns(g_reversed) __CPROVER_ensures(g_reversed == true) ;
void xv_set_document_order(MutableNodeRefList* l)
__CPROVER_requires(/* a list collected in descending order is flagged document-ordered only after it has been reversed */ g_reversed == true)
__CPROVER_assigns(g_flagged) __CPROVER_ensures(g_flagged == true) ;

@@FN findNamespace@@
void h_findNamespace(void)
{
    g_cur_attr = 0; size_t a, b; g_cur_index = a; g_last_index = b; g_any_added = false; g_last_same_element = false; g_count = 0; g_reversed = false; g_flagged = false; g_default_seen = false; g_default_seen_before = false;
    XalanNode* c; int p, s; findNamespace(0, c, p, s, 0);
}
'''

R = [(r'assert\(subQueryResults\.empty\(\) == true\);', '', 1),
     (r'const XPathExpression&\s+currentExpression = getExpression\(\);', '', 1),
     (r'currentExpression\.getOpCodeArgumentLength\(opPos\)', 'xv_arg_len(opPos)', 1),
     (r'context->getNodeType\(\)', 'xv_node_type(context)', 1),
     (r'context->getOwnerDocument\(\)', 'xv_owner_document(context)', 1),
     (r'const NodeTester\s+theTester\(.*?\);', '', 1),
     (r'theCurrentNode->getAttributes\(\)', 'xv_attributes(theCurrentNode)', 1),
     (r'attributeList->getLength\(\)', 'xv_attr_count(attributeList)', 1),
     (r'attributeList->item\((\w+)\)', r'xv_attr_item(attributeList, \1)', 1),
     (r'assert\(attr != 0 && attr->getNodeType\(\) == XalanNode::ATTRIBUTE_NODE\);', 'assert(attr != 0);', 1),
     (r'const XalanDOMString&\s+theNodeName = attr->getNodeName\(\);', 'const int theNodeName = xv_node_name(attr);', 1),
     (r'startsWith\(theNodeName, DOMServices::s_XMLNamespaceWithSeparator\) == true \|\|\s*theNodeName == DOMServices::s_XMLNamespace', 'xv_is_ns_decl(theNodeName)', 1),
     (r'theNodeName == DOMServices::s_XMLNamespace', '(theNodeName == NAME_XMLNS)', 1),
     (r'theTester\(\*attr, XalanNode::ATTRIBUTE_NODE\)', 'xv_test(attr)', 1),
     (r'const XalanDOMString&\s+theNodeValue = attr->getNodeValue\(\);', 'const int theNodeValue = xv_node_value(attr);', 1),
     (r'theNodeValue == DOMServices::s_emptyString', 'theNodeValue == 0', (0, 1)),
     (r'theNodeValue\.empty\(\) == true', '(theNodeValue == 0)', (0, 1)),
     (r'subQueryResults\.item\(lstIndex\)->getNodeName\(\) == theNodeName', 'xv_result_name(subQueryResults, lstIndex) == theNodeName', 1),
     (r'subQueryResults\.addNode\(attr\);', 'xv_add_node(subQueryResults, attr);', 1),
     (r'theCurrentNode->getParentNode\(\)', 'xv_parent(theCurrentNode)', 1),
     (r'subQueryResults\.reverse\(\);', 'xv_reverse(subQueryResults);', (0, 1)),
     (r'subQueryResults\.setDocumentOrder\(\);', 'xv_set_document_order(subQueryResults);', (0, 1)),
     (r'subQueryResults\.setReverseDocumentOrder\(\);', 'xv_set_reverse_document_order(subQueryResults);', (0, 1)),
     'SCOPE']

GHOST = 'g_cur_attr, g_cur_index, g_any_added, g_last_same_element, g_last_index, g_count, g_cur_name, g_cur_value, g_default_seen, g_default_seen_before'
L_OUTER = '''__CPROVER_assigns(theCurrentNode, nNSFound, defaultNSFound, %s)
__CPROVER_loop_invariant((defaultNSFound == true || defaultNSFound == false) && defaultNSFound == g_default_seen && theCurrentNode != 0 && nNSFound == g_count && g_reversed == false && g_flagged == false && (g_any_added == true || g_any_added == false))
__CPROVER_loop_invariant(/* nothing found so far came from the element about to be scanned */ g_last_same_element == false)''' % GHOST
L_ATTRS = '''__CPROVER_assigns(nAttrs, nNSFound, defaultNSFound, %s)
__CPROVER_loop_invariant((defaultNSFound == true || defaultNSFound == false) && defaultNSFound == g_default_seen && nNSFound == g_count && g_reversed == false && g_flagged == false && (g_any_added == true || g_any_added == false) && (g_last_same_element == true || g_last_same_element == false))
__CPROVER_loop_invariant(/* every node found in this element has an index not below the attributes still to be scanned */ (g_any_added == true && g_last_same_element == true) ==> g_last_index >= nAttrs)
__CPROVER_decreases(nAttrs)''' % GHOST
L_DEDUPE = '''__CPROVER_assigns(lstIndex, foundNSMatch)
__CPROVER_loop_invariant(lstIndex <= nNSFound)
__CPROVER_decreases(nNSFound - lstIndex)'''

UNIT = Unit(
    name='c12_namespace_axis',
    props=['C12', 'C02'],
    functions=[Fn(XP, r'^XPath::findNamespace\(', 'findNamespace',
                  'OpCodeMapPositionType findNamespace(XPathExecutionContext* executionContext, XalanNode* context, OpCodeMapPositionType opPos, OpCodeMapValueType stepType, MutableNodeRefList* subQueryResults)',
                  rules=R, nloops=3, loops={0: L_OUTER, 1: L_ATTRS, 2: L_DEDUPE},
                  contract='''__CPROVER_requires(context != 0 && opPos >= 0 && opPos < 100000000)
__CPROVER_requires(g_any_added == false && g_last_same_element == false && g_count == 0 && g_reversed == false && g_flagged == false && g_default_seen == false)
__CPROVER_assigns(g_cur_name, g_cur_value, g_default_seen, g_default_seen_before, g_cur_attr, g_cur_index, g_any_added, g_last_same_element, g_last_index, g_count, g_reversed, g_flagged)
__CPROVER_ensures(/* the result of the namespace axis is flagged document-ordered, after the descending collection was reversed */ g_flagged == true && g_reversed == true)''')],
    template=TEMPLATE,
    jobs=[Job('findNamespace', 'h_findNamespace', enforce=['findNamespace'],
              replace=['xv_arg_len', 'xv_node_type', 'xv_owner_document', 'xv_attributes', 'xv_attr_count', 'xv_attr_item', 'xv_node_name', 'xv_node_value', 'xv_is_ns_decl', 'xv_test',
                       'xv_result_name', 'xv_parent', 'xv_add_node', 'xv_reverse', 'xv_set_document_order'],
              loop_contracts=True, reach='all', timeout=1500, min_obligations=10)],
    mutants=[
        Mutant('empty_default_does_not_shadow', XP, r'foundNSMatch = defaultNSFound \|\|\s*\(theNodeValue == DOMServices::s_emptyString\);\s*defaultNSFound = true;', 'if (theNodeValue == DOMServices::s_emptyString)\n                                {\n                                    foundNSMatch = true;\n                                }\n                                else\n                                {\n                                    foundNSMatch = defaultNSFound;\n                                    defaultNSFound = true;\n                                }', expect=None),
        Mutant('attributes_scanned_forward', XP, r'XalanSize_t    nAttrs = attributeList->getLength\(\);\s*while \(nAttrs > 0\)\s*\{\s*--nAttrs;\s*XalanNode\* const    attr = attributeList->item\(nAttrs\);',
               'const XalanSize_t   nAttrs = attributeList->getLength();\n\n                for (XalanSize_t i = 0; i < nAttrs; ++i)\n                {\n                    XalanNode* const    attr = attributeList->item(i);', expect=None),
        Mutant('reverse_dropped', XP, r'(\n    subQueryResults\.reverse\(\);\n)(\n    subQueryResults\.setDocumentOrder\(\);\n\n    return opPos \+ argLen;\n\}\s*XPath::OpCodeMapPositionType\s*XPath::findNodesOnUnknownAxis)', r'\n\2', expect='flagged document-ordered only after'),
    ],
    mechanisms=['axis result order flags (setDocumentOrder / setReverseDocumentOrder)'],
    assumptions=['an ancestor element (and its attributes) precedes every node below it in document order; attributes of one element are ordered by their index in the attribute map (DOMServices::isNodeAfter)',
                 'node names and values are modelled by identity; the NodeTester is an arbitrary predicate',
                 'termination of the upward walk is not proved (parent chain)'],
)
