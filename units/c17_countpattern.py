"""C17: the default count pattern of xsl:number (XSLT 1.0 7.7: "the pattern that matches any node with the same node type as the current
node and, if the current node has an expanded-name, with the same expanded-name").  ElemNumber::getCountMatchPattern must build a
SYNTACTICALLY VALID pattern for every node type: @name for attributes, processing-instruction('name') for processing instructions,
text(), comment(), /, and a name test resolved to the element's namespace."""
from xvlib.unit import Fn, Job, Unit, Mutant, Block
from xvlib.common import UNICODE_BLOCK

EN = 'src/xalanc/XSLT/ElemNumber.cpp'
AT = Block(EN, r'^const XalanDOMChar\s+ElemNumber::s_atString\[\]', 's_atString', rules=[(r'const XalanDOMChar\s+ElemNumber::s_atString\[\]', 'static const XalanDOMChar s_atString[]', 1), 'SCOPE'])
PI = Block(EN, r'^const XalanDOMChar\s+ElemNumber::s_piString\[\]', 's_piString', rules=[(r'const XalanDOMChar\s+ElemNumber::s_piString\[\]', 'static const XalanDOMChar s_piString[]', 1), 'SCOPE'])
TEMPLATE = r'''
#include "xv_shim.h"
@@BLOCK XalanUnicode@@
@@BLOCK s_atString@@
@@BLOCK s_piString@@
typedef struct Self Self; typedef struct Ctx StylesheetExecutionContext; typedef struct XalanNode XalanNode; typedef struct XPath XPath; typedef struct Str XalanDOMString;
enum { XalanNode_ELEMENT_NODE = 1, XalanNode_ATTRIBUTE_NODE = 2, XalanNode_TEXT_NODE = 3, XalanNode_CDATA_SECTION_NODE = 4, XalanNode_PROCESSING_INSTRUCTION_NODE = 7, XalanNode_COMMENT_NODE = 8, XalanNode_DOCUMENT_NODE = 9 };
/* the pattern text as the sequence of pieces it is assembled from; the prefix resolver handed to createMatchPattern */
enum { P_NONE, P_NODE_NAME, P_AT_LITERAL, P_PI_LITERAL, P_UNIQUE_PREFIX, P_TEXT_TEST, P_COMMENT_TEST, P_SLASH, P_CHAR_BASE = 1000 };
enum { R_SELF, R_ELEMENT_PROXY, R_OWNER_ELEMENT_PROXY, R_SIMPLE_PREFIX_TO_NODE_NAMESPACE };
int g_type; bool g_ns_empty, g_has_prefix; int g_parts[8]; size_t g_np; int g_resolver; bool g_created;
XPath g_xpath;
static void xv_part(int p) { __CPROVER_assert(g_np < 8, "pattern pieces"); g_parts[g_np++] = p; }
static void xv_restart(int p) { g_np = 0; xv_part(p); }
static const XPath* xv_create(StylesheetExecutionContext* e, bool assembled, int whole, int resolver)   /* executionContext.createMatchPattern(text, resolver) */
{ __CPROVER_assert(g_created == false, "one pattern is created"); if (!assembled) { g_np = 1; g_parts[0] = whole; } g_created = true; g_resolver = resolver; return &g_xpath; }
int xv_node_type(const XalanNode* n) __CPROVER_requires(n != 0) __CPROVER_assigns() __CPROVER_ensures(__CPROVER_return_value == g_type) ;
bool xv_ns_empty(const XalanNode* n) __CPROVER_requires(1) __CPROVER_assigns() __CPROVER_ensures(__CPROVER_return_value == g_ns_empty) ;
bool xv_name_has_prefix(const XalanNode* n) __CPROVER_requires(1) __CPROVER_assigns() __CPROVER_ensures(__CPROVER_return_value == g_has_prefix) ;
@@FN getCountMatchPattern@@
#define SEQ2(a, b) (g_np == 2 && g_parts[0] == (a) && g_parts[1] == (b))
#define CH(c) (P_CHAR_BASE + (c))
void h_countpattern(void)
{
    int t; bool a, b; g_type = t; g_ns_empty = XV_BOOL(a); g_has_prefix = XV_BOOL(b); g_np = 0; g_created = false;
    __CPROVER_assume(t == 1 || t == 2 || t == 3 || t == 4 || t == 7 || t == 8 || t == 9);
    XalanNode* n; __CPROVER_assume(n != 0); const XPath* r = getCountMatchPattern(0, 0, n);
    __CPROVER_assert(r == &g_xpath && g_created, "a default count pattern is created for every node type that can be numbered");
    __CPROVER_assert(g_type != XalanNode_ATTRIBUTE_NODE || (SEQ2(P_AT_LITERAL, P_NODE_NAME) && g_resolver == R_OWNER_ELEMENT_PROXY && s_atString[0] == 0x40 && s_atString[1] == 0),
        "default count pattern of an attribute: @ followed by its name, prefixes resolved at its owner element");
    __CPROVER_assert(g_type != XalanNode_PROCESSING_INSTRUCTION_NODE || (g_np == 5 && g_parts[0] == P_PI_LITERAL && (g_parts[1] == CH(0x27) || g_parts[1] == CH(0x22)) && g_parts[2] == P_NODE_NAME && g_parts[3] == g_parts[1] && g_parts[4] == CH(0x29)),
        "default count pattern of a processing instruction: processing-instruction( quote target quote ) - the argument of the node test is a literal");
    __CPROVER_assert(s_piString[0] == 0x70 && s_piString[21] == 0x6E && s_piString[22] == 0x28 && s_piString[23] == 0, "the literal is processing-instruction followed by the opening parenthesis");
    __CPROVER_assert(!(g_type == XalanNode_TEXT_NODE || g_type == XalanNode_CDATA_SECTION_NODE) || (g_np == 1 && g_parts[0] == P_TEXT_TEST), "default count pattern of a text node: text()");
    __CPROVER_assert(g_type != XalanNode_COMMENT_NODE || (g_np == 1 && g_parts[0] == P_COMMENT_TEST), "default count pattern of a comment: comment()");
    __CPROVER_assert(g_type != XalanNode_DOCUMENT_NODE || (g_np == 1 && g_parts[0] == P_SLASH), "default count pattern of the root: /");
    __CPROVER_assert(g_type != XalanNode_ELEMENT_NODE ||
        (g_ns_empty ? (g_np == 1 && g_parts[0] == P_NODE_NAME)
         : g_has_prefix ? (g_np == 1 && g_parts[0] == P_NODE_NAME && g_resolver == R_ELEMENT_PROXY)
         : (g_np == 3 && g_parts[0] == P_UNIQUE_PREFIX && g_parts[1] == CH(0x3A) && g_parts[2] == P_NODE_NAME && g_resolver == R_SIMPLE_PREFIX_TO_NODE_NAMESPACE)),
        "default count pattern of an element: its name, with a prefix that resolves to its namespace (its own prefix, or a generated one for a default namespace)");
    XV_REACH("h_countpattern");
}
'''
R = [(r'contextNode->getNodeType\(\)', 'xv_node_type(contextNode)', 1),
     (r'const XalanDOMString&\s+theNamespaceURI = contextNode->getNamespaceURI\(\);', '', 1),
     (r'const XalanDOMString&\s+theNodeName = (?:contextNode|theAttribute)->getNodeName\(\);', '', 2),
     (r'theNamespaceURI\.empty\(\) == true', 'xv_ns_empty(contextNode) == true', 1),
     (r'theNodeName\.length\(\) != contextNode->getLocalName\(\)\.length\(\)', 'xv_name_has_prefix(contextNode)', (1, 2)),
     (r'executionContext\.createMatchPattern\(theNodeName, \*this\)', 'xv_create(executionContext, false, P_NODE_NAME, R_SELF)', 1),
     (r'const XalanElement\* const\s+theElement =\s*static_cast<const XalanElement\*>\(contextNode\);', '', (0, 1)),
     (r'const ElementPrefixResolverProxy\s+theProxy\(\s*theElement,\s*executionContext\.getMemoryManager\(\)\);', 'const int theProxy = R_ELEMENT_PROXY;', (0, 1)),
     (r'executionContext\.createMatchPattern\(theNodeName, theProxy\)', 'xv_create(executionContext, false, P_NODE_NAME, theProxy)', (0, 1)),
     (r'const GetCachedString\s+thePrefix\(executionContext\);\s*executionContext\.getUniqueNamespaceValue\(thePrefix\.get\(\)\);', '', 1),
     (r'const GetCachedString\s+theMatchPatternString\(executionContext\);', '', 3),
     (r'theMatchPatternString\.get\(\)\.assign\(thePrefix\.get\(\)\);', 'xv_restart(P_UNIQUE_PREFIX);', 1),
     (r'theMatchPatternString\.get\(\)\.append\(1, (XalanUnicode::char\w+)\);', r'xv_part(P_CHAR_BASE + \1);', (1, 4)),
     (r'theMatchPatternString\.get\(\)\.append\((?:theNodeName|contextNode->getNodeName\(\))\);', 'xv_part(P_NODE_NAME);', 3),
     (r'const XalanSimplePrefixResolver\s+theResolver\(\s*thePrefix\.get\(\),\s*theNamespaceURI,\s*getURI\(\)\);', 'const int theResolver = R_SIMPLE_PREFIX_TO_NODE_NAMESPACE;', 1),
     (r'executionContext\.createMatchPattern\(\s*theMatchPatternString\.get\(\),\s*(\w+|\*this)\)', lambda m: 'xv_create(executionContext, true, P_NONE, %s)' % ('R_SELF' if m.group(1) == '*this' else m.group(1)), 3),
     (r'const XalanAttr\* const\s+theAttribute =\s*static_cast<const XalanAttr\*>\(contextNode\);\s*assert\(theAttribute->getOwnerElement\(\) != 0\);', '', 1),
     (r'const ElementPrefixResolverProxy\s+theProxy\(theAttribute->getOwnerElement\(\), executionContext\.getMemoryManager\(\)\);', 'const int theProxy = R_OWNER_ELEMENT_PROXY;', 1),
     (r'theMatchPatternString\.get\(\)\.assign\(s_atString\);', 'xv_restart(P_AT_LITERAL);', 1),
     (r'theMatchPatternString\.get\(\) = s_piString;', 'xv_restart(P_PI_LITERAL);', 1),
     (r'executionContext\.createMatchPattern\(\s*s_textString, \*this\)', 'xv_create(executionContext, false, P_TEXT_TEST, R_SELF)', 1),
     (r'executionContext\.createMatchPattern\(\s*s_commentString, \*this\)', 'xv_create(executionContext, false, P_COMMENT_TEST, R_SELF)', 1),
     (r'executionContext\.createMatchPattern\(\s*s_slashString, \*this\)', 'xv_create(executionContext, false, P_SLASH, R_SELF)', 1),
     'SCOPE']
UNIT = Unit(
    name='c17_countpattern',
    props=['C17'],
    blocks=[UNICODE_BLOCK, AT, PI],
    functions=[Fn(EN, r'^ElemNumber::getCountMatchPattern\(', 'getCountMatchPattern', 'const XPath* getCountMatchPattern(const Self* self, StylesheetExecutionContext* executionContext, XalanNode* contextNode)',
                  rules=R, nloops=0, reach=False)],
    template=TEMPLATE,
    jobs=[Job('countpattern', 'h_countpattern', dfcc=True, enforce=[], replace=['xv_node_type', 'xv_ns_empty', 'xv_name_has_prefix'], reach=['h_countpattern'], timeout=120, min_obligations=8)],
    mutants=[
        Mutant('attribute_pattern_ampersand', EN, r'(ElemNumber::s_atString\[\] =\s*\{\s*)XalanUnicode::charCommercialAt', r'\1XalanUnicode::charAmpersand', expect='attribute'),
        Mutant('pi_target_unquoted', EN, r'theMatchPatternString\.get\(\)\.append\(1, XalanUnicode::charApostrophe\);\s*(theMatchPatternString\.get\(\)\.append\(contextNode->getNodeName\(\)\);)\s*theMatchPatternString\.get\(\)\.append\(1, XalanUnicode::charApostrophe\);', r'\1', expect='processing instruction'),
    ],
    mechanisms=['default count pattern from the node\'s type and name'],
    assumptions=['s_textString / s_commentString / s_slashString hold "text()", "comment()", "/" (initialised at start-up; not extracted)',
                 'createMatchPattern parses the text it is given with the resolver it is given (the XPath parser is not under contract)'],
)
