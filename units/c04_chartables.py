from xvlib.unit import Fn, Job, Unit, Mutant, Block

XC = 'src/xalanc/PlatformSupport/XalanXMLChar.cpp'
XCH = 'src/xalanc/PlatformSupport/XalanXMLChar.hpp'

ETYPE = Block(XCH, r'^\s*enum eType\s*\{', 'eType')
TABLE = Block(XC, r'^const char XalanXMLChar::theUnicodeTable\[\]', 'theUnicodeTable',
              rules=[(r'const char XalanXMLChar::theUnicodeTable\[\]', 'static const char XalanXMLChar_theUnicodeTable[]', 1)])

TEMPLATE = r'''
#include "xv_shim.h"
@@BLOCK eType@@
@@BLOCK theUnicodeTable@@
#define theUnicodeTable XalanXMLChar_theUnicodeTable

@@FN isWhitespace@@
@@FN isDigit@@

void h_xmlchar_ws(void) { XalanDOMChar c; XalanXMLChar_isWhitespace(c); }
void h_xmlchar_table(void)
{
    __CPROVER_assert(sizeof(XalanXMLChar_theUnicodeTable) == 65536, "the character class table has one entry for every UTF-16 code unit (no out-of-bounds lookup)");
    XV_REACH("h_xmlchar_table");
}
'''

UNIT = Unit(
    name='c04_chartables',
    props=['C04', 'C03', 'C18'],
    blocks=[ETYPE, TABLE],
    functions=[
        Fn(XCH, r'^\s+isWhitespace\(XalanDOMChar c\)', 'isWhitespace', 'bool XalanXMLChar_isWhitespace(XalanDOMChar c)',
           head_expect=r'static bool isWhitespace\(XalanDOMChar c\)$', rules=[('FCASTS', ['char'])], nloops=0,
           contract='''__CPROVER_requires(1)
__CPROVER_assigns()
__CPROVER_ensures(/* XML 1.0 production [3] S: space, tab, CR, LF are whitespace and nothing else is, for all 65536 code units */ __CPROVER_return_value == (c == 0x20 || c == 0x09 || c == 0x0A || c == 0x0D))'''),
        Fn(XCH, r'^\s+isDigit\(XalanDOMChar c\)', 'isDigit', 'bool XalanXMLChar_isDigit(XalanDOMChar c)',
           head_expect=r'static bool isDigit\(XalanDOMChar c\)$', rules=[('FCASTS', ['char'])], nloops=0, reach=False),
    ],
    template=TEMPLATE,
    jobs=[Job('xmlchar_ws', 'h_xmlchar_ws', enforce=['XalanXMLChar_isWhitespace'], reach=['entry:isWhitespace'], timeout=300),
          Job('xmlchar_table', 'h_xmlchar_table', dfcc=False, reach=['h_xmlchar_table'], timeout=120)],
    mutants=[Mutant('ff_is_ws', XC, r'/\* 0008 - 000F \*/ XML_XX, XML_WS, XML_WS, XML_XX, XML_XX,', '/* 0008 - 000F */ XML_XX, XML_WS, XML_WS, XML_XX, XML_WS,', expect='whitespace'),
             Mutant('nbsp_is_ws', XC, r'(/\* 00A0 - 00A7 \*/ )XML_XX', r'\1XML_WS', expect='whitespace')],
    mechanisms=['string validation against the Number grammar'],
    assumptions=['isXMLWhitespace(c) is XalanXMLChar::isWhitespace(c) (one-line inline forwarder in DOMStringHelper.hpp)'],
)
