"""C02: the general predicate filter of XPath::predicates (XPath 1.0 2.4): the predicate is evaluated once for every node of the list, with
that node as context node; a node is kept if and only if the result - when it is a number - equals the node's proximity position (its
index in the list in axis order, plus one), and otherwise converts to true.  Nodes are only marked during the pass and removed after it, so
the positions the comparison uses are the positions before any removal.  The block (the inner loop and clearNulls) is cut out of the
function; the number-literal shortcut next to it is unit c02_predlit."""
from xvlib.unit import Job, Unit, Mutant, Block

XP = 'src/xalanc/XPath/XPath.cpp'
LOOP = Block(XP, r'^\s*for\(NodeRefListBase::size_type i = 0; [^;]*; \+\+i\)', 'predloop', after=r'^XPath::predicates\(', end=r'subQueryResults\.clearNulls\(\);',
             rules=[(r'NodeRefListBase::size_type', 'size_t', None),
                    (r'subQueryResults\.item\(i\)', 'xv_item(i)', 1),
                    (r'assert\(theNode != 0\);', '', (0, 1)),
                    (r'const XObjectPtr\s+pred\(predicate\(theNode, opPos, executionContext\)\);', 'const XvPred* const pred = xv_predicate(theNode, opPos);', 1),
                    (r'assert\(pred\.get\(\) != 0\);', '', (0, 1)),
                    (r'XObject::eTypeNumber', 'eTypeNumber', (0, 2)),
                    (r'pred->getType\(\)', 'pred->type', (0, 2)),
                    (r'pred->num\(executionContext\)', 'xv_pnum(pred)', (0, 2)),
                    (r'pred->boolean\(executionContext\)', 'xv_pbool(pred)', (0, 2)),
                    (r'subQueryResults\.setNode\((\w+), 0\);', r'xv_remove(\1);', 1),
                    (r'subQueryResults\.clearNulls\(\);', 'xv_clearNulls();', 1)],
             loops={0: '''__CPROVER_assigns(i, g_last_idx, g_last_node, g_pred_obj.type, g_removed_w, g_evaluated_w)
__CPROVER_loop_invariant(i <= theLength && (g_removed_w == true || g_removed_w == false) && (g_evaluated_w == true || g_evaluated_w == false))
__CPROVER_loop_invariant(/* every node passed was evaluated and marked exactly when the predicate rejects it (at the arbitrary index g_w) */ g_w < i ==> (g_evaluated_w == true && g_removed_w == !KEEP_W))
__CPROVER_loop_invariant(g_w >= i ==> (g_evaluated_w == false && g_removed_w == false))
__CPROVER_decreases(theLength - i)'''}, nloops=1)
TEMPLATE = r'''
#include "xv_shim.h"
typedef struct XalanNode XalanNode; typedef int OpCodeMapPositionType;
enum { eTypeBoolean = 1, eTypeNumber = 2, eTypeString = 3, eTypeNodeSet = 4 };
typedef struct { int type; } XvPred;
XvPred g_pred_obj;
size_t g_len, g_w; int g_wt; double g_wn; bool g_wb;      /* the list length; an arbitrary index and what the predicate gives for the node there */
size_t g_last_idx; XalanNode* g_last_node; bool g_removed_w, g_evaluated_w; int g_clears; int g_op;
#define XV_NOTNAN(x) ((x) == (x))
/* XPath 2.4: a number result is true iff it equals the context position; anything else is converted as by boolean() */
#define KEEP_W (g_wt == eTypeNumber ? (g_wn == (double)(g_w + 1)) : (g_wb == true))
XalanNode* xv_item(size_t i) __CPROVER_requires(i < g_len) __CPROVER_assigns(g_last_idx, g_last_node)
__CPROVER_ensures(__CPROVER_return_value != 0 && g_last_node == __CPROVER_return_value && g_last_idx == i) ;
/* XPath::predicate(node, opPos, context): evaluates the predicate expression with the node as context node */
const XvPred* xv_predicate(XalanNode* n, OpCodeMapPositionType opPos)
__CPROVER_requires(/* the predicate is evaluated for the node just fetched, at the position of this predicate */ n == g_last_node && opPos == g_op)
__CPROVER_assigns(g_pred_obj.type, g_evaluated_w)
__CPROVER_ensures(__CPROVER_return_value == &g_pred_obj && (g_last_idx == g_w ? (g_pred_obj.type == g_wt && g_evaluated_w == true) : g_evaluated_w == __CPROVER_old(g_evaluated_w))) ;
double xv_pnum(const XvPred* p) __CPROVER_requires(p == &g_pred_obj) __CPROVER_assigns() __CPROVER_ensures(g_last_idx == g_w ==> __CPROVER_return_value == g_wn) ;
bool xv_pbool(const XvPred* p) __CPROVER_requires(p == &g_pred_obj) __CPROVER_assigns()
__CPROVER_ensures((__CPROVER_return_value == true || __CPROVER_return_value == false) && (g_last_idx == g_w ==> __CPROVER_return_value == g_wb)) ;
/* setNode(i, 0): marks entry i for removal */
void xv_remove(size_t i) __CPROVER_requires(/* only the node whose predicate was just evaluated is marked */ i == g_last_idx && i < g_len)
__CPROVER_assigns(g_removed_w) __CPROVER_ensures(g_removed_w == (i == g_w ? true : __CPROVER_old(g_removed_w))) ;
void xv_clearNulls(void) __CPROVER_requires(1) __CPROVER_assigns(g_clears) __CPROVER_ensures(g_clears == __CPROVER_old(g_clears) + 1) ;
/* the block "evaluate the predicate for every node" of XPath::predicates, cut out of the function */
void predloop(size_t theLength, OpCodeMapPositionType opPos)
__CPROVER_requires(theLength == g_len && theLength <= ((size_t)1 << 50) && opPos == g_op && g_w < g_len && g_removed_w == false && g_evaluated_w == false && g_clears == 0)
__CPROVER_requires(/* boolean(number) is "not zero and not NaN" (c11_dispatch) */ (g_wb == true || g_wb == false) && (g_wt == eTypeNumber ==> g_wb == (g_wn != 0.0 && XV_NOTNAN(g_wn))))
__CPROVER_assigns(g_last_idx, g_last_node, g_pred_obj.type, g_removed_w, g_evaluated_w, g_clears)
__CPROVER_ensures(/* XPath 2.4 at an arbitrary node: removed exactly when the predicate does not hold for it at its proximity position */ g_evaluated_w == true && g_removed_w == !KEEP_W)
__CPROVER_ensures(/* removal happens once, after the whole pass */ g_clears == 1)
{
    XV_REACH("entry:predloop");
@@BLOCK predloop@@
    XV_REACH("exit:predloop");
}
void h_predloop(void)
{ size_t n, w, li; int t, op; double d; bool b; XalanNode* ln; g_len = n; g_w = w; g_wt = t; g_wn = d; g_wb = XV_BOOL(b); g_op = op; g_last_idx = li; g_last_node = ln; g_removed_w = false; g_evaluated_w = false; g_clears = 0;
  predloop(n, op); }
'''
UNIT = Unit(
    name='c02_predloop',
    props=['C02'],
    blocks=[LOOP],
    functions=[],
    template=TEMPLATE,
    jobs=[Job('predloop', 'h_predloop', enforce=['predloop'], replace=['xv_item', 'xv_predicate', 'xv_pnum', 'xv_pbool', 'xv_remove', 'xv_clearNulls'], loop_contracts=True,
              reach=['entry:predloop', 'exit:predloop'], timeout=600, min_obligations=8)],
    mutants=[
        Mutant('position_counts_from_zero', XP, r'i \+ 1 != pred->num\(executionContext\)', 'i != pred->num(executionContext)', expect=None),
        Mutant('number_result_as_boolean_only', XP, r'\(XObject::eTypeNumber == pred->getType\(\) && i \+ 1 != pred->num\(executionContext\)\) \|\|\s*', '', expect=None),
        Mutant('last_node_not_filtered', XP, r'(else\s*\{\s*for\(NodeRefListBase::size_type i = 0; )i < theLength; \+\+i\)', r'\1i + 1 < theLength; ++i)', expect=None),
    ],
    mechanisms=['predicate filtering incl. numeric-literal shortcut'],
    assumptions=['XPath::predicate evaluates the predicate expression with the given node as context node (evaluation itself: c11 units); position() inside it reads the context node list (c16_position, F31)',
                 'the list is in axis order (c12_step: reverse axes deliver reverse document order), so index + 1 is the proximity position; clearNulls removes exactly the marked entries (MutableNodeRefList, not under contract)',
                 'only the inner loop is under contract (cut out as a block); the outer loop over chained predicates is not'],
)
