"""C16 (collation, ICU build): a comparison made for a sort key uses the case order of THAT key, whatever state an earlier comparison
left in the (cached, shared) ICU collator; the default collator is used only for the default locale with the default case order."""
from xvlib.unit import Fn, Job, Unit, Mutant

IC = 'src/xalanc/ICUBridge/ICUBridgeCollationCompareFunctorImpl.cpp'
TEMPLATE = r'''
#include "xv_shim.h"
typedef struct Collator CollatorType; typedef int UErrorCode; typedef int UColAttributeValue; typedef int XalanCollationServices_eCaseOrder; typedef size_t XalanDOMString_size_type;
typedef struct Self { bool m_cacheCollators; } Self;
enum { U_ZERO_ERROR = 0 }; enum { UCOL_CASE_FIRST = 2 }; enum { UCOL_DEFAULT = -1, UCOL_LOWER_FIRST = 24, UCOL_UPPER_FIRST = 25 };
enum { XalanCollationServices_eDefault, XalanCollationServices_eLowerFirst, XalanCollationServices_eUpperFirst };
/* ghost: the UCOL_CASE_FIRST attribute of the collator object (cached collators keep it between comparisons), which route a comparison took */
int g_case_first; bool g_compared; int g_route; enum { R_NONE, R_DEFAULT, R_CACHED, R_UNCACHED }; bool g_locale_is_default; int g_route_case;
#define WANT(co) ((co) == XalanCollationServices_eLowerFirst ? UCOL_LOWER_FIRST : (co) == XalanCollationServices_eUpperFirst ? UCOL_UPPER_FIRST : UCOL_DEFAULT)
void xv_set_attribute(CollatorType* c, int attr, int value, UErrorCode* st)
__CPROVER_requires(attr == UCOL_CASE_FIRST) __CPROVER_assigns(g_case_first) __CPROVER_ensures(g_case_first == value) ;
size_t xv_length(const XalanDOMChar* s) __CPROVER_requires(1) __CPROVER_assigns() __CPROVER_ensures(__CPROVER_return_value <= 0x7fffffff) ;
int g_want;
int xv_collator_compare(const CollatorType* c, const XalanDOMChar* l, int32_t ll, const XalanDOMChar* r, int32_t rl)
__CPROVER_requires(/* the collator compares with the case order of THIS key, not with what an earlier comparison left in it */ g_case_first == g_want)
__CPROVER_assigns(g_compared) __CPROVER_ensures(g_compared == true && __CPROVER_return_value >= -1 && __CPROVER_return_value <= 1) ;
int xv_doDefaultCompare(const Self* s, const XalanDOMChar* l, const XalanDOMChar* r)
__CPROVER_requires(1) __CPROVER_assigns(g_route) __CPROVER_ensures(g_route == R_DEFAULT) ;
int xv_doCompareCached(const Self* s, const XalanDOMChar* l, const XalanDOMChar* r, const XalanDOMChar* loc, int co)
__CPROVER_requires(1) __CPROVER_assigns(g_route, g_route_case) __CPROVER_ensures(g_route == R_CACHED && g_route_case == co) ;
int xv_doCompareLocale(const Self* s, const XalanDOMChar* l, const XalanDOMChar* r, const XalanDOMChar* loc, int co)
__CPROVER_requires(1) __CPROVER_assigns(g_route, g_route_case) __CPROVER_ensures(g_route == R_UNCACHED && g_route_case == co) ;
bool xv_is_default_locale(const Self* s, const XalanDOMChar* loc) __CPROVER_requires(1) __CPROVER_assigns() __CPROVER_ensures(__CPROVER_return_value == g_locale_is_default) ;
@@FN caseOrderConvert@@
@@FN doCompare4@@
@@FN call4@@
/* the 3-argument form (no lang): default case order -> the shared default collator; any other case order -> a collator of its own for the default locale */
bool g_route_default_locale;
int xv_doCompareDefaultLocale(const Self* s, const XalanDOMChar* l, const XalanDOMChar* r, int co)
__CPROVER_requires(1) __CPROVER_assigns(g_route, g_route_case, g_route_default_locale) __CPROVER_ensures(g_route == R_UNCACHED && g_route_case == co && g_route_default_locale == true) ;
int xv_doCompare_on_shared_default(const Self* s, const XalanDOMChar* l, const XalanDOMChar* r, int co)
__CPROVER_requires(/* the shared default collator is only ever used through doDefaultCompare: setting case-first on it would change every later default-order sort of this transformer (C06) */ 0)
__CPROVER_assigns(g_route) __CPROVER_ensures(1) ;
bool xv_is_valid(const Self* s) __CPROVER_requires(1) __CPROVER_assigns() __CPROVER_ensures(__CPROVER_return_value == true || __CPROVER_return_value == false) ;
int xv_default_functor3(const XalanDOMChar* l, const XalanDOMChar* r, int co) __CPROVER_requires(1) __CPROVER_assigns(g_route) __CPROVER_ensures(g_route == R_NONE) ;
@@FN call3@@
void h_doCompare4(void) { int c, w; g_case_first = c; g_compared = false; CollatorType* k; int co; __CPROVER_assume(co >= 0 && co <= 2); g_want = WANT(co); doCompare4(0, k, 0, 0, co); }
void h_call3(void) { g_route = R_NONE; g_route_default_locale = false; Self* s; int co; __CPROVER_assume(co >= 0 && co <= 2); call3(s, 0, 0, co); }
void h_call4(void) { bool d; g_locale_is_default = XV_BOOL(d); g_route = R_NONE; Self* s; int co; __CPROVER_assume(co >= 0 && co <= 2); call4(s, 0, 0, 0, co); }
'''
R = ['CASTS', 'SCOPE',
     (r'theCollator\.setAttribute\(', 'xv_set_attribute(theCollator, ', (0, 1)),
     (r',\s*theStatus\);', ', &theStatus);', (0, 1)),
     (r'(?<![\w.>])length\((the[LR]HS)\)', r'xv_length(\1)', (0, 2)),
     (r'theCollator\.compare\(', 'xv_collator_compare(theCollator, ', (0, 1)),
     (r'XalanDOMString_equals\(m_defaultCollatorLocaleName, theLocale\)', 'xv_is_default_locale(self, theLocale)', (0, 1)),
     (r'(?<![\w.>])doDefaultCompare\(theLHS, theRHS\)', 'xv_doDefaultCompare(self, theLHS, theRHS)', (0, 1)),
     (r'(?<![\w.>])doCompareCached\(theLHS, theRHS, theLocale, theCaseOrder\)', 'xv_doCompareCached(self, theLHS, theRHS, theLocale, theCaseOrder)', (0, 1)),
     (r'(?<![\w.>])doCompare\(theLHS, theRHS, theLocale, theCaseOrder\)', 'xv_doCompareLocale(self, theLHS, theRHS, theLocale, theCaseOrder)', (0, 1)),
     (r'(?<![\w.>])doCompare\(\s*theLHS,\s*theRHS,\s*m_defaultCollatorLocaleName\.c_str\(\),\s*theCaseOrder\)', 'xv_doCompareDefaultLocale(self, theLHS, theRHS, theCaseOrder)', (0, 1)),
     (r'(?<![\w.>])doCompare\(\s*\*m_defaultCollator,\s*theLHS,\s*theRHS,\s*theCaseOrder\)', 'xv_doCompare_on_shared_default(self, theLHS, theRHS, theCaseOrder)', (0, 1)),
     (r'(?<![\w.>])isValid\(\)', 'xv_is_valid(self)', (0, 1)),
     (r'assert\(m_defaultCollator != 0\);', '', (0, 1)),
     (r's_defaultFunctor\(', 'xv_default_functor3(', (0, 1)),
     (r'\bm_cacheCollators\b', 'self->m_cacheCollators', (0, 1)),
     (r'\};\s*\}\s*$', '}\n}', (0, 1))]
UNIT = Unit(
    name='c16_collate',
    props=['C16', 'C06'],
    functions=[
        Fn(IC, r'^caseOrderConvert\(XalanCollationServices::eCaseOrder\s+theCaseOrder\)', 'caseOrderConvert', 'static UColAttributeValue caseOrderConvert(XalanCollationServices_eCaseOrder theCaseOrder)', rules=R, nloops=0, reach=False),
        Fn(IC, r'^ICUBridgeCollationCompareFunctorImpl::doCompare\(\s*CollatorType&\s+theCollator,\s*const XalanDOMChar\*\s+theLHS,\s*const XalanDOMChar\*\s+theRHS,\s*XalanCollationServices::eCaseOrder\s+theCaseOrder\) const',
           'doCompare4', 'int doCompare4(const Self* self, CollatorType* theCollator, const XalanDOMChar* theLHS, const XalanDOMChar* theRHS, XalanCollationServices_eCaseOrder theCaseOrder)', rules=R, nloops=0,
           contract='''__CPROVER_requires(theCaseOrder >= XalanCollationServices_eDefault && theCaseOrder <= XalanCollationServices_eUpperFirst && g_want == WANT(theCaseOrder) && g_compared == false)
__CPROVER_assigns(g_case_first, g_compared)
__CPROVER_ensures(/* one comparison, made with case-first set from this key's case-order */ g_compared == true && g_case_first == WANT(theCaseOrder))'''),
        Fn(IC, r'^ICUBridgeCollationCompareFunctorImpl::operator\(\)\(\s*const XalanDOMChar\*\s+theLHS,\s*const XalanDOMChar\*\s+theRHS,\s*const XalanDOMChar\*\s+theLocale,', 'call4',
           'int call4(const Self* self, const XalanDOMChar* theLHS, const XalanDOMChar* theRHS, const XalanDOMChar* theLocale, XalanCollationServices_eCaseOrder theCaseOrder)', rules=R, nloops=0,
           contract='''__CPROVER_requires(__CPROVER_is_fresh(self, sizeof(*self)) && g_route == R_NONE && theCaseOrder >= 0 && theCaseOrder <= 2)
__CPROVER_assigns(g_route, g_route_case)
__CPROVER_ensures(/* the shared default collator (whose case-first is never set) serves only the default locale with the default case order */
    (g_route == R_DEFAULT) == (theCaseOrder == XalanCollationServices_eDefault && g_locale_is_default == true))
__CPROVER_ensures(/* every other comparison carries the key's own case order to the collator */ g_route != R_DEFAULT ==> (g_route_case == theCaseOrder && (g_route == R_CACHED || g_route == R_UNCACHED)))'''),
        Fn(IC, r'^ICUBridgeCollationCompareFunctorImpl::operator\(\)\(\s*const XalanDOMChar\*\s+theLHS,\s*const XalanDOMChar\*\s+theRHS,\s*XalanCollationServices::eCaseOrder', 'call3',
           'int call3(const Self* self, const XalanDOMChar* theLHS, const XalanDOMChar* theRHS, XalanCollationServices_eCaseOrder theCaseOrder)', rules=R, nloops=0,
           contract='''__CPROVER_requires(g_route == R_NONE && g_route_default_locale == false && theCaseOrder >= 0 && theCaseOrder <= 2)
__CPROVER_assigns(g_route, g_route_case, g_route_default_locale)
__CPROVER_ensures(/* without lang: the shared default collator serves the default case order only; another case order gets a collator of its own for the default locale, with that case order */
    theCaseOrder == XalanCollationServices_eDefault ? g_route == R_DEFAULT : (g_route == R_UNCACHED && g_route_case == theCaseOrder && g_route_default_locale == true))'''),
    ],
    template=TEMPLATE,
    jobs=[Job('call3', 'h_call3', enforce=['call3'], replace=['xv_doDefaultCompare', 'xv_doCompareDefaultLocale', 'xv_doCompare_on_shared_default', 'xv_is_valid', 'xv_default_functor3'], reach='all', timeout=120, min_obligations=3),
          Job('doCompare4', 'h_doCompare4', enforce=['doCompare4'], replace=['xv_set_attribute', 'xv_length', 'xv_collator_compare'], reach='all', timeout=120, min_obligations=3),
          Job('call4', 'h_call4', enforce=['call4'], replace=['xv_doDefaultCompare', 'xv_doCompareCached', 'xv_doCompareLocale', 'xv_is_default_locale'], reach='all', timeout=120, min_obligations=3)],
    mutants=[
        Mutant('case_order_on_shared_default_collator', IC, r'(theCaseOrder\) const\s*\{\s*if \(theCaseOrder == XalanCollationServices::eDefault\)\s*\{\s*return doDefaultCompare\(theLHS, theRHS\);\s*\}\s*else\s*\{\s*return doCompare\(\s*)theLHS,\s*theRHS,\s*m_defaultCollatorLocaleName\.c_str\(\),\s*theCaseOrder\);',
               r'\1*m_defaultCollator,\n                theLHS,\n                theRHS,\n                theCaseOrder);', expect='shared default collator is only ever used'),
        Mutant('case_first_only_when_explicit', IC, r'    theCollator\.setAttribute\(\s*UCOL_CASE_FIRST,\s*caseOrderConvert\(theCaseOrder\),\s*theStatus\);', '    if (theCaseOrder != XalanCollationServices::eDefault)\n    {\n        theCollator.setAttribute(\n                UCOL_CASE_FIRST,\n                caseOrderConvert(theCaseOrder),\n                theStatus);\n    }', expect='case order of THIS key'),
        Mutant('upper_lower_swapped', IC, r'(case XalanCollationServices::eLowerFirst:\s*return )UCOL_LOWER_FIRST', r'\1UCOL_UPPER_FIRST', expect='case order of THIS key'),
        Mutant('default_collator_for_any_locale', IC, r'if \(theCaseOrder == XalanCollationServices::eDefault &&\s*XalanDOMString::equals\(m_defaultCollatorLocaleName, theLocale\) == true\)', 'if (theCaseOrder == XalanCollationServices::eDefault)', expect='shared default collator'),
    ],
    mechanisms=['collation (ICU in this build)'],
    assumptions=['icu::Collator::compare orders by the collator\'s current attributes and keeps UCOL_CASE_FIRST between calls (ICU, external); strings are shorter than 2^31 units',
                 'collator creation, the collator cache (getCachedCollator) and locale parsing are not under contract'],
)
