"""C03: the cursor of the XPath token queue (XPathExpression, used by the parser and by its error path) never leaves [0, size], and a token
is only ever fetched at an index inside the queue - stepping back at the first token or forward at the end yields "no token", not an access."""
from xvlib.unit import Fn, Job, Unit, Mutant

XE = 'src/xalanc/XPath/XPathExpression.hpp'
TEMPLATE = r'''
#include "xv_shim.h"
typedef int TokenQueueSizeType; typedef int TokenQueuePositionType; typedef struct XToken XToken; typedef int eRelativeDirection;
enum { eRelativeBackward, eRelativeForward };
typedef struct Self { TokenQueueSizeType m_currentPosition; } Self;
int g_size; const XToken* g_tok; int g_tok_at;     /* ghost: m_tokenQueue.size(), and the token last fetched with its index */
#define INV(s) ((s)->m_currentPosition >= 0 && (s)->m_currentPosition <= g_size)
size_t xv_queue_size(const Self* s) __CPROVER_requires(1) __CPROVER_assigns() __CPROVER_ensures(__CPROVER_return_value == (size_t)g_size) ;
const XToken* xv_queue_at(const Self* s, int i)
__CPROVER_requires(/* m_tokenQueue[i]: an index inside the vector */ i >= 0 && i < g_size) __CPROVER_assigns(g_tok_at) __CPROVER_ensures(g_tok_at == i && __CPROVER_return_value == g_tok) ;
@@FN tokenQueueSize@@
@@FN hasMoreTokens@@
@@FN getToken@@
@@FN calculateRelativePosition@@
@@FN getNextToken@@
@@FN getPreviousToken@@
@@FN getRelativeToken@@
static void xv_havoc(Self* s) { int n, p; const XToken* t; __CPROVER_assume(t != 0); g_size = n; g_tok = t; g_tok_at = -1; s->m_currentPosition = p; }
void h_getNextToken(void) { Self s; xv_havoc(&s); getNextToken(&s); }
void h_getPreviousToken(void) { Self s; xv_havoc(&s); getPreviousToken(&s); }
void h_getRelativeToken(void) { Self s; xv_havoc(&s); int o, d; getRelativeToken(&s, o, d); }
'''
R = [(r'(?<![\w.>])tokenQueueSize\(\)', 'tokenQueueSize(self)', (0, 6)),
     (r'(?<![\w.>])hasMoreTokens\(\)', 'hasMoreTokens(self)', (0, 3)),
     (r'(?<![\w.>])getToken\(', 'getToken(self, ', (0, 3)),
     (r'(?<![\w.>])calculateRelativePosition\(', 'calculateRelativePosition(self, ', (0, 3)),
     (r'TokenQueueSizeType\(m_tokenQueue\.size\(\)\)', '(TokenQueueSizeType)(xv_queue_size(self))', (0, 1)),
     (r'&m_tokenQueue\[(\w+)\]', r'xv_queue_at(self, \1)', (0, 1)),
     (r'(?<![\w.>])m_currentPosition\b', 'self->m_currentPosition', (0, 8))]
PRE = '__CPROVER_requires(__CPROVER_is_fresh(self, sizeof(*self)) && g_size >= 0 && g_size <= 0x7fffffff - 65536 && INV(self) && g_tok != 0)\n'
UNIT = Unit(
    name='c03_tokenqueue',
    props=['C03'],
    functions=[
        Fn(XE, r'^\s+tokenQueueSize\(\) const', 'tokenQueueSize', 'static TokenQueueSizeType tokenQueueSize(const Self* self)', rules=R, nloops=0, reach=False),
        Fn(XE, r'^\s+hasMoreTokens\(\) const', 'hasMoreTokens', 'static bool hasMoreTokens(const Self* self)', rules=R, nloops=0, reach=False),
        Fn(XE, r'^\s+getToken\(TokenQueuePositionType\s+thePosition\) const', 'getToken', 'static const XToken* getToken(const Self* self, TokenQueuePositionType thePosition)', rules=R, nloops=0, reach=False),
        Fn(XE, r'^\s+calculateRelativePosition\(', 'calculateRelativePosition',
           'static TokenQueuePositionType calculateRelativePosition(const Self* self, TokenQueuePositionType theOffset, eRelativeDirection theDirection)', rules=R, nloops=0, reach=False),
        Fn(XE, r'^\s+getNextToken\(\)\s*$', 'getNextToken', 'const XToken* getNextToken(Self* self)', rules=R, nloops=0,
           contract=PRE + '''__CPROVER_assigns(self->m_currentPosition, g_tok_at)
__CPROVER_ensures(INV(self))
__CPROVER_ensures(/* the token under the cursor, then one step forward; at the end: no token and no step */
    __CPROVER_old(self->m_currentPosition) < g_size ? (__CPROVER_return_value == g_tok && g_tok_at == __CPROVER_old(self->m_currentPosition) && self->m_currentPosition == __CPROVER_old(self->m_currentPosition) + 1)
                                                    : (__CPROVER_return_value == 0 && self->m_currentPosition == __CPROVER_old(self->m_currentPosition)))'''),
        Fn(XE, r'^\s+getPreviousToken\(\)\s*$', 'getPreviousToken', 'const XToken* getPreviousToken(Self* self)', rules=R, nloops=0,
           contract=PRE + '''__CPROVER_assigns(self->m_currentPosition, g_tok_at)
__CPROVER_ensures(INV(self))
__CPROVER_ensures(/* one step back and the token there; at the first token: no token and no step (the parser error path backs up unconditionally) */
    __CPROVER_old(self->m_currentPosition) > 0 ? (__CPROVER_return_value == g_tok && g_tok_at == __CPROVER_old(self->m_currentPosition) - 1 && self->m_currentPosition == __CPROVER_old(self->m_currentPosition) - 1)
                                               : (__CPROVER_return_value == 0 && self->m_currentPosition == 0))'''),
        Fn(XE, r'^\s+getRelativeToken\(', 'getRelativeToken', 'const XToken* getRelativeToken(const Self* self, TokenQueuePositionType theOffset, eRelativeDirection theDirection)', rules=R, nloops=0,
           contract=PRE + '''__CPROVER_requires(/* offsets are the small constants of the parser look-ahead */ theOffset >= 0 && theOffset <= 65536 && (theDirection == eRelativeBackward || theDirection == eRelativeForward))
__CPROVER_assigns(g_tok_at)
__CPROVER_ensures(/* the token at cursor -/+ offset when that lies inside the queue, otherwise no token */
    theDirection == eRelativeBackward ? (theOffset <= self->m_currentPosition && self->m_currentPosition - theOffset < g_size ? (__CPROVER_return_value == g_tok && g_tok_at == self->m_currentPosition - theOffset) : __CPROVER_return_value == 0)
                                      : (self->m_currentPosition + theOffset < g_size ? (__CPROVER_return_value == g_tok && g_tok_at == self->m_currentPosition + theOffset) : __CPROVER_return_value == 0))'''),
    ],
    template=TEMPLATE,
    jobs=[Job(n, 'h_' + n, enforce=[n], replace=['xv_queue_size', 'xv_queue_at'], reach=['entry:' + n], timeout=120, min_obligations=3) for n in ('getNextToken', 'getPreviousToken', 'getRelativeToken')],
    mutants=[
        Mutant('previous_at_zero', XE, r'if \(m_currentPosition > 0\)', 'if (m_currentPosition >= 0)', expect=None),
        Mutant('next_past_end', XE, r'return tokenQueueSize\(\) > m_currentPosition \? true : false;', 'return tokenQueueSize() >= m_currentPosition ? true : false;', expect=None),
        Mutant('relative_backward_one_too_far', XE, r'theOffset <= m_currentPosition\)', 'theOffset <= m_currentPosition + 1)', expect='inside the vector'),
    ],
    mechanisms=['XPath parser token queue'],
    assumptions=['m_tokenQueue is observed through size() and operator[] (std::vector meaning); fewer than 2^31 - 65536 tokens (TokenQueueSizeType is int; cursor + look-ahead offset is computed in int); look-ahead offsets are between 0 and 65536',
                 'callers (XPathProcessorImpl) are not under contract: they may call these functions in any order, which is why the cursor invariant is a pre- and postcondition of each'],
)
