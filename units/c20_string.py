from xvlib.unit import Fn, Job, Unit, Mutant

XS = 'src/xalanc/XalanDOM/XalanDOMString.cpp'
XSH = 'src/xalanc/XalanDOM/XalanDOMString.hpp'

PRELUDE = r'''
#include "xv_shim.h"
typedef struct XalanDOMString { size_t m_size; } XalanDOMString;   /* m_data (XalanVector<XalanDOMChar>) is the ghost vector below */
typedef size_t iterator;                                           /* an iterator into m_data, as its index */
#define XV_NPOS ((size_t)-1)
#define XV_MAX ((size_t)1 << 40)
#define XV_BIG ((size_t)1 << 60)

/* ghost: the XalanVector<XalanDOMChar> m_data, by CONTRACT (std::vector semantics, assumed): size and last element */
size_t g_dsize; XalanDOMChar g_back;
size_t g_w; XalanDOMChar g_elem_w;   /* one arbitrary tracked element m_data[g_w] (used by resize: content, not only size and terminator) */
size_t g_slen;             /* length() of the NUL-terminated source string argument */
bool xv_vec_empty(void) __CPROVER_requires(1) __CPROVER_assigns() __CPROVER_ensures(__CPROVER_return_value == (g_dsize == 0)) ;
size_t xv_vec_size(void) __CPROVER_requires(1) __CPROVER_assigns() __CPROVER_ensures(__CPROVER_return_value == g_dsize) ;
size_t xv_vec_end(void) __CPROVER_requires(1) __CPROVER_assigns() __CPROVER_ensures(__CPROVER_return_value == g_dsize) ;
XalanDOMChar xv_vec_back(void) __CPROVER_requires(g_dsize > 0) __CPROVER_assigns() __CPROVER_ensures(__CPROVER_return_value == g_back) ;
void xv_vec_set_back(XalanDOMChar v) __CPROVER_requires(g_dsize > 0) __CPROVER_assigns(g_back, g_elem_w) __CPROVER_ensures(g_back == v && g_elem_w == (g_w == g_dsize - 1 ? v : __CPROVER_old(g_elem_w))) ;
void xv_vec_set(size_t i, XalanDOMChar v) __CPROVER_requires(/* element access inside the vector */ i < g_dsize) __CPROVER_assigns(g_back, g_elem_w)
__CPROVER_ensures(g_back == (i == g_dsize - 1 ? v : __CPROVER_old(g_back)) && g_elem_w == (i == g_w ? v : __CPROVER_old(g_elem_w))) ;
void xv_vec_reserve(size_t n) __CPROVER_requires(1) __CPROVER_assigns() __CPROVER_ensures(1) ;
void xv_vec_push_back(XalanDOMChar v) __CPROVER_requires(g_dsize < XV_BIG) __CPROVER_assigns(g_dsize, g_back) __CPROVER_ensures(g_dsize == __CPROVER_old(g_dsize) + 1 && g_back == v) ;
void xv_vec_insert_range(iterator pos, size_t n)
__CPROVER_requires(/* insert position inside the vector */ pos <= g_dsize && n <= XV_BIG) __CPROVER_assigns(g_dsize, g_back)
__CPROVER_ensures(g_dsize == __CPROVER_old(g_dsize) + n && ((pos < __CPROVER_old(g_dsize) || n == 0) ==> g_back == __CPROVER_old(g_back))) ;
void xv_vec_insert_fill(iterator pos, size_t n, XalanDOMChar c)
__CPROVER_requires(/* insert position inside the vector */ pos <= g_dsize && n <= XV_BIG) __CPROVER_assigns(g_dsize, g_back)
__CPROVER_ensures(g_dsize == __CPROVER_old(g_dsize) + n && g_back == ((pos < __CPROVER_old(g_dsize) || n == 0) ? __CPROVER_old(g_back) : c)) ;
void xv_vec_resize(size_t n, XalanDOMChar c)          /* std::vector::resize(n, c): existing elements keep their value, new ones are c */
__CPROVER_requires(n <= XV_BIG) __CPROVER_assigns(g_dsize, g_back, g_elem_w)
__CPROVER_ensures(g_dsize == n && (n > __CPROVER_old(g_dsize) ==> g_back == c) && (n == __CPROVER_old(g_dsize) ==> g_back == __CPROVER_old(g_back)))
__CPROVER_ensures(g_w < __CPROVER_old(g_dsize) ? g_elem_w == __CPROVER_old(g_elem_w) : (g_w < n ==> g_elem_w == c)) ;
void xv_vec_erase(iterator a, iterator b)
__CPROVER_requires(/* erased range inside the vector */ a <= b && b <= g_dsize) __CPROVER_assigns(g_dsize, g_back)
__CPROVER_ensures(g_dsize == __CPROVER_old(g_dsize) - (b - a) && ((b < __CPROVER_old(g_dsize) || a == b) ==> g_back == __CPROVER_old(g_back))) ;
void xv_vec_assign(size_t n) __CPROVER_requires(n <= XV_BIG) __CPROVER_assigns(g_dsize, g_back) __CPROVER_ensures(g_dsize == n) ;
/* theSubstring.assign(*this, position, count): contract of XalanDOMString::assign(const XalanDOMString&, size_type, size_type) (its own assert) */
size_t g_sub_pos, g_sub_count; bool g_sub_done;
void* xv_assign_from(void* target, const XalanDOMString* src, size_t pos, size_t count)
__CPROVER_requires(/* the range handed to assign lies inside the source string */ pos <= src->m_size && count <= src->m_size - pos)
__CPROVER_assigns(g_sub_pos, g_sub_count, g_sub_done) __CPROVER_ensures(g_sub_done == true && g_sub_pos == pos && g_sub_count == count) ;
size_t xv_strlen(const XalanDOMChar* s) __CPROVER_requires(1) __CPROVER_assigns() __CPROVER_ensures(__CPROVER_return_value == g_slen) ;

/* representation invariant of XalanDOMString (from invariants()): empty vector and size 0, or size+1 units ending in the terminator */
#define INV(s) ((g_dsize == 0 && (s)->m_size == 0) || (g_dsize == (s)->m_size + 1 && g_back == 0))
#define PRE(s) (__CPROVER_is_fresh((s), sizeof(*(s))) && INV(s) && (s)->m_size <= XV_MAX)
'''

R = [('FCASTS', ['size_type', 'XalanDOMChar']),
     (r'\bnpos\b', 'XV_NPOS', (0, 9)),
     (r'(?<![\w.>])invariants\(\);', 'invariants(self);', (0, 9)),
     (r'(?<![\w.>])(?:length|size)\(\)', 'self->m_size', (0, 9)),
     (r'(?<![\w.>])empty\(\)', '(self->m_size == 0)', (0, 9)),
     (r'(?<![\w.>])length\(theString\)', 'xv_strlen(theString)', (0, 2)),
     (r'(?<![\w.>])getBackInsertIterator\(\)', 'getBackInsertIterator(self)', (0, 3)),
     (r'(?<![\w.>])getIteratorForPosition\(', 'getIteratorForPosition(self, ', (0, 3)),
     (r'm_data\.insert\(([^;]*?),\s*theString,\s*theString \+ (\w+)\);', r'xv_vec_insert_range(\1, \2);', (0, 3)),
     (r'm_data\.insert\(([^;]*?),\s*(theCount(?: \+ 1)?),\s*theChar\);', r'xv_vec_insert_fill(\1, \2, theChar);', (0, 3)),
     (r'm_data\.push_back\(\(\(XalanDOMChar\)\(0\)\)\);', 'xv_vec_push_back(0);', (0, 2)),
     (r'm_data\.push_back\(0\);', 'xv_vec_push_back(0);', (0, 2)),
     (r'm_data\[(\w+)\] = (\w+);', r'xv_vec_set(\1, \2);', (0, 2)),
     (r'm_data\.back\(\) = 0;', 'xv_vec_set_back(0);', (0, 3)),
     (r'm_data\.back\(\)', 'xv_vec_back()', (0, 3)),
     (r'm_data\.reserve\(', 'xv_vec_reserve(', (0, 3)),
     (r'm_data\.resize\(', 'xv_vec_resize(', (0, 3)),
     (r'm_data\.erase\(', 'xv_vec_erase(', (0, 3)),
     (r'm_data\.assign\(theFirstPosition, theLastPosition\);', 'xv_vec_assign(theLastPosition - theFirstPosition);', (0, 1)),
     (r'm_data\.empty\(\)', 'xv_vec_empty()', (0, 9)),
     (r'm_data\.size\(\)', 'xv_vec_size()', (0, 9)),
     (r'm_data\.begin\(\)', '((size_t)0)', (0, 9)),
     (r'm_data\.end\(\)', 'xv_vec_end()', (0, 9)),
     (r'(?<!->)\bm_size\b', 'self->m_size', (0, 20)),
     (r'return \*this;', 'return self;', (0, 1))]

VEC = ['xv_vec_empty', 'xv_vec_size', 'xv_vec_end', 'xv_vec_back', 'xv_vec_set_back', 'xv_vec_reserve', 'xv_vec_push_back', 'xv_vec_insert_range',
       'xv_vec_insert_fill', 'xv_vec_resize', 'xv_vec_set', 'xv_assign_from', 'xv_vec_erase', 'xv_vec_assign', 'xv_strlen']


def post(n, expected):
    return ('__CPROVER_assigns(self->m_size, g_dsize, g_back, g_elem_w)\n'
            '__CPROVER_ensures(/* %s keeps the representation invariant (terminator in place, size field consistent) */ INV(self))\n'
            '__CPROVER_ensures(/* %s: length as std::u16string would have it */ self->m_size == %s)\n' % (n, n, expected))


TEMPLATE = PRELUDE + r'''
@@FN invariants@@
@@FN getBackInsertIterator@@
@@FN getIteratorForPosition@@
@@FN append_units@@
@@FN append_fill@@
@@FN erase@@
@@FN resize@@
@@FN substr@@
@@FN assign_iter@@
@@FN insert_units@@

static void xv_havoc(void) { size_t a, b, w; XalanDOMChar c, e; g_dsize = a; g_slen = b; g_back = c; g_w = w; g_elem_w = e; }
void h_append_units(void) { xv_havoc(); XalanDOMString* s; const XalanDOMChar* p; size_t n; append_units(s, p, n); }
void h_append_fill(void) { xv_havoc(); XalanDOMString* s; XalanDOMChar c; size_t n; append_fill(s, n, c); }
void h_erase(void) { xv_havoc(); XalanDOMString* s; size_t a, n; erase(s, a, n); }
void h_substr(void) { xv_havoc(); g_sub_done = false; XalanDOMString* s; size_t a, n; substr(s, 0, a, n); }
void h_resize(void) { xv_havoc(); XalanDOMString* s; XalanDOMChar c; size_t n; resize(s, n, c); }
void h_assign_iter(void) { xv_havoc(); XalanDOMString* s; size_t a, b; assign_iter(s, a, b); }
void h_insert_units(void) { xv_havoc(); XalanDOMString* s; const XalanDOMChar* p; size_t a, n; insert_units(s, a, p, n); }
'''

UNIT = Unit(
    name='c20_string',
    props=['C20', 'C03'],
    functions=[
        Fn(XSH, r'^\s+invariants\(\) const', 'invariants', 'static void invariants(const XalanDOMString* self)', head_expect=r'void invariants\(\) const$',
           rules=R, nloops=0, reach=False),
        Fn(XSH, r'^\s+getBackInsertIterator\(\)\s*$', 'getBackInsertIterator', 'static iterator getBackInsertIterator(XalanDOMString* self)',
           head_expect=r'iterator getBackInsertIterator\(\)$', rules=R, nloops=0, reach=False),
        Fn(XSH, r'^\s+getIteratorForPosition\(size_type\s+thePosition\)\s*$', 'getIteratorForPosition', 'static iterator getIteratorForPosition(XalanDOMString* self, size_t thePosition)',
           head_expect=r'iterator getIteratorForPosition\(size_type thePosition\)$', rules=R, nloops=0, reach=False),
        Fn(XS, r'^XalanDOMString::append\(\s*const XalanDOMChar\*\s+theString,', 'append_units',
           'XalanDOMString* append_units(XalanDOMString* self, const XalanDOMChar* theString, size_t theCount)',
           head_expect=r'^XalanDOMString& XalanDOMString::append\( const XalanDOMChar\* theString, size_type theCount\)$', rules=R, nloops=0,
           contract='__CPROVER_requires(PRE(self) && g_slen <= XV_MAX && (theCount == XV_NPOS || theCount <= g_slen))\n'
                    + post('append(const XalanDOMChar*, count)', '__CPROVER_old(self->m_size) + (theCount == XV_NPOS ? g_slen : theCount)')),
        Fn(XS, r'^XalanDOMString::append\(\s*size_type\s+theCount,\s*XalanDOMChar', 'append_fill',
           'XalanDOMString* append_fill(XalanDOMString* self, size_t theCount, XalanDOMChar theChar)',
           head_expect=r'^XalanDOMString& XalanDOMString::append\( size_type theCount, XalanDOMChar theChar\)$', rules=R, nloops=0,
           contract='__CPROVER_requires(PRE(self) && theCount <= XV_MAX)\n' + post('append(count, char)', '__CPROVER_old(self->m_size) + theCount')),
        Fn(XS, r'^XalanDOMString::erase\(', 'erase', 'XalanDOMString* erase(XalanDOMString* self, size_t theStartPosition, size_t theCount)',
           head_expect=r'^XalanDOMString& XalanDOMString::erase\( size_type theStartPosition, size_type theCount\)$', rules=R, nloops=0,
           contract='__CPROVER_requires(PRE(self) && theStartPosition <= self->m_size && (theCount == XV_NPOS || theCount <= self->m_size - theStartPosition))\n'
                    + post('erase(start, count)', '__CPROVER_old(self->m_size) - (theCount == XV_NPOS ? __CPROVER_old(self->m_size) - theStartPosition : theCount)')),
        Fn(XSH, r'^\s+substr\(\s*XalanDOMString&\s+theSubstring,', 'substr', 'void* substr(const XalanDOMString* self, void* theSubstring, size_t thePosition, size_t theCount)',
           rules=R + [(r'assert\(\(theCount == \(\(size_type\)\(XV_NPOS\)\).*?\)\);', '', (0, 1)), (r'theSubstring\.assign\(\s*\*this,', 'xv_assign_from(theSubstring, self,', 1)], nloops=0,
           contract='''__CPROVER_requires(__CPROVER_is_fresh(self, sizeof(*self)) && INV(self) && self->m_size <= XV_MAX && g_sub_done == false)
__CPROVER_requires(/* the precondition of substr (its own assert) */ (theCount == XV_NPOS && thePosition < self->m_size) || (theCount != XV_NPOS && theCount <= XV_MAX && thePosition <= self->m_size && theCount <= self->m_size - thePosition))
__CPROVER_assigns(g_sub_pos, g_sub_count, g_sub_done)
__CPROVER_ensures(/* substr(pos, count) like std::u16string: count units from pos, npos meaning the rest of the string */
    g_sub_done == true && g_sub_pos == thePosition && g_sub_count == (theCount == XV_NPOS ? self->m_size - thePosition : theCount))'''),
        Fn(XS, r'^XalanDOMString::resize\(', 'resize', 'void resize(XalanDOMString* self, size_t theCount, XalanDOMChar theChar)',
           head_expect=r'^void XalanDOMString::resize\( size_type theCount, XalanDOMChar theChar\)$', rules=R, nloops=0,
           contract='__CPROVER_requires(PRE(self) && theCount <= XV_MAX && /* the tracked element of a non-empty string: a unit of the string, or its terminator */ (g_w == self->m_size && g_dsize > 0 ==> g_elem_w == 0))\n'
                    + post('resize(count, char)', 'theCount')
                    + '__CPROVER_ensures(/* resize(count, char) like std::u16string: kept units keep their value, every added unit is the fill character (also the one where the terminator used to be) */\n'
                      '    g_w < theCount ==> g_elem_w == (g_w < __CPROVER_old(self->m_size) ? __CPROVER_old(g_elem_w) : theChar))\n'),
        Fn(XS, r'^XalanDOMString::assign\(\s*iterator\s+theFirstPosition,', 'assign_iter',
           'XalanDOMString* assign_iter(XalanDOMString* self, iterator theFirstPosition, iterator theLastPosition)',
           head_expect=r'^XalanDOMString& XalanDOMString::assign\( iterator theFirstPosition, iterator theLastPosition\)$', rules=R, nloops=0,
           contract='__CPROVER_requires(PRE(self) && theFirstPosition <= theLastPosition && theLastPosition <= XV_MAX)\n'
                    + post('assign(first, last)', 'theLastPosition - theFirstPosition')),
        Fn(XS, r'^XalanDOMString::insert\(\s*size_type\s+thePosition,\s*const XalanDOMChar\*', 'insert_units',
           'XalanDOMString* insert_units(XalanDOMString* self, size_t thePosition, const XalanDOMChar* theString, size_t theCount)',
           head_expect=r'^XalanDOMString& XalanDOMString::insert\( size_type thePosition, const XalanDOMChar\* theString, size_type theCount\)$',
           rules=R + [(r'(?<![\w.>])append\(theString, theCount\);', 'append_units(self, theString, theCount);', 1)], nloops=0,
           contract='__CPROVER_requires(PRE(self) && thePosition <= self->m_size && theCount <= XV_MAX && theCount <= g_slen && g_slen <= XV_MAX)\n'
                    + post('insert(pos, const XalanDOMChar*, count)', '__CPROVER_old(self->m_size) + theCount')),
    ],
    template=TEMPLATE,
    jobs=[Job(n, 'h_' + n, enforce=[n], replace=VEC, reach=['entry:' + n], timeout=300)
          for n in ('append_units', 'append_fill', 'erase', 'resize', 'assign_iter', 'substr')]
    + [Job('insert_units', 'h_insert_units', enforce=['insert_units'], replace=VEC + ['append_units'], reach=['entry:insert_units'], timeout=300)],
    mutants=[
        Mutant('append_empty_test', XS, r'(XalanDOMString::append\(\s*const XalanDOMChar\*.*?)if \(m_data\.empty\(\) == true\)', r'\1if (empty() == true)', expect='append'),
        Mutant('erase_size', XS, r'm_size = theNewSize - 1;', 'm_size = theNewSize;', expect='erase'),
        Mutant('resize_no_terminator', XS, r'(m_size = theCount;\s*// Terminate\.\.\.\s*)m_data\.back\(\) = 0;', r'\1', expect=None),
    ],
    mechanisms=['string mutation keeping the terminator'],
    replay='domstring',
    assumptions=['XalanVector<XalanDOMChar> (m_data) behaves like std::vector with respect to size and last element: insert/erase/resize/push_back/assign/back contracts are ASSUMED (the template itself is outside CBMC reach)',
                 'contents other than the terminator are not tracked by this unit'],
)
