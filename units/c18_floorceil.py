"""C18 / C02: floor(), ceiling(), round() and number(expr) of XPath 4.4 as XPath.hpp wires them: each evaluates its ONE argument (the
expression at opPos + 2) as a number and applies exactly its own rounding function (DoubleSupport::floor -> std::floor,
DoubleSupport::ceiling -> std::ceil, DoubleSupport::round: unit c18_round) to exactly that value."""
from xvlib.unit import Fn, Job, Unit, Mutant

XH = 'src/xalanc/XPath/XPath.hpp'
DH = 'src/xalanc/PlatformSupport/DoubleSupport.hpp'
TEMPLATE = r'''
#include "xv_shim.h"
typedef struct Self Self; typedef struct XalanNode XalanNode; typedef struct Ctx Ctx; typedef size_t OpCodeMapPositionType;
enum { LIBM_NONE, LIBM_FLOOR, LIBM_CEIL, DS_ROUND };
/* ghost: what was evaluated (node, op position), its numeric value, which rounding primitive was applied to which value */
const XalanNode* g_ctx_node; size_t g_op; size_t g_evaluated_at; const XalanNode* g_evaluated_node; double g_arg; int g_prim; double g_prim_arg; double g_prim_result;
void xv_executeMore_number(const Self* s, XalanNode* context, size_t opPos, Ctx* ec, double* result)
__CPROVER_requires(__CPROVER_w_ok(result, sizeof(*result))) __CPROVER_assigns(*result, g_evaluated_at, g_evaluated_node)
__CPROVER_ensures(*result == g_arg && g_evaluated_at == opPos && g_evaluated_node == context) ;
double xv_libm(int which, double x) __CPROVER_requires(g_prim == LIBM_NONE) __CPROVER_assigns(g_prim, g_prim_arg)
__CPROVER_ensures(g_prim == which && (g_prim_arg == x || (x != x && g_prim_arg != g_prim_arg)) && (__CPROVER_return_value == g_prim_result || (g_prim_result != g_prim_result && __CPROVER_return_value != __CPROVER_return_value))) ;
@@FN DS_floor@@
@@FN DS_ceiling@@
@@FN functionNumber3@@
@@FN functionFloor@@
@@FN functionCeiling@@
@@FN functionRound@@
static void xv_havoc(void) { double a, r; const XalanNode* n; size_t o; __CPROVER_assume(o < ((size_t)1 << 40)); g_arg = a; g_prim_result = r; g_ctx_node = n; g_op = o; g_prim = LIBM_NONE; g_evaluated_at = (size_t)-1; g_evaluated_node = 0; }
void h_functionFloor(void) { xv_havoc(); functionFloor(0, (XalanNode*)g_ctx_node, g_op, 0); }
void h_functionCeiling(void) { xv_havoc(); functionCeiling(0, (XalanNode*)g_ctx_node, g_op, 0); }
void h_functionRound(void) { xv_havoc(); functionRound(0, (XalanNode*)g_ctx_node, g_op, 0); }
'''
R = [(r'std::floor\(', 'xv_libm(LIBM_FLOOR, ', (0, 2)),
     (r'std::ceil\(', 'xv_libm(LIBM_CEIL, ', (0, 2)),
     (r'(?<![\w.>])executeMore\(context, (opPos \+ \d+|opPos), executionContext, result\);', r'xv_executeMore_number(self, context, \1, executionContext, &result);', (0, 1)),
     (r'DoubleSupport::floor\(', 'DS_floor(', (0, 1)),
     (r'DoubleSupport::ceiling\(', 'DS_ceiling(', (0, 1)),
     (r'DoubleSupport::round\(', 'xv_libm(DS_ROUND, ', (0, 1)),
     (r'(?<![\w.>])functionNumber\(context, opPos, executionContext\)', 'functionNumber3(self, context, opPos, executionContext)', (0, 1))]
SAME = '(__CPROVER_return_value == g_prim_result || (g_prim_result != g_prim_result && __CPROVER_return_value != __CPROVER_return_value))'
ARG = '(g_prim_arg == g_arg || (g_arg != g_arg && g_prim_arg != g_prim_arg))'


def fn(name, prim, what):
    return Fn(XH, r'^\s+%s\(\s*XalanNode\*\s+context,\s*OpCodeMapPositionType\s+opPos,\s*XPathExecutionContext&\s+executionContext\) const' % name, name,
              'double %s(const Self* self, XalanNode* context, OpCodeMapPositionType opPos, Ctx* executionContext)' % name, rules=R, nloops=0,
              contract='''__CPROVER_requires(context == g_ctx_node && opPos == g_op && opPos < ((size_t)1 << 40) && g_prim == LIBM_NONE)
__CPROVER_assigns(g_prim, g_prim_arg, g_evaluated_at, g_evaluated_node)
__CPROVER_ensures(/* %s: the argument expression (opPos + 2) is evaluated as a number with the same context node */ g_evaluated_at == opPos + 2 && g_evaluated_node == context)
__CPROVER_ensures(/* ... and exactly %s is applied to exactly that number; its result is the result */ g_prim == %s && %s && %s)''' % (what, what, prim, ARG, SAME))


UNIT = Unit(
    name='c18_floorceil',
    props=['C18', 'C02'],
    functions=[
        Fn(DH, r'^\s+floor\(double\s+theValue\)', 'DS_floor', 'static double DS_floor(double theValue)', rules=R, nloops=0, reach=False),
        Fn(DH, r'^\s+ceiling\(double\s+theValue\)', 'DS_ceiling', 'static double DS_ceiling(double theValue)', rules=R, nloops=0, reach=False),
        Fn(XH, r'^\s+functionNumber\(\s*XalanNode\*\s+context,\s*OpCodeMapPositionType\s+opPos,\s*XPathExecutionContext&\s+executionContext\) const', 'functionNumber3',
           'static double functionNumber3(const Self* self, XalanNode* context, OpCodeMapPositionType opPos, Ctx* executionContext)', rules=R, nloops=0, reach=False),
        fn('functionFloor', 'LIBM_FLOOR', 'floor()'),
        fn('functionCeiling', 'LIBM_CEIL', 'ceiling()'),
        fn('functionRound', 'DS_ROUND', 'round()'),
    ],
    template=TEMPLATE,
    jobs=[Job(n, 'h_' + n, enforce=[n], replace=['xv_executeMore_number', 'xv_libm'], reach=['entry:' + n], timeout=120, min_obligations=3) for n in ('functionFloor', 'functionCeiling', 'functionRound')],
    mutants=[
        Mutant('ceiling_uses_floor', XH, r'return DoubleSupport::ceiling\(functionNumber', 'return DoubleSupport::floor(functionNumber', expect='ceiling()'),
        Mutant('ds_ceiling_is_floor_plus_one', DH, r'(ceiling\(double\s+theValue\)\s*\{\s*)return std::ceil\(theValue\);', r'\1return std::floor(theValue) + 1.0;', expect='ceiling()'),
        Mutant('number_evaluates_wrong_operand', XH, r'(double  result;\s*)executeMore\(context, opPos \+ 2, executionContext, result\);', r'\1executeMore(context, opPos + 3, executionContext, result);', expect='argument expression'),
    ],
    mechanisms=['floor / ceiling / round wiring'],
    assumptions=['std::floor / std::ceil are the IEEE operations (libm); DoubleSupport::round is unit c18_round; executeMore(..., double&) is unit c11_dispatch'],
)
