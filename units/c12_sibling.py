"""C12 (documents without node indexes): DOMServices::isNodeAfterSibling orders two nodes that hang off the same element: attributes come
before every child node (element, text, comment, processing instruction alike); two attributes are ordered by their index in the attribute
map, two children by their position in the sibling chain.  isNodeAfter (unit c12_isnodeafter) relies on exactly this."""
from xvlib.unit import Fn, Job, Unit, Mutant

DS = 'src/xalanc/DOMSupport/DOMServices.cpp'
TEMPLATE = r'''
#include "xv_shim.h"
typedef long NodeH; typedef long XalanNamedNodeMap_h;   /* nodes are handles: child k of the parent is 1 + k, attribute i is ATTR0 + i, 0 is null */ typedef int XalanNode_NodeType; typedef size_t XalanSize_t; typedef long XalanNode;
enum { XalanNode_ELEMENT_NODE = 1, XalanNode_ATTRIBUTE_NODE = 2, XalanNode_TEXT_NODE = 3, XalanNode_COMMENT_NODE = 8 };
#define MAXN (1L << 40)
#define ATTR0 (1L << 50)
#define KID(k) ((NodeH)(1 + (k)))
#define ATT(i) ((NodeH)(ATTR0 + (i)))
/* the attributes and the children of the parent, as two sequences of distinct node identities (addresses inside two arrays; never read) */
size_t g_na, g_nk; NodeH g_c1, g_c2; int g_t1, g_t2; size_t g_p1, g_p2;
int xv_node_type(NodeH n) __CPROVER_requires(n == g_c1 || n == g_c2) __CPROVER_assigns() __CPROVER_ensures(__CPROVER_return_value == (n == g_c1 ? g_t1 : g_t2)) ;
XalanNamedNodeMap_h xv_attributes(NodeH p) __CPROVER_requires(1) __CPROVER_assigns() __CPROVER_ensures(__CPROVER_return_value == 7) ;
size_t xv_attr_count(XalanNamedNodeMap_h m) __CPROVER_requires(m == 7) __CPROVER_assigns() __CPROVER_ensures(__CPROVER_return_value == g_na) ;
NodeH xv_attr_item(XalanNamedNodeMap_h m, size_t i) __CPROVER_requires(m == 7 && i < g_na) __CPROVER_assigns() __CPROVER_ensures(__CPROVER_return_value == ATT(i)) ;
NodeH xv_first_child(NodeH p) __CPROVER_requires(1) __CPROVER_assigns() __CPROVER_ensures(__CPROVER_return_value == (g_nk == 0 ? (NodeH)0 : KID(0))) ;
NodeH xv_next_sibling(NodeH n) __CPROVER_requires(n >= 1 && (size_t)(n - 1) < g_nk) __CPROVER_assigns() __CPROVER_ensures(__CPROVER_return_value == ((size_t)n < g_nk ? n + 1 : (NodeH)0)) ;
#define CUR(child) ((child) == 0 ? g_nk : (size_t)((child) - 1))
@@FN isNodeAfterSibling@@
void h_isNodeAfterSibling(void)
{
    size_t na, nk, p1, p2; int t1, t2; __CPROVER_assume(na <= MAXN && nk <= MAXN && t1 >= 1 && t1 <= 12 && t2 >= 1 && t2 <= 12);
    __CPROVER_assume((t1 == XalanNode_ATTRIBUTE_NODE ? p1 < na : p1 < nk) && (t2 == XalanNode_ATTRIBUTE_NODE ? p2 < na : p2 < nk));
    __CPROVER_assume(((t1 == XalanNode_ATTRIBUTE_NODE) == (t2 == XalanNode_ATTRIBUTE_NODE)) ==> p1 != p2);
    g_na = na; g_nk = nk; g_p1 = p1; g_p2 = p2; g_t1 = t1; g_t2 = t2;
    g_c1 = t1 == XalanNode_ATTRIBUTE_NODE ? ATT(p1) : KID(p1); g_c2 = t2 == XalanNode_ATTRIBUTE_NODE ? ATT(p2) : KID(p2);
    isNodeAfterSibling(0, g_c1, g_c2);
}
'''
R = ['SCOPE',
     (r'(child[12])\.getNodeType\(\)', r'xv_node_type(\1)', 2),
     (r'parent\.getAttributes\(\)', 'xv_attributes(parent)', 1),
     (r'children->getLength\(\)', 'xv_attr_count(children)', 1),
     (r'children->item\((\w+)\)', r'xv_attr_item(children, \1)', 1),
     (r'parent\.getFirstChild\(\)', 'xv_first_child(parent)', 1),
     (r'child->getNextSibling\(\)', 'xv_next_sibling(child)', 1),
     (r'&(child[12])\b', r'\1', 4),
     (r'const XalanNamedNodeMap\*\s+children', 'const XalanNamedNodeMap_h children', 1),
     (r'const XalanNode\*\s+child\b', 'NodeH child', 2)]
UNIT = Unit(
    name='c12_sibling',
    props=['C12'],
    functions=[
        Fn(DS, r'^DOMServices::isNodeAfterSibling\(', 'isNodeAfterSibling', 'bool isNodeAfterSibling(NodeH parent, NodeH child1, NodeH child2)', rules=R, nloops=2,
           loops={0: '''__CPROVER_assigns(i, found1, found2, isNodeAfterSibling)
__CPROVER_loop_invariant(i <= nNodes && isNodeAfterSibling == false && found1 == (g_p1 < i) && found2 == (g_p2 < i) && /* the loop is left as soon as the second of the two is met */ !(found1 == true && found2 == true))
__CPROVER_decreases(nNodes - i)''',
                  1: '''__CPROVER_assigns(child, found1, found2, isNodeAfterSibling)
__CPROVER_loop_invariant((child == 0 || (child >= 1 && (size_t)(child - 1) < g_nk)) && isNodeAfterSibling == false && found1 == (g_p1 < CUR(child)) && found2 == (g_p2 < CUR(child)) && !(found1 == true && found2 == true))
__CPROVER_decreases(g_nk - CUR(child))'''},
           contract='''__CPROVER_requires(child1 == g_c1 && child2 == g_c2 && g_na <= MAXN && g_nk <= MAXN && g_t1 >= 1 && g_t1 <= 12 && g_t2 >= 1 && g_t2 <= 12)
__CPROVER_requires(/* both hang off the parent: an attribute is in its attribute map, any other node in its sibling chain; two different nodes */
    g_c1 == (g_t1 == XalanNode_ATTRIBUTE_NODE ? ATT(g_p1) : KID(g_p1)) && g_c2 == (g_t2 == XalanNode_ATTRIBUTE_NODE ? ATT(g_p2) : KID(g_p2)) &&
    (g_t1 == XalanNode_ATTRIBUTE_NODE ? g_p1 < g_na : g_p1 < g_nk) && (g_t2 == XalanNode_ATTRIBUTE_NODE ? g_p2 < g_na : g_p2 < g_nk) && (((g_t1 == XalanNode_ATTRIBUTE_NODE) == (g_t2 == XalanNode_ATTRIBUTE_NODE)) ==> g_p1 != g_p2))
__CPROVER_assigns()
__CPROVER_ensures(/* attributes precede every kind of child node */ (g_t1 != XalanNode_ATTRIBUTE_NODE && g_t2 == XalanNode_ATTRIBUTE_NODE) ==> __CPROVER_return_value == true)
__CPROVER_ensures((g_t1 == XalanNode_ATTRIBUTE_NODE && g_t2 != XalanNode_ATTRIBUTE_NODE) ==> __CPROVER_return_value == false)
__CPROVER_ensures(/* two attributes: by index in the attribute map; two children: by position in the sibling chain */ ((g_t1 == XalanNode_ATTRIBUTE_NODE) == (g_t2 == XalanNode_ATTRIBUTE_NODE)) ==> __CPROVER_return_value == (g_p1 > g_p2))'''),
    ],
    template=TEMPLATE,
    jobs=[Job('isNodeAfterSibling', 'h_isNodeAfterSibling', enforce=['isNodeAfterSibling'], replace=['xv_node_type', 'xv_attributes', 'xv_attr_count', 'xv_attr_item', 'xv_first_child', 'xv_next_sibling'],
              loop_contracts=True, reach='all', timeout=600, min_obligations=8)],
    mutants=[
        Mutant('only_elements_after_attributes', DS, r'if \(XalanNode::ATTRIBUTE_NODE != child1type &&\s*XalanNode::ATTRIBUTE_NODE == child2type\)', 'if (XalanNode::ELEMENT_NODE == child1type &&\n        XalanNode::ATTRIBUTE_NODE == child2type)', expect=None),
        Mutant('sibling_answer_inverted', DS, r'(while \(child != 0\)\s*\{\s*if \(&child1 == child\)\s*\{\s*if \(found2 == true\)\s*\{\s*isNodeAfterSibling = )true;', r'\1false;', expect=None),
    ],
    mechanisms=['document order without node indexes (Xerces DOM wrapped on demand)'],
    assumptions=['the attribute map and the sibling chain of the parent are two sequences of distinct nodes (identities are integer handles; fewer than 2^40 of each); getAttributes/item/getFirstChild/getNextSibling enumerate them'],
)
