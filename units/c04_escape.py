from xvlib.unit import Fn, Job, Unit, Mutant, Block
from xvlib.common import UNICODE_BLOCK

FX = 'src/xalanc/XMLSupport/FormatterToXMLUnicode.hpp'
SB = 'src/xalanc/XMLSupport/XalanXMLSerializerBase.hpp'
SBC = 'src/xalanc/XMLSupport/XalanXMLSerializerBase.cpp'

FLAGS = Block(SB, r'^\s*enum\s*\{\s*eNone = 0u', 'flags')
LAST = Block(SBC, r'^const size_t\s+XalanXMLSerializerBase::CharFunctor1_0::s_lastSpecial', 'lastSpecial', end=r';',
             rules=[(r'const size_t\s+XalanXMLSerializerBase::CharFunctor1_0::s_lastSpecial = ([^;]+);', r'#define s_lastSpecial ((size_t)\1)', 1)])
TABLE = Block(SBC, r'^const char\s+XalanXMLSerializerBase::CharFunctor1_0::s_specialChars', 'specialChars',
              rules=[(r'const char\s+XalanXMLSerializerBase::CharFunctor1_0::s_specialChars', 'static const char s_specialChars', 1)])
CF = r'class XALAN_XMLSUPPORT_EXPORT CharFunctor1_0'


def cf(name):
    return Fn(SB, r'^\s+%s\(XalanDOMChar\s+theChar\) const' % name, 'cp_' + name, 'static bool cp_%s(XalanDOMChar theChar)' % name,
              head_expect=r'bool %s\(XalanDOMChar theChar\) const$' % name, after=CF, nloops=0, reach=False,
              rules=[(r'assert\(theChar > 0\);', '/* R11 dropped: assert(theChar > 0): a NUL unit falls through to the forbidden-character exception in the release build */', (0, 1))])


PRELUDE = r'''
#include "xv_shim.h"
@@BLOCK XalanUnicode@@
@@BLOCK flags@@
@@BLOCK lastSpecial@@
@@BLOCK specialChars@@
typedef XalanDOMChar XMLCh; typedef struct Self Self;

/* ghost: the text being written, a cursor over it, one arbitrary witness position and whether that unit went out raw */
const XalanDOMChar* g_in; size_t g_len; size_t g_cursor; size_t g_w; bool g_w_raw; bool g_attr;
#define XMLCHAR(c) ((c) == 0x9 || (c) == 0xA || (c) == 0xD || ((c) >= 0x20 && (c) <= 0xD7FF) || ((c) >= 0xE000 && (c) <= 0xFFFD))
/* what may be written as it stands (XML 1.0 2.4, 3.3.3): in content everything except < & > CR (and LF, which goes out as the
   newline string); in attribute values additionally not " TAB LF CR (attribute-value normalisation would change them) */
#define RAW_OK(c) ((c) <= 0x7F && XMLCHAR(c) && (c) != 0x3C && (c) != 0x26 && (c) != 0x3E && (c) != 0xD && (c) != 0xA && (!g_attr || ((c) != 0x22 && (c) != 0x9)))

@@FN cp_attribute@@
@@FN cp_content@@
@@FN cp_range@@
@@FN cp_isForbidden@@

/* ---- output primitives, as the grammar of character data allows them --------------------------------- */
void xv_raw_unit(Self* s, XalanDOMChar ch)                  /* m_writer.write(value_type(ch)) */
__CPROVER_requires(/* a unit written as it stands is the next unit of the text */ g_cursor < g_len && ch == g_in[g_cursor])
__CPROVER_assigns(g_cursor, g_w_raw)
__CPROVER_ensures(g_cursor == __CPROVER_old(g_cursor) + 1 && g_w_raw == (__CPROVER_old(g_w_raw) || __CPROVER_old(g_cursor) == g_w)) ;
enum { ENT_LT, ENT_GT, ENT_AMP, ENT_QUOT };
void xv_emit_entity(Self* s, int which)
__CPROVER_requires(/* a predefined entity stands for exactly the character at the cursor: &lt; for <, &gt; for >, &amp; for &, &quot; for " */
    g_cursor < g_len && g_in[g_cursor] == (which == ENT_LT ? 0x3C : which == ENT_GT ? 0x3E : which == ENT_AMP ? 0x26 : 0x22))
__CPROVER_assigns(g_cursor) __CPROVER_ensures(g_cursor == __CPROVER_old(g_cursor) + 1) ;
void xv_emit_newline(Self* s)
__CPROVER_requires(/* the newline string is written for a line feed in element content */ g_cursor < g_len && g_in[g_cursor] == 0xA && !g_attr)
__CPROVER_assigns(g_cursor) __CPROVER_ensures(g_cursor == __CPROVER_old(g_cursor) + 1) ;
void xv_emit_charref(Self* s, XMLUInt32 n)
__CPROVER_requires(/* a numeric character reference names the unit at the cursor, which must be an XML Char */ g_cursor < g_len && n == g_in[g_cursor] && XMLCHAR(n))
__CPROVER_assigns(g_cursor) __CPROVER_ensures(g_cursor == __CPROVER_old(g_cursor) + 1) ;
void throwInvalidXMLCharacterException(XalanUnicodeChar ch, int version, void* mm)
__CPROVER_requires(/* only characters XML forbids are refused */ !XMLCHAR(ch)) __CPROVER_assigns() __CPROVER_ensures(0) ;
size_t writeNormalizedCharBig(Self* self, const XalanDOMChar* chars, size_t start, size_t length)
__CPROVER_requires(/* units above 0x7F go to the encoder, starting at the cursor */ chars == g_in && length == g_len && start == g_cursor && start < length && chars[start] > 0x7F)
__CPROVER_assigns(g_cursor)
__CPROVER_ensures((__CPROVER_return_value == start || __CPROVER_return_value == start + 1) && __CPROVER_return_value < length && g_cursor == __CPROVER_return_value + 1) ;
void xv_noop(Self* s) __CPROVER_requires(1) __CPROVER_assigns() __CPROVER_ensures(1) ;
'''

SAFE_CONTRACT = r'''
__CPROVER_requires(g_len <= ((size_t)1 << 40) && g_cursor <= g_len && theLength <= g_len - g_cursor)
__CPROVER_requires(__CPROVER_is_fresh(g_in, (g_len + 1) * sizeof(XalanDOMChar)))
__CPROVER_requires(__CPROVER_pointer_in_range_dfcc(g_in + g_cursor, theChars, g_in + g_cursor))
__CPROVER_assigns(g_cursor, g_w_raw)
__CPROVER_ensures(/* safeWriteContent writes exactly theLength units of the text as they stand, in order */ g_cursor == __CPROVER_old(g_cursor) + theLength)
__CPROVER_ensures(g_w_raw == (__CPROVER_old(g_w_raw) || (__CPROVER_old(g_cursor) <= g_w && g_w < __CPROVER_old(g_cursor) + theLength)))
'''
SAFE_LOOP = r'''
__CPROVER_assigns(i, g_cursor, g_w_raw)
__CPROVER_loop_invariant(i <= theLength && g_cursor == __CPROVER_loop_entry(g_cursor) + i)
__CPROVER_loop_invariant(g_w_raw == (__CPROVER_loop_entry(g_w_raw) || (__CPROVER_loop_entry(g_cursor) <= g_w && g_w < __CPROVER_loop_entry(g_cursor) + i)))
__CPROVER_decreases(theLength - i)
'''
# the replacement contract of safeWriteContent as seen by the escaping loops (pointer relation stated on values)
SAFE_STUB_NOTE = ''

TEXT_REQ = r'''
__CPROVER_requires(%(len)s != 0 && %(len)s <= ((size_t)1 << 40) && __CPROVER_is_fresh(%(p)s, (%(len)s + 1) * sizeof(XalanDOMChar)))
__CPROVER_requires(__CPROVER_pointer_in_range_dfcc(%(p)s, g_in, %(p)s) && g_len == %(len)s && g_cursor == 0 && g_w < %(len)s && g_w_raw == false && g_attr == %(attr)s)
__CPROVER_assigns(g_cursor, g_w_raw)
__CPROVER_ensures(/* %(n)s: every unit of the text is written exactly once, in order (raw, as entity, as newline, as character reference or through the encoder), or an exception ends the call */ g_cursor == %(len)s)
__CPROVER_ensures(/* %(n)s: a unit written as it stands is not markup-significant in this context and is a legal XML character -- for every position (ghost witness) */ g_w_raw ==> RAW_OK(%(p)s[g_w]))
'''
ESC_LOOP = r'''
__CPROVER_assigns(i, firstIndex, g_cursor, g_w_raw)
__CPROVER_loop_invariant(firstIndex <= i && i <= %(len)s && g_cursor == firstIndex)
__CPROVER_loop_invariant(/* the pending run firstIndex .. i-1 holds only units that may go out raw */ (firstIndex <= g_w && g_w < i) ==> RAW_OK(%(p)s[g_w]))
__CPROVER_loop_invariant(g_w_raw ==> (g_w < firstIndex && RAW_OK(%(p)s[g_w])))
__CPROVER_decreases(%(len)s - i)
'''

M = ['SCOPE', (r'getMemoryManager\(\)', '0', (0, 3)), (r'm_version', '0', (0, 3)),
     (r'm_charPredicate\.(\w+)\(', r'cp_\1(', (0, 9)),
     (r'm_writer\.write\(\s*m_constants\.s_lessThanEntityString,[^;]*;', 'xv_emit_entity(self, ENT_LT);', (0, 3)),
     (r'm_writer\.write\(\s*m_constants\.s_greaterThanEntityString,[^;]*;', 'xv_emit_entity(self, ENT_GT);', (0, 3)),
     (r'm_writer\.write\(\s*m_constants\.s_ampersandEntityString,[^;]*;', 'xv_emit_entity(self, ENT_AMP);', (0, 3)),
     (r'm_writer\.write\(\s*m_constants\.s_quoteEntityString,[^;]*;', 'xv_emit_entity(self, ENT_QUOT);', (0, 3)),
     (r'(?<![\w.>])outputNewline\(\);', 'xv_emit_newline(self);', (0, 1)),
     (r'(?<![\w.>])writeNumericCharacterReference\(ch\);', 'xv_emit_charref(self, ch);', (0, 2)),
     (r'(?<![\w.>])(writeDefaultEntity|writeDefaultAttributeEntity|writeDefaultEscape|writeDefaultAttributeEscape)\(ch\)', r'\1(self, ch)', (0, 3)),
     (r'(?<![\w.>])safeWriteContent\(', 'safeWriteContent(self, ', (0, 4)),
     (r'(?<![\w.>])writeNormalizedCharBig\(', 'writeNormalizedCharBig(self, ', (0, 2)),
     (r'(?<![\w.>])writeParentTagEnd\(\);', 'xv_noop(self);', (0, 1)),
     (r'm_indentHandler\.set(?:Preserve|PrevText)\(true\);', 'xv_noop(self);', (0, 2)),
     (r'm_writer\.write\(value_type\(theChars\[i\]\)\);', 'xv_raw_unit(self, theChars[i]);', (0, 1))]

TEMPLATE = PRELUDE + r'''
@@FN safeWriteContent@@
@@FN writeDefaultEntity@@
@@FN writeDefaultAttributeEntity@@
@@FN writeDefaultEscape@@
@@FN writeDefaultAttributeEscape@@
@@FN writeCharacters@@
@@FN writeAttrString@@

static void xv_havoc(void) { const XalanDOMChar* p; size_t a, b, c; bool d, e; g_in = p; g_len = a; g_cursor = b; g_w = c; g_w_raw = XV_BOOL(d); g_attr = XV_BOOL(e); }
void h_safeWriteContent(void) { xv_havoc(); Self* s; const XalanDOMChar* p; size_t n; safeWriteContent(s, p, n); }
void h_writeCharacters(void) { xv_havoc(); Self* s; const XalanDOMChar* p; size_t n; writeCharacters(s, p, n); }
void h_writeAttrString(void) { xv_havoc(); Self* s; const XalanDOMChar* p; size_t n; writeAttrString(s, p, n); }
/* the table facts the escaping relies on, for all 65536 units (XML 1.0) */
void h_table(void)
{
    XalanDOMChar c; 
    __CPROVER_assert(sizeof(s_specialChars) == s_lastSpecial + 1, "special-character table covers 0..s_lastSpecial");
    __CPROVER_assert(!(c <= 0x7F) || cp_isForbidden(c) == !XMLCHAR(c), "XML 1.0: a unit up to 0x7F is flagged forbidden iff it is not an XML Char");
    g_attr = false; __CPROVER_assert(!(c <= 0x7F && !cp_content(c)) || RAW_OK(c), "XML 1.0 content: every unit the table lets through raw is harmless in content");
    g_attr = true;  __CPROVER_assert(!(c <= 0x7F && !cp_attribute(c)) || RAW_OK(c), "XML 1.0 attribute values: every unit the table lets through raw is harmless in an attribute value");
    __CPROVER_assert(!cp_content(c) || cp_attribute(c), "whatever is escaped in content is escaped in attribute values too");
    XV_REACH("h_table");
}
'''

REPL = ['xv_raw_unit', 'xv_emit_entity', 'xv_emit_newline', 'xv_emit_charref', 'throwInvalidXMLCharacterException', 'writeNormalizedCharBig', 'xv_noop']


def mem(name, head, expect, contract='', loops=None, nloops=0, reach=True):
    return Fn(FX, r'^\s+%s\(' % name, name, head, head_expect=expect, rules=M, contract=contract, loops=loops, nloops=nloops, reach=reach)


UNIT = Unit(
    name='c04_escape',
    props=['C04', 'C03'],
    blocks=[UNICODE_BLOCK, FLAGS, LAST, TABLE],
    functions=[cf('attribute'), cf('content'), cf('range'), cf('isForbidden'),
               mem('safeWriteContent', 'void safeWriteContent(Self* self, const XalanDOMChar* theChars, size_t theLength)',
                   r'void safeWriteContent\( const XalanDOMChar\* theChars, size_type theLength\)$', SAFE_CONTRACT, {0: SAFE_LOOP}, 1),
               mem('writeDefaultEntity', 'static bool writeDefaultEntity(Self* self, XalanDOMChar ch)', r'bool writeDefaultEntity\(XalanDOMChar ch\)$', reach=False),
               mem('writeDefaultAttributeEntity', 'static bool writeDefaultAttributeEntity(Self* self, XalanDOMChar ch)', r'bool writeDefaultAttributeEntity\(XalanDOMChar ch\)$', reach=False),
               mem('writeDefaultEscape', 'static void writeDefaultEscape(Self* self, XalanDOMChar ch)', r'void writeDefaultEscape\(XalanDOMChar ch\)$', reach=False),
               mem('writeDefaultAttributeEscape', 'static void writeDefaultAttributeEscape(Self* self, XalanDOMChar ch)', r'void writeDefaultAttributeEscape\(XalanDOMChar ch\)$', reach=False),
               mem('writeCharacters', 'void writeCharacters(Self* self, const XalanDOMChar* chars, size_t length)',
                   r'void writeCharacters\( const XMLCh\* chars, size_type length\)$',
                   TEXT_REQ % dict(p='chars', len='length', attr='false', n='element content'), {0: ESC_LOOP % dict(p='chars', len='length')}, 1),
               mem('writeAttrString', 'void writeAttrString(Self* self, const XalanDOMChar* theString, size_t theStringLength)',
                   r'void writeAttrString\( const XalanDOMChar\* theString, size_type theStringLength\)$',
                   TEXT_REQ % dict(p='theString', len='theStringLength', attr='true', n='attribute value'),
                   {0: ESC_LOOP % dict(p='theString', len='theStringLength')}, 1)],
    template=TEMPLATE,
    jobs=[
        Job('safeWriteContent', 'h_safeWriteContent', enforce=['safeWriteContent'], replace=['xv_raw_unit'], loop_contracts=True,
            reach=['entry:safeWriteContent', 'after_loop0:safeWriteContent'], timeout=600),
        Job('writeCharacters', 'h_writeCharacters', enforce=['writeCharacters'], replace=REPL + ['safeWriteContent'], loop_contracts=True,
            reach=['entry:writeCharacters', 'after_loop0:writeCharacters'], timeout=900),
        Job('writeAttrString', 'h_writeAttrString', enforce=['writeAttrString'], replace=REPL + ['safeWriteContent'], loop_contracts=True,
            reach=['entry:writeAttrString', 'after_loop0:writeAttrString'], timeout=900),
        Job('table_1_0', 'h_table', dfcc=False, reach=['h_table'], timeout=300, min_obligations=5),
    ],
    mutants=[
        Mutant('lt_not_special', SBC, r'(/\* 38-3F \*/\s+eNone,\s+eNone,\s+eNone,\s+eNone,\s+)eBoth', r'\1eNone', expect=None),
        Mutant('quote_not_attr', SBC, r'(/\* 20-27 \*/\s+eNone,\s+eNone,\s+)eAttr', r'\1eNone', expect=None),
        Mutant('firstindex_before_inc', FX, r'(writeDefaultEscape\(ch\);\s*)\+\+i;\s*firstIndex = i;', r'\1firstIndex = i;\n\n                ++i;', expect=None),
        Mutant('amp_as_lt', FX, r'(else if \(XalanUnicode::charAmpersand == ch\)\s*\{\s*m_writer\.write\(\s*m_constants\.)s_ampersandEntityString,\s*m_constants\.s_ampersandEntityStringLength', r'\1s_lessThanEntityString,\n                m_constants.s_lessThanEntityStringLength', expect='predefined entity'),
    ],
    mechanisms=['content and attribute escaping'],
    assumptions=['the writer primitives write what their names say (raw unit, the four predefined entities, newline string, numeric character reference): protocol stubs',
                 'writeNormalizedCharBig hands units above 0x7F to the encoder (proved for the UTF-8 encoder in c04_utf8writer) and consumes one or two units',
                 'proved for the XML 1.0 instantiation (CharFunctor1_0); XML 1.1 table not covered', 'exceptions end the path'],
    replay='serializer',
)
