"""C20: XalanList node management on the real prev/next pointers: constructNode (insert before pos, node taken from the free list or newly
allocated) and freeNode (unlink, push on the free list).  In a closed world of symbolic nodes with symbolic links: every node that is in a
list stays well linked in both directions, the new node sits right before pos with the given value, the freed node's neighbours are joined,
and the free list gains / loses exactly that node.  (Unit c20_splice does the same for splice.)"""
from xvlib.unit import Fn, Job, Unit, Mutant

XL = 'src/xalanc/Include/XalanList.hpp'
TEMPLATE = r'''
#include "xv_shim.h"
typedef int value_type;
typedef struct Node { value_type value; struct Node* prev; struct Node* next; } Node;
typedef struct Self { Node* m_listHead; Node* m_freeListHeadPtr; } Self;
#define NN 6
/* closed world: NN symbolic nodes + one node the allocator can hand out.  A node is IN A LIST iff its prev is not null (freeNode nulls prev;
   free-list nodes are chained through next only) */
Self g_self; Node g_n[NN]; Node g_extra; bool g_allocated; Node* g_P0; Node* g_A0; Node* g_B0; Node* g_F0; Node* g_F0next;
#define IN(p) ((__CPROVER_same_object((p), g_n) && __CPROVER_POINTER_OFFSET(p) % sizeof(Node) == 0 && __CPROVER_POINTER_OFFSET(p) < sizeof(g_n)) || (p) == &g_extra)
#define LIVE(x) ((x).prev != 0)
#define LINKED(x) (!LIVE(x) || (IN((x).next) && IN((x).prev) && (x).next->prev == &(x) && (x).prev->next == &(x) && LIVE(*(x).next) && LIVE(*(x).prev)))
#define ALL_LINKED (LINKED(g_n[0]) && LINKED(g_n[1]) && LINKED(g_n[2]) && LINKED(g_n[3]) && LINKED(g_n[4]) && LINKED(g_n[5]) && LINKED(g_extra))
Node* xv_allocate(Self* s, size_t n)
__CPROVER_requires(n == 1 && g_allocated == false) __CPROVER_assigns(g_allocated) __CPROVER_ensures(g_allocated == true && __CPROVER_return_value == &g_extra) ;
@@FN constructNode@@
@@FN freeNode@@
static void xv_world(void)
{
    for (int k = 0; k < NN; ++k) { int a, b; bool fr; __CPROVER_assume(a >= 0 && a < NN && b >= 0 && b < NN); g_n[k].prev = fr ? (Node*)0 : &g_n[a]; g_n[k].next = &g_n[b]; }
    g_extra.prev = 0; g_extra.next = 0; g_allocated = false;
}
void h_constructNode(void)
{
    xv_world(); int p, f; bool none; value_type v; __CPROVER_assume(p >= 0 && p < NN && f >= 0 && f < NN);
    g_self.m_listHead = 0; g_self.m_freeListHeadPtr = none ? (Node*)0 : &g_n[f];
    if (!none) { bool last; int g; __CPROVER_assume(g >= 0 && g < NN); g_n[f].next = last ? (Node*)0 : &g_n[g]; }
    g_P0 = g_n[p].prev; g_F0 = g_self.m_freeListHeadPtr; g_F0next = none ? (Node*)0 : g_n[f].next;
    constructNode(&g_self, &v, &g_n[p]);
}
void h_freeNode(void)
{
    xv_world(); int t, f; bool none; __CPROVER_assume(t >= 0 && t < NN && f >= 0 && f < NN);
    g_self.m_listHead = 0; g_self.m_freeListHeadPtr = none ? (Node*)0 : &g_n[f];
    g_A0 = g_n[t].prev; g_B0 = g_n[t].next; g_F0 = g_self.m_freeListHeadPtr;
    freeNode(&g_self, &g_n[t]);
}
'''
R = [(r'\bm_freeListHeadPtr\b', 'self->m_freeListHeadPtr', None),
     (r'(?<![\w.>])allocate\(1\)', 'xv_allocate(self, 1)', (0, 1)),
     (r'Constructor::construct\(&newNode->value, data, \*m_memoryManager\);', 'newNode->value = *data;', (0, 1)),
     (r'new \(&newNode->(prev|next)\) Node\*\(([^;]+)\);', r'newNode->\1 = \2;', (0, 2)),
     (r'&\(pos\.node\(\)\)', 'pos', (0, 2)),
     (r'pos\.node\(\)\.', 'pos->', (0, 4)),
     (r'return \*newNode;', 'return newNode;', (0, 1)),
     (r'node\.~Node\(\);', '', (0, 1)),
     (r'&node\b', 'node', (0, 2)),
     (r'\bnode\.', 'node->', (0, 8))]
UNIT = Unit(
    name='c20_listnodes',
    props=['C20'],
    functions=[
        Fn(XL, r'^\s+Node& constructNode\(const value_type& data, iterator pos\)', 'constructNode', 'Node* constructNode(Self* self, const value_type* data, Node* pos)', rules=R, nloops=0,
           contract='''__CPROVER_requires(self == &g_self && __CPROVER_is_fresh(data, sizeof(*data)) && IN(pos) && pos != &g_extra && LIVE(*pos) && ALL_LINKED && g_allocated == false && !LIVE(g_extra))
__CPROVER_requires(/* the free list: empty, or its head is a node that is in no list */ self->m_freeListHeadPtr == g_F0 && (g_F0 == 0 || (IN(g_F0) && g_F0 != &g_extra && !LIVE(*g_F0) && g_F0->next == g_F0next && (g_F0next == 0 || (IN(g_F0next) && !LIVE(*g_F0next) && g_F0next != g_F0)))) && g_P0 == pos->prev)
__CPROVER_assigns(__CPROVER_object_whole(g_n), __CPROVER_object_whole(&g_extra), self->m_freeListHeadPtr, g_allocated)
__CPROVER_ensures(/* every node that is in a list is still well linked, in both directions */ ALL_LINKED)
__CPROVER_ensures(/* insert(pos, value) like std::list: the new node holds the value and sits right before pos, after the node that preceded pos */
    __CPROVER_return_value != 0 && __CPROVER_return_value->value == *data && __CPROVER_return_value->next == pos && pos->prev == __CPROVER_return_value &&
    __CPROVER_return_value->prev == g_P0 && g_P0->next == __CPROVER_return_value)
__CPROVER_ensures(/* the node comes off the free list (which then starts at its successor), or is newly allocated when the free list is empty */
    g_F0 != 0 ? (__CPROVER_return_value == g_F0 && self->m_freeListHeadPtr == g_F0next && g_allocated == false)
              : (__CPROVER_return_value == &g_extra && self->m_freeListHeadPtr == 0 && g_allocated == true))'''),
        Fn(XL, r'^\s+void freeNode\(Node& node\)', 'freeNode', 'void freeNode(Self* self, Node* node)', rules=R, nloops=0,
           contract='''__CPROVER_requires(self == &g_self && IN(node) && node != &g_extra && LIVE(*node) && ALL_LINKED && !LIVE(g_extra))
__CPROVER_requires(/* a real element, not a head sentinel that is alone in its list */ node->next != node && g_A0 == node->prev && g_B0 == node->next && self->m_freeListHeadPtr == g_F0 && (g_F0 == 0 || (IN(g_F0) && !LIVE(*g_F0))))
__CPROVER_assigns(__CPROVER_object_whole(g_n), self->m_freeListHeadPtr)
__CPROVER_ensures(/* erase like std::list: the other nodes stay well linked, the neighbours of the erased node are joined */ ALL_LINKED && g_A0->next == g_B0 && g_B0->prev == g_A0)
__CPROVER_ensures(/* the node is in no list any more and heads the free list, in front of the old free nodes */ !LIVE(*node) && self->m_freeListHeadPtr == node && node->next == g_F0)'''),
    ],
    template=TEMPLATE,
    jobs=[Job('constructNode', 'h_constructNode', enforce=['constructNode'], replace=['xv_allocate'], reach='all', timeout=900, min_obligations=6, unwind=7),
          Job('freeNode', 'h_freeNode', enforce=['freeNode'], reach='all', timeout=900, min_obligations=6, unwind=7)],
    mutants=[
        Mutant('construct_forgets_back_link', XL, r'        pos\.node\(\)\.prev = newNode;\n', '', expect='well linked'),
        Mutant('construct_keeps_free_head', XL, r'        m_freeListHeadPtr = nextFreeNode;\n', '', expect=None),
        Mutant('free_forgets_forward_link', XL, r'        node\.prev->next = node\.next;\n', '', count=1, expect=None),
        Mutant('free_drops_old_free_list', XL, r'node\.next = m_freeListHeadPtr;', 'node.next = 0;', expect='free list'),
    ],
    mechanisms=['XalanList (XalanMap entries, collator / format caches)'],
    assumptions=['the list object is a global (pointers read back from an is_fresh object lose their targets in cbmc); closed world of 6 symbolic nodes plus one allocator node: both functions are loop-free and dereference at most 4 nodes; allocate(1) returns a node that is in no list',
                 'placement-new of a pointer and Constructor::construct of the value are assignments; the destructor call node.~Node() is dropped (value_type is int here)',
                 'the harness loop that builds the symbolic links is unwound 7 times (harness only)'],
)
