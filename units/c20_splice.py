"""C20: XalanList::splice(pos, list, element) on the real prev/next pointers: the element is unlinked and re-linked in front of pos, like
std::list::splice - for EVERY aliasing of the nodes involved (element right before pos, right after pos, neighbours shared, two
different lists): afterwards every node is still well linked in both directions (nothing lost, no self-loop), the element's successor
is pos, and its old neighbours are joined."""
from xvlib.unit import Fn, Job, Unit, Mutant

XL = 'src/xalanc/Include/XalanList.hpp'
N = 6
TEMPLATE = r'''
#include "xv_shim.h"
typedef struct Node { int value; struct Node* prev; struct Node* next; } Node; typedef struct Self Self;
#define NN 6
/* closed world of NN nodes (the function touches at most 5: element, its two neighbours, pos, the node before pos), linked into one or more
   circular lists (XalanList keeps a head sentinel, so lists are circular); which node is which is symbolic, so every aliasing is covered */
Node g_n[NN]; int gi_t, gi_pos; Node* g_A0; Node* g_B0; Node* g_P0;
#define IN(p) (__CPROVER_same_object((p), g_n) && __CPROVER_POINTER_OFFSET(p) % sizeof(Node) == 0 && __CPROVER_POINTER_OFFSET(p) < sizeof(g_n))
#define LINKED(k) (IN(g_n[k].next) && IN(g_n[k].prev) && g_n[k].next->prev == &g_n[k] && g_n[k].prev->next == &g_n[k])
#define ALL_LINKED (LINKED(0) && LINKED(1) && LINKED(2) && LINKED(3) && LINKED(4) && LINKED(5))
@@FN splice1@@
void h_splice1(void)
{
    int t, p; __CPROVER_assume(t >= 0 && t < NN && p >= 0 && p < NN); gi_t = t; gi_pos = p;
    for (int k = 0; k < NN; ++k) { int a, b; __CPROVER_assume(a >= 0 && a < NN && b >= 0 && b < NN); g_n[k].prev = &g_n[a]; g_n[k].next = &g_n[b]; }
    g_A0 = g_n[t].prev; g_B0 = g_n[t].next; g_P0 = g_n[p].prev;
    splice1(0, &g_n[p], 0, &g_n[t]);
}
'''
R = [(r'assert\(m_memoryManager == list\.m_memoryManager\);', '', 1),
     (r'\(void\) list;', '', (0, 1)),
     (r'Node\s*&\s*(\w+) = (\w+)\.node\(\);', r'Node* const \1 = \2;', 2),
     (r'Node\s*&\s*(\w+Node) = \*([^;]+);', r'Node* const \1 = \2;', (0, 3)),      # further references to nodes (a cached neighbour)
     (r'&(\w+Node)\b', r'\1', None),
     (r'\b(\w+Node)\.', r'\1->', None)]
UNIT = Unit(
    name='c20_splice',
    props=['C20'],
    functions=[
        Fn(XL, r'^\s+splice\(\s*iterator\s+pos,\s*ThisType&\s+list,\s*iterator\s+toInsert\)', 'splice1', 'void splice1(Self* self, Node* pos, Self* list, Node* toInsert)', rules=R, nloops=0,
           contract='''__CPROVER_requires(gi_t >= 0 && gi_t < NN && gi_pos >= 0 && gi_pos < NN && toInsert == &g_n[gi_t] && pos == &g_n[gi_pos] && ALL_LINKED)
__CPROVER_requires(g_A0 == toInsert->prev && g_B0 == toInsert->next && g_P0 == pos->prev)
__CPROVER_requires(/* the element is a real element: not a list consisting of itself only (the head sentinel is never spliced) */ toInsert->next != toInsert)
__CPROVER_assigns(__CPROVER_object_whole(g_n))
__CPROVER_ensures(/* nothing is lost and nothing loops: every node is still linked consistently in both directions */ ALL_LINKED)
__CPROVER_ensures(/* the element now sits right in front of pos (unless it IS pos: no-op) */ pos != toInsert ==> (toInsert->next == pos && pos->prev == toInsert && toInsert->next != toInsert && toInsert->prev != toInsert))
__CPROVER_ensures(/* ... after the node that preceded pos (its own old predecessor when it was that node itself) */ pos != toInsert ==> toInsert->prev == (g_P0 == toInsert ? g_A0 : g_P0))
__CPROVER_ensures(/* its old neighbours are joined, unless the element went back between them */ (pos != toInsert && pos != g_B0) ==> (g_A0->next == g_B0 && g_B0->prev == g_A0))
__CPROVER_ensures(/* values do not move */ g_n[0].value == __CPROVER_old(g_n[0].value) && g_n[1].value == __CPROVER_old(g_n[1].value) && g_n[2].value == __CPROVER_old(g_n[2].value) &&
    g_n[3].value == __CPROVER_old(g_n[3].value) && g_n[4].value == __CPROVER_old(g_n[4].value) && g_n[5].value == __CPROVER_old(g_n[5].value))
__CPROVER_ensures(pos == toInsert ==> (toInsert->prev == g_A0 && toInsert->next == g_B0))'''),
    ],
    template=TEMPLATE,
    jobs=[Job('splice1', 'h_splice1', enforce=['splice1'], reach='all', timeout=600, min_obligations=6, unwind=7)],
    mutants=[
        Mutant('caches_pos_prev_before_unlink', XL, r'(Node & toInsertNode = toInsert\.node\(\);\n)(\s*toInsertNode\.prev->next = toInsertNode\.next;\s*toInsertNode\.next->prev = toInsertNode\.prev;\s*)toInsertNode\.prev = posNode\.prev;(\s*toInsertNode\.next = &posNode;\s*)posNode\.prev->next = &toInsertNode;',
               r'\1            Node * const posPrev = posNode.prev;\n\2toInsertNode.prev = posPrev;\3posPrev->next = &toInsertNode;', expect='nothing is lost'),
        Mutant('forgets_back_link', XL, r'            toInsertNode\.next->prev = toInsertNode\.prev;\n', '', count=1, expect='nothing is lost'),
    ],
    mechanisms=['XalanList (XalanMap entries, collator / format caches)'],
    assumptions=['closed world of 6 nodes: the function is loop-free and dereferences at most 5 nodes, so 6 symbolic nodes with symbolic links cover every aliasing; nodes beyond those are not touched (frame: the function has no other pointers)',
                 'the harness loop that builds the symbolic links is unwound 7 times (harness only; the function under contract has no loop)'],
)
