"""C17 (grouped decimal rendering): XalanNumberFormat::applyGrouping writes every digit of the number exactly once, right to left, with the
separator between complete groups of grouping-size digits only: never in front of the first digit, never inside a group; nothing is written
outside the scratch buffer and the result starts at the last character written.  BOUNDED stand-in: strings of at most 24 units (a 64-bit integer has at most 20 digits), grouping sizes 0 (no grouping), 1, 2, 3, 4 and 30,
one-character separator (ElemNumber rejects any other length).  The stubs are plain C model functions here (no contract instrumentation: DFCC plus unwinding ran out of memory). An unbounded loop-contract version needs seps * size + fill == i and
len / size reasoning (non-linear) and did not finish in 15 minutes on any back end."""
from xvlib.unit import Fn, Job, Unit, Mutant

NF = 'src/xalanc/PlatformSupport/XalanNumberFormat.cpp'
TEMPLATE = r"""
#include "xv_shim.h"
typedef struct XalanDOMString XalanDOMString; typedef size_t XalanDOMString_size_type;
typedef struct Self { bool m_isGroupingUsed; unsigned long m_groupingSize; } Self;
#define MAXLEN 24
/* ghost: length of the digit string and of the separator; the scratch buffer size; what has been written so far (right to left).
   The model functions below are plain C (inlined by cbmc, no contract instrumentation: the job unwinds the two loops) */
unsigned long g_gs; size_t g_len, g_seplen, g_bufsize; bool g_resized; long g_lowest; size_t g_digits_written, g_group_fill, g_seps_written; bool g_leftmost_is_sep; bool g_nul_written;
size_t g_pending_ix; bool g_pending; bool g_plain_copy; bool g_result_set; long g_result_from;
static size_t xv_length(const XalanDOMString* s) { return g_len; }
static size_t xv_sep_length(const Self* s) { return g_seplen; }
static void xv_assign_value(XalanDOMString* r, const XalanDOMString* v) { g_plain_copy = true; }
static void xv_buffer_resize(size_t n) { __CPROVER_assert(n >= 1 && g_resized == false, "scratch buffer sized once"); g_bufsize = n; g_resized = true; g_lowest = (long)n; }
static long xv_buffer_begin(void) { return 0; }
static long xv_buffer_back(void) { return (long)g_bufsize - 1; }
static XalanDOMChar xv_digit(const XalanDOMString* v, size_t ix) { __CPROVER_assert(ix < g_len, "value[ix] inside the string"); g_pending_ix = ix; g_pending = true; XalanDOMChar c; return c; }
static XalanDOMChar xv_sep_char(const Self* s, long j) { __CPROVER_assert(j >= 0 && (size_t)j < g_seplen, "m_groupingSeparator[j] inside the separator"); XalanDOMChar c; return c; }
static void xv_inbuf(long p) { __CPROVER_assert(p >= 0 && (size_t)p < g_bufsize, "write inside the scratch buffer"); __CPROVER_assert(p == g_lowest - 1, "written strictly right to left, no gaps"); g_lowest = p; }
static void xv_put_nul(long p) { xv_inbuf(p); __CPROVER_assert(g_nul_written == false && (size_t)p == g_bufsize - 1, "the terminator is the last unit of the buffer"); g_nul_written = true; }
static void xv_put_digit(long p, XalanDOMChar c)
{ xv_inbuf(p); __CPROVER_assert(g_nul_written == true && g_pending == true && g_pending_ix == g_len - 1 - g_digits_written, "the digits go out right to left, each once");
  __CPROVER_assert(g_group_fill < g_gs, "a group never holds more than grouping-size digits"); g_digits_written++; g_group_fill++; g_leftmost_is_sep = false; g_pending = false; }
static void xv_put_sep(long p, XalanDOMChar c)
{ xv_inbuf(p); __CPROVER_assert(g_group_fill == g_gs && g_digits_written < g_len, "a separator only after a COMPLETE group, and only when another digit follows to its left"); g_group_fill = 0; g_leftmost_is_sep = true; g_seps_written++; }
static void xv_result_from(XalanDOMString* r, long p) { __CPROVER_assert(g_result_set == false, "result assigned once"); g_result_set = true; g_result_from = p; }
@@FN applyGrouping@@
void h_applyGrouping(void)
{
    Self s; bool u; unsigned long gs = XV_GS; size_t n, sl; s.m_isGroupingUsed = XV_BOOL(u); s.m_groupingSize = gs; g_gs = gs; g_len = n; g_seplen = sl;
    __CPROVER_assume(n <= MAXLEN && /* ElemNumber: "The grouping-separator value must be one character in length" */ sl == 1);
    g_resized = false; g_bufsize = 0; g_lowest = 0; g_digits_written = 0; g_group_fill = 0; g_seps_written = 0; g_leftmost_is_sep = false; g_nul_written = false; g_pending = false; g_plain_copy = false; g_result_set = false;
    applyGrouping(&s, 0, 0);
    if (s.m_isGroupingUsed == false || g_gs == 0 || g_len == 0)
        __CPROVER_assert(g_plain_copy == true && g_result_set == false, "without grouping (or for an empty string) the value is copied as it is");
    else
        __CPROVER_assert(g_plain_copy == false && g_digits_written == g_len && g_leftmost_is_sep == false && g_result_set == true && g_result_from == g_lowest && g_lowest >= 0,
                         "with grouping: every digit written once, the leftmost unit is a digit (no leading separator), the result starts at the leftmost unit written");
}
"""
R = ['SCOPE', (r'= long\(', '= (long)(', (0, 1)), (r'result = value;', 'xv_assign_value(result, value);', 2),
     (r'value\.length\(\)', 'xv_length(value)', 1),
     (r'XalanVector<XalanDOMChar>\s+theGuard\(result\.getMemoryManager\(\)\);', '', 1),
     (r'theGuard\.resize\((\w+)\);', r'xv_buffer_resize(\1);', 1),
     (r'XalanDOMChar\* const\s+buffer = &\*theGuard\.begin\(\);', 'const long buffer = xv_buffer_begin();', 1),
     (r'XalanDOMChar\*\s+p = &theGuard\.back\(\);', 'long p = xv_buffer_back();', 1),
     (r'\*p-- = 0;', 'xv_put_nul(p--);', 1),
     (r'm_groupingSeparator\.length\(\)', 'xv_sep_length(self)', (0, 2)),
     (r'\*p-- = m_groupingSeparator\[(\w+)\];', r'xv_put_sep(p--, xv_sep_char(self, \1));', (0, 2)),
     (r'\*p-- = value\[(\w+)\];', r'xv_put_digit(p--, xv_digit(value, \1));', (0, 2)),
     (r'value\[(\w+)\]', r'xv_digit(value, \1)', (0, 2)),
     (r'\*p-- = (\w+);', r'xv_put_digit(p--, \1);', (0, 2)),
     (r'result = \+\+p;', 'xv_result_from(result, ++p);', (0, 1)),
     (r'result = p \+ 1;', 'xv_result_from(result, p + 1);', (0, 1)),
     (r'\b(m_isGroupingUsed|m_groupingSize)\b', r'self->\1', None)]
UNIT = Unit(
    name='c17_grouping',
    props=['C17', 'C03'],
    functions=[
        Fn(NF, r'^XalanNumberFormat::applyGrouping\(', 'applyGrouping', 'void applyGrouping(const Self* self, const XalanDOMString* value, XalanDOMString* result)', rules=R, nloops=2,
           contract=''),
    ],
    template=TEMPLATE,
    jobs=[Job('applyGrouping_gs%d' % k, 'h_applyGrouping', dfcc=False, cls='B', unwind=26, reach=('all' if k else ['entry:applyGrouping']), timeout=1500, min_obligations=8, defines=('XV_GS=%d' % k,), thorough_only=(k in (2, 4)),
              bound_note='digit strings of at most 24 units, grouping size %d, separator of one unit' % k) for k in (0, 1, 2, 3, 4, 30)],
    mutants=[
        Mutant('separator_after_complete_group', NF, r'const XalanDOMChar      c = value\[ix\];\s*if \(i && !\(i% m_groupingSize\)\)(\s*\{.*?\})\s*\*p-- = c;', r'*p-- = value[ix];\n\n                if (!((i + 1) % m_groupingSize))\1', expect=None),
        Mutant('group_one_too_long', NF, r'if \(i && !\(i% m_groupingSize\)\)', 'if (i > 1 && !((i - 1) % m_groupingSize))', expect=None),
        Mutant('buffer_without_separators', NF, r'bufsize = len \+ len / m_groupingSize \+ 2;', 'bufsize = len + 2;', expect=None),
        Mutant('result_skips_first_digit', NF, r'result = \+\+p;', 'result = p + 2;', expect=None),
    ],
    mechanisms=['grouping separator / grouping size of xsl:number'],
    assumptions=['the scratch XalanVector is a buffer of bufsize units, pointers into it are positions; the assignment of the result from a pointer takes the NUL-terminated string starting there',
                 'separator of exactly one unit (enforced by ElemNumber; XalanNumberFormat itself would truncate the number for longer separators: its buffer is sized for one unit per group)',
                 'the digit string is at most 24 units long; grouping size one of 1, 2, 3, 4, 30 (bounded stand-in, not counted as proved)'],
)
