"""C17 (grouped decimal rendering): XalanNumberFormat::applyGrouping writes every digit of the number exactly once, right to left, with the
separator between complete groups of grouping-size digits only: never in front of the first digit, never inside a group; nothing is written
outside the scratch buffer and the result starts at the last character written.  BOUNDED stand-in: strings of at most 24 units (a 64-bit integer has at most 20 digits), grouping sizes 1, 2, 3, 4 and 30,
one-character separator (ElemNumber rejects any other length).  An unbounded loop-contract version needs seps * size + fill == i and
len / size reasoning (non-linear) and did not finish in 15 minutes on any back end."""
from xvlib.unit import Fn, Job, Unit, Mutant

NF = 'src/xalanc/PlatformSupport/XalanNumberFormat.cpp'
TEMPLATE = r'''
#include "xv_shim.h"
typedef struct XalanDOMString XalanDOMString; typedef size_t XalanDOMString_size_type;
typedef struct Self { bool m_isGroupingUsed; unsigned long m_groupingSize; } Self;
#define MAXLEN 24
/* ghost: length of the digit string and of the separator; the scratch buffer size; what has been written so far (right to left) */
unsigned long g_gs; size_t g_len, g_seplen, g_bufsize; bool g_resized; long g_lowest; size_t g_digits_written, g_group_fill, g_seps_written; bool g_leftmost_is_sep; bool g_nul_written;
size_t g_pending_ix; bool g_pending; bool g_plain_copy; bool g_result_set; long g_result_from;
size_t xv_length(const XalanDOMString* s) __CPROVER_requires(1) __CPROVER_assigns() __CPROVER_ensures(__CPROVER_return_value == g_len) ;
size_t xv_sep_length(const Self* s) __CPROVER_requires(1) __CPROVER_assigns() __CPROVER_ensures(__CPROVER_return_value == g_seplen) ;
void xv_assign_value(XalanDOMString* r, const XalanDOMString* v) __CPROVER_requires(g_plain_copy == false) __CPROVER_assigns(g_plain_copy) __CPROVER_ensures(g_plain_copy == true) ;
void xv_buffer_resize(size_t n) __CPROVER_requires(n >= 1 && g_resized == false) __CPROVER_assigns(g_bufsize, g_resized, g_lowest) __CPROVER_ensures(g_bufsize == n && g_resized == true && g_lowest == (long)n) ;
long xv_buffer_begin(void) __CPROVER_requires(g_resized == true) __CPROVER_assigns() __CPROVER_ensures(__CPROVER_return_value == 0) ;
long xv_buffer_back(void) __CPROVER_requires(g_resized == true) __CPROVER_assigns() __CPROVER_ensures(__CPROVER_return_value == (long)g_bufsize - 1) ;
XalanDOMChar xv_digit(const XalanDOMString* v, size_t ix) __CPROVER_requires(/* value[ix] inside the string */ ix < g_len) __CPROVER_assigns(g_pending_ix, g_pending)
__CPROVER_ensures(g_pending_ix == ix && g_pending == true) ;
XalanDOMChar xv_sep_char(const Self* s, long j) __CPROVER_requires(/* m_groupingSeparator[j] inside the separator */ j >= 0 && (size_t)j < g_seplen) __CPROVER_assigns() __CPROVER_ensures(1) ;
#define INBUF(p) ((p) >= 0 && (size_t)(p) < g_bufsize && /* written strictly right to left, no gaps */ (p) == g_lowest - 1)
void xv_put_nul(long p) __CPROVER_requires(INBUF(p) && g_nul_written == false && /* the terminator is the last unit of the buffer */ (size_t)p == g_bufsize - 1) __CPROVER_assigns(g_nul_written, g_lowest)
__CPROVER_ensures(g_nul_written == true && g_lowest == p) ;
void xv_put_digit(long p, XalanDOMChar c)
__CPROVER_requires(INBUF(p) && g_nul_written == true)
__CPROVER_requires(/* the digits go out right to left, each once */ g_pending == true && g_pending_ix == g_len - 1 - g_digits_written)
__CPROVER_requires(/* a group never holds more than grouping-size digits */ g_group_fill < g_gs)
__CPROVER_assigns(g_digits_written, g_group_fill, g_leftmost_is_sep, g_lowest, g_pending)
__CPROVER_ensures(g_digits_written == __CPROVER_old(g_digits_written) + 1 && g_group_fill == __CPROVER_old(g_group_fill) + 1 && g_leftmost_is_sep == false && g_lowest == p && g_pending == false) ;
void xv_put_sep(long p, XalanDOMChar c)
__CPROVER_requires(INBUF(p) && g_nul_written == true)
__CPROVER_requires(/* a separator only after a COMPLETE group, and only when another digit follows to its left */ g_group_fill == g_gs && g_digits_written < g_len)
__CPROVER_assigns(g_group_fill, g_leftmost_is_sep, g_lowest, g_seps_written)
__CPROVER_ensures(g_group_fill == 0 && g_leftmost_is_sep == true && g_lowest == p && g_seps_written == __CPROVER_old(g_seps_written) + 1) ;
void xv_result_from(XalanDOMString* r, long p) __CPROVER_requires(g_result_set == false) __CPROVER_assigns(g_result_set, g_result_from) __CPROVER_ensures(g_result_set == true && g_result_from == p) ;
@@FN applyGrouping@@
void h_applyGrouping(void)
{
    Self s; bool u; unsigned long gs = XV_GS; size_t n, sl; s.m_isGroupingUsed = XV_BOOL(u); s.m_groupingSize = gs; g_gs = gs; g_len = n; g_seplen = sl;
    g_resized = false; g_bufsize = 0; g_lowest = 0; g_digits_written = 0; g_group_fill = 0; g_seps_written = 0; g_leftmost_is_sep = false; g_nul_written = false; g_pending = false; g_plain_copy = false; g_result_set = false;
    applyGrouping(&s, 0, 0);
}
'''
R = ['SCOPE', (r'= long\(', '= (long)(', (0, 1)), (r'result = value;', 'xv_assign_value(result, value);', 2),
     (r'value\.length\(\)', 'xv_length(value)', 1),
     (r'XalanVector<XalanDOMChar>\s+theGuard\(result\.getMemoryManager\(\)\);', '', 1),
     (r'theGuard\.resize\((\w+)\);', r'xv_buffer_resize(\1);', 1),
     (r'XalanDOMChar\* const\s+buffer = &\*theGuard\.begin\(\);', 'const long buffer = xv_buffer_begin();', 1),
     (r'XalanDOMChar\*\s+p = &theGuard\.back\(\);', 'long p = xv_buffer_back();', 1),
     (r'\*p-- = 0;', 'xv_put_nul(p--);', 1),
     (r'm_groupingSeparator\.length\(\)', 'xv_sep_length(self)', (0, 2)),
     (r'\*p-- = m_groupingSeparator\[(\w+)\];', r'xv_put_sep(p--, xv_sep_char(self, \1));', (0, 2)),
     (r'\*p-- = value\[(\w+)\];', r'xv_put_digit(p--, xv_digit(value, \1));', (0, 2)),
     (r'value\[(\w+)\]', r'xv_digit(value, \1)', (0, 2)),
     (r'\*p-- = (\w+);', r'xv_put_digit(p--, \1);', (0, 2)),
     (r'result = \+\+p;', 'xv_result_from(result, ++p);', (0, 1)),
     (r'result = p \+ 1;', 'xv_result_from(result, p + 1);', (0, 1)),
     (r'\b(m_isGroupingUsed|m_groupingSize)\b', r'self->\1', None)]
UNIT = Unit(
    name='c17_grouping',
    props=['C17', 'C03'],
    functions=[
        Fn(NF, r'^XalanNumberFormat::applyGrouping\(', 'applyGrouping', 'void applyGrouping(const Self* self, const XalanDOMString* value, XalanDOMString* result)', rules=R, nloops=2,
           contract='''__CPROVER_requires(__CPROVER_is_fresh(self, sizeof(*self)) && self->m_groupingSize == g_gs && g_len <= MAXLEN && /* ElemNumber: "The grouping-separator value must be one character in length" */ g_seplen == 1)
__CPROVER_requires(g_resized == false && g_digits_written == 0 && g_group_fill == 0 && g_seps_written == 0 && g_nul_written == false && g_pending == false && g_plain_copy == false && g_result_set == false)
__CPROVER_assigns(g_bufsize, g_resized, g_lowest, g_digits_written, g_group_fill, g_seps_written, g_leftmost_is_sep, g_nul_written, g_pending_ix, g_pending, g_plain_copy, g_result_set, g_result_from)
__CPROVER_ensures(/* without grouping (or for an empty string) the value is copied as it is */ (self->m_isGroupingUsed == false || g_gs == 0 || g_len == 0) ==> (g_plain_copy == true && g_result_set == false))
__CPROVER_ensures(/* with grouping: every digit written once, the leftmost unit is a digit (no leading separator), and the result starts at the leftmost unit written */
    (self->m_isGroupingUsed == true && g_gs != 0 && g_len != 0) ==> (g_plain_copy == false && g_digits_written == g_len && g_leftmost_is_sep == false && g_result_set == true && g_result_from == g_lowest && g_lowest >= 0))'''),
    ],
    template=TEMPLATE,
    jobs=[Job('applyGrouping_gs%d' % k, 'h_applyGrouping', enforce=['applyGrouping'],
              replace=['xv_length', 'xv_sep_length', 'xv_assign_value', 'xv_buffer_resize', 'xv_buffer_begin', 'xv_buffer_back', 'xv_digit', 'xv_sep_char', 'xv_put_nul', 'xv_put_digit', 'xv_put_sep', 'xv_result_from'],
              cls='B', unwind=26, reach='all', timeout=900, min_obligations=8, defines=('XV_GS=%d' % k,),
              bound_note='digit strings of at most 24 units (a 64-bit integer has at most 20 digits), grouping size %d, separator of one unit' % k) for k in (1, 2, 3, 4, 30)],
    mutants=[
        Mutant('separator_after_complete_group', NF, r'const XalanDOMChar      c = value\[ix\];\s*if \(i && !\(i% m_groupingSize\)\)(\s*\{.*?\})\s*\*p-- = c;', r'*p-- = value[ix];\n\n                if (!((i + 1) % m_groupingSize))\1', expect=None),
        Mutant('group_one_too_long', NF, r'if \(i && !\(i% m_groupingSize\)\)', 'if (i > 1 && !((i - 1) % m_groupingSize))', expect=None),
        Mutant('buffer_without_separators', NF, r'bufsize = len \+ len / m_groupingSize \+ 2;', 'bufsize = len + 2;', expect=None),
        Mutant('result_skips_first_digit', NF, r'result = \+\+p;', 'result = p + 2;', expect=None),
    ],
    mechanisms=['grouping separator / grouping size of xsl:number'],
    assumptions=['the scratch XalanVector is a buffer of bufsize units, pointers into it are positions; the assignment of the result from a pointer takes the NUL-terminated string starting there',
                 'separator of exactly one unit (enforced by ElemNumber; XalanNumberFormat itself would truncate the number for longer separators: its buffer is sized for one unit per group)',
                 'the digit string is at most 24 units long; grouping size one of 1, 2, 3, 4, 30 (bounded stand-in, not counted as proved)'],
)
