"""C08: output method and option selection with API overrides (StylesheetRoot::setupFormatterListener).  Whatever the method, the serializer
is created with the EFFECTIVE encoding (the result target's / API override if one was given, else xsl:output/@encoding) - for method="text"
too; an indent amount given through the API wins over the stylesheet's, indent="yes" without an amount gets the method's default amount;
for html the escape-URL and omit-META settings of the API win unless left at "default"; for xml the version, media type, doctype ids, the
xml declaration and standalone settings of the stylesheet are passed on unchanged."""
from xvlib.unit import Fn, Job, Unit, Mutant

SR = 'src/xalanc/XSLT/StylesheetRoot.cpp'
TEMPLATE = r'''
#include "xv_shim.h"
typedef struct Ctx Ctx; typedef struct Target Target; typedef struct Writer Writer; typedef long FL;    /* a formatter listener, by handle */
enum { FormatterListener_OUTPUT_METHOD_NONE = 0, FormatterListener_OUTPUT_METHOD_XML = 1, FormatterListener_OUTPUT_METHOD_HTML = 2, FormatterListener_OUTPUT_METHOD_TEXT = 3, FormatterListener_OUTPUT_METHOD_DOM = 4, FormatterListener_OUTPUT_METHOD_OTHER = 5 };
enum { eEscapeURLsDefault, eEscapeURLsNo, eEscapeURLsYes }; enum { eOmitMETATagDefault, eOmitMETATagNo, eOmitMETATagYes };
enum { FormatterToHTML_eDefaultIndentAmount = 0, FormatterToXML_eDefaultIndentAmount = 0 };
enum { S_ENC_STYLESHEET = 11, S_ENC_EFFECTIVE = 12, S_MEDIATYPE = 13, S_DOCTYPE_SYSTEM = 14, S_DOCTYPE_PUBLIC = 15, S_VERSION = 16, S_STANDALONE = 17 };    /* strings by identity */
typedef struct Self { int m_outputMethod; int m_indentAmount; bool m_outputEscapeURLs, m_omitMETATag, m_omitxmlDecl; int m_encoding, m_mediatype, m_doctypeSystem, m_doctypePublic, m_version, m_standalone; } Self;
Self g_self;
/* ghost: what the caller supplied, and the one formatter that was created */
FL g_target_fl; bool g_has_char_stream, g_has_byte_stream, g_has_stream, g_has_file; int g_ctx_indent, g_ctx_escape, g_ctx_meta; bool g_output_indent;
int g_made; int g_enc; bool g_do_indent; int g_indent_amount; bool g_escape, g_meta; int g_p_media, g_p_sys, g_p_pub, g_p_version, g_p_standalone; bool g_p_xmldecl; bool g_problem; FL g_set_fl; FL g_new_fl;
FL xv_target_listener(Target* t) __CPROVER_requires(1) __CPROVER_assigns() __CPROVER_ensures(__CPROVER_return_value == g_target_fl) ;
Writer* xv_char_stream(Target* t) __CPROVER_requires(1) __CPROVER_assigns() __CPROVER_ensures((__CPROVER_return_value != 0) == g_has_char_stream) ;
void* xv_byte_stream(Target* t) __CPROVER_requires(1) __CPROVER_assigns() __CPROVER_ensures((__CPROVER_return_value != 0) == g_has_byte_stream) ;
void* xv_stream(Target* t) __CPROVER_requires(1) __CPROVER_assigns() __CPROVER_ensures((__CPROVER_return_value != 0) == g_has_stream) ;
bool xv_file_empty(Target* t) __CPROVER_requires(1) __CPROVER_assigns() __CPROVER_ensures(__CPROVER_return_value == !g_has_file) ;
Writer* xv_create_writer(Ctx* c) __CPROVER_requires(1) __CPROVER_assigns() __CPROVER_ensures(__CPROVER_return_value != 0) ;
void xv_problem(Ctx* c) __CPROVER_requires(1) __CPROVER_assigns(g_problem) __CPROVER_ensures(g_problem == true) ;
int xv_ctx_indent(Ctx* c) __CPROVER_requires(1) __CPROVER_assigns() __CPROVER_ensures(__CPROVER_return_value == g_ctx_indent) ;
bool xv_output_indent(const Self* s) __CPROVER_requires(1) __CPROVER_assigns() __CPROVER_ensures(__CPROVER_return_value == g_output_indent) ;
int xv_effective_encoding(const Self* s, Target* t) __CPROVER_requires(1) __CPROVER_assigns() __CPROVER_ensures(__CPROVER_return_value == S_ENC_EFFECTIVE) ;     /* getEncoding(outputTarget) */
int xv_ctx_escape(Ctx* c) __CPROVER_requires(1) __CPROVER_assigns() __CPROVER_ensures(__CPROVER_return_value == g_ctx_escape) ;
int xv_ctx_meta(Ctx* c) __CPROVER_requires(1) __CPROVER_assigns() __CPROVER_ensures(__CPROVER_return_value == g_ctx_meta) ;
FL xv_make_html(Ctx* c, Writer* w, int enc, int media, int sys, int pub, bool doIndent, int amount, bool escape, bool meta)
__CPROVER_requires(w != 0 && g_made == -1) __CPROVER_assigns(g_made, g_enc, g_do_indent, g_indent_amount, g_escape, g_meta, g_p_media, g_p_sys, g_p_pub)
__CPROVER_ensures(g_made == FormatterListener_OUTPUT_METHOD_HTML && g_enc == enc && g_do_indent == doIndent && g_indent_amount == amount && g_escape == escape && g_meta == meta && g_p_media == media && g_p_sys == sys && g_p_pub == pub && __CPROVER_return_value == g_new_fl) ;
FL xv_make_text(Ctx* c, Writer* w, int enc) __CPROVER_requires(w != 0 && g_made == -1) __CPROVER_assigns(g_made, g_enc) __CPROVER_ensures(g_made == FormatterListener_OUTPUT_METHOD_TEXT && g_enc == enc && __CPROVER_return_value == g_new_fl) ;
FL xv_make_xml(Ctx* c, Writer* w, int version, bool doIndent, int amount, int enc, int media, int sys, int pub, bool xmlDecl, int standalone)
__CPROVER_requires(w != 0 && g_made == -1) __CPROVER_assigns(g_made, g_enc, g_do_indent, g_indent_amount, g_p_media, g_p_sys, g_p_pub, g_p_version, g_p_standalone, g_p_xmldecl)
__CPROVER_ensures(g_made == FormatterListener_OUTPUT_METHOD_XML && g_enc == enc && g_do_indent == doIndent && g_indent_amount == amount && g_p_media == media && g_p_sys == sys && g_p_pub == pub && g_p_version == version && g_p_standalone == standalone && g_p_xmldecl == xmlDecl && __CPROVER_return_value == g_new_fl) ;
void xv_set_listener(Ctx* c, FL f) __CPROVER_requires(1) __CPROVER_assigns(g_set_fl) __CPROVER_ensures(g_set_fl == f) ;
#define HAS_SINK (g_has_char_stream || g_has_byte_stream || g_has_stream || g_has_file)
#define AMOUNT0 (g_ctx_indent < 0 ? g_self.m_indentAmount : g_ctx_indent)
#define DO_INDENT (AMOUNT0 > -1 ? true : g_output_indent)
@@FN setupFormatterListener@@
void h_setup(void)
{
    bool a, b, c, d, e, f, g, h; int i, j, k, m, n; FL t, nf; __CPROVER_assume(nf != 0 && i >= -1000 && i <= 1000 && n >= -1000 && n <= 1000 && j >= 0 && j <= 2 && k >= 0 && k <= 2);
    g_target_fl = t; g_has_char_stream = XV_BOOL(a); g_has_byte_stream = XV_BOOL(b); g_has_stream = XV_BOOL(c); g_has_file = XV_BOOL(d); g_ctx_indent = i; g_ctx_escape = j; g_ctx_meta = k; g_output_indent = XV_BOOL(e);
    g_self.m_outputMethod = m; g_self.m_indentAmount = n; g_self.m_outputEscapeURLs = XV_BOOL(f); g_self.m_omitMETATag = XV_BOOL(g); g_self.m_omitxmlDecl = XV_BOOL(h);
    g_self.m_encoding = S_ENC_STYLESHEET; g_self.m_mediatype = S_MEDIATYPE; g_self.m_doctypeSystem = S_DOCTYPE_SYSTEM; g_self.m_doctypePublic = S_DOCTYPE_PUBLIC; g_self.m_version = S_VERSION; g_self.m_standalone = S_STANDALONE;
    g_made = -1; g_enc = 0; g_problem = false; g_set_fl = 0; g_new_fl = nf;
    setupFormatterListener(&g_self, 0, 0);
}
'''
R = ['SCOPE',
     (r'typedef StylesheetExecutionContext_GetCachedString\s+GetCachedString;', '', (0, 1)),
     (r'FormatterListener\*\s+flistener = outputTarget\.getFormatterListener\(\);', 'FL flistener = xv_target_listener(outputTarget);', 1),
     (r'0 != outputTarget\.getCharacterStream\(\)', '0 != xv_char_stream(outputTarget)', 2),
     (r'0 != outputTarget\.getByteStream\(\)', '0 != xv_byte_stream(outputTarget)', 2),
     (r'0 != outputTarget\.getStream\(\)', '0 != xv_stream(outputTarget)', 2),
     (r'!outputTarget\.getFileName\(\)\.empty\(\)', '!xv_file_empty(outputTarget)', 2),
     (r'pw = outputTarget\.getCharacterStream\(\);', 'pw = xv_char_stream(outputTarget);', 1),
     (r'pw = executionContext\.createPrintWriter\([^;]*\);', 'pw = xv_create_writer(executionContext);', 3),
     (r'const GetCachedString\s+theGuard\(executionContext\);', '', (2, 4)),
     (r'executionContext\.problem\([^;]*;', 'xv_problem(executionContext);', 2),
     (r'executionContext\.getIndent\(\)', 'xv_ctx_indent(executionContext)', 1),
     (r'(?<![\w.>])getOutputIndent\(\)', 'xv_output_indent(self)', 1),
     (r'const XalanDOMString&\s+theEncoding = getEncoding\(outputTarget\);', 'const int theEncoding = xv_effective_encoding(self, outputTarget);', 1),
     (r'const StylesheetExecutionContext_eEscapeURLs\s+eEscapeURLs =\s*executionContext\.getEscapeURLs\(\);', 'const int eEscapeURLs = xv_ctx_escape(executionContext);', 1),
     (r'const StylesheetExecutionContext_eOmitMETATag\s+eOmitMETATag =\s*executionContext\.getOmitMETATag\(\);', 'const int eOmitMETATag = xv_ctx_meta(executionContext);', 1),
     (r'StylesheetExecutionContext_(eEscapeURLs\w+|eOmitMETATag\w+)', r'\1', (2, 4)),
     (r'executionContext\.createFormatterToHTML\(\s*\*pw,', 'xv_make_html(executionContext, pw,', 1),
     (r'executionContext\.createFormatterToText\(\*pw,', 'xv_make_text(executionContext, pw,', 1),
     (r'executionContext\.createFormatterToXML\(\s*\*pw,', 'xv_make_xml(executionContext, pw,', 1),
     (r'executionContext\.setFormatterListener\(flistener\);', 'xv_set_listener(executionContext, flistener);', 2),
     (r'(?<![\w.>])(m_outputMethod|m_indentAmount|m_outputEscapeURLs|m_omitMETATag|m_omitxmlDecl|m_encoding|m_mediatype|m_doctypeSystem|m_doctypePublic|m_version|m_standalone)\b', r'self->\1', None)]
UNIT = Unit(
    name='c08_options',
    props=['C08'],
    functions=[
        Fn(SR, r'^StylesheetRoot::setupFormatterListener\(', 'setupFormatterListener', 'FL setupFormatterListener(const Self* self, Target* outputTarget, Ctx* executionContext)', rules=R, nloops=0,
           contract='''__CPROVER_requires(self == &g_self && g_made == -1 && g_problem == false && g_new_fl != 0 && g_ctx_indent >= -1000 && g_ctx_indent <= 1000 && self->m_indentAmount >= -1000 && self->m_indentAmount <= 1000)
__CPROVER_requires(self->m_encoding == S_ENC_STYLESHEET && self->m_mediatype == S_MEDIATYPE && self->m_doctypeSystem == S_DOCTYPE_SYSTEM && self->m_doctypePublic == S_DOCTYPE_PUBLIC && self->m_version == S_VERSION && self->m_standalone == S_STANDALONE)
__CPROVER_assigns(g_made, g_enc, g_do_indent, g_indent_amount, g_escape, g_meta, g_p_media, g_p_sys, g_p_pub, g_p_version, g_p_standalone, g_p_xmldecl, g_problem, g_set_fl)
__CPROVER_ensures(/* a listener supplied by the caller is used as it is; without any sink the error is reported */
    (g_target_fl != 0 ==> (g_made == -1 && __CPROVER_return_value == g_target_fl)) && ((g_target_fl == 0 && !HAS_SINK) ==> (g_made == -1 && g_problem == true)))
__CPROVER_ensures(/* otherwise ONE serializer of the stylesheet's method, always with the EFFECTIVE encoding (API override or xsl:output) - for text as well */
    (g_target_fl == 0 && HAS_SINK) ==> (g_enc == S_ENC_EFFECTIVE && __CPROVER_return_value == g_new_fl && g_set_fl == g_new_fl &&
        g_made == (self->m_outputMethod == FormatterListener_OUTPUT_METHOD_HTML ? FormatterListener_OUTPUT_METHOD_HTML : self->m_outputMethod == FormatterListener_OUTPUT_METHOD_TEXT ? FormatterListener_OUTPUT_METHOD_TEXT : FormatterListener_OUTPUT_METHOD_XML)))
__CPROVER_ensures(/* indentation: the API amount wins over the stylesheet's; an amount switches indenting on, else xsl:output/@indent decides; the default amount fills in */
    (g_target_fl == 0 && HAS_SINK && g_made != FormatterListener_OUTPUT_METHOD_TEXT) ==> (g_do_indent == DO_INDENT && g_indent_amount == ((DO_INDENT && AMOUNT0 < 0) ? 0 : AMOUNT0)))
__CPROVER_ensures(/* html: API settings for URL escaping and the META tag win unless left at "default" */
    (g_target_fl == 0 && HAS_SINK && g_made == FormatterListener_OUTPUT_METHOD_HTML) ==> (g_escape == (g_ctx_escape == eEscapeURLsNo ? false : g_ctx_escape == eEscapeURLsYes ? true : self->m_outputEscapeURLs) &&
        g_meta == (g_ctx_meta == eOmitMETATagNo ? false : g_ctx_meta == eOmitMETATagYes ? true : self->m_omitMETATag) && g_p_media == S_MEDIATYPE && g_p_sys == S_DOCTYPE_SYSTEM && g_p_pub == S_DOCTYPE_PUBLIC))
__CPROVER_ensures(/* xml: the stylesheet's version, media type, doctype ids, xml-declaration and standalone settings */
    (g_target_fl == 0 && HAS_SINK && g_made == FormatterListener_OUTPUT_METHOD_XML) ==> (g_p_version == S_VERSION && g_p_media == S_MEDIATYPE && g_p_sys == S_DOCTYPE_SYSTEM && g_p_pub == S_DOCTYPE_PUBLIC && g_p_xmldecl == !self->m_omitxmlDecl && g_p_standalone == S_STANDALONE))'''),
    ],
    template=TEMPLATE,
    jobs=[Job('setup', 'h_setup', enforce=['setupFormatterListener'],
              replace=['xv_target_listener', 'xv_char_stream', 'xv_byte_stream', 'xv_stream', 'xv_file_empty', 'xv_create_writer', 'xv_problem', 'xv_ctx_indent', 'xv_output_indent', 'xv_effective_encoding', 'xv_ctx_escape', 'xv_ctx_meta',
                       'xv_make_html', 'xv_make_text', 'xv_make_xml', 'xv_set_listener'], reach='all', timeout=300, min_obligations=6)],
    mutants=[
        Mutant('text_ignores_encoding_override', SR, r'createFormatterToText\(\*pw, theEncoding\);', 'createFormatterToText(*pw, m_encoding);', expect='EFFECTIVE encoding'),
        Mutant('api_indent_loses', SR, r'if \(indentAmount < 0\)\s*\{\s*indentAmount = m_indentAmount;\s*\}', 'if (m_indentAmount >= 0)\n        {\n            indentAmount = m_indentAmount;\n        }', expect='indentation'),
        Mutant('escape_urls_yes_ignored', SR, r'else if \(eEscapeURLs == StylesheetExecutionContext::eEscapeURLsYes\)\s*\{\s*outputEscapeURLs = true;\s*\}', '', expect='html'),
        Mutant('xml_declaration_inverted', SR, r'm_doctypeSystem, m_doctypePublic, !m_omitxmlDecl, m_standalone\);', 'm_doctypeSystem, m_doctypePublic, m_omitxmlDecl, m_standalone);', expect='xml'),
    ],
    mechanisms=['output method and option selection, API overrides'],
    assumptions=['getEncoding(outputTarget) returns the override of the result target if there is one, else xsl:output/@encoding (StylesheetRoot.cpp, one stub); strings are identified by handle',
                 'the createFormatterTo* factories of the execution context build the serializer from exactly these arguments (FormatterToHTML / FormatterToText / XalanXMLSerializerFactory: units c08_factory, c08_indent ...); the default indent amounts are 0 in both serializers (value repeated in the template)'],
)
