"""C12 (sliced): document-order indices of the default source tree.  Every node XalanSourceTreeDocument constructs gets the current value
of m_nextIndexValue as its index and the counter then moves on, so no two nodes share an index and creation order is index order
(XalanSourceTreeDOMSupport::isNodeAfter and the ordered insert of MutableNodeRefList compare these indices).

This unit is a SLICE, not whole functions: on every run each node-construction call that mentions m_nextIndexValue is located in
XalanSourceTreeDocument.cpp and its index argument expression is copied verbatim into one obligation; everything else of those functions is
dropped (allocators, string pools, attribute loops).  A mention of the counter in any other form is an extraction break."""
import re
from xvlib.unit import Fn, Job, Unit, Mutant, Block
from xvlib.extract import ExtractionBreak

SD = 'src/xalanc/XalanSourceTree/XalanSourceTreeDocument.cpp'
BODY = Block(SD, r'^XalanSourceTreeDocument::~XalanSourceTreeDocument\(\)', 'file_body', end=r'\Z', hidden=True)
CTORS = Block(SD, r'^XalanSourceTreeDocument::XalanSourceTreeDocument\(', 'ctors', end=r'^XalanSourceTreeDocument::~XalanSourceTreeDocument\(\)', hidden=True)
TEMPLATE = r'''
#include "xv_shim.h"
typedef unsigned long IndexType;
typedef struct Self { IndexType m_nextIndexValue; } Self;
void sites(Self* self)
{
    XV_REACH("entry:sites");
@@GEN sites@@
}
void h_sites(void) { Self s; sites(&s); }
'''
CALL_RE = re.compile(r'(\bm_\w+Allocator\.create|\bcreate\w*|\bnew\s+\w+)\s*\(')


def gen(fn_texts, blk_texts):
    src = blk_texts['file_body']
    out, k = [], 0
    for m in re.finditer(r'\bm_nextIndexValue\b', src):
        # the enclosing statement: back to the previous ';', '{' or '}', forward to the next ';'
        s = max(src.rfind(';', 0, m.start()), src.rfind('{', 0, m.start()), src.rfind('}', 0, m.start())) + 1
        e = src.find(';', m.end())
        stmt = ' '.join(src[s:e].split())
        cm = re.search(r'(m_\w+Allocator)\.create\(', stmt)
        if not cm:
            raise ExtractionBreak('m_nextIndexValue used outside a node-allocator create(...) call: %r' % stmt[:160])
        # the argument that carries the index: split the call's top-level arguments
        a = stmt.index('(', cm.start()); depth = 0; args = []; cur = ''
        for ch in stmt[a + 1:]:
            if ch in '([': depth += 1
            if ch in ')]':
                if depth == 0: args.append(cur); break
                depth -= 1
            if ch == ',' and depth == 0: args.append(cur); cur = ''
            else: cur += ch
        idx = [x.strip() for x in args if 'm_nextIndexValue' in x]
        if len(idx) != 1:
            raise ExtractionBreak('cannot isolate the index argument in: %r' % stmt[:160])
        expr = re.sub(r'\bm_nextIndexValue\b', 'self->m_nextIndexValue', idx[0])
        line = src.count('\n', 0, m.start())
        k += 1
        out.append('''    { /* site %d: %s.create(..., %s) */
        IndexType before; __CPROVER_assume(before < (IndexType)-2); self->m_nextIndexValue = before;
        const IndexType theIndex = %s;
        __CPROVER_assert(theIndex == before, "site %d (%s): the node gets the counter value no earlier node got");
        __CPROVER_assert(self->m_nextIndexValue == before + 1, "site %d (%s): the counter moves on by one, AFTER the node took its value");
    }''' % (k, cm.group(1), idx[0], expr, k, cm.group(1), k, cm.group(1)))
    # the counter's start value in each constructor, and the index the document node itself reports
    starts = re.findall(r'\bm_nextIndexValue\((\w+)\)', blk_texts['ctors'])
    if len(starts) < 1:
        raise ExtractionBreak('no constructor initialiser m_nextIndexValue(...) found')
    dm = re.search(r'XalanSourceTreeDocument::getIndex\(\) const\s*\{\s*return (\w+);\s*\}', src)
    if not dm:
        raise ExtractionBreak('XalanSourceTreeDocument::getIndex() is no longer "return <constant>;"')
    for n, v in enumerate(starts):
        out.append('    __CPROVER_assert((IndexType)(%s) > (IndexType)(%s), "constructor %d: the index counter starts above the index of the document node itself (getIndex() returns %s): the first node created does not share the document node\'s index");' % (v, dm.group(1), n + 1, dm.group(1)))
    if k < 20:
        raise ExtractionBreak('only %d node-construction sites found (expected >= 20)' % k)
    return {'sites': '\n'.join(out)}


UNIT = Unit(
    name='c12_stindex',
    props=['C12'],
    blocks=[BODY, CTORS],
    functions=[],
    template=TEMPLATE,
    gen=gen,
    jobs=[Job('sites', 'h_sites', dfcc=False, reach=['entry:sites'], timeout=120, min_obligations=40)],
    mutants=[
        Mutant('counter_starts_at_document_index', SD, r'm_nextIndexValue\(2\),', 'm_nextIndexValue(1),', count=1, expect='starts above'),
        Mutant('pi_preincrement', SD, r'(theNextSibling,\s*)m_nextIndexValue\+\+(\);\s*\}\s*inline const XalanDOMString&\s*XalanSourceTreeDocument::getTextNodeString)', r'\1++m_nextIndexValue\2', expect='counter value'),
        Mutant('comment_index_not_advanced', SD, r'(m_commentAllocator\.create\([^;]*?)m_nextIndexValue\+\+\);', r'\1m_nextIndexValue);', expect='moves on'),
    ],
    mechanisms=['document-order index of the default source tree'],
    assumptions=['SLICE: only the index argument of each of the node-construction calls is checked; that every constructed node is linked into the tree in creation order (document order of a SAX build) is not under contract',
                 'fewer than 2^64 - 2 nodes per document'],
)
