"""C16 / C11 / C06: position() is the position of the context node in the CURRENT context node list.  XPathExecutionContextDefault keeps a
one-entry cache (node -> position); representation invariant: the cache is empty or holds the position of its node in the list now on top
of the context-node-list stack.  getContextNodeListPosition answers from the list (or the cache under the invariant) and keeps the invariant;
pushContextNodeList and popContextNodeList change the top list and therefore have to leave the cache empty - after the end of a nested
xsl:for-each / predicate the enclosing (sorted) list is current again and position() must be the position in THAT list."""
from xvlib.unit import Fn, Job, Unit, Mutant

XC = 'src/xalanc/XPath/XPathExecutionContextDefault.cpp'
XH = 'src/xalanc/XPath/XPathExecutionContextDefault.hpp'
TEMPLATE = r'''
#include "xv_shim.h"
typedef struct XalanNode XalanNode; typedef struct List NodeRefListBase; typedef size_t size_type;
typedef struct Cache { const XalanNode* m_node; size_type m_index; } Cache;
typedef struct Self { Cache m_cachedPosition; } Self;
#define XV_NPOS ((size_t)-1)
/* ghost: ONE tracked node and its index in the list that is on top of the stack now (XV_NPOS: not in it); the stack depth.
   Pushing or popping a list changes the top list, so the tracked node's index becomes some other value */
const XalanNode* g_node; size_t g_index_in_top; size_t g_depth; size_t g_top_len;
#define POS(ix) ((ix) == XV_NPOS ? (size_t)0 : (ix) + 1)
#define INV(s) ((s)->m_cachedPosition.m_node == 0 || ((s)->m_cachedPosition.m_node == g_node && (s)->m_cachedPosition.m_index == POS(g_index_in_top)))
bool xv_stack_empty(const Self* s) __CPROVER_requires(1) __CPROVER_assigns() __CPROVER_ensures(__CPROVER_return_value == (g_depth == 0)) ;
void xv_stack_push(Self* s, const NodeRefListBase* l) __CPROVER_requires(g_depth < ((size_t)1 << 40)) __CPROVER_assigns(g_depth, g_index_in_top) __CPROVER_ensures(g_depth == __CPROVER_old(g_depth) + 1) ;
void xv_stack_pop(Self* s) __CPROVER_requires(/* pop of a non-empty stack */ g_depth >= 1) __CPROVER_assigns(g_depth, g_index_in_top) __CPROVER_ensures(g_depth == __CPROVER_old(g_depth) - 1) ;
size_t xv_top_length(const Self* s) __CPROVER_requires(g_depth >= 1) __CPROVER_assigns() __CPROVER_ensures(__CPROVER_return_value == g_top_len) ;
/* item(i) of the list on top: the tracked node sits at its index and nowhere else (node lists are duplicate-free, C12) */
const XalanNode* xv_top_item(const Self* s, size_t i) __CPROVER_requires(g_depth >= 1 && /* inside the list */ i < g_top_len) __CPROVER_assigns()
__CPROVER_ensures((__CPROVER_return_value == g_node) == (i == g_index_in_top)) ;
size_t xv_top_index_of(const Self* s, const XalanNode* n) __CPROVER_requires(g_depth >= 1 && n == g_node) __CPROVER_assigns()
__CPROVER_ensures(__CPROVER_return_value == g_index_in_top && (g_index_in_top == XV_NPOS || g_index_in_top < ((size_t)1 << 40))) ;
@@FN cache_clear@@
@@FN pushContextNodeList@@
@@FN popContextNodeList@@
@@FN getContextNodeListPosition@@
static void xv_havoc(Self* s) { const XalanNode *a, *b; size_t i, j, d, tl; g_top_len = tl; g_node = a; g_index_in_top = i; g_depth = d; s->m_cachedPosition.m_node = b; s->m_cachedPosition.m_index = j; }
void h_pushContextNodeList(void) { xv_havoc(&g_self_obj); pushContextNodeList(&g_self_obj, 0); }
void h_popContextNodeList(void) { xv_havoc(&g_self_obj); popContextNodeList(&g_self_obj); }
void h_getContextNodeListPosition(void) { xv_havoc(&g_self_obj); getContextNodeListPosition(&g_self_obj, g_node); }
'''
TEMPLATE = TEMPLATE.replace('@@FN cache_clear@@', 'Self g_self_obj;\n@@FN cache_clear@@')
R = [(r'm_cachedPosition\.clear\(\);', 'cache_clear(&self->m_cachedPosition);', (0, 1)),
     (r'm_contextNodeListStack\.push_back\(&theList\);', 'xv_stack_push(self, theList);', (0, 1)),
     (r'm_contextNodeListStack\.pop_back\(\);', 'xv_stack_pop(self);', (0, 1)),
     (r'm_contextNodeListStack\.empty\(\)', 'xv_stack_empty(self)', (0, 1)),
     (r'assert\(\(m_cachedPosition\.m_index == 0 && .*?m_cachedPosition\.m_index\)\);', 'assert(self->m_cachedPosition.m_index == POS(xv_top_index_of(self, contextNode)));', (0, 1)),
     (r'const NodeRefListBase&\s+theList = \*m_contextNodeListStack\.back\(\);', '', (0, 1)),
     (r'theList\.getLength\(\)', 'xv_top_length(self)', (0, 1)),
     (r'theList\.item\(([^;]+?)\) == &contextNode', r'xv_top_item(self, \1) == contextNode', (0, 1)),
     (r'theList\.indexOf\(&contextNode\)', 'xv_top_index_of(self, contextNode)', (0, 2)),
     (r'm_contextNodeListStack\.back\(\)->indexOf\(&contextNode\)', 'xv_top_index_of(self, contextNode)', (0, 1)),
     (r'NodeRefListBase::npos', 'XV_NPOS', (0, 1)),
     (r'&contextNode\b', 'contextNode', (0, 3)),
     (r'(?<![\w.>])m_cachedPosition\b', 'self->m_cachedPosition', (0, 12)),
     (r'(?<![\w.>])m_node\b', 'c->m_node', (0, 2))]
PRE = '__CPROVER_requires(self == &g_self_obj && INV(self))\n'
UNIT = Unit(
    name='c16_position',
    props=['C16', 'C11', 'C06', 'C02'],
    functions=[
        Fn(XH, r'^\s+clear\(\)\s*$', 'cache_clear', 'static void cache_clear(Cache* c)', rules=R, nloops=0, reach=False, after=r'struct ContextNodeListPositionCache'),
        Fn(XC, r'^XPathExecutionContextDefault::pushContextNodeList\(', 'pushContextNodeList', 'void pushContextNodeList(Self* self, const NodeRefListBase* theList)', rules=R, nloops=0,
           contract=PRE + '''__CPROVER_requires(g_depth < ((size_t)1 << 40))
__CPROVER_assigns(self->m_cachedPosition.m_node, self->m_cachedPosition.m_index, g_depth, g_index_in_top)
__CPROVER_ensures(/* another list is current now: nothing cached for the old one survives */ INV(self) && g_depth == __CPROVER_old(g_depth) + 1)'''),
        Fn(XC, r'^XPathExecutionContextDefault::popContextNodeList\(', 'popContextNodeList', 'void popContextNodeList(Self* self)', rules=R, nloops=0,
           contract=PRE + '''__CPROVER_requires(g_depth >= 1)
__CPROVER_assigns(self->m_cachedPosition.m_node, self->m_cachedPosition.m_index, g_depth, g_index_in_top)
__CPROVER_ensures(/* the enclosing list is current again: a position cached for the inner list must not survive */ INV(self) && g_depth == __CPROVER_old(g_depth) - 1)'''),
        Fn(XC, r'^XPathExecutionContextDefault::getContextNodeListPosition\(', 'getContextNodeListPosition', 'size_type getContextNodeListPosition(Self* self, const XalanNode* contextNode)', rules=R, nloops=0,
           contract='''__CPROVER_requires(self == &g_self_obj && contextNode == g_node && contextNode != 0 && g_depth >= 1 && g_top_len < ((size_t)1 << 40) && (g_index_in_top == XV_NPOS || g_index_in_top < g_top_len))
__CPROVER_assigns(self->m_cachedPosition.m_node, self->m_cachedPosition.m_index)
__CPROVER_ensures(/* position(): index of the node in the current list plus one, 0 when it is not in the list - WHATEVER the cache held (a predicate shrinks the current list in place, so a cached position can be out of date) */
    __CPROVER_return_value == POS(g_index_in_top) && INV(self))'''),
    ],
    template=TEMPLATE,
    jobs=[Job('pushContextNodeList', 'h_pushContextNodeList', enforce=['pushContextNodeList'], replace=['xv_stack_push'], reach=['entry:pushContextNodeList'], timeout=120, min_obligations=3),
          Job('popContextNodeList', 'h_popContextNodeList', enforce=['popContextNodeList'], replace=['xv_stack_pop'], reach=['entry:popContextNodeList'], timeout=120, min_obligations=3),
          Job('getContextNodeListPosition', 'h_getContextNodeListPosition', enforce=['getContextNodeListPosition'], replace=['xv_stack_empty', 'xv_top_index_of', 'xv_top_length', 'xv_top_item'], reach=['entry:getContextNodeListPosition'], timeout=120, min_obligations=3)],
    mutants=[
        Mutant('cached_position_trusted_blindly', XC, r'if \(m_cachedPosition\.m_node == &contextNode &&\s*m_cachedPosition\.m_index != 0 &&\s*m_cachedPosition\.m_index <= theList\.getLength\(\) &&\s*theList\.item\(m_cachedPosition\.m_index - 1\) == &contextNode\)', 'if (m_cachedPosition.m_node == &contextNode)', expect='WHATEVER the cache held'),
        Mutant('pop_keeps_cache', XC, r'(XPathExecutionContextDefault::popContextNodeList\(\)\s*\{\s*)m_cachedPosition\.clear\(\);', r'\1', expect='enclosing list'),
        Mutant('push_keeps_cache', XC, r'(XPathExecutionContextDefault::pushContextNodeList\(const NodeRefListBase&    theList\)\s*\{\s*)m_cachedPosition\.clear\(\);', r'\1', expect='another list'),
        Mutant('position_zero_based', XC, r'theIndex == NodeRefListBase::npos \? 0 : theIndex \+ 1;', 'theIndex == NodeRefListBase::npos ? 0 : theIndex;', expect='position()'),
        Mutant('clear_does_nothing', XH, r'(clear\(\)\s*\{\s*if \(m_node != 0\)\s*\{\s*)m_node = 0;', r'\1', expect=None),
    ],
    mechanisms=['position() cache of the XPath execution context'],
    assumptions=['the context-node-list stack is a stack of lists (push_back / pop_back / back); one tracked node, whose index in the top list changes arbitrarily when the top list changes; the list on top may also be modified in place (XPath::predicates), which is why getContextNodeListPosition is proved for an arbitrary cache content',
                 'NodeRefListBase::indexOf returns the index of the node in that list or npos (lists hold fewer than 2^40 nodes)'],
)
