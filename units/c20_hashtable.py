"""C20: XalanDOMStringHashTable (the lookup half of XalanDOMStringPool, which interns every element / attribute name and attribute value of a
source tree).  The bucket predicate accepts a stored string exactly when it EQUALS the key (same length, same units - a stored string that
merely starts with the key is another string); find looks in the bucket hash(key) % bucketCount and reports that index; insert files a string
in the bucket of its own hash - the one find will look in."""
from xvlib.unit import Fn, Job, Unit, Mutant

HT = 'src/xalanc/PlatformSupport/XalanDOMStringHashTable.cpp'
TEMPLATE = r'''
#include "xv_shim.h"
typedef struct XalanDOMString XalanDOMString; typedef size_t XalanDOMString_size_type; typedef long BucketIt;
typedef struct Functor { const XalanDOMChar* m_string; size_t m_length; } Functor;
typedef struct Self { size_t m_bucketCount; size_t m_bucketSize; size_t m_count; } Self;
#define XV_NPOS ((size_t)-1)
/* ghost for the predicate: length of the key and of the stored string, whether they agree on their common prefix */
size_t g_lk, g_ls; bool g_prefix_eq; const XalanDOMString* g_stored; const XalanDOMChar* g_key;
size_t xv_str_length(const XalanDOMString* s) __CPROVER_requires(s == g_stored) __CPROVER_assigns() __CPROVER_ensures(__CPROVER_return_value == g_ls) ;
const XalanDOMChar* xv_c_str(const XalanDOMString* s) __CPROVER_requires(s == g_stored) __CPROVER_assigns() __CPROVER_ensures(1) ;
bool xv_equals_n(const XalanDOMChar* a, const XalanDOMChar* b, size_t n)
__CPROVER_requires(/* equals(a, b, n) reads n units of each: inside both strings */ a == g_key && n <= g_lk && n <= g_ls) __CPROVER_assigns()
__CPROVER_ensures((__CPROVER_return_value == true || __CPROVER_return_value == false) && ((n == g_lk || n == g_ls) ==> __CPROVER_return_value == g_prefix_eq)) ;
@@FN functor_call@@
/* ghost for find / insert: the hash of the key, the bucket inspected, what find_if found there */
size_t g_self_count; size_t g_hash; size_t g_bucket_used; bool g_bucket_set; long g_hit; const XalanDOMString* g_hit_string; size_t g_pushed_bucket; bool g_pushed; size_t g_actual_len;
size_t xv_length_z(const XalanDOMChar* s) __CPROVER_requires(s == g_key) __CPROVER_assigns() __CPROVER_ensures(__CPROVER_return_value == g_lk && g_lk < ((size_t)1 << 40)) ;
size_t xv_hash(const XalanDOMChar* s, size_t n) __CPROVER_requires(s == g_key && n == g_lk) __CPROVER_assigns() __CPROVER_ensures(__CPROVER_return_value == g_hash) ;
size_t xv_string_hash(const XalanDOMString* s) __CPROVER_requires(s == g_stored) __CPROVER_assigns() __CPROVER_ensures(__CPROVER_return_value == g_hash) ;
/* find_if(bucket.begin(), bucket.end(), equalsXalanDOMString(key, len)): position of the first string of THAT bucket the predicate accepts, or end (-1) */
BucketIt xv_find_if(const Self* s, size_t bucket, const XalanDOMChar* key, size_t len)
__CPROVER_requires(/* bucket index inside the table */ bucket < s->m_bucketCount && key == g_key && len == g_lk) __CPROVER_assigns(g_bucket_used, g_bucket_set)
__CPROVER_ensures(g_bucket_used == bucket && g_bucket_set == true && __CPROVER_return_value == g_hit) ;
const XalanDOMString* xv_bucket_deref(BucketIt i) __CPROVER_requires(/* only a real position is dereferenced */ i >= 0 && i == g_hit) __CPROVER_assigns() __CPROVER_ensures(__CPROVER_return_value == g_hit_string) ;
void xv_bucket_reserve(Self* s, size_t bucket, size_t n) __CPROVER_requires(bucket < s->m_bucketCount) __CPROVER_assigns() __CPROVER_ensures(1) ;
void xv_bucket_push(Self* s, size_t bucket, const XalanDOMString* str) __CPROVER_requires(bucket < s->m_bucketCount && str == g_stored && g_pushed == false) __CPROVER_assigns(g_pushed, g_pushed_bucket) __CPROVER_ensures(g_pushed == true && g_pushed_bucket == bucket) ;
/* hash % bucketCount, as an uninterpreted function of its two operands (cbmc does not finish proving two 64-bit modulo circuits equal) */
size_t g_mod;
size_t xv_mod(size_t a, size_t n) __CPROVER_requires(/* no division by zero */ n != 0) __CPROVER_assigns()
__CPROVER_ensures(__CPROVER_return_value < n && ((a == g_hash && n == g_self_count) ==> __CPROVER_return_value == g_mod)) ;
Self g_self;
@@FN find3@@
@@FN insert1@@
void h_functor_call(void) { Functor f; size_t a, b; bool e; const XalanDOMString* s; const XalanDOMChar* k; __CPROVER_assume(s != 0 && a < ((size_t)1 << 40) && b < ((size_t)1 << 40)); g_lk = a; g_ls = b; g_prefix_eq = XV_BOOL(e); g_stored = s; g_key = k; f.m_string = k; f.m_length = a; functor_call(&f, s); }
static void xv_world(void) { size_t a, h, n, c; long hit; const XalanDOMString *s, *t; const XalanDOMChar* k; size_t md; __CPROVER_assume(k != 0 && s != 0 && t != 0 && n >= 1 && md < n); g_self_count = n; g_mod = md; g_lk = a; g_hash = h; g_hit = hit; g_hit_string = s; g_stored = t; g_key = k; g_bucket_set = false; g_pushed = false; g_self.m_bucketCount = n; g_self.m_count = c; }
void h_find3(void) { xv_world(); size_t len; size_t out; bool want; find3(&g_self, g_key, len, XV_BOOL(want) ? &out : (size_t*)0); }
void h_insert1(void) { xv_world(); insert1(&g_self, g_stored); }
'''
R = ['SCOPE',
     (r'theString->length\(\)', 'xv_str_length(theString)', (0, 2)),
     (r'(?<![\w.>])equals\(m_string, theString->c_str\(\), m_length\)', 'xv_equals_n(self->m_string, xv_c_str(theString), self->m_length)', (0, 1)),
     (r'(?<![\w.>])m_length\b', 'self->m_length', (0, 3)),
     (r'XalanDOMString_npos', 'XV_NPOS', (0, 1)),
     (r'(?<![\w.>])length\(theString\)', 'xv_length_z(theString)', (0, 1)),
     (r'XalanDOMString_hash\(theString, theActualLength\)', 'xv_hash(theString, theActualLength)', (0, 1)),
     (r'theString\.hash\(\)', 'xv_string_hash(theString)', (0, 2)),
     (r'const BucketType&\s+theBucket = m_buckets\[(\w+)\];', r'const size_t theBucket = \1;', (0, 1)),
     (r'BucketType&\s+theBucket = m_buckets\[(\w+)\];', r'const size_t theBucket = \1;', (0, 1)),
     (r'using std::find_if;', '', (0, 1)),
     (r'const BucketType_const_iterator\s+i =\s*(?:std::)?find_if\(\s*theBucket\.begin\(\),\s*theBucket\.end\(\),\s*equalsXalanDOMString\((\w+), (\w+)\)\);', r'const BucketIt i = xv_find_if(self, theBucket, \1, \2);', (0, 1)),
     (r'i == theBucket\.end\(\)', 'i < 0', (0, 1)),
     (r'return \*i;', 'return xv_bucket_deref(i);', (0, 1)),
     (r'theBucket\.reserve\(m_bucketSize\);', 'xv_bucket_reserve(self, theBucket, self->m_bucketSize);', (0, 1)),
     (r'theBucket\.push_back\(&theString\);', 'xv_bucket_push(self, theBucket, theString);', (0, 1)),
     (r'theHash % ([^;]+);', r'xv_mod(theHash, \1);', (0, 1)),
     (r'(?<![\w.>])(m_bucketCount|m_count)\b', r'self->\1', (0, 4))]
UNIT = Unit(
    name='c20_hashtable',
    props=['C20'],
    functions=[
        Fn(HT, r'^\s+operator\(\)\(const XalanDOMString\*\s+theString\) const', 'functor_call', 'bool functor_call(const Functor* self, const XalanDOMString* theString)', rules=R, nloops=0, after=r'^equalsXalanDOMString',
           contract='''__CPROVER_requires(__CPROVER_is_fresh(self, sizeof(*self)) && theString == g_stored && theString != 0 && self->m_string == g_key && self->m_length == g_lk && g_lk < ((size_t)1 << 40) && g_ls < ((size_t)1 << 40))
__CPROVER_assigns()
__CPROVER_ensures(/* equal strings only: same length and same units; a longer stored string that starts with the key is NOT the key */ __CPROVER_return_value == (g_lk == g_ls && g_prefix_eq == true))'''),
        Fn(HT, r'^XalanDOMStringHashTable::find\(\s*const XalanDOMChar\*\s+theString,', 'find3', 'const XalanDOMString* find3(const Self* self, const XalanDOMChar* theString, size_t theLength, size_t* theBucketIndex)', rules=R, nloops=0,
           contract='''__CPROVER_requires(self == &g_self && theString == g_key && theString != 0 && self->m_bucketCount >= 1 && self->m_bucketCount == g_self_count && g_mod < g_self_count && (theLength == XV_NPOS || theLength == g_lk) && g_lk < ((size_t)1 << 40) && g_bucket_set == false && (theBucketIndex == 0 || __CPROVER_w_ok(theBucketIndex, sizeof(size_t))))
__CPROVER_assigns(g_bucket_used, g_bucket_set, *theBucketIndex)
__CPROVER_ensures(/* the bucket searched is hash(key) mod bucket count, and that index is what the caller is told (insert(string, index) files the string there) */
    g_bucket_set == true && g_bucket_used == g_mod && (theBucketIndex != 0 ==> *theBucketIndex == g_bucket_used))
__CPROVER_ensures(/* the string the predicate accepted, or null */ __CPROVER_return_value == (g_hit >= 0 ? g_hit_string : (const XalanDOMString*)0))'''),
        Fn(HT, r'^XalanDOMStringHashTable::insert\(const XalanDOMString&\s+theString\)', 'insert1', 'void insert1(Self* self, const XalanDOMString* theString)', rules=R, nloops=0,
           contract='''__CPROVER_requires(self == &g_self && theString == g_stored && self->m_bucketCount >= 1 && self->m_bucketCount == g_self_count && g_mod < g_self_count && self->m_count < ((size_t)1 << 40) && g_pushed == false)
__CPROVER_assigns(g_pushed, g_pushed_bucket, self->m_count)
__CPROVER_ensures(/* filed in the bucket of its own hash (where find looks), counted once */ g_pushed == true && g_pushed_bucket == g_mod && self->m_count == __CPROVER_old(self->m_count) + 1)'''),
    ],
    template=TEMPLATE,
    jobs=[Job('functor_call', 'h_functor_call', enforce=['functor_call'], replace=['xv_str_length', 'xv_c_str', 'xv_equals_n'], reach=['entry:functor_call'], timeout=120, min_obligations=3),
          Job('find3', 'h_find3', enforce=['find3'], replace=['xv_length_z', 'xv_hash', 'xv_find_if', 'xv_bucket_deref', 'xv_mod'], reach=['entry:find3'], timeout=300, min_obligations=4),
          Job('insert1', 'h_insert1', enforce=['insert1'], replace=['xv_string_hash', 'xv_bucket_reserve', 'xv_bucket_push', 'xv_mod'], reach=['entry:insert1'], timeout=300, min_obligations=3)],
    mutants=[
        Mutant('prefix_counts_as_equal', HT, r'if \(m_length != theString->length\(\)\)', 'if (m_length > theString->length())', expect='equal strings only'),
        Mutant('bucket_index_not_reported', HT, r'\*theBucketIndex = theLocalBucketIndex;', '*theBucketIndex = theHash;', expect='bucket searched'),
        Mutant('insert_files_under_raw_hash', HT, r'(XalanDOMStringHashTable::insert\(const XalanDOMString&   theString\)\s*\{\s*const size_t    theHash = theString\.hash\(\);\s*const size_t    theBucketIndex = theHash) % m_bucketCount;', r'\1 % (m_bucketCount + 1);', expect=None),
    ],
    mechanisms=['XalanDOMStringHashTable / XalanDOMStringPool'],
    assumptions=['XalanDOMString::hash(chars, n) and XalanDOMString::hash() give the same value for equal strings (read, not verified); equals(a, b, n) compares n units; std::find_if returns the first position the predicate accepts',
                 'a bucket is observed only through what find_if finds in it', 'hash % bucketCount is abstracted as an uninterpreted function of its two operands (find and insert must apply it to the same operands); any bucket count >= 1'],
)
