"""C06: install / uninstall of an extension function on one transformer.  After installExternalFunction(ns, name, f) the transformer maps
(ns, name) to a clone of f - also when that name was installed before (a new transformer with f installed calls f, so must this one) - and the
function it replaced is destroyed only after it is no longer mapped; after uninstallExternalFunction the name is not mapped."""
from xvlib.unit import Fn, Job, Unit, Mutant

XT = 'src/xalanc/XalanTransformer/XalanTransformer.cpp'
TEMPLATE = r'''
#include "xv_shim.h"
typedef struct Function Function; typedef struct XalanDOMString XalanDOMString; typedef struct Self Self; typedef int XalanQNameByValue;
/* ghost: m_functions (XalanMap<QName, Function*>) seen at the one key (ns, name): is it present, what it maps to; the function installed before; the clone */
bool g_present; Function* g_slot; Function* g_old; Function* g_clone; bool g_old_destroyed; bool g_cloned; int g_it;
enum { IT_END = 0, IT_KEY = 1 };
/* XalanMap::operator[]: a reference to the mapped value, inserting a null pointer first when the key is absent */
Function** xv_map_slot(Self* s, int key) __CPROVER_requires(1) __CPROVER_assigns(g_present, g_slot)
__CPROVER_ensures(__CPROVER_return_value == &g_slot && g_present == true && g_slot == (__CPROVER_old(g_present) ? __CPROVER_old(g_slot) : (Function*)0)) ;
/* XalanMap::insert(key, value): like std::map::insert, does NOT replace the value of a key that is present */
void xv_map_insert(Self* s, int key, Function* v) __CPROVER_requires(1) __CPROVER_assigns(g_present, g_slot)
__CPROVER_ensures(g_present == true && g_slot == (__CPROVER_old(g_present) ? __CPROVER_old(g_slot) : v)) ;
int xv_map_find(Self* s, int key) __CPROVER_requires(1) __CPROVER_assigns() __CPROVER_ensures(__CPROVER_return_value == (g_present ? IT_KEY : IT_END)) ;
Function* xv_it_second(int it) __CPROVER_requires(/* only an iterator to an entry is dereferenced */ it == IT_KEY && g_present == true) __CPROVER_assigns() __CPROVER_ensures(__CPROVER_return_value == g_slot) ;
void xv_map_erase(Self* s, int it) __CPROVER_requires(it == IT_KEY && g_present == true) __CPROVER_assigns(g_present) __CPROVER_ensures(g_present == false) ;
Function* xv_clone(const Function* f) __CPROVER_requires(f != 0 && g_cloned == false) __CPROVER_assigns(g_cloned) __CPROVER_ensures(g_cloned == true && __CPROVER_return_value == g_clone) ;
void xv_destroy(Function* f)
__CPROVER_requires(/* a function object is destroyed only when the map no longer refers to it */ f == 0 || (f == g_old && g_old_destroyed == false && (g_present == false || g_slot != f)))
__CPROVER_assigns(g_old_destroyed) __CPROVER_ensures(g_old_destroyed == (f != 0 ? true : __CPROVER_old(g_old_destroyed))) ;
@@FN install@@
@@FN uninstall@@
static void xv_havoc(void) { bool p; Function *o, *c; __CPROVER_assume(c != 0 && c != o); g_present = XV_BOOL(p); g_old = g_present ? o : (Function*)0; __CPROVER_assume(!g_present || o != 0); g_slot = g_old; g_clone = c; g_old_destroyed = false; g_cloned = false; }
void h_install(void) { xv_havoc(); const Function* f; __CPROVER_assume(f != 0); install(0, 0, 0, f); }
void h_uninstall(void) { xv_havoc(); uninstall(0, 0, 0); }
'''
R = [(r'const XalanQNameByValue\s+theQName\(theNamespace, functionName, m_memoryManager\);', 'const XalanQNameByValue theQName = 1;', 1),
     (r'Function\*&\s+theFunction\s*=\s*m_functions\[theQName\];', 'Function** const theFunction_p = xv_map_slot(self, theQName);', (0, 1)),
     (r'(?<![\w.>])theFunction\b(?!_p)', '(*theFunction_p)', (0, 4)),
     (r'm_functions\[theQName\]', '(*xv_map_slot(self, theQName))', (0, 2)),
     (r'm_functions\.insert\(\s*theQName,', 'xv_map_insert(self, theQName,', (0, 1)),
     (r'function\.clone\(m_memoryManager\)', 'xv_clone(function)', (0, 1)),
     (r'XalanDestroy(?:<Function>)?\(\s*m_memoryManager,\s*\*?(\w+|\(\*\w+\))\);', r'xv_destroy(\1);', (0, 2))]
R2 = [R[0],
      (r'FunctionMapType::iterator\s+i\s*=\s*m_functions\.find\(theQName\);', 'int i = xv_map_find(self, theQName);', 1),
      (r'm_functions\.end\(\)', 'IT_END', 1),
      (r'\(\*i\)\.second', 'xv_it_second(i)', 1),
      (r'm_functions\.erase\(i\);', 'xv_map_erase(self, i);', (0, 1)),
      (r'(?<![\w.>])theFunction\b', 'theFunction', None),
      R[6]]
UNIT = Unit(
    name='c06_extfn',
    props=['C06'],
    functions=[
        Fn(XT, r'^XalanTransformer::installExternalFunction\(', 'install',
           'void install(Self* self, const XalanDOMString* theNamespace, const XalanDOMString* functionName, const Function* function)', rules=R, nloops=0,
           contract='''__CPROVER_requires(function != 0 && g_clone != 0 && g_clone != g_old && g_cloned == false && g_old_destroyed == false && (g_present ? (g_old != 0 && g_slot == g_old) : (g_old == 0 && g_slot == 0)))
__CPROVER_assigns(g_present, g_slot, g_old_destroyed, g_cloned)
__CPROVER_ensures(/* the name now maps to a clone of the function just installed, whether or not it was installed before */ g_present == true && g_slot == g_clone && g_cloned == true)
__CPROVER_ensures(/* the function that was replaced is released */ g_old != 0 ==> g_old_destroyed == true)'''),
        Fn(XT, r'^XalanTransformer::uninstallExternalFunction\(', 'uninstall',
           'void uninstall(Self* self, const XalanDOMString* theNamespace, const XalanDOMString* functionName)', rules=R2, nloops=0,
           contract='''__CPROVER_requires(g_old_destroyed == false && (g_present ? (g_old != 0 && g_slot == g_old) : (g_old == 0 && g_slot == 0)))
__CPROVER_assigns(g_present, g_old_destroyed)
__CPROVER_ensures(/* the name is no longer mapped; what it mapped to is released */ g_present == false && (g_old != 0 ==> g_old_destroyed == true))'''),
    ],
    template=TEMPLATE,
    jobs=[Job('install', 'h_install', enforce=['install'], replace=['xv_map_slot', 'xv_map_insert', 'xv_clone', 'xv_destroy'], reach='all', timeout=120, min_obligations=3),
          Job('uninstall', 'h_uninstall', enforce=['uninstall'], replace=['xv_map_find', 'xv_it_second', 'xv_map_erase', 'xv_destroy'], reach='all', timeout=120, min_obligations=3)],
    mutants=[
        Mutant('install_by_insert', XT, r'    Function\*&  theFunction =\s*m_functions\[theQName\];\s*Function\* const     theOldFunction =\s*theFunction;\s*theFunction = function\.clone\(m_memoryManager\);\s*XalanDestroy<Function>\(\s*m_memoryManager,\s*theOldFunction\);',
               '    m_functions.insert(\n        theQName,\n        function.clone(m_memoryManager));', expect='installed before'),
        Mutant('destroys_new_function', XT, r'(XalanDestroy<Function>\(\s*m_memoryManager,\s*)theOldFunction\);', r'\1theFunction);', expect='no longer refers'),
        Mutant('uninstall_keeps_entry', XT, r'        m_functions\.erase\(i\);\n', '', count=1, expect=None),
    ],
    mechanisms=['extension functions installed on the transformer'],
    assumptions=['XalanMap operator[] / insert / find / erase have the std::map meaning (operator[] default-inserts, insert does not overwrite); the map is observed at the one key (namespace, name)',
                 'Function::clone returns a new object; how m_functions reaches the XPath function lookup (XSLTProcessorEnvSupportDefault) is not under contract'],
)
