"""C13: the cached run-time flag that short-circuits every strip decision (StylesheetRoot::m_hasStripOrPreserveSpace) is
computed AFTER the declarations of imported stylesheets have been merged, and StylesheetRoot::shouldStripSourceNode
consults the declaration list exactly for whitespace-only text nodes when any declaration exists."""
from xvlib.unit import Fn, Job, Unit, Mutant

SR = 'src/xalanc/XSLT/StylesheetRoot.cpp'
SH = 'src/xalanc/XSLT/StylesheetRoot.hpp'

TEMPLATE = r'''
#include "xv_shim.h"
enum { OUTPUT_METHOD_NONE = 0, OUTPUT_METHOD_XML = 1, OUTPUT_METHOD_HTML = 2, OUTPUT_METHOD_TEXT = 3, OUTPUT_METHOD_DOM = 4, OUTPUT_METHOD_OTHER = 5 };
typedef struct Self { bool m_needToBuildKeysTable; int m_outputMethod; bool m_hasCDATASectionElems; bool m_hasStripOrPreserveSpace; } Self;
typedef struct XalanText XalanText; typedef struct Ctx StylesheetConstructionContext;
/* ghost: sizes of the root stylesheet's declaration vectors; whether Stylesheet::postConstruction (the import merge) has run */
size_t g_ws_count, g_keys_count, g_cdata_count; bool g_merged, g_cdata_sorted; bool g_text_is_ws, g_internal_answer, g_internal_called;
/* Stylesheet::postConstruction: appends the key and strip/preserve-space declarations of every imported stylesheet (Stylesheet.cpp 536-600) */
void xv_Stylesheet_postConstruction(Self* self)
__CPROVER_requires(g_merged == false) __CPROVER_assigns(g_ws_count, g_keys_count, g_merged)
__CPROVER_ensures(g_merged == true && g_ws_count >= __CPROVER_old(g_ws_count) && g_keys_count >= __CPROVER_old(g_keys_count)) ;
void xv_initDefaultRule(Self* self) __CPROVER_requires(1) __CPROVER_assigns() __CPROVER_ensures(1) ;
void xv_attribute_sets_postConstruction(Self* self) __CPROVER_requires(1) __CPROVER_assigns() __CPROVER_ensures(1) ;
void xv_cdata_clear(Self* self) __CPROVER_requires(1) __CPROVER_assigns(g_cdata_count) __CPROVER_ensures(g_cdata_count == 0) ;
void xv_cdata_sort(Self* self) __CPROVER_requires(1) __CPROVER_assigns(g_cdata_sorted) __CPROVER_ensures(g_cdata_sorted == true) ;
bool xv_text_isWhitespace(const XalanText* t) __CPROVER_requires(1) __CPROVER_assigns() __CPROVER_ensures(__CPROVER_return_value == g_text_is_ws) ;
/* internalShouldStripSourceNode: contract proved in c13_stripspace; its precondition is the caller's obligation */
bool xv_internalShouldStrip(const Self* self, const XalanText* t)
__CPROVER_requires(/* the declaration list is consulted only for whitespace-only text when declarations exist */ g_text_is_ws == true && g_ws_count >= 1)
__CPROVER_assigns(g_internal_called) __CPROVER_ensures(g_internal_called == true && __CPROVER_return_value == g_internal_answer) ;

@@FN postConstruction@@
@@FN hasPreserveOrStripSpaceElements@@
@@FN shouldStripSourceNode@@
void h_postConstruction(void)
{ size_t a, b, c; bool s; g_ws_count = a; g_keys_count = b; g_cdata_count = c; g_merged = false; g_cdata_sorted = XV_BOOL(s); Self* p; postConstruction(p, 0); }
void h_shouldStrip(void)
{ size_t a; bool w, i; g_ws_count = a; g_text_is_ws = XV_BOOL(w); g_internal_answer = XV_BOOL(i); g_internal_called = false; Self* p; shouldStripSourceNode(p, 0); }
'''

R = [(r'Stylesheet::postConstruction\(constructionContext\);', 'xv_Stylesheet_postConstruction(self);', (0, 1)),
     (r'initDefaultRule\(constructionContext\);', 'xv_initDefaultRule(self);', (0, 1)),
     (r'\{\s*AttributeSetMapType::iterator\s+theCurrentMap.*?\+\+theCurrentMap;\s*\}\s*\}', 'xv_attribute_sets_postConstruction(self);', (0, 1)),
     (r'm_keyDeclarations\.empty\(\)', '(g_keys_count == 0)', (0, 1)),
     (r'FormatterListener::(OUTPUT_METHOD_\w+)', r'\1', (0, 4)),
     (r'm_cdataSectionElems\.clear\(\);', 'xv_cdata_clear(self);', (0, 1)),
     (r'm_cdataSectionElems\.empty\(\)', '(g_cdata_count == 0)', (0, 2)),
     (r'using std::sort;\s*sort\(\s*m_cdataSectionElems\.begin\(\),\s*m_cdataSectionElems\.end\(\),\s*pointer_less<XalanQName>\(\)\);', 'xv_cdata_sort(self);', (0, 1)),
     (r'm_whitespaceElements\.empty\(\)', '(g_ws_count == 0)', (0, 2)),
     (r'theNode\.isWhitespace\(\)', 'xv_text_isWhitespace(theNode)', (0, 1)),
     (r'(?<![\w.>])hasPreserveOrStripSpaceElements\(\)', 'hasPreserveOrStripSpaceElements(self)', (0, 1)),
     (r'(?<![\w.>])internalShouldStripSourceNode\(theNode\)', 'xv_internalShouldStrip(self, theNode)', (0, 1)),
     (r'\bm_(needToBuildKeysTable|outputMethod|hasCDATASectionElems|hasStripOrPreserveSpace)\b', r'self->m_\1', (0, 12))]

UNIT = Unit(
    name='c13_flags',
    props=['C13'],
    functions=[
        Fn(SR, r'^StylesheetRoot::postConstruction\(StylesheetConstructionContext&\s+constructionContext\)', 'postConstruction',
           'void postConstruction(Self* self, StylesheetConstructionContext* constructionContext)', rules=R, nloops=0,
           contract='''__CPROVER_requires(__CPROVER_is_fresh(self, sizeof(*self)) && g_merged == false)
__CPROVER_requires(/* constructed state */ self->m_hasStripOrPreserveSpace == false && self->m_hasCDATASectionElems == false && self->m_needToBuildKeysTable == false)
__CPROVER_requires(self->m_outputMethod >= OUTPUT_METHOD_NONE && self->m_outputMethod <= OUTPUT_METHOD_OTHER)
__CPROVER_assigns(g_ws_count, g_keys_count, g_merged, g_cdata_count, g_cdata_sorted, self->m_needToBuildKeysTable, self->m_hasCDATASectionElems, self->m_hasStripOrPreserveSpace)
__CPROVER_ensures(g_merged == true)
__CPROVER_ensures(/* the cached strip/preserve flag reflects the declarations of the whole import tree: it is computed after the merge */ self->m_hasStripOrPreserveSpace == (g_ws_count != 0))
__CPROVER_ensures(/* keys inherited from imports are built */ self->m_needToBuildKeysTable == (g_keys_count != 0))
__CPROVER_ensures(/* cdata-section-elements: kept and sorted for the xml / unspecified method only, flag agrees with the list */
    self->m_hasCDATASectionElems == (g_cdata_count != 0) && (self->m_hasCDATASectionElems == true ==> (g_cdata_sorted == true && (self->m_outputMethod == OUTPUT_METHOD_XML || self->m_outputMethod == OUTPUT_METHOD_NONE))))'''),
        Fn(SH, r'^\s*hasPreserveOrStripSpaceElements\(\) const', 'hasPreserveOrStripSpaceElements', 'bool hasPreserveOrStripSpaceElements(const Self* self)', rules=R, nloops=0, reach=False,
           contract='''__CPROVER_requires(__CPROVER_r_ok(self, sizeof(*self))) __CPROVER_assigns() __CPROVER_ensures(__CPROVER_return_value == self->m_hasStripOrPreserveSpace)'''),
        Fn(SH, r'^\s*shouldStripSourceNode\(const XalanText&\s+theNode\) const', 'shouldStripSourceNode', 'bool shouldStripSourceNode(const Self* self, const XalanText* theNode)', rules=R, nloops=0,
           contract='''__CPROVER_requires(__CPROVER_is_fresh(self, sizeof(*self)) && g_internal_called == false)
__CPROVER_requires(/* what postConstruction established */ self->m_hasStripOrPreserveSpace == (g_ws_count != 0))
__CPROVER_assigns(g_internal_called)
__CPROVER_ensures(/* strip decision: only whitespace-only text nodes, only when declarations exist, and then exactly what the declaration list says */
    __CPROVER_return_value == (g_ws_count != 0 && g_text_is_ws == true && g_internal_answer == true))
__CPROVER_ensures(/* the declaration list is consulted for every whitespace-only text node when declarations exist */ g_internal_called == (g_ws_count != 0 && g_text_is_ws == true))'''),
    ],
    template=TEMPLATE,
    jobs=[Job('postConstruction', 'h_postConstruction', enforce=['postConstruction'],
              replace=['xv_Stylesheet_postConstruction', 'xv_initDefaultRule', 'xv_attribute_sets_postConstruction', 'xv_cdata_clear', 'xv_cdata_sort'], reach='all', timeout=120, min_obligations=4),
          Job('shouldStrip', 'h_shouldStrip', enforce=['shouldStripSourceNode'], replace=['hasPreserveOrStripSpaceElements', 'xv_text_isWhitespace', 'xv_internalShouldStrip'],
              reach='all', timeout=120, min_obligations=3)],
    mutants=[
        Mutant('flag_before_merge', SR, r'(    // Chain-up first\.\.\.\n)(.*?)(\n    m_hasStripOrPreserveSpace = m_whitespaceElements\.empty\(\) == false;)', r'\3\n\1\2', expect='cached strip/preserve flag'),
        Mutant('flag_inverted', SR, r'm_hasStripOrPreserveSpace = m_whitespaceElements\.empty\(\) == false;', 'm_hasStripOrPreserveSpace = m_whitespaceElements.empty();', expect='cached strip/preserve flag'),
        Mutant('nonwhitespace_consulted', SH, r'(hasPreserveOrStripSpaceElements\(\) == true) &&\s*theNode\.isWhitespace\(\) == true', r'\1', expect='consulted only for whitespace-only'),
    ],
    mechanisms=['cached flag hasPreserveOrStripSpaceElements', 'import merge of whitespace declarations'],
    assumptions=['Stylesheet::postConstruction appends the imported declarations (only "count does not shrink" is assumed here; the merge loop itself is not under contract)',
                 'the attribute-set post-construction loop of StylesheetRoot::postConstruction is collapsed to one stub call (it does not touch the flags)',
                 'the vectors are modelled by their sizes'],
)
