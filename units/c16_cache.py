"""C16: the number-key cache of the sort comparator.  NodeSortKeyCompare::getNumberResult(key, keyIndex, entry) returns the value of
sort key keyIndex for THIS entry (identified by its original position), whatever the cache holds: a slot is either the sentinel
"not computed" or the value of its own (key, position); a value that happens to equal the sentinel is simply recomputed."""
from xvlib.unit import Fn, Job, Unit, Mutant

NS = 'src/xalanc/XSLT/NodeSorter.cpp'
TEMPLATE = r'''
#include "xv_shim.h"
typedef struct Self Self; typedef struct NodeSortKey NodeSortKey; typedef struct XPath XPath; typedef size_t XalanSize_t;
typedef struct Entry { const void* m_node; size_t m_position; } Entry;
#define DUMMY 135792468.0
/* ghost: number of keys and of nodes; the cache: number of rows, and for one arbitrary witness cell (g_k, g_p) whether its row exists and its content;
   every other cell is g_other.  val(k, p): the value of key k for the entry at original position p, as getResult computes it */
size_t g_nkeys, g_nnodes; size_t g_rows; size_t g_k, g_p; bool g_row_k_empty; double g_cell, g_other; bool g_other_row_empty;
double g_val_kp, g_val_other; size_t g_qk, g_qp; const void* g_node_of_p; size_t g_evals;
static bool DoubleSupport_equal(double a, double b) { return a == b; }   /* contract proved in c02_dsarith */
static bool xv_cache_empty(void) { return g_rows == 0; }
static void xv_cache_resize(size_t n) { __CPROVER_assert(n == g_nkeys, "the cache has one row per sort key"); g_rows = n; g_row_k_empty = true; g_other_row_empty = true; }   /* new rows are empty vectors */
static bool xv_row_empty(size_t k) { __CPROVER_assert(k < g_rows, "cache row index inside the cache"); return k == g_k ? g_row_k_empty : g_other_row_empty; }
static void xv_row_resize_fill(size_t k, size_t n, double v)
{ __CPROVER_assert(k < g_rows, "cache row index inside the cache");
  __CPROVER_assert(n == g_nnodes, "a cache row has one slot per node being sorted");
  if (k == g_k) { g_row_k_empty = (n == 0); g_cell = v; } else { g_other_row_empty = (n == 0); g_other = v; } }
static double* xv_cell(size_t k, size_t p)
{ __CPROVER_assert(k < g_rows && !(k == g_k ? g_row_k_empty : g_other_row_empty) && p < g_nnodes, "cache slot inside its row (memory safety of theCache[k][position])");
  return (k == g_k && p == g_p) ? &g_cell : &g_other; }
/* getResult(xpath of the key, node of the entry, ...): evaluates key k for the node at original position p */
static double xv_getResult(size_t k, const Entry* e)
{ __CPROVER_assert(k == g_qk && e->m_position == g_qp, "the key is evaluated for the queried key index and entry");
  ++g_evals; return (k == g_k && e->m_position == g_p) ? g_val_kp : g_val_other; }
@@FN getNumberResult@@
void h_getNumberResult(void)
{
    size_t nk, nn, r, k, p, qk; bool re, oe; double c, o, v, vo; Entry e;
    g_nkeys = nk; g_nnodes = nn; g_rows = r; g_k = k; g_p = p; g_row_k_empty = XV_BOOL(re); g_other_row_empty = XV_BOOL(oe); g_cell = c; g_other = o; g_val_kp = v; g_val_other = vo; g_qk = qk; g_qp = e.m_position; g_evals = 0;
    getNumberResult(0, 0, qk, &e);
}
'''
R = [(r'assert\(theKey\.getPrefixResolver\(\) != 0\);', '', 1),
     (r'const XPath\* const\s+xpath = theKey\.getSelectPattern\(\);', '', 1),
     (r'typedef NodeSorter::NumberResultsCacheType\s+NumberResultsCacheType;', '', 1),
     (r'NumberResultsCacheType&\s+theCache =\s*m_sorter\.m_numberResultsCache;', '', 1),
     (r'm_nodeSortKeys\.size\(\)', 'g_nkeys', (1, 2)), (r'm_nodes\.size\(\)', 'g_nnodes', (0, 2)),
     (r'theCache\.empty\(\)', 'xv_cache_empty()', 1),
     (r'theCache\.resize\((\w+)\);', r'xv_cache_resize(\1);', 1),
     (r'const double\s+theDummyValue = 135792468\.0L;', 'const double theDummyValue = DUMMY;', 1),
     (r'theCache\[(\w+)\]\.empty\(\)', r'xv_row_empty(\1)', 1),
     (r'theCache\[(\w+)\]\.resize\((\w+), 0\);\s*using std::fill;\s*(?://[^\n]*\n\s*)*fill\(\s*theCache\[\1\]\.begin\(\),\s*theCache\[\1\]\.end\(\),\s*theDummyValue\);', r'xv_row_resize_fill(\1, \2, theDummyValue);', 1),
     (r'theCache\[(\w+)\]\[theEntry\.m_position\]', r'(*xv_cell(\1, theEntry->m_position))', None),
     (r'getResult\(\s*xpath,\s*theEntry\.m_node,\s*\*theKey\.getPrefixResolver\(\),\s*m_executionContext\)', 'xv_getResult(theKeyIndex, theEntry)', 2),
     'SCOPE']
UNIT = Unit(
    name='c16_cache',
    props=['C16', 'C03'],
    functions=[Fn(NS, r'^NodeSorter::NodeSortKeyCompare::getNumberResult\(', 'getNumberResult',
                  'double getNumberResult(const Self* self, const NodeSortKey* theKey, XalanSize_t theKeyIndex, const Entry* theEntry)', rules=R, nloops=0,
                  contract='''__CPROVER_requires(__CPROVER_is_fresh(theEntry, sizeof(*theEntry)) && theKeyIndex == g_qk && theEntry->m_position == g_qp && g_evals == 0)
__CPROVER_requires(/* the caller passes a key of the key list and an entry of the node vector */ theKeyIndex < g_nkeys && theEntry->m_position < g_nnodes && g_nnodes >= 1)
__CPROVER_requires(/* cache shape: no rows yet, or one row per key */ g_rows == 0 || g_rows == g_nkeys)
__CPROVER_requires(/* representation invariant at the witness slot: it holds the sentinel or the value of its own (key, position) */ (g_rows != 0 && g_row_k_empty == false) ==> (g_cell == DUMMY || XV_SAME(g_cell, g_val_kp)))
__CPROVER_assigns(g_rows, g_row_k_empty, g_other_row_empty, g_cell, g_other, g_evals)
__CPROVER_ensures(/* the value returned is the value of key keyIndex for THIS entry (witness slot = queried slot) */ (theKeyIndex == g_k && theEntry->m_position == g_p) ==> XV_SAME(__CPROVER_return_value, g_val_kp))
__CPROVER_ensures(/* the invariant is kept at every slot: sentinel, or the slot's own value */ (g_k < g_rows && g_row_k_empty == false) ==> (g_cell == DUMMY || XV_SAME(g_cell, g_val_kp)))
__CPROVER_ensures(/* the key expression is evaluated at most once per call */ g_evals <= 1)''')],
    template=TEMPLATE,
    jobs=[Job('getNumberResult', 'h_getNumberResult', enforce=['getNumberResult'], reach='all', timeout=300, min_obligations=5)],
    mutants=[
        Mutant('cache_indexed_by_key_only', NS, r'(\n        theCache\[theKeyIndex\]\[theEntry\.m_position\] =\s*getResult\(\s*xpath,\s*theEntry\.m_node,\s*\*theKey\.getPrefixResolver\(\),\s*m_executionContext\);\s*\}\s*)return theCache\[theKeyIndex\]\[theEntry\.m_position\];', r'\1return theCache[0][theEntry.m_position];', expect=None),
        Mutant('row_sized_by_keys', NS, r'theCache\[theKeyIndex\]\.resize\(m_nodes\.size\(\), 0\);', 'theCache[theKeyIndex].resize(m_nodeSortKeys.size(), 0);', expect=None),
        Mutant('sentinel_test_inverted', NS, r'if \(DoubleSupport::equal\(theCache\[theKeyIndex\]\[theEntry\.m_position\], theDummyValue\) == true\)', 'if (DoubleSupport::equal(theCache[theKeyIndex][theEntry.m_position], theDummyValue) == false)', expect=None),
    ],
    mechanisms=['stable_sort over (node, original position) with recursive multi-key comparator'],
    assumptions=['getResult is a pure function of (key, node): evaluating it again gives the same value (XPath evaluation without side effects)',
                 'the cache is modelled by its shape (rows, row emptiness) and two cells: one arbitrary witness cell and "any other cell"; m_nodes.size() is the number of entries, positions are original positions < that number',
                 'the string-result cache (getStringResult) has the same structure and is not under contract'],
)
