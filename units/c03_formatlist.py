"""C03 / C17: ElemNumber::formatNumberList walks the tokens of the format string with four iterators (leader, trailer, separator, current).
For EVERY format string - one token, only punctuation, no punctuation, more numbers than tokens - each iterator that is dereferenced points
at a token of the vector, the current iterator never passes the trailer, and the count list is read inside its length.  Tokens alternate
between alphanumeric and punctuation (NumberFormatStringTokenizer, unit c17_tokenizer)."""
from xvlib.unit import Fn, Job, Unit, Mutant

EN = 'src/xalanc/XSLT/ElemNumber.cpp'
TEMPLATE = r'''
#include "xv_shim.h"
typedef struct Ctx Ctx; typedef struct Self Self; typedef struct XalanDOMString XalanDOMString; typedef unsigned long CountType; typedef size_t NodeRefListBase_size_type; typedef size_t XalanDOMString_size_type;
enum { XalanUnicode_charDigit_1 = 0x31, XalanUnicode_charFullStop = 0x2E };
typedef size_t StringVectorTypeIterator; typedef size_t StringVectorType_size_type;       /* an iterator into tokenVector is an index; end() is the token count */
/* ghost: the token vector: g_n tokens, alternating; whether token 0 is alphanumeric */
size_t g_n; bool g_first_alnum; size_t g_listlen; bool g_tok_consumed; XalanDOMChar g_last_type; size_t g_last_width; size_t g_numbers_out, g_seps_out; bool g_leader_out, g_trailer_out;
void xv_tokenize(const Self* s, Ctx* c) __CPROVER_requires(1) __CPROVER_assigns() __CPROVER_ensures(1) ;     /* evaluates the format AVT ("1" when empty) and tokenizes it: at least one token */
bool xv_tok_is_alnum(size_t k) __CPROVER_requires(/* a token of the vector */ k < g_n) __CPROVER_assigns() __CPROVER_ensures(__CPROVER_return_value == ((k % 2 == 0) == g_first_alnum)) ;
size_t xv_tok_length(size_t k) __CPROVER_requires(k < g_n) __CPROVER_assigns() __CPROVER_ensures(__CPROVER_return_value >= 1 && __CPROVER_return_value < ((size_t)1 << 40)) ;
/* (*it)[numberWidth - 1]: the last unit of a number token decides the numbering type; remembered as the most recent format token */
XalanDOMChar xv_tok_char(size_t k, size_t pos) __CPROVER_requires(k < g_n && pos < ((size_t)1 << 40)) __CPROVER_assigns(g_tok_consumed, g_last_type, g_last_width)
__CPROVER_ensures(g_tok_consumed == true && g_last_type == __CPROVER_return_value && g_last_width == pos + 1) ;
void xv_append_token(XalanDOMString* r, size_t k, int which)
__CPROVER_requires(/* leader / separator / trailer: a punctuation token of the vector */ k < g_n && ((k % 2 == 0) != g_first_alnum)) __CPROVER_assigns(g_leader_out, g_trailer_out, g_seps_out)
__CPROVER_ensures(g_leader_out == (which == 0 ? true : __CPROVER_old(g_leader_out)) && g_trailer_out == (which == 2 ? true : __CPROVER_old(g_trailer_out)) && g_seps_out == __CPROVER_old(g_seps_out) + (which == 1 ? 1 : 0)) ;
void xv_append_dot(XalanDOMString* r) __CPROVER_requires(1) __CPROVER_assigns(g_seps_out) __CPROVER_ensures(g_seps_out == __CPROVER_old(g_seps_out) + 1) ;
CountType xv_list_at(const CountType* l, size_t i) __CPROVER_requires(/* theList[i] inside the list */ i < g_listlen) __CPROVER_assigns() __CPROVER_ensures(1) ;
void xv_format_number(const Self* s, Ctx* c, XalanDOMChar type, size_t width, CountType v) __CPROVER_requires(width >= 1)
__CPROVER_requires(/* XSLT 7.7.1: a number is formatted with its own format token, and when the tokens run out with the LAST one (the default token "1" only if the format has none) */
    g_tok_consumed ? (type == g_last_type && width == g_last_width) : (type == XalanUnicode_charDigit_1 && width == 1))
__CPROVER_assigns() __CPROVER_ensures(1) ;
void xv_append_number(XalanDOMString* r) __CPROVER_requires(g_numbers_out < ((size_t)1 << 40)) __CPROVER_assigns(g_numbers_out) __CPROVER_ensures(g_numbers_out == __CPROVER_old(g_numbers_out) + 1) ;
@@FN formatNumberList@@
void h_formatNumberList(void) { size_t n, l; bool a; __CPROVER_assume(n >= 1 && n < ((size_t)1 << 40) && l < ((size_t)1 << 40)); g_n = n; g_first_alnum = XV_BOOL(a); g_listlen = l; g_numbers_out = 0; g_seps_out = 0; g_leader_out = false; g_trailer_out = false; g_tok_consumed = false; formatNumberList(0, 0, 0, l, 0); }
'''
R = ['SCOPE',
     (r'typedef XalanVector<XalanDOMString>\s+StringVectorType;\s*typedef StringVectorType_iterator\s+StringVectorTypeIterator;', '', 1),
     (r'StringVectorType\s+tokenVector\(executionContext\.\s*getMemoryManager\(\)\)\s*;', '', 1),
     (r'\{\s*const GetCachedString\s+theGuard1\(executionContext\);.*?assert\(theTokenCount == tokenVector\.size\(\)\);\s*\}', 'xv_tokenize(self, executionContext);', 1),
     (r'tokenVector\.end\(\)', 'g_n', (1, 2)),
     (r'tokenVector\.begin\(\)', '0', 1),
     (r'tokenVector\.size\(\)', 'g_n', 1),
     (r'isXMLLetterOrDigit\(\(\*(\w+)\)\[0\]\)', r'xv_tok_is_alnum(\1)', (2, 4)),
     (r'isXMLLetterOrDigit\(tokenVector\.back\(\)\[0\]\)', 'xv_tok_is_alnum(g_n - 1)', (0, 1)),
     (r'theResult \+= \*leaderStrIt;', 'xv_append_token(theResult, leaderStrIt, 0);', 1),
     (r'theResult \+= \*sepStringIt;', 'xv_append_token(theResult, sepStringIt, 1);', 1),
     (r'theResult \+= \*trailerStrIt;', 'xv_append_token(theResult, trailerStrIt, 2);', 1),
     (r'const GetCachedString\s+theGuard2\(executionContext\);\s*XalanDOMString&\s+theIntermediateResult = theGuard2\.get\(\);', '', 1),
     (r'(\w+)->length\(\)', r'xv_tok_length(\1)', 1),
     (r'\(\*(\w+)\)\[(numberWidth - 1)\]', r'xv_tok_char(\1, \2)', 1),
     (r'getFormattedNumber\(\s*executionContext,\s*(\w+),\s*(\w+),\s*theList\[(\w+)\],\s*theIntermediateResult\);', r'xv_format_number(self, executionContext, \1, \2, xv_list_at(theList, \3));', 1),
     (r'theResult \+= theIntermediateResult;', 'xv_append_number(theResult);', 1),
     (r'theResult \+= XalanUnicode_charFullStop;', 'xv_append_dot(theResult);', 1),
     (r'theIntermediateResult\.clear\(\);', '', 1),
     (r'const StringVectorTypeIterator', 'const size_t', (0, 2))]
def gen(fn_texts, blk_texts=None):
    # the loop contract names two locals of the function; when the current source declares them INSIDE the loop they are not in scope at the
    # loop head: drop them from the loop frame and drop the invariant about them (the stub precondition of xv_format_number still applies)
    import re as _re
    body = fn_texts['formatNumberList']
    loop = body.index('__CPROVER_assigns(i, it,')
    if not _re.search(r'XalanDOMChar\s+numberType\b', body[:loop]):
        body = _re.sub(r'/\*NT\*/.*?/\*TN\*/', '', body)
        body = '\n'.join(l for l in body.split('\n') if '/*NT*/' not in l)
        fn_texts['formatNumberList'] = body
    return {}


UNIT = Unit(
    name='c03_formatlist',
    gen=gen,
    props=['C03', 'C17'],
    functions=[
        Fn(EN, r'^ElemNumber::formatNumberList\(', 'formatNumberList',
           'void formatNumberList(const Self* self, Ctx* executionContext, const CountType* theList, NodeRefListBase_size_type theListLength, XalanDOMString* theResult)', rules=R, nloops=1,
           loops={0: '''__CPROVER_assigns(i, it, sepStringIt, /*NT*/ numberWidth, numberType, /*TN*/ g_numbers_out, g_seps_out, g_leader_out, g_trailer_out, g_tok_consumed, g_last_type, g_last_width)
__CPROVER_loop_invariant(i <= theListLength && /* the current iterator never passes the trailer */ it <= trailerStrIt && trailerStrIt <= g_n)
__CPROVER_loop_invariant(/*NT*/ numberWidth >= 1 && (g_tok_consumed ? (numberType == g_last_type && numberWidth == g_last_width) : (numberType == XalanUnicode_charDigit_1 && numberWidth == 1)))
__CPROVER_loop_invariant(g_tok_consumed == true || g_tok_consumed == false)
__CPROVER_loop_invariant(/* the separator iterator is end() or a punctuation token */ sepStringIt == g_n || (sepStringIt < g_n && ((sepStringIt % 2 == 0) != g_first_alnum)))
__CPROVER_loop_invariant(/* what is left between current and trailer starts with a number token */ it < trailerStrIt ==> ((it % 2 == 0) == g_first_alnum))
__CPROVER_loop_invariant(g_leader_out == __CPROVER_loop_entry(g_leader_out) && g_trailer_out == false)
__CPROVER_loop_invariant(g_numbers_out == i && g_seps_out == (i == 0 ? 0 : i - 1 + (i == theListLength ? 0 : 1)) )
__CPROVER_decreases(theListLength - i)'''},
           contract='''__CPROVER_requires(g_n >= 1 && g_n < ((size_t)1 << 40) && theListLength == g_listlen && g_listlen < ((size_t)1 << 40) && g_numbers_out == 0 && g_seps_out == 0 && g_leader_out == false && g_trailer_out == false && g_tok_consumed == false)
__CPROVER_assigns(g_numbers_out, g_seps_out, g_leader_out, g_trailer_out, g_tok_consumed, g_last_type, g_last_width)
__CPROVER_ensures(/* one formatted number per count, a separator between consecutive numbers */ g_numbers_out == g_listlen && g_seps_out == (g_listlen == 0 ? 0 : g_listlen - 1))
__CPROVER_ensures(/* leading punctuation is the leader; trailing punctuation is the trailer, unless the single punctuation token already is the leader */
    g_leader_out == (g_first_alnum == false) && g_trailer_out == (g_n > 1 && (((g_n - 1) % 2 == 0) != g_first_alnum)))'''),
    ],
    template=TEMPLATE,
    jobs=[Job('formatNumberList', 'h_formatNumberList', enforce=['formatNumberList'], replace=['xv_tokenize', 'xv_tok_is_alnum', 'xv_tok_length', 'xv_tok_char', 'xv_append_token', 'xv_append_dot', 'xv_list_at', 'xv_format_number', 'xv_append_number'],
              loop_contracts=True, reach='all', timeout=600, min_obligations=8)],
    mutants=[
        Mutant('format_token_forgotten_between_numbers', EN, r'    XalanDOMChar    numberType = XalanUnicode::charDigit_1;\n\n    XalanDOMString::size_type   numberWidth = 1;\n(.*?)(    for \(NodeRefListBase::size_type i = 0; i < theListLength; i\+\+\)\n    \{\n)', r'\1\2        XalanDOMChar                numberType = XalanUnicode::charDigit_1;\n        XalanDOMString::size_type   numberWidth = 1;\n', expect='LAST one'),
        Mutant('single_punctuation_token_is_trailer_too', EN, r'if \(theVectorSize > 1\)\s*\{\s*(if \(!isXMLLetterOrDigit\(tokenVector\.back\(\)\[0\]\)\)\s*\{[^}]*\})\s*\}', r'\1', expect=None),
        Mutant('separator_taken_without_check', EN, r'        if \(it != trailerStrIt\)\s*\{\s*assert\(!isXMLLetterOrDigit\(\(\*it\)\[0\]\)\);\s*sepStringIt = it;\s*\+\+it;\s*\}', '        {\n            sepStringIt = it;\n\n            ++it;\n        }', expect=None),
        Mutant('one_separator_too_many', EN, r'if \(i < theListLength - 1\)', 'if (i < theListLength)', expect=None),
    ],
    mechanisms=['xsl:number format tokens'],
    assumptions=['the format string has at least one token (an empty format is replaced by "1") and tokens alternate between alphanumeric and punctuation runs (unit c17_tokenizer classifies units; the alternation itself is assumed here)',
                 'tokenVector iterators are indices; strings and the count list are observed through stubs; getFormattedNumber is not under contract (its kernels: c17_format, c17_grouping)'],
)
