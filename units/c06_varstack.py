"""C06: VariablesStack::reset() brings the variables stack back to its constructed state, including the
search-start index m_currentStackFrameIndex, which reset() never assigns: it only reaches 0 through the
pop() loop.  push()/pop() are proved to keep the representation invariant index <= size that this needs."""
from xvlib.unit import Fn, Job, Unit, Mutant

VS = 'src/xalanc/XSLT/VariablesStack.cpp'

TEMPLATE = r'''
#include "xv_shim.h"
/* the vector m_stack by its size only; the two other stacks by a "cleared" flag */
typedef struct Self { size_t m_stack_size; size_type m_globalStackFrameIndex; bool m_globalStackFrameMarked; size_type m_currentStackFrameIndex;
                      bool guard_cleared; bool frames_cleared; } Self;
typedef struct { int type; } StackEntry; enum { eContextMarker, eVariable, eParam, eActiveParam, eElementFrameMarker, eNextValue };
#define XV_MAXSZ ((size_t)1 << 60)
#define XV_INV(s) ((s)->m_currentStackFrameIndex <= (s)->m_stack_size && (s)->m_stack_size <= XV_MAXSZ)

void xv_pop_back(Self* self) __CPROVER_requires(__CPROVER_w_ok(self, sizeof(*self)) && self->m_stack_size > 0) __CPROVER_assigns(self->m_stack_size)
__CPROVER_ensures(self->m_stack_size == __CPROVER_old(self->m_stack_size) - 1) ;
void xv_push_back(Self* self) __CPROVER_requires(__CPROVER_w_ok(self, sizeof(*self)) && self->m_stack_size < XV_MAXSZ) __CPROVER_assigns(self->m_stack_size)
__CPROVER_ensures(self->m_stack_size == __CPROVER_old(self->m_stack_size) + 1) ;
void xv_stack_clear(Self* self) __CPROVER_requires(__CPROVER_w_ok(self, sizeof(*self))) __CPROVER_assigns(self->m_stack_size) __CPROVER_ensures(self->m_stack_size == 0) ;
void xv_guard_clear(Self* self) __CPROVER_requires(__CPROVER_w_ok(self, sizeof(*self))) __CPROVER_assigns(self->guard_cleared) __CPROVER_ensures(self->guard_cleared == true) ;
void xv_frames_clear(Self* self) __CPROVER_requires(__CPROVER_w_ok(self, sizeof(*self))) __CPROVER_assigns(self->frames_cleared) __CPROVER_ensures(self->frames_cleared == true) ;

@@FN pop@@
@@FN push@@
@@FN reset@@

void h_pop(void) { Self* s; pop(s); }
void h_push(void) { Self* s; StackEntry* e; push(s, e); }
void h_reset(void) { Self* s; reset(s); }
'''

R = [(r'\bm_stack\.empty\(\) == false', '(self->m_stack_size != 0)', (0, 2)),
     (r'\bm_stack\.size\(\)', 'self->m_stack_size', (0, 2)),
     (r'\bm_stack\.pop_back\(\);', 'xv_pop_back(self);', (0, 1)),
     (r'\bm_stack\.push_back\(theEntry\);', 'xv_push_back(self);', (0, 1)),
     (r'\bm_stack\.clear\(\);', 'xv_stack_clear(self);', (0, 1)),
     (r'\bm_guardStack\.clear\(\);', 'xv_guard_clear(self);', (0, 1)),
     (r'\bm_elementFrameStack\.clear\(\);', 'xv_frames_clear(self);', (0, 1)),
     (r'(?<![\w.>])pop\(\);', 'pop(self);', (0, 1)),
     (r'theEntry\.getType\(\)', 'theEntry->type', (0, 3)),
     (r'StackEntry::(e\w+)', r'\1', (0, 4)),
     (r'\bm_(globalStackFrameIndex|globalStackFrameMarked|currentStackFrameIndex)\b', r'self->m_\1', None)]

POP_CONTRACT = '''__CPROVER_requires(__CPROVER_is_fresh(self, sizeof(*self)) && XV_INV(self) && self->m_stack_size > 0)
__CPROVER_assigns(self->m_stack_size, self->m_currentStackFrameIndex)
__CPROVER_ensures(/* pop removes one entry */ self->m_stack_size == __CPROVER_old(self->m_stack_size) - 1)
__CPROVER_ensures(/* pop keeps the search-start index within the stack: index <= size */ XV_INV(self))
__CPROVER_ensures(/* pop moves the index only when it pointed at the popped top */ self->m_currentStackFrameIndex == (__CPROVER_old(self->m_currentStackFrameIndex) == __CPROVER_old(self->m_stack_size) ? __CPROVER_old(self->m_currentStackFrameIndex) - 1 : __CPROVER_old(self->m_currentStackFrameIndex)))'''
PUSH_CONTRACT = '''__CPROVER_requires(__CPROVER_is_fresh(self, sizeof(*self)) && XV_INV(self) && self->m_stack_size < XV_MAXSZ && __CPROVER_is_fresh(theEntry, sizeof(*theEntry)))
__CPROVER_requires(theEntry->type >= 0 && theEntry->type < eNextValue)
__CPROVER_assigns(self->m_stack_size, self->m_currentStackFrameIndex, self->m_globalStackFrameIndex)
__CPROVER_ensures(self->m_stack_size == __CPROVER_old(self->m_stack_size) + 1)
__CPROVER_ensures(/* push keeps the search-start index within the stack: index <= size */ XV_INV(self))'''
RESET_CONTRACT = '''__CPROVER_requires(__CPROVER_is_fresh(self, sizeof(*self)) && XV_INV(self))
__CPROVER_assigns(self->m_stack_size, self->m_currentStackFrameIndex, self->m_globalStackFrameIndex, self->m_globalStackFrameMarked, self->guard_cleared, self->frames_cleared)
__CPROVER_ensures(/* reset empties the variables stack */ self->m_stack_size == 0)
__CPROVER_ensures(/* reset brings the search-start index back to its constructed value 0, whatever frame an aborted transformation left it on */ self->m_currentStackFrameIndex == 0)
__CPROVER_ensures(/* reset restores the global-frame marker to its constructed state */ self->m_globalStackFrameMarked == false && self->m_globalStackFrameIndex == ~0u)
__CPROVER_ensures(/* reset clears the recursion-guard and element-frame stacks */ self->guard_cleared == true && self->frames_cleared == true)'''
RESET_LOOP = '''__CPROVER_assigns(self->m_stack_size, self->m_currentStackFrameIndex)
__CPROVER_loop_invariant(/* the search-start index stays within the stack while reset pops: index <= size */ XV_INV(self))
__CPROVER_decreases(self->m_stack_size)'''

UNIT = Unit(
    name='c06_varstack',
    props=['C06'],
    functions=[
        Fn(VS, r'^VariablesStack::pop\(\)', 'pop', 'void pop(Self* self)', head_expect=r'^void VariablesStack::pop\(\)$', rules=R, contract=POP_CONTRACT, nloops=0),
        Fn(VS, r'^VariablesStack::push\(const StackEntry&\s+theEntry\)', 'push', 'void push(Self* self, const StackEntry* theEntry)', rules=R, contract=PUSH_CONTRACT, nloops=0),
        Fn(VS, r'^VariablesStack::reset\(\)', 'reset', 'void reset(Self* self)', head_expect=r'^void VariablesStack::reset\(\)$', rules=R, contract=RESET_CONTRACT,
           loops={0: RESET_LOOP}, nloops=1),
    ],
    template=TEMPLATE,
    jobs=[Job('pop', 'h_pop', enforce=['pop'], replace=['xv_pop_back'], reach='all', timeout=120, min_obligations=3),
          Job('push', 'h_push', enforce=['push'], replace=['xv_push_back'], reach='all', timeout=120, min_obligations=2),
          Job('reset', 'h_reset', enforce=['reset'], replace=['pop', 'xv_pop_back', 'xv_push_back', 'xv_stack_clear', 'xv_guard_clear', 'xv_frames_clear'], loop_contracts=True, reach='all', timeout=300, min_obligations=5)],
    mutants=[
        Mutant('reset_loop_bypasses_pop', VS, r'(while\(m_stack\.empty\(\) == false\)\s*\{\s*)pop\(\);', r'\1m_stack.pop_back();', expect='index'),
        Mutant('pop_never_moves_index', VS, r'(VariablesStack::pop\(\)\s*\{.*?)--m_currentStackFrameIndex;', r'\1;', expect='index'),
        Mutant('marker_kept', VS, r'\n    m_globalStackFrameMarked = false;\n', '\n', expect='global-frame marker'),
        Mutant('guard_stack_kept', VS, r'\n    m_guardStack\.clear\(\);\n', '\n', expect='recursion-guard'),
    ],
    mechanisms=['execution-context reset'],
    assumptions=['the representation invariant m_currentStackFrameIndex <= m_stack.size() is proved for push() and pop() and established by setCurrentStackFrameIndex(~0u); '
                 'setCurrentStackFrameIndex(v) with an explicit v (ElemForEach / popCurrentStackFrameIndex restoring a saved index) is assumed to pass an index saved while the stack was at least that deep',
                 'm_stack is modelled by its size (<= 2^60); entries are not modelled'],
)
