"""C17: appendBtoFList (CountersTable.cpp) - the helper that extends the cache of counted nodes of an xsl:number instruction with the nodes
found by the backward walk.  The walk finds nodes last-to-first; the cache holds them first-to-last (Counter::getPreviouslyCounted and the
cache arithmetic of countNode, unit c17_counters, rely on it: there the helper is the stub xv_append_reversed).  Here the real helper is
proved to append the WHOLE found list, REVERSED, at the END of the cache: the range handed to std::copy is [rbegin, rend) of the found list
and the destination is a back inserter on the cache."""
from xvlib.unit import Fn, Job, Unit, Mutant

CT = 'src/xalanc/XSLT/CountersTable.cpp'
TEMPLATE = r'''
#include "xv_shim.h"
typedef struct Vec NodeVectorType; typedef NodeVectorType CountersTable_NodeVectorType;
enum { IT_begin = 1, IT_end = 2, IT_rbegin = 3, IT_rend = 4 };
typedef struct { const NodeVectorType* of; int kind; } XvIt;
typedef struct { NodeVectorType* of; } XvBackInserter;
NodeVectorType *g_flist; const NodeVectorType *g_blist; size_t g_flen, g_blen; bool g_appended_reversed; int g_copies; size_t g_reserved;
static XvIt xv_it(const NodeVectorType* v, int kind) { XvIt i; i.of = v; i.kind = kind; return i; }
static XvBackInserter back_inserter(NodeVectorType* v) { XvBackInserter b; b.of = v; return b; }
size_t xv_size(const NodeVectorType* v) __CPROVER_requires(v == g_flist || v == g_blist) __CPROVER_assigns() __CPROVER_ensures(__CPROVER_return_value == (v == g_flist ? g_flen : g_blen)) ;
void xv_reserve(NodeVectorType* v, size_t n) __CPROVER_requires(v == g_flist) __CPROVER_assigns(g_reserved) __CPROVER_ensures(g_reserved == n) ;
/* std::copy(first, last, out): appends *first ... to the container behind the back inserter, in iteration order */
void xv_copy(XvIt first, XvIt last, XvBackInserter out)
__CPROVER_requires(/* the whole found list is copied, from its last node to its first (reverse iterators) */ first.of == g_blist && last.of == g_blist && first.kind == IT_rbegin && last.kind == IT_rend)
__CPROVER_requires(/* it is appended at the end of the cache */ out.of == g_flist)
__CPROVER_assigns(g_flen, g_appended_reversed, g_copies)
__CPROVER_ensures(g_flen == __CPROVER_old(g_flen) + g_blen && g_appended_reversed == true && g_copies == __CPROVER_old(g_copies) + 1) ;
@@FN appendBtoFList@@
void h_append(void)
{ NodeVectorType* f; const NodeVectorType* b; size_t n, m; g_flist = f; g_blist = b; g_flen = n; g_blen = m; g_appended_reversed = false; g_copies = 0; g_reserved = 0; appendBtoFList(f, b); }
'''
UNIT = Unit(
    name='c17_appendb',
    props=['C17'],
    functions=[Fn(CT, r'^appendBtoFList\(', 'appendBtoFList', 'void appendBtoFList(NodeVectorType* flist, const NodeVectorType* blist)',
                  head_expect=r'^inline void appendBtoFList\( CountersTable::NodeVectorType& flist, const CountersTable::NodeVectorType& blist\)$',
                  rules=[(r'using std::back_inserter;', '', 1), (r'using std::copy;', '', 1),
                         (r'\b(flist|blist)\.size\(\)', r'xv_size(\1)', (0, 4)),
                         (r'\bflist\.reserve\(', 'xv_reserve(flist, ', (0, 1)),
                         (r'\b(flist|blist)\.(rbegin|rend|begin|end)\(\)', r'xv_it(\1, IT_\2)', 2),
                         (r'(?<![\w.])copy\(', 'xv_copy(', 1)],
                  nloops=0,
                  contract='''__CPROVER_requires(flist == g_flist && blist == g_blist && (const NodeVectorType*)g_flist != g_blist && g_appended_reversed == false && g_copies == 0 && g_flen <= ((size_t)1 << 40) && g_blen <= ((size_t)1 << 40))
__CPROVER_assigns(g_flen, g_appended_reversed, g_copies, g_reserved)
__CPROVER_ensures(/* the cache grows by exactly the found nodes, appended once, in reverse order of discovery (= count order) */ g_flen == __CPROVER_old(g_flen) + g_blen && g_appended_reversed == true && g_copies == 1)''')],
    template=TEMPLATE,
    jobs=[Job('append', 'h_append', enforce=['appendBtoFList'], replace=['xv_size', 'xv_reserve', 'xv_copy'], reach='all', timeout=120, min_obligations=3)],
    mutants=[
        Mutant('forward_copy', CT, r'blist\.rbegin\(\),\s*blist\.rend\(\),', 'blist.begin(),\n        blist.end(),', expect='from its last node to its first'),
        Mutant('copies_cache_onto_itself', CT, r'blist\.rbegin\(\),\s*blist\.rend\(\),', 'flist.rbegin(),\n        flist.rend(),', expect=None),
    ],
    mechanisms=['number list computation'],
    assumptions=['std::copy / std::back_inserter / reverse iterators of XalanVector behave as the C++ library defines them (stub xv_copy)'],
)
