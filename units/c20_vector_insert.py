"""C20: XalanVector::insert(iterator, value) returns an iterator to the inserted element, valid in the vector's CURRENT storage
(as std::vector::insert does), whether or not the insertion had to reallocate."""
from xvlib.unit import Fn, Job, Unit, Mutant

XV = 'src/xalanc/Include/XalanVector.hpp'
TEMPLATE = r'''
#include "xv_shim.h"
/* storage by identity: a buffer id and an offset; the vector by its buffer, size and capacity */
typedef struct { int buf; size_t off; } iterator;
typedef struct Self { int m_buf; size_t m_size; size_t m_allocation; } Self; typedef int value_type;
#define MAXSZ ((size_t)1 << 60)
static iterator xv_begin(const Self* self) { iterator r; r.buf = self->m_buf; r.off = 0; return r; }
static iterator xv_iter_add(iterator a, size_t n) { a.off += n; return a; }
size_t xv_distance(iterator a, iterator b)
__CPROVER_requires(/* iterators into the same storage */ a.buf == b.buf && a.off <= b.off) __CPROVER_assigns() __CPROVER_ensures(__CPROVER_return_value == b.off - a.off) ;
/* insert(thePosition, theCount, theData) (XalanVector.hpp 378-470): in place when the capacity suffices (theTotalSize <= capacity()), otherwise into new storage */
void xv_insert_n(Self* self, iterator pos, size_t n, const value_type* data)
__CPROVER_requires(__CPROVER_w_ok(self, sizeof(*self)) && pos.buf == self->m_buf && pos.off <= self->m_size && n == 1 && self->m_size < MAXSZ)
__CPROVER_assigns(self->m_buf, self->m_size, self->m_allocation)
__CPROVER_ensures(self->m_size == __CPROVER_old(self->m_size) + 1 && self->m_allocation >= self->m_size)
__CPROVER_ensures((__CPROVER_old(self->m_size) + 1 <= __CPROVER_old(self->m_allocation)) ? self->m_buf == __CPROVER_old(self->m_buf) : self->m_buf != __CPROVER_old(self->m_buf)) ;
@@FN insert1@@
void h_insert1(void) { Self* s; iterator p; value_type* d; insert1(s, p, d); }
'''
UNIT = Unit(
    name='c20_vector_insert',
    props=['C20'],
    functions=[Fn(XV, r'^\s+insert\(\s*iterator\s+thePosition,\s*const value_type&\s+theData\)', 'insert1', 'iterator insert1(Self* self, iterator thePosition, const value_type* theData)',
                  rules=[(r'\bm_(allocation|size)\b', r'self->m_\1', None),
                         (r'(?<![\w.>])insert\(thePosition, 1, theData\);', 'xv_insert_n(self, thePosition, 1, theData);', 2),
                         (r'local_distance\(begin\(\), thePosition\)', 'xv_distance(xv_begin(self), thePosition)', (0, 1)),
                         (r'return begin\(\) \+ ([^;]+);', r'return xv_iter_add(xv_begin(self), \1);', (0, 1))],
                  nloops=0,
                  contract='''__CPROVER_requires(__CPROVER_is_fresh(self, sizeof(*self)) && self->m_size <= self->m_allocation && self->m_allocation < MAXSZ)
__CPROVER_requires(/* thePosition is an iterator of this vector, begin() <= thePosition <= end() */ thePosition.buf == self->m_buf && thePosition.off <= self->m_size)
__CPROVER_assigns(self->m_buf, self->m_size, self->m_allocation)
__CPROVER_ensures(self->m_size == __CPROVER_old(self->m_size) + 1)
__CPROVER_ensures(/* like std::vector::insert: the result designates the inserted element in the vector's current storage */
    __CPROVER_return_value.buf == self->m_buf && __CPROVER_return_value.off == __CPROVER_old(thePosition.off))''')],
    template=TEMPLATE,
    jobs=[Job('insert1', 'h_insert1', enforce=['insert1'], replace=['xv_insert_n', 'xv_distance'], reach='all', timeout=120, min_obligations=3)],
    mutants=[Mutant('stale_iterator_when_full', XV, r'if \(m_allocation > m_size\)\s*\{\s*insert\(thePosition, 1, theData\);', 'if (m_allocation >= m_size)\n        {\n            insert(thePosition, 1, theData);', expect='current storage'),
             Mutant('distance_from_end', XV, r'return begin\(\) \+ theDistance;', 'return begin() + theDistance + 1;', expect='current storage')],
    mechanisms=['XalanVector growth and iterator validity', 'vector growth, insert and erase with element shifting'],
    assumptions=['insert(pos, count, value) works in place iff size + count <= capacity and otherwise moves the elements to new storage (read from XalanVector.hpp 378-470; that function is not under contract)',
                 'storage is modelled by identity (buffer id, offset); element values are not modelled'],
)
