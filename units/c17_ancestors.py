"""C17: xsl:number level="multiple" (XSLT 1.0 7.7): ElemNumber::getMatchingAncestors walks up from the node and collects the
ancestors-or-self that match the count pattern, searching only below the nearest ancestor-or-self that matches the from pattern:
a node that matches from ends the walk BEFORE it is tested against count; no level is skipped and a matching node is never left out."""
from xvlib.unit import Fn, Job, Unit, Mutant

EN = 'src/xalanc/XSLT/ElemNumber.cpp'
TEMPLATE = r'''
#include "xv_shim.h"
typedef struct XalanNode XalanNode; typedef struct XPath XPath; typedef struct Ctx StylesheetExecutionContext; typedef struct List MutableNodeRefList;
typedef struct Self { const XPath* m_countMatchPattern; const XPath* m_fromMatchPattern; } Self;
enum { XPath_eMatchScoreNone = 0 };
XPath g_count_pat, g_from_pat, g_default_count_pat;
/* ghost: the node of the current level of the walk; what has been done for it: from tested (and its answer), count tested (and its answer), collected */
const XalanNode* g_cur; bool g_stop, g_has_from;
bool g_from_done, g_from_res, g_count_done, g_count_res, g_added;
const XPath* xv_default_count_pattern(const Self* s, const XalanNode* n) __CPROVER_requires(n != 0) __CPROVER_assigns() __CPROVER_ensures(__CPROVER_return_value == &g_default_count_pat) ;
int xv_match(const XPath* p, const XalanNode* n)
__CPROVER_requires(p != 0 && n != 0 && /* patterns are evaluated for the node of the current level */ n == g_cur)
__CPROVER_requires(/* a pattern is evaluated once per level */ p == &g_from_pat ? g_from_done == false : g_count_done == false)
__CPROVER_requires(/* level="multiple": the from pattern is tested before the count pattern, so that a node matching from is not counted */
    (p != &g_from_pat && g_stop == false && g_has_from == true) ==> g_from_done == true)
__CPROVER_assigns(g_from_done, g_from_res, g_count_done, g_count_res)
__CPROVER_ensures(p == &g_from_pat ? (g_from_done == true && g_from_res == (__CPROVER_return_value != XPath_eMatchScoreNone) && g_count_done == __CPROVER_old(g_count_done) && g_count_res == __CPROVER_old(g_count_res))
                                    : (g_count_done == true && g_count_res == (__CPROVER_return_value != XPath_eMatchScoreNone) && g_from_done == __CPROVER_old(g_from_done) && g_from_res == __CPROVER_old(g_from_res))) ;
void xv_add(MutableNodeRefList* l, const XalanNode* n)
__CPROVER_requires(n == g_cur && /* only a node that matches the count pattern is collected, once */ g_count_done == true && g_count_res == true && g_added == false)
__CPROVER_requires(/* level="multiple": never a node that matches the from pattern */ (g_stop == false && g_has_from == true) ==> (g_from_done == true && g_from_res == false))
__CPROVER_assigns(g_added) __CPROVER_ensures(g_added == true) ;
XalanNode* xv_parent(const XalanNode* n)
__CPROVER_requires(n == g_cur && n != 0)
__CPROVER_requires(/* before moving up, the node of this level was tested against count and collected if it matches */ g_count_done == true && (g_count_res == true ==> g_added == true))
__CPROVER_assigns(g_cur, g_from_done, g_count_done, g_added) __CPROVER_ensures(g_cur == __CPROVER_return_value && g_from_done == false && g_count_done == false && g_added == false) ;
@@FN getMatchingAncestors@@
void h_ancestors(void)
{ bool st, a, b, h; g_stop = XV_BOOL(st); g_from_res = XV_BOOL(a); g_count_res = XV_BOOL(b); g_has_from = XV_BOOL(h); g_from_done = false; g_count_done = false; g_added = false;
  Self* s; XalanNode* n; g_cur = n; getMatchingAncestors(s, 0, n, g_stop, 0); }
'''
R = [(r'StylesheetExecutionContext::XPathGuard\s+xpathGuard\(executionContext\);', '', 1),
     (r'xpathGuard\.reset\(getCountMatchPattern\(executionContext, node\)\);\s*countMatchPattern = xpathGuard\.get\(\);', 'countMatchPattern = xv_default_count_pattern(self, node);', 1),
     (r'm_fromMatchPattern->getMatchScore\(\s*node,\s*\*this,\s*executionContext\)', 'xv_match(m_fromMatchPattern, node)', 1),
     (r'countMatchPattern->getMatchScore\(node, \*this, executionContext\)', 'xv_match(countMatchPattern, node)', 1),
     (r'ancestors\.addNode\(node\);', 'xv_add(ancestors, node);', (0, 1)),
     (r'DOMServices::getParentOfNode\(\*node\)', 'xv_parent(node)', 1),
     (r'\bm_(countMatchPattern|fromMatchPattern)\b', r'self->m_\1', None),
     'SCOPE']
UNIT = Unit(
    name='c17_ancestors',
    props=['C17'],
    functions=[Fn(EN, r'^ElemNumber::getMatchingAncestors\(', 'getMatchingAncestors',
                  'void getMatchingAncestors(const Self* self, StylesheetExecutionContext* executionContext, XalanNode* node, bool stopAtFirstFound, MutableNodeRefList* ancestors)', rules=R, nloops=1,
                  loops={0: '''__CPROVER_assigns(node, g_cur, g_from_done, g_from_res, g_count_done, g_count_res, g_added)
__CPROVER_loop_invariant(node == g_cur && countMatchPattern != 0 && countMatchPattern != &g_from_pat)
__CPROVER_loop_invariant(/* a new level: nothing has been evaluated or collected for its node yet */ g_from_done == false && g_count_done == false && g_added == false)'''},
                  contract='''__CPROVER_requires(__CPROVER_is_fresh(self, sizeof(*self)) && node == g_cur && stopAtFirstFound == g_stop && (g_stop == true || g_stop == false))
__CPROVER_requires((self->m_countMatchPattern == 0 || self->m_countMatchPattern == &g_count_pat) && (self->m_fromMatchPattern == 0 || self->m_fromMatchPattern == &g_from_pat))
__CPROVER_requires(node != 0 && g_has_from == (self->m_fromMatchPattern != 0) && g_from_done == false && g_count_done == false && g_added == false)
__CPROVER_assigns(g_cur, g_from_done, g_from_res, g_count_done, g_count_res, g_added)
__CPROVER_ensures(/* the walk ends at the top of the tree, at a from match (multiple) or at the first count match (single) */
    g_cur == 0 || (g_stop == false && g_from_done == true && g_from_res == true) || (g_stop == true && g_added == true))'''),
    ],
    template=TEMPLATE,
    jobs=[Job('ancestors', 'h_ancestors', enforce=['getMatchingAncestors'], replace=['xv_default_count_pattern', 'xv_match', 'xv_add', 'xv_parent'], loop_contracts=True, reach='all', timeout=300, min_obligations=6)],
    mutants=[
        Mutant('count_before_from', EN, r'(ElemNumber::getMatchingAncestors\(.*?while \(0 != node\)\s*\{)(\s*if \(0 != m_fromMatchPattern &&.*?\n            \}\n        \}\n)(\s*assert\(0 != countMatchPattern\);\s*if\(countMatchPattern->getMatchScore.*?\n        \}\n)', r'\1\3\2', expect=None),
        Mutant('match_not_collected', EN, r'(XPath::eMatchScoreNone\)\s*\{\s*)ancestors\.addNode\(node\);', r'\1', expect='collected if it matches'),
    ],
    mechanisms=['target / previous-node navigation per level'],
    assumptions=['for level="single" (stopAtFirstFound) the real code deliberately does not stop at a from match (its own comment calls this a probable bug kept for compatibility); the from clause of this contract is stated for level="multiple" only',
                 'getParentOfNode moves one level up; termination of the walk is not proved'],
)
