"""C08 (HTML specifics): FormatterToHTML::writeAttrURI writes the value of a URI attribute (href, src, ...).  Proved, per UTF-16
unit of the value and for every length: a double quote or an ampersand never goes out raw inside the double-quoted attribute; with
URL escaping on, every character outside 33..126 (except the space) goes out as the %HH escapes of its UTF-8 bytes (HTML 4.0 B.2.1,
RFC 3629), nothing else is rewritten; with URL escaping off, every unit goes out raw, as a predefined entity, or as a numeric
character reference to itself.  All array reads stay inside the NUL-terminated value (C03)."""
from xvlib.unit import Fn, Job, Unit, Mutant
from xvlib.common import UNICODE_BLOCK

FH = 'src/xalanc/XMLSupport/FormatterToHTML.cpp'
FXH = 'src/xalanc/XMLSupport/FormatterToXML.hpp'

TEMPLATE = r'''
#include "xv_shim.h"
@@BLOCK XalanUnicode@@
typedef struct Self { bool m_escapeURLs; XalanDOMChar m_maxCharacter; } Self;
/* ghost: the value being written, which unit(s) the current loop iteration is about, how far their output has got */
const XalanDOMChar* g_in; size_t g_len; XalanDOMChar g_u1, g_u2; bool g_have2; size_t g_k; bool g_done; bool g_esc; XalanDOMChar g_max; size_t g_units_done;
#define IS_HI(u) (((u) & 0xFC00) == 0xD800)
#define IS_LO(u) (((u) & 0xFC00) == 0xDC00)
#define CP   (g_have2 ? (0x10000ul + ((((unsigned long)g_u1) & 0x3FF) << 10) + (((unsigned long)g_u2) & 0x3FF)) : (unsigned long)g_u1)
#define NB   (CP < 0x80 ? 1u : CP < 0x800 ? 2u : CP < 0x10000 ? 3u : 4u)
/* RFC 3629: byte k of the UTF-8 encoding of CP */
#define B(k) ((XalanDOMChar)(NB == 1 ? CP : NB == 2 ? ((k) == 0 ? (0xC0 | (CP >> 6)) : (0x80 | (CP & 0x3F))) \
              : NB == 3 ? ((k) == 0 ? (0xE0 | (CP >> 12)) : (k) == 1 ? (0x80 | ((CP >> 6) & 0x3F)) : (0x80 | (CP & 0x3F))) \
              : ((k) == 0 ? (0xF0 | (CP >> 18)) : (k) == 1 ? (0x80 | ((CP >> 12) & 0x3F)) : (k) == 2 ? (0x80 | ((CP >> 6) & 0x3F)) : (0x80 | (CP & 0x3F)))))
#define OUTSIDE(u) ((u) < 33 || (u) > 126)
/* the first (or only) unit of an iteration: theString[i] */
XalanDOMChar xv_unit_first(const XalanDOMChar* s, size_t i)
__CPROVER_requires(s == g_in && /* reads stay inside the value */ i < g_len)
__CPROVER_requires(/* the previous character was written completely before the next one is looked at */ g_done == true)
__CPROVER_assigns(g_u1, g_have2, g_k, g_done)
__CPROVER_ensures(__CPROVER_return_value == g_in[i] && g_u1 == g_in[i] && g_have2 == false && g_k == 0 && g_done == false) ;
/* the low surrogate: theString[++i] */
XalanDOMChar xv_unit_second(const XalanDOMChar* s, size_t i)
__CPROVER_requires(s == g_in && /* reads stay inside the NUL-terminated value */ i <= g_len && g_have2 == false && IS_HI(g_u1) && g_k == 0)
__CPROVER_assigns(g_u2, g_have2)
__CPROVER_ensures(__CPROVER_return_value == g_in[i] && g_u2 == g_in[i] && g_have2 == true) ;
/* accumContent(ch): the unit itself goes out */
void xv_emit_data(Self* self, XalanDOMChar ch)
__CPROVER_requires(g_done == false && g_k == 0 && ch == g_u1)
__CPROVER_requires(/* a double quote or an ampersand never goes out raw inside the double-quoted attribute value */ ch != 0x22 && ch != 0x26)
__CPROVER_requires(/* with URL escaping on, only 33..126 and the space go out raw; with it off, only what the encoding can represent */
    g_esc == true ? (!OUTSIDE(ch) || ch == 0x20) : (!OUTSIDE(ch) || ch < g_max))
__CPROVER_assigns(g_done) __CPROVER_ensures(g_done == true) ;
/* accumHexNumber(b): "%HH" */
void accumHexNumber(Self* self, XalanDOMChar theChar)
__CPROVER_requires(g_done == false && g_esc == true && OUTSIDE(g_u1) && g_u1 != 0x20)
__CPROVER_requires(/* the %HH escapes are the UTF-8 bytes of the character, in order (a surrogate pair is one character) */
    (IS_HI(g_u1) ? (g_have2 == true && (IS_LO(g_u2) ==> (g_k < 4 && theChar == B(g_k)))) : (IS_LO(g_u1) || (g_k < NB && theChar == B(g_k)))))
__CPROVER_assigns(g_k, g_done)
__CPROVER_ensures(g_k == __CPROVER_old(g_k) + 1 && g_done == (g_k == ((IS_HI(g_u1) || IS_LO(g_u1)) ? (IS_HI(g_u1) ? 4u : 3u) : NB))) ;
/* accumDefaultEntity(ch, true): &quot; &amp; &lt; &gt; &apos; (FormatterToXML::accumDefaultEntity), else an HTML entity */
bool accumDefaultEntity(Self* self, XalanDOMChar ch, bool escLF)
__CPROVER_requires(g_done == false && g_k == 0 && ch == g_u1 && escLF == true)
__CPROVER_requires(/* only the ampersand, and the double quote when URL escaping is off, go out as entities */ ch == 0x26 || (ch == 0x22 && g_esc == false))
__CPROVER_assigns(g_done) __CPROVER_ensures(g_done == true && __CPROVER_return_value == true) ;
/* accumContent(XalanUnicode::charX): a literal piece of an escape */
void xv_emit_literal(Self* self, XalanDOMChar c)
__CPROVER_requires(g_done == false)
__CPROVER_requires(/* literals spell "%22" for a double quote (URL escaping on) or "&#" N ";" for a character the encoding cannot represent (URL escaping off) */
    (g_u1 == 0x22 && g_esc == true) ? ((g_k == 0 && c == 0x25) || (g_k == 1 && c == 0x32) || (g_k == 2 && c == 0x32))
    : (g_esc == false && OUTSIDE(g_u1) && g_u1 >= g_max && ((g_k == 0 && c == 0x26) || (g_k == 1 && c == 0x23) || (g_k == 3 && c == 0x3B))))
__CPROVER_assigns(g_k, g_done)
__CPROVER_ensures(g_k == __CPROVER_old(g_k) + 1 && g_done == ((g_u1 == 0x22) ? g_k == 3 : g_k == 4)) ;
/* accumContent(NumberToDOMString(ch, m_stringBuffer)); m_stringBuffer.clear(); */
void xv_emit_number(Self* self, XalanDOMChar ch)
__CPROVER_requires(g_done == false && g_esc == false && g_k == 2 && /* the character reference names the unit itself */ ch == g_u1)
__CPROVER_assigns(g_k) __CPROVER_ensures(g_k == 3) ;

@@FN isUTF16Surrogate@@
@@FN writeAttrURI@@
void h_writeAttrURI(void)
{
    const XalanDOMChar* in; size_t n; XalanDOMChar a, b, m; bool e; size_t k;
    g_in = in; g_len = n; g_u1 = a; g_u2 = b; g_have2 = false; g_k = k; g_done = true; g_esc = XV_BOOL(e); g_max = m;
    Self* s; writeAttrURI(s, in, n);
}
'''

R = [('FCASTS', ['XalanDOMChar']),
     (r'const XalanDOMChar\s+ch = theString\[i\];', 'const XalanDOMChar ch = xv_unit_first(theString, i);', 1),
     (r'const XalanDOMChar\s+nextChar = theString\[\+\+i\];', 'const XalanDOMChar nextChar = xv_unit_second(theString, ++i);', (0, 1)),
     (r'accumContent\(NumberToDOMString\(ch, m_stringBuffer\)\);\s*m_stringBuffer\.clear\(\);', 'xv_emit_number(self, ch);', (0, 1)),
     (r'accumContent\(ch\);', 'xv_emit_data(self, ch);', (0, 6)),
     (r'accumContent\((XalanUnicode::char\w+)\);', r'xv_emit_literal(self, \1);', (0, 12)),
     (r'accumHexNumber\(', 'accumHexNumber(self, ', (0, 16)),
     (r'accumDefaultEntity\(', 'accumDefaultEntity(self, ', (0, 4)),
     (r'\bm_(escapeURLs|maxCharacter)\b', r'self->m_\1', (0, 6)),
     'SCOPE']

CONTRACT = '''__CPROVER_requires(__CPROVER_is_fresh(self, sizeof(*self)) && theStringLength <= ((size_t)1 << 40) && theStringLength == g_len)
__CPROVER_requires(__CPROVER_is_fresh(theString, (theStringLength + 1) * sizeof(XalanDOMChar)) && theString == g_in)
__CPROVER_requires(/* the value is NUL-terminated (c_str()) */ theString[theStringLength] == 0)
__CPROVER_requires(g_done == true && g_esc == self->m_escapeURLs && g_max == self->m_maxCharacter)
__CPROVER_assigns(g_u1, g_u2, g_have2, g_k, g_done)
__CPROVER_ensures(/* the last character of the value was written completely */ g_done == true)'''
LOOP = '''__CPROVER_assigns(i, g_u1, g_u2, g_have2, g_k, g_done)
__CPROVER_loop_invariant(i <= theStringLength + 1)
__CPROVER_loop_invariant(/* every character is written completely before the next one is looked at */ g_done == true)
__CPROVER_decreases(theStringLength + 2 - i)'''

UNIT = Unit(
    name='c08_attruri',
    props=['C08', 'C03'],
    blocks=[UNICODE_BLOCK],
    functions=[
        Fn(FXH, r'^\s+isUTF16Surrogate\(XalanDOMChar\s+ch\)', 'isUTF16Surrogate', 'static bool isUTF16Surrogate(XalanDOMChar ch)', nloops=0, reach=False),
        Fn(FH, r'^FormatterToHTML::writeAttrURI\(', 'writeAttrURI', 'void writeAttrURI(Self* self, const XalanDOMChar* theString, size_t theStringLength)',
           rules=R, contract=CONTRACT, loops={0: LOOP}, nloops=1),
    ],
    template=TEMPLATE,
    jobs=[Job('writeAttrURI', 'h_writeAttrURI', enforce=['writeAttrURI'],
              replace=['xv_unit_first', 'xv_unit_second', 'xv_emit_data', 'accumHexNumber', 'accumDefaultEntity', 'xv_emit_literal', 'xv_emit_number'],
              loop_contracts=True, reach='all', timeout=900, min_obligations=10)],
    mutants=[
        Mutant('quote_raw_when_not_escaping', FH, r'else if \(ch == XalanUnicode::charQuoteMark\)\s*\{\s*if \(m_escapeURLs == true\)\s*\{\s*accumContent\(XalanUnicode::charPercentSign\);\s*accumContent\(XalanUnicode::charDigit_2\);\s*accumContent\(XalanUnicode::charDigit_2\);\s*\}\s*else\s*\{\s*accumDefaultEntity\(ch, true\);\s*\}\s*\}',
               'else if (ch == XalanUnicode::charQuoteMark && m_escapeURLs == true)\n        {\n            accumHexNumber(ch);\n        }', expect='never goes out raw'),
        Mutant('two_byte_mask', FH, r'const XalanDOMChar  lowByte = XalanDOMChar\(\(ch & 0x3F\) \| 0x80\);\s*accumHexNumber\(highByte\);\s*accumHexNumber\(lowByte\);', 'const XalanDOMChar  lowByte = XalanDOMChar((ch & 0x7F) | 0x80);\n\n                    accumHexNumber(highByte);\n\n                    accumHexNumber(lowByte);', expect='UTF-8 bytes'),
        Mutant('three_byte_boundary', FH, r'else if\(ch <= 0x7FF\)', 'else if(ch <= 0xFFF)', expect='UTF-8 bytes'),
        Mutant('surrogate_uuuuu_no_increment', FH, r'const XalanDOMChar  uuuuu = XalanDOMChar\(wwww \+ 1\);', 'const XalanDOMChar  uuuuu = XalanDOMChar(wwww);', expect='UTF-8 bytes'),
        Mutant('ampersand_raw', FH, r'else if \(ch == XalanUnicode::charAmpersand\)\s*\{\s*accumDefaultEntity\(ch, true\);\s*\}\s*else\s*\{\s*accumContent\(ch\);\s*\}\s*\}\s*\}\s*void\s*FormatterToHTML::accumHexNumber', 'else\n        {\n            accumContent(ch);\n        }\n    }\n}\n\n\n\nvoid\nFormatterToHTML::accumHexNumber', expect='never goes out raw'),
    ],
    mechanisms=['HTML specifics: attribute URI escaping'],
    assumptions=['accumHexNumber writes "%" and two hex digits of its argument; accumDefaultEntity writes &quot; / &amp; for the two characters it is given here (FormatterToXML::accumDefaultEntity, read)',
                 'the value is NUL-terminated (callers pass c_str()); the bytes written for an unpaired surrogate are not specified',
                 'that "&{" should stay unescaped (HTML 4.0 B.7.1) is not part of this contract'],
)
