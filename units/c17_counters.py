from xvlib.unit import Fn, Job, Unit, Mutant

CT = 'src/xalanc/XSLT/CountersTable.cpp'

TEMPLATE = r'''
#include "xv_shim.h"
/* Nodes on the counting chain of the target are identified by their COUNT (1 = first counted node, 0 = no node): the value xsl:number
   must produce for them.  Nodes of other chains (other "from" scopes) have identities above XV_MAXID and never equal a chain node. */
typedef size_t NodeId; typedef size_t CountType; typedef size_t CounterVectorType_size_type; typedef size_t Counter_NodeVectorType_size_type;
typedef struct Ctx StylesheetExecutionContext; typedef struct ElemNumber ElemNumber; typedef struct Self Self;
#define XV_MAXID ((size_t)1 << 40)
#define XV_MAXC 1000000
/* ghost: the counters of this xsl:number: for counter c, whether it caches the target's chain, and how many nodes it holds.
   Representation invariant of the cache: an on-chain counter holds exactly the chain nodes 1..len, in document (= count) order */
size_t g_nc; size_t* g_len; bool* g_on; NodeId g_target; size_t g_w;
/* ghost: m_newFound, the nodes found by the backward walk: first pushed g_nf_first, then g_nf_first-1, ... (g_nf_len of them) */
size_t g_nf_len; NodeId g_nf_first;
bool g_cache_extended; size_t g_ext_counter;

size_t xv_ncounters(Self* s) __CPROVER_requires(1) __CPROVER_assigns() __CPROVER_ensures(__CPROVER_return_value == g_nc) ;
NodeId xv_target(const ElemNumber* e, StylesheetExecutionContext* c, NodeId node) __CPROVER_requires(1) __CPROVER_assigns() __CPROVER_ensures(__CPROVER_return_value == g_target) ;
/* Counter::getPreviouslyCounted (its body is proved against this contract in job getPreviouslyCounted) */
CountType xv_previously_counted(size_t c, NodeId n)
__CPROVER_requires(c < g_nc) __CPROVER_assigns()
__CPROVER_ensures(__CPROVER_return_value == ((g_on[c] && n >= 1 && n <= g_len[c]) ? n : 0)) ;
NodeId xv_previous_node(const ElemNumber* e, StylesheetExecutionContext* c, NodeId n)
__CPROVER_requires(n >= 1 && n <= XV_MAXID) __CPROVER_assigns() __CPROVER_ensures(__CPROVER_return_value == n - 1) ;
size_t xv_cache_len(size_t c) __CPROVER_requires(c < g_nc) __CPROVER_assigns() __CPROVER_ensures(__CPROVER_return_value == g_len[c] && g_len[c] <= XV_MAXID) ;
NodeId xv_cache_at(size_t c, size_t k)
__CPROVER_requires(c < g_nc && k < g_len[c]) __CPROVER_assigns()
__CPROVER_ensures(__CPROVER_return_value == (g_on[c] ? k + 1 : XV_MAXID + 1 + k)) ;
void xv_nf_push(NodeId n)
__CPROVER_requires(/* the walk collects chain nodes backwards, one count at a time */ n >= 1 && (g_nf_len == 0 || n + g_nf_len == g_nf_first))
__CPROVER_assigns(g_nf_len, g_nf_first) __CPROVER_ensures(g_nf_len == __CPROVER_old(g_nf_len) + 1 && g_nf_first == (__CPROVER_old(g_nf_len) == 0 ? n : __CPROVER_old(g_nf_first))) ;
void xv_nf_clear(void) __CPROVER_requires(1) __CPROVER_assigns(g_nf_len) __CPROVER_ensures(g_nf_len == 0) ;
/* appendBtoFList(cache of counter c, m_newFound): appends the new nodes in REVERSE order of discovery */
void xv_append_reversed(size_t c)
__CPROVER_requires(/* the cache stays the contiguous chain prefix 1..len in count order: the reversed new nodes continue it */
    c < g_nc && g_on[c] && !g_cache_extended && (g_nf_len == 0 || g_nf_first - g_nf_len == g_len[c]))
__CPROVER_assigns(g_cache_extended, g_ext_counter) __CPROVER_ensures(g_cache_extended == true && g_ext_counter == c) ;
/* m_countNodes.insert(end, newFound.begin(), newFound.end()): appends the new nodes in order of discovery (backwards) */
void xv_append_forward(size_t c)
__CPROVER_requires(/* appending in discovery order keeps the cache in count order only for at most one new node */
    c < g_nc && g_on[c] && !g_cache_extended && (g_nf_len == 0 || (g_nf_len == 1 && g_nf_first - 1 == g_len[c])))
__CPROVER_assigns(g_cache_extended, g_ext_counter) __CPROVER_ensures(g_cache_extended == true && g_ext_counter == c) ;
/* counters.resize(size + 1); counters.back(): a fresh, empty, on-chain counter */
size_t xv_new_counter(Self* s)
__CPROVER_requires(g_nc < XV_MAXC) __CPROVER_assigns(g_nc, __CPROVER_object_whole(g_len), __CPROVER_object_whole(g_on))
__CPROVER_ensures(g_nc == __CPROVER_old(g_nc) + 1 && __CPROVER_return_value == __CPROVER_old(g_nc) && g_len[__CPROVER_old(g_nc)] == 0 && g_on[__CPROVER_old(g_nc)] == true) ;
void xv_set_elem(size_t c, const ElemNumber* e) __CPROVER_requires(1) __CPROVER_assigns() __CPROVER_ensures(1) ;

bool xv_isNodeAfter(NodeId counted, NodeId node)      /* executionContext.isNodeAfter(*countedNode, *node): node comes later in document order */
__CPROVER_requires(counted != 0 && node != 0) __CPROVER_assigns()
__CPROVER_ensures((counted <= XV_MAXID && node <= XV_MAXID) ==> __CPROVER_return_value == (node > counted)) ;
size_t g_c;   /* the counter whose getPreviouslyCounted is under proof */
@@FN getPreviouslyCounted@@
@@FN countNode@@
void h_prev(void)
{
    size_t a, w, c; size_t* p; bool* q; g_nc = a; g_len = p; g_on = q; g_w = w; g_c = c;
    NodeId n; getPreviouslyCounted(0, 0, n);
}
void h_countNode(void)
{
    size_t a, w, l; size_t* p; bool* q; NodeId t, f; g_nc = a; g_len = p; g_on = q; g_target = t; g_w = w; g_nf_len = l; g_nf_first = f; g_cache_extended = false; g_ext_counter = 0;
    Self* s; countNode(s, 0, 0, 0);
}
'''

CONTRACT = r'''
__CPROVER_requires(g_nc <= XV_MAXC - 1 && g_target <= XV_MAXID && g_nf_len == 0 && !g_cache_extended && g_w < g_nc + 1)
__CPROVER_requires(__CPROVER_is_fresh(g_len, (g_nc + 2) * sizeof(size_t)) && __CPROVER_is_fresh(g_on, (g_nc + 2) * sizeof(bool)))
__CPROVER_requires(g_w < g_nc ==> (g_len[g_w] <= XV_MAXID && (g_on[g_w] == true || g_on[g_w] == false)))
__CPROVER_assigns(g_nc, __CPROVER_object_whole(g_len), __CPROVER_object_whole(g_on), g_nf_len, g_nf_first, g_cache_extended, g_ext_counter)
__CPROVER_ensures(/* xsl:number level="any": the count of the target node is its position on the counting chain -- whatever the caches contain, i.e. independent of which nodes were numbered before (XSLT 7.7) */
    __CPROVER_return_value == g_target)
__CPROVER_ensures(/* the scratch list of newly found nodes is left empty */ g_nf_len == 0)
'''
L_FIRST = r'''
__CPROVER_assigns(i, count)
__CPROVER_loop_invariant(i <= nCounters && nCounters == g_nc)
__CPROVER_decreases(nCounters - i)
'''
L_WALK = r'''
__CPROVER_assigns(target, count, g_nf_len, g_nf_first)
__CPROVER_loop_invariant(target <= g_target && count + target == g_target && g_nf_len == count && (count > 0 ==> g_nf_first == g_target) && nCounters == g_nc)
__CPROVER_decreases(target)
'''
L_INNER = r'''
__CPROVER_assigns(i)
__CPROVER_loop_invariant(i <= nCounters && nCounters == g_nc)
__CPROVER_decreases(nCounters - i)
'''

UNIT = Unit(
    name='c17_counters',
    props=['C17'],
    functions=[
        Fn(CT, r'^Counter::getPreviouslyCounted\(', 'getPreviouslyCounted',
           'CountType getPreviouslyCounted(const Self* self, StylesheetExecutionContext* executionContext, NodeId node)',
           head_expect=r'^Counter::CountType Counter::getPreviouslyCounted\( StylesheetExecutionContext& executionContext, const XalanNode\* node\) const$',
           rules=['SCOPE', ('FCASTS', ['CountType']),
                  (r'const NodeVectorType_size_type\s+n = m_countNodes\.size\(\);', 'const size_t n = xv_cache_len(g_c);', 1),
                  (r'NodeVectorType_size_type', 'size_t', None),
                  (r'const XalanNode\* const\s+countedNode = m_countNodes\[i - 1\];', 'const NodeId countedNode = xv_cache_at(g_c, i - 1);', 1),
                  (r'm_countNodesStartCount', '((CountType)0)', 1),
                  (r'executionContext\.isNodeAfter\(\*countedNode, \*node\)', 'xv_isNodeAfter(countedNode, node)', 1)],
           contract='''__CPROVER_requires(g_c < g_nc && g_nc <= XV_MAXC && node != 0 && node <= XV_MAXID)
__CPROVER_requires(__CPROVER_is_fresh(g_len, (g_nc + 2) * sizeof(size_t)) && __CPROVER_is_fresh(g_on, (g_nc + 2) * sizeof(bool)))
__CPROVER_assigns()
__CPROVER_ensures(/* getPreviouslyCounted: the position (= count) of the node in this counter's cache, 0 if it is not cached */
    __CPROVER_return_value == ((g_on[g_c] && node >= 1 && node <= g_len[g_c]) ? node : 0))''',
           loops={0: '''
__CPROVER_assigns(i, result)
__CPROVER_loop_invariant(i <= n && result == 0 && n == g_len[g_c] && n <= XV_MAXID)
__CPROVER_loop_invariant(g_on[g_c] ==> !(node > i && node <= n))
__CPROVER_decreases(i)
'''}, nloops=1),
        Fn(CT, r'^CountersTable::countNode\(', 'countNode',
           'CountType countNode(Self* self, StylesheetExecutionContext* support, const ElemNumber* numberElem, NodeId node)',
           head_expect=r'^CountersTable::CountType CountersTable::countNode\( StylesheetExecutionContext& support, const ElemNumber& numberElem, XalanNode\* node\)$',
           rules=['SCOPE', ('FCASTS', ['CountType']),
                  (r'assert\(numberElem\.getID\(\) < m_countersVector\.size\(\)\);', '', 1),
                  (r'CounterVectorType&\s+counters = m_countersVector\[numberElem\.getID\(\)\];', '', 1),
                  (r'counters\.size\(\)(?! \+)', 'xv_ncounters(self)', 1),
                  (r'XalanNode\*\s+target = numberElem\.getTargetNode\(support, node\);', 'NodeId target = xv_target(numberElem, support, node);', 1),
                  (r'const Counter&\s+counter = counters\[i\];', 'const size_t counter = i;', 1),
                  (r'Counter&\s+counter = counters\[i\];', 'const size_t counter = i;', 1),
                  (r'counter\.getPreviouslyCounted\(support, target\)', 'xv_previously_counted(counter, target)', 1),
                  (r'numberElem\.getPreviousNode\(support, target\)', 'xv_previous_node(numberElem, support, target)', 1),
                  (r'counter\.m_countNodes\.size\(\)', 'xv_cache_len(counter)', 1),
                  (r'assert\(cacheLen == \(\(CountType\)\(cacheLen\)\)\);', '', 1),
                  (r'counter\.m_countNodes\[cacheLen - 1\]', 'xv_cache_at(counter, cacheLen - 1)', 1),
                  (r'counter\.m_countNodesStartCount', '((CountType)0)', 1),
                  (r'appendBtoFList\(counter\.m_countNodes, m_newFound\);', 'xv_append_reversed(counter);', (1, 2)),
                  (r'counter\.m_countNodes\.insert\(\s*counter\.m_countNodes\.end\(\),\s*m_newFound\.begin\(\),\s*m_newFound\.end\(\)\);', 'xv_append_forward(counter);', (0, 2)),
                  (r'm_newFound\.clear\(\);', 'xv_nf_clear();', 2),
                  (r'm_newFound\.push_back\(target\);', 'xv_nf_push(target);', 1),
                  (r'counters\.resize\(counters\.size\(\) \+ 1\);\s*Counter&\s+counter = counters\.back\(\);', 'const size_t counter = xv_new_counter(self);', 1),
                  (r'counter\.m_numberElem = &numberElem;', 'xv_set_elem(counter, numberElem);', 1)],
           contract=CONTRACT, loops={0: L_FIRST, 1: L_WALK, 2: L_INNER}, nloops=3),
    ],
    template=TEMPLATE,
    jobs=[Job('getPreviouslyCounted', 'h_prev', enforce=['getPreviouslyCounted'], replace=['xv_cache_len', 'xv_cache_at', 'xv_isNodeAfter'], loop_contracts=True,
              reach=['entry:getPreviouslyCounted', 'after_loop0:getPreviouslyCounted'], timeout=300),
          Job('countNode', 'h_countNode', enforce=['countNode'],
              replace=['xv_ncounters', 'xv_target', 'xv_previously_counted', 'xv_previous_node', 'xv_cache_len', 'xv_cache_at', 'xv_nf_push', 'xv_nf_clear',
                       'xv_append_reversed', 'xv_append_forward', 'xv_new_counter', 'xv_set_elem'],
              loop_contracts=True, reach=['entry:countNode', 'after_loop0:countNode', 'after_loop1:countNode'], timeout=600)],
    mutants=[
        Mutant('no_reverse', CT, r'if\(cacheLen > 0\)\s*\{\s*appendBtoFList\(counter\.m_countNodes, m_newFound\);\s*\}', 'counter.m_countNodes.insert(counter.m_countNodes.end(), m_newFound.begin(), m_newFound.end());', expect='count order'),
        Mutant('count_off_by_one', CT, r'count \+= CountType\(cacheLen\) \+ counter\.m_countNodesStartCount;', 'count += CountType(cacheLen) + counter.m_countNodesStartCount - 1;', expect='independent'),
    ],
    mechanisms=['number list computation'],
    assumptions=['nodes of the counting chain are identified by their count; ElemNumber::getPreviousNode steps to the previous counted node, getTargetNode picks the target (navigation not verified here)',
                 'the caches (XalanVector<Counter>, XalanVector<XalanNode*>) are ghost state (length, on-chain flag) manipulated through stubs; representation invariant: an on-chain cache holds the chain prefix 1..len in order',
                 'document order on the chain is count order (isNodeAfter stub)'],
)
