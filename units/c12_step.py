"""C12 / C02: XPath::step - one location step: (1) every axis op code is served by its own axis walker, with the context node and position it
was given; (2) merging: the node list handed back is FLAGGED document order only when it IS in document order - the result of the last step
is the axis result (reversed first when the walker delivered reverse document order), the result of an inner step is the ordered,
de-duplicating merge (addNodesInDocOrder) of the results of the remaining steps for every context node, each of which is itself in document
order (recursion: the function is proved against its own contract).  Lists are ghost records (empty?, order flag, is-in-document-order,
is-in-reverse-order); the axis walkers, predicates() and the list operations are contract stubs."""
from xvlib.unit import Fn, Job, Unit, Mutant, Block

XP = 'src/xalanc/XPath/XPath.cpp'
XPE = 'src/xalanc/XPath/XPathExpression.hpp'
OPCODES = Block(XPE, r'^\s*enum eOpCodes\s*\{', 'eOpCodes',
                rules=[(r'enum eOpCodes', 'enum XPathExpression_eOpCodes', 1), (r'\b(e[A-Z][A-Z_0-9a-z]*)\b', r'XPathExpression_\1', None)])
AXES = ['NodeSet', 'Root', 'Parent', 'Self', 'Ancestors', 'AncestorsOrSelf', 'Attributes', 'Children', 'Descendants', 'Following', 'FollowingSiblings',
        'Preceeding', 'PreceedingSiblings', 'Namespace', 'NodesOnUnknownAxis']
TEMPLATE = r'''
#include "xv_shim.h"
@@BLOCK eOpCodes@@
typedef struct XalanNode XalanNode; typedef struct Ctx XPathExecutionContext; typedef struct Self Self;
typedef int OpCodeMapPositionType; typedef int OpCodeMapValueType; typedef size_t NodeRefListBase_size_type;
enum { O_UNKNOWN = 0, O_DOC = 1, O_REVERSE = 2 };
typedef struct { bool empty; int flag; bool is_doc; bool is_rev; } XvList;
typedef XvList MutableNodeRefList;
#define ISB(b) ((b) == true || (b) == false)
/* a well-formed list record: an empty list is in both orders; the flag never lies */
#define WF(l) (ISB((l)->empty) && ISB((l)->is_doc) && ISB((l)->is_rev) && ((l)->flag == O_UNKNOWN || (l)->flag == O_DOC || (l)->flag == O_REVERSE) \
    && ((l)->empty == true ==> ((l)->is_doc == true && (l)->is_rev == true)) && ((l)->flag == O_DOC ==> (l)->is_doc == true) && ((l)->flag == O_REVERSE ==> (l)->is_rev == true))
enum { F_NONE = 0, ''' + ', '.join('F_' + a for a in AXES) + r''' };
int g_step_type; int g_finder; int g_finder_calls; XalanNode* g_ctx; int g_pos0; int g_pos1; int g_next; bool g_more;
OpCodeMapValueType xv_op(OpCodeMapPositionType p) __CPROVER_requires(1) __CPROVER_assigns()
__CPROVER_ensures(__CPROVER_return_value == (p == g_pos0 ? g_step_type : g_next)) ;
/* the axis walkers (findChildren, findAncestors, ...): fill the list with the nodes of the axis, in document order or - the reverse axes - in
   reverse document order, and say so (truthfully: c12_namespace_axis proves it for the namespace axis); return the position after the node test */
OpCodeMapPositionType xv_find(int which, XalanNode* context, OpCodeMapPositionType opPos, OpCodeMapValueType stepType, XvList* out)
__CPROVER_requires(/* the walker gets the context node, position and step type of this step */ context == g_ctx && opPos == g_pos0 && stepType == g_step_type && out->empty == true)
__CPROVER_assigns(*out, g_finder, g_finder_calls)
__CPROVER_ensures(g_finder == which && g_finder_calls == __CPROVER_old(g_finder_calls) + 1 && __CPROVER_return_value == g_pos1 && WF(out) && (out->empty == true || out->flag == O_DOC || out->flag == O_REVERSE)) ;
/* predicates(): filters the list in place (order kept) */
OpCodeMapPositionType xv_predicates(OpCodeMapPositionType opPos, XvList* l)
__CPROVER_requires(opPos == g_pos1 && WF(l)) __CPROVER_assigns(l->empty, l->is_doc, l->is_rev, g_next)
__CPROVER_ensures(WF(l) && (l->empty == true || (l->is_doc == __CPROVER_old(l->is_doc) && l->is_rev == __CPROVER_old(l->is_rev))) && (__CPROVER_old(l->empty) == true ==> l->empty == true)
    && g_next != XPathExpression_eOP_PREDICATE && g_next != XPathExpression_eOP_PREDICATE_WITH_POSITION && __CPROVER_return_value != g_pos0) ;
size_t xv_length(const XvList* l) __CPROVER_requires(1) __CPROVER_assigns() __CPROVER_ensures((__CPROVER_return_value == 0) == (l->empty == true)) ;
XalanNode* xv_item(const XvList* l, size_t i) __CPROVER_requires(l->empty == false) __CPROVER_assigns() __CPROVER_ensures(__CPROVER_return_value != 0) ;
/* MutableNodeRefList::addNodesInDocOrder(list): ordered, de-duplicating merge (units c12_addnode / c12_search): needs a target in document order */
void xv_addNodesInDocOrder(XvList* q, const XvList* src)
__CPROVER_requires(/* the merge inserts by document order: the target list must be in document order */ q->is_doc == true && WF(q) && WF(src))
__CPROVER_assigns(q->empty, q->flag, q->is_rev) __CPROVER_ensures(q->empty == false && q->is_doc == true && WF(q)) ;
void xv_setDocumentOrder(XvList* q) __CPROVER_requires(/* a list is flagged document order only when it is in document order */ q->is_doc == true)
__CPROVER_assigns(q->flag) __CPROVER_ensures(q->flag == O_DOC) ;
void xv_swap(XvList* a, XvList* b) __CPROVER_requires(a != b) __CPROVER_assigns(*a, *b)
__CPROVER_ensures(a->empty == __CPROVER_old(b->empty) && a->flag == __CPROVER_old(b->flag) && a->is_doc == __CPROVER_old(b->is_doc) && a->is_rev == __CPROVER_old(b->is_rev)
    && b->empty == __CPROVER_old(a->empty) && b->flag == __CPROVER_old(a->flag) && b->is_doc == __CPROVER_old(a->is_doc) && b->is_rev == __CPROVER_old(a->is_rev)) ;
/* MutableNodeRefList::reverse (unit c12_addnode): reverses the nodes and flips the flag */
static void xv_reverse(XvList* q) { bool d = q->is_doc; q->is_doc = q->is_rev; q->is_rev = d; q->flag = (q->flag == O_DOC ? O_REVERSE : q->flag == O_REVERSE ? O_DOC : O_UNKNOWN); }
void xv_clear(XvList* q) __CPROVER_requires(1) __CPROVER_assigns(*q) __CPROVER_ensures(q->empty == true && q->flag == O_UNKNOWN && q->is_doc == true && q->is_rev == true) ;
/* the recursive call: the same function, by its contract */
void step(XalanNode* context, OpCodeMapPositionType opPos, XvList* queryResults)
__CPROVER_requires(context != 0 && opPos != g_pos0 && queryResults->empty == true)
__CPROVER_assigns(*queryResults)
__CPROVER_ensures(WF(queryResults) && (queryResults->empty == true || queryResults->flag == O_DOC)) ;
#define XV_FRESH_LIST { true, O_UNKNOWN, true, true }
@@FN impl_step@@
void h_step(void)
{ int t, n, p0, p1; XalanNode* c; XvList q = XV_FRESH_LIST; g_step_type = t; g_next = n; g_pos0 = p0; g_pos1 = p1; g_ctx = c; g_finder = F_NONE; g_finder_calls = 0;
  impl_step(0, 0, c, p0, &q); }
'''
R = [(r'const XPathExpression&\s+currentExpression = getExpression\(\);', '', 1),
     (r'typedef XPathExecutionContext::BorrowReturnMutableNodeRefList\s+BorrowReturnMutableNodeRefList;', '', 1),
     (r'currentExpression\.getOpCodeMapValue\(opPos\)', 'xv_op(opPos)', 3),
     (r'BorrowReturnMutableNodeRefList\s+(\w+)\(executionContext\);', r'XvList \1_obj = XV_FRESH_LIST; XvList* const \1 = &\1_obj;', 2),
     (r'\*(subQueryResults|mnl)\b', r'\1', None),
     (r'XPathExpression::(e\w+)', r'XPathExpression_\1', None),
     (r'opPos = find(\w+)\(executionContext, context, opPos,\s+stepType, subQueryResults\);', r'opPos = xv_find(F_\1, context, opPos, stepType, subQueryResults);', 15),
     (r'XPathExecutionContext::ContextNodeListPushAndPop\s+thePushAndPop\(\s*executionContext,\s*subQueryResults\);', '', 1),
     (r'predicates\(\s*executionContext,\s*opPos,\s*subQueryResults\)', 'xv_predicates(opPos, subQueryResults)', 1),
     (r'NodeRefListBase::size_type', 'size_t', None),
     (r'subQueryResults->getLength\(\)', 'xv_length(subQueryResults)', 1),
     (r'subQueryResults->item\(i\)', 'xv_item(subQueryResults, i)', 1),
     (r'assert\(node != 0\);', '', 1),
     (r'(?<![\w.>])step\(executionContext, node, opPos, mnl\);', 'step(node, opPos, mnl);', 1),
     (r'\b(mnl|subQueryResults)->empty\(\)', r'\1->empty', None),
     (r'\bqueryResults\.empty\(\)', 'queryResults->empty', None),
     (r'queryResults\.addNodesInDocOrder\(mnl, executionContext\);', 'xv_addNodesInDocOrder(queryResults, mnl);', 1),
     (r'queryResults\.setDocumentOrder\(\);', 'xv_setDocumentOrder(queryResults);', None),
     (r'\b(mnl|subQueryResults)->getDocumentOrder\(\)', r'((\1)->flag == O_DOC)', None),
     (r'subQueryResults->getReverseDocumentOrder\(\)', '(subQueryResults->flag == O_REVERSE)', 1),
     (r'queryResults\.swap\((mnl|subQueryResults)\);', r'xv_swap(queryResults, \1);', None),
     (r'queryResults\.reverse\(\);', 'xv_reverse(queryResults);', (0, 1)),
     (r'queryResults\.clear\(\);', 'xv_clear(queryResults);', 1),
     'SCOPE']
EXPECT = [('eOP_VARIABLE', 'NodeSet'), ('eOP_EXTFUNCTION', 'NodeSet'), ('eOP_FUNCTION', 'NodeSet'), ('eOP_GROUP', 'NodeSet'), ('eFROM_ROOT', 'Root'), ('eFROM_PARENT', 'Parent'), ('eFROM_SELF', 'Self'),
          ('eFROM_ANCESTORS', 'Ancestors'), ('eFROM_ANCESTORS_OR_SELF', 'AncestorsOrSelf'), ('eFROM_ATTRIBUTES', 'Attributes'), ('eMATCH_ATTRIBUTE', 'Attributes'), ('eFROM_CHILDREN', 'Children'),
          ('eMATCH_ANY_ANCESTOR', 'Children'), ('eMATCH_IMMEDIATE_ANCESTOR', 'Children'), ('eMATCH_ANY_ANCESTOR_WITH_PREDICATE', 'Children'),
          ('eFROM_DESCENDANTS', 'Descendants'), ('eFROM_DESCENDANTS_OR_SELF', 'Descendants'), ('eFROM_FOLLOWING', 'Following'), ('eFROM_FOLLOWING_SIBLINGS', 'FollowingSiblings'),
          ('eFROM_PRECEDING', 'Preceeding'), ('eFROM_PRECEDING_SIBLINGS', 'PreceedingSiblings'), ('eFROM_NAMESPACE', 'Namespace')]
POST_AXIS = ' && '.join('(g_step_type == XPathExpression_%s ==> g_finder == F_%s)' % (o, f) for o, f in EXPECT)
UNIT = Unit(
    name='c12_step',
    props=['C12', 'C02'],
    blocks=[OPCODES],
    functions=[Fn(XP, r'^XPath::step\(\s*XPathExecutionContext&\s+executionContext,\s*XalanNode\*\s+context,\s*OpCodeMapPositionType\s+opPos,\s*MutableNodeRefList&\s+queryResults\) const', 'impl_step',
                  'void impl_step(const Self* self, XPathExecutionContext* executionContext, XalanNode* context, OpCodeMapPositionType opPos, MutableNodeRefList* queryResults)',
                  rules=R, nloops=1,
                  loops={0: '''__CPROVER_assigns(i, *queryResults)
__CPROVER_loop_invariant(i <= nContexts && WF(queryResults) && (queryResults->empty == true || queryResults->flag == O_DOC))
__CPROVER_decreases(nContexts - i)'''},
                  contract='''__CPROVER_requires(context == g_ctx && opPos == g_pos0 && g_pos1 != g_pos0 && g_finder_calls == 0 && queryResults->empty == true && queryResults->flag == O_UNKNOWN && queryResults->is_doc == true && queryResults->is_rev == true)
__CPROVER_assigns(*queryResults, g_finder, g_finder_calls, g_next)
__CPROVER_ensures(/* node-sets are delivered in document order, and flagged so truthfully */ queryResults->empty == true || (queryResults->flag == O_DOC && queryResults->is_doc == true))
__CPROVER_ensures(WF(queryResults))
__CPROVER_ensures(/* each axis is served by its own walker, exactly once */ g_finder_calls == 1 && ''' + POST_AXIS + ')')],
    template=TEMPLATE,
    jobs=[Job('step', 'h_step', enforce=['impl_step'], replace=['xv_op', 'xv_find', 'xv_predicates', 'xv_length', 'xv_item', 'xv_addNodesInDocOrder', 'xv_setDocumentOrder', 'xv_swap', 'xv_clear', 'step'],
              loop_contracts=True, reach='all', timeout=600, min_obligations=10)],
    mutants=[
        Mutant('reverse_axis_result_not_reversed', XP, r'queryResults\.swap\(\*subQueryResults\);\s*queryResults\.reverse\(\);', 'queryResults.swap(*subQueryResults);', expect=None),
        Mutant('preceding_siblings_walks_following', XP, r'opPos = findPreceedingSiblings\(', 'opPos = findFollowingSiblings(', expect='own walker'),
        Mutant('first_result_taken_unflagged_then_merged', XP, r'(queryResults\.addNodesInDocOrder\(\*mnl, executionContext\);\s*)queryResults\.setDocumentOrder\(\);', r'\1', expect=None),
    ],
    mechanisms=['union and step merging', 'axis dispatch of a location step'],
    assumptions=['the axis walkers deliver their nodes in document order or in reverse document order and flag the list truthfully (proved for the namespace axis in c12_namespace_axis; the others are stubs)',
                 'predicates() filters in place and keeps the order; addNodesInDocOrder merges in document order given a target in document order (c12_addnode, c12_search); reverse() flips order and flag (c12_addnode)',
                 'an empty result may keep the flag "unknown order" (a step whose axis delivers nothing leaves the caller\'s empty list untouched); every consumer in step() looks at the flag of non-empty lists only',
                 'recursion: the inner call is replaced by the contract that is being proved (partial correctness; the op-code map is finite and opPos advances)'],
)
