from xvlib.unit import Fn, Job, Unit, Mutant
from xvlib.common import UNICODE_BLOCK, ISWS_STUB

DS = 'src/xalanc/PlatformSupport/DoubleSupport.cpp'

PRELUDE = r'''
#include "xv_shim.h"
@@BLOCK XalanUnicode@@
''' + ISWS_STUB + r'''
/* ghost: the NUL-terminated input string (any length up to XV_MAXLEN) */
const XalanDOMChar* g_str;
size_t g_n; size_t g_cw;   /* g_cw: arbitrary witness position for "only digits were skipped" */
#define XV_MAXLEN 1000000000
#define SOFF(p) ((size_t)__CPROVER_POINTER_OFFSET(p) / 2)
#define IN_STR(p) (__CPROVER_same_object((p), g_str) && __CPROVER_POINTER_OFFSET(p) % 2 == 0 && SOFF(p) <= g_n)
#define IS_DIGIT(c) ((c) >= 0x30 && (c) <= 0x39)
'''

CURSOR_REQ = r'''
__CPROVER_requires(g_n <= XV_MAXLEN)
__CPROVER_requires(__CPROVER_is_fresh(theString, sizeof(*theString)))
__CPROVER_requires(__CPROVER_is_fresh(g_str, (g_n + 1) * sizeof(XalanDOMChar)))
__CPROVER_requires(__CPROVER_pointer_in_range_dfcc(g_str, *theString, g_str + g_n))
__CPROVER_requires(__CPROVER_POINTER_OFFSET(*theString) % 2 == 0)
__CPROVER_requires(g_str[g_n] == 0)
__CPROVER_assigns(*theString)
__CPROVER_ensures(__CPROVER_pointer_in_range_dfcc(g_str, *theString, g_str + g_n))
__CPROVER_ensures(/* cursor stays inside the NUL-terminated string and never moves back */ IN_STR(*theString) && SOFF(*theString) >= SOFF(__CPROVER_old(*theString)))
'''

CW_CONTRACT = CURSOR_REQ + r'''
__CPROVER_ensures(/* consumeWhitespace stops at the first non-whitespace unit */ !XV_IS_WS(**theString))
__CPROVER_ensures(/* consumeWhitespace makes progress on whitespace */ XV_IS_WS(*__CPROVER_old(*theString)) ==> SOFF(*theString) > SOFF(__CPROVER_old(*theString)))
__CPROVER_ensures(/* consumeWhitespace skips XML whitespace only (space, tab, CR, LF; ghost witness): other control characters are not white space of the Number grammar */ (g_cw >= SOFF(__CPROVER_old(*theString)) && g_cw < SOFF(*theString)) ==> XV_IS_WS(g_str[g_cw]))
'''
CN_CONTRACT = CURSOR_REQ + r'''
__CPROVER_ensures(/* consumeNumbers stops at the first non-digit unit */ !IS_DIGIT(**theString))
__CPROVER_ensures(/* consumeNumbers makes progress on a digit */ IS_DIGIT(*__CPROVER_old(*theString)) ==> SOFF(*theString) > SOFF(__CPROVER_old(*theString)))
__CPROVER_ensures(/* consumeNumbers skips ASCII digits only (ghost witness): the Number grammar has no other digits */ (g_cw >= SOFF(__CPROVER_old(*theString)) && g_cw < SOFF(*theString)) ==> IS_DIGIT(g_str[g_cw]))
'''
CN_LOOP = r'''
__CPROVER_assigns(*theString)
__CPROVER_loop_invariant(IN_STR(*theString) && SOFF(*theString) >= SOFF(__CPROVER_loop_entry(*theString)))
__CPROVER_loop_invariant(/* everything skipped so far is an ASCII digit */ (g_cw >= SOFF(__CPROVER_loop_entry(*theString)) && g_cw < SOFF(*theString)) ==> IS_DIGIT(g_str[g_cw]))
__CPROVER_decreases(g_n - SOFF(*theString))
'''
CW_LOOP = r'''
__CPROVER_assigns(*theString)
__CPROVER_loop_invariant(IN_STR(*theString) && SOFF(*theString) >= SOFF(__CPROVER_loop_entry(*theString)))
__CPROVER_loop_invariant(/* everything skipped so far is XML whitespace */ (g_cw >= SOFF(__CPROVER_loop_entry(*theString)) && g_cw < SOFF(*theString)) ==> XV_IS_WS(g_str[g_cw]))
__CPROVER_decreases(g_n - SOFF(*theString))
'''
CURSOR_LOOP = r'''
__CPROVER_assigns(*theString)
__CPROVER_loop_invariant(IN_STR(*theString) && SOFF(*theString) >= SOFF(__CPROVER_loop_entry(*theString)))
__CPROVER_loop_invariant(SOFF(*theString) > SOFF(__CPROVER_loop_entry(*theString)) || SOFF(*theString) == SOFF(__CPROVER_loop_entry(*theString)))
__CPROVER_decreases(g_n - SOFF(*theString))
'''

DV_CONTRACT = r'''
__CPROVER_requires(g_n <= XV_MAXLEN)
__CPROVER_requires(__CPROVER_is_fresh(theString, (g_n + 1) * sizeof(XalanDOMChar)))
__CPROVER_requires(theString[g_n] == 0)
__CPROVER_requires(__CPROVER_pointer_in_range_dfcc(theString, g_str, theString))
__CPROVER_requires(__CPROVER_is_fresh(fGotDecimalPoint, sizeof(bool)))
__CPROVER_requires(*fGotDecimalPoint == false)
__CPROVER_assigns(*fGotDecimalPoint)
__CPROVER_ensures(/* doValidate: memory-safe and terminating for NUL-terminated strings of any length; result is a boolean */ __CPROVER_return_value == true || __CPROVER_return_value == false)
'''
DV_LOOP = r'''
__CPROVER_assigns(theCurrent, fError, fGotDigit, fGotMinus, fGotWhitespace, *fGotDecimalPoint)
__CPROVER_loop_invariant(IN_STR(theCurrent))
__CPROVER_loop_invariant((fGotDigit == false || fGotDigit == true) && (fError == false || fError == true))
__CPROVER_decreases(2 * (g_n - SOFF(theCurrent)) + (fError ? 0 : 1))
'''

TEMPLATE = PRELUDE + r'''
@@FN consumeWhitespace@@
/* isXMLDigit (XML 1.0 production [88] Digit): the ASCII digits and many more (Arabic-Indic, Devanagari ...); the XPath Number grammar has ASCII digits only */
bool isXMLDigit(XalanDOMChar c) __CPROVER_requires(1) __CPROVER_assigns()
__CPROVER_ensures((__CPROVER_return_value == true || __CPROVER_return_value == false) && (IS_DIGIT(c) ==> __CPROVER_return_value == true) && (c < 0x80 && !IS_DIGIT(c) ==> __CPROVER_return_value == false)) ;
@@FN consumeNumbers@@
@@FN doValidate@@

void h_consumeWhitespace(void) { const XalanDOMChar** p; size_t n, w; g_cw = w; g_n = n; const XalanDOMChar* s; g_str = s; consumeWhitespace(p); }
void h_consumeNumbers(void) { const XalanDOMChar** p; size_t n, w; g_cw = w; g_n = n; const XalanDOMChar* s; g_str = s; consumeNumbers(p); }
void h_doValidate(void) { const XalanDOMChar* s; bool* f; size_t n; g_n = n; const XalanDOMChar* gs; g_str = gs; doValidate(s, f); }

/* ---- bounded functional check against the grammar of the property statement:
   ws* '-'? ( digits ('.' digits?)? | '.' digits ) ws*      (XPath 1.0 Number, section 4.4 number()) */
#ifndef XV_N
#define XV_N 8
#endif
static bool spec_number(const XalanDOMChar* s, bool* point)
{
    size_t i = 0, d1 = 0, d2 = 0;
    *point = false;
    while (XV_IS_WS(s[i])) i++;
    if (s[i] == 0x2D) i++;
    while (IS_DIGIT(s[i])) { i++; d1++; }
    if (s[i] == 0x2E) { *point = true; i++; while (IS_DIGIT(s[i])) { i++; d2++; } }
    if (!(d1 > 0 || (*point && d2 > 0))) return false;
    while (XV_IS_WS(s[i])) i++;
    return s[i] == 0;
}
/* body for isXMLWhitespace in the bounded job (its contract is proved from the real table in c04_chartables) */
#ifdef XV_BOUNDED
bool isXMLWhitespace(XalanDOMChar c) { return XV_IS_WS(c); }
bool isXMLDigit(XalanDOMChar c) { return IS_DIGIT(c) || (c >= 0x0660 && c <= 0x0669) || (c >= 0x0966 && c <= 0x096F); }   /* a part of the XML Digit class; only reachable if the code calls it */
#endif
void h_doValidate_bounded(void)
{
    XalanDOMChar s[XV_N + 1];
    s[XV_N] = 0;
    g_str = s; g_n = XV_N;
    bool got = false, sp = false;
    bool r = doValidate(s, &got);
    bool e = spec_number(s, &sp);
    __CPROVER_assert(r == e, "doValidate accepts exactly the Number grammar of the property statement (bounded: length <= XV_N)");
    __CPROVER_assert(!r || got == sp, "doValidate reports a decimal point iff the accepted numeral has one (bounded)");
    XV_REACH("h_doValidate_bounded");
}
'''

REF = [(r'\btheString\b', '(*theString)', None)]

UNIT = Unit(
    name='c18_validate',
    props=['C18', 'C03', 'C02'],
    blocks=[UNICODE_BLOCK],
    functions=[
        Fn(DS, r'^consumeWhitespace\(const XalanDOMChar\*&\s+theString\)', 'consumeWhitespace',
           'static void consumeWhitespace(const XalanDOMChar** theString)',
           head_expect=r'^inline void consumeWhitespace\(const XalanDOMChar\*& theString\)$',
           rules=['SCOPE'] + REF, contract=CW_CONTRACT, loops={0: CW_LOOP}, nloops=1),
        Fn(DS, r'^consumeNumbers\(', 'consumeNumbers',
           'static void consumeNumbers(const XalanDOMChar** theString)',
           head_expect=r'^inline static void consumeNumbers\(const XalanDOMChar\*& theString\)$',
           rules=['SCOPE'] + REF, contract=CN_CONTRACT, loops={0: CN_LOOP}, nloops=1),
        Fn(DS, r'^doValidate\(\s*const XalanDOMChar\*\s+theString,\s*bool&', 'doValidate',
           'static bool doValidate(const XalanDOMChar* theString, bool* fGotDecimalPoint)',
           head_expect=r'^static bool doValidate\( const XalanDOMChar\* theString, bool& fGotDecimalPoint\)$',
           rules=['SCOPE', (r'\bfGotDecimalPoint\b', '(*fGotDecimalPoint)', 3),
                  (r'consumeWhitespace\(theCurrent\)', 'consumeWhitespace(&theCurrent)', 2),
                  (r'consumeNumbers\(theCurrent\)', 'consumeNumbers(&theCurrent)', 1)],
           contract=DV_CONTRACT, loops={0: DV_LOOP}, nloops=1),
    ],
    template=TEMPLATE,
    jobs=[
        Job('consumeWhitespace', 'h_consumeWhitespace', enforce=['consumeWhitespace'], replace=['isXMLWhitespace'],
            loop_contracts=True, reach=['entry:consumeWhitespace', 'after_loop0:consumeWhitespace'], timeout=300),
        Job('consumeNumbers', 'h_consumeNumbers', enforce=['consumeNumbers'], replace=['isXMLDigit'],
            loop_contracts=True, reach=['entry:consumeNumbers', 'after_loop0:consumeNumbers'], timeout=300),
        Job('doValidate', 'h_doValidate', enforce=['doValidate'], replace=['consumeWhitespace', 'consumeNumbers'],
            loop_contracts=True, reach=['entry:doValidate', 'after_loop0:doValidate'], timeout=300),
        Job('grammar_bounded', 'h_doValidate_bounded', cls='B', unwind=10, dfcc=False, defines=['XV_BOUNDED', 'XV_N=8'],
            reach=['h_doValidate_bounded'], bound_note='all strings of exactly 8 UTF-16 units followed by NUL (shorter strings are those with an embedded NUL): full 16-bit alphabet',
            timeout=600),
    ],
    mutants=[
        Mutant('dot_after_ws', DS, r'if \(fGotDecimalPoint == true \|\| // can\'t have more than one\.\.\.\s*fGotWhitespace == true\)', 'if (fGotDecimalPoint == true)', expect='grammar'),
        Mutant('minus_after_digit', DS, r'fGotMinus == true \|\|\s*fGotDigit == true \|\|', 'fGotMinus == true ||', expect='grammar'),
        Mutant('consume_numbers_no_nul', DS, r'while\(\*theString &&\s*\*theString >= XalanUnicode::charDigit_0', 'while(*theString >= XalanUnicode::charDigit_0', expect=None),
    ],
    mechanisms=['string validation against the Number grammar'],
    assumptions=['isXMLWhitespace contract (proved against the real table in unit c04_chartables)'],
)
