"""C02: normalize-space() (XPath 1.0 4.2).  The real state machine of FunctionNormalizeSpace::normalize writes exactly the non-whitespace
characters of the argument, in order, with ONE space where the argument has a whitespace run between two of them and nothing at either
end; the shortcut needsNormalization() answers "no" only for strings that are already their own normalisation."""
from xvlib.unit import Fn, Job, Unit, Mutant
from xvlib.common import ISWS_STUB, UNICODE_BLOCK

FN = 'src/xalanc/XPath/FunctionNormalizeSpace.cpp'
TEMPLATE = r'''
#include "xv_shim.h"
@@BLOCK XalanUnicode@@
''' + ISWS_STUB + r'''
typedef struct Ctx XPathExecutionContext; typedef struct Str XalanDOMString; typedef struct Guard GetCachedString; typedef int XObjectPtr;
/* ghost: the argument; the character being looked at; the result so far (length, whether it ends in a space); whitespace seen since the last
   character written; index of the last non-whitespace character written */
const XalanDOMChar* g_in; size_t g_len; size_t g_idx; bool g_looking; size_t g_out_len; bool g_out_ends_space; bool g_ws_since; size_t g_written_idx; bool g_any_written; int g_result;
enum { RES_NONE, RES_EMPTY, RES_STRING };
/* *i : the character at the cursor */
XalanDOMChar xv_at(const XalanDOMString* s, size_t i)
__CPROVER_requires(/* reads stay inside the argument */ i < g_len)
__CPROVER_requires(/* a non-whitespace character is never dropped: the previous one was written before the next is looked at */
    !(g_looking == true && !XV_IS_WS(g_in[g_idx])) || (g_any_written == true && g_written_idx == g_idx))
__CPROVER_requires(/* characters are looked at in order, none skipped */ g_looking == true ? i == g_idx + 1 : i == 0)
__CPROVER_assigns(g_idx, g_looking, g_ws_since)
__CPROVER_ensures(__CPROVER_return_value == g_in[i] && g_idx == i && g_looking == true && g_ws_since == (XV_IS_WS(g_in[i]) ? true : __CPROVER_old(g_ws_since))) ;
void xv_push(XalanDOMChar c)
__CPROVER_requires(g_looking == true && g_out_len < g_len)
__CPROVER_requires(/* what is written is the non-whitespace character at the cursor, or one space (#x20) for the whitespace run that precedes the next word */
    XV_IS_WS(g_in[g_idx]) ? c == 0x20 : c == g_in[g_idx])
__CPROVER_requires(/* no space at the start of the result and never two in a row */ c == 0x20 && XV_IS_WS(g_in[g_idx]) ==> (g_out_len > 0 && g_out_ends_space == false))
__CPROVER_requires(/* two words separated by whitespace in the argument are separated by a space in the result */
    !XV_IS_WS(g_in[g_idx]) ==> ((g_ws_since == true && g_out_len > 0) == (g_out_ends_space == true)))
__CPROVER_requires(/* each character is written once */ !XV_IS_WS(g_in[g_idx]) ==> !(g_any_written == true && g_written_idx == g_idx))
__CPROVER_assigns(g_out_len, g_out_ends_space, g_ws_since, g_written_idx, g_any_written)
__CPROVER_ensures(g_out_len == __CPROVER_old(g_out_len) + 1 && g_out_ends_space == (XV_IS_WS(g_in[g_idx]) ? true : false))
__CPROVER_ensures(XV_IS_WS(g_in[g_idx]) ? (g_ws_since == __CPROVER_old(g_ws_since) && g_written_idx == __CPROVER_old(g_written_idx) && g_any_written == __CPROVER_old(g_any_written))
                                        : (g_ws_since == false && g_written_idx == g_idx && g_any_written == true)) ;
void xv_erase_last(void)
__CPROVER_requires(/* only a trailing space is removed */ g_out_len > 0 && g_out_ends_space == true) __CPROVER_assigns(g_out_len, g_out_ends_space)
__CPROVER_ensures(g_out_len == __CPROVER_old(g_out_len) - 1 && g_out_ends_space == false) ;   /* the character before a space is never a space (push precondition) */
XObjectPtr xv_return_empty(void) __CPROVER_requires(g_out_len == 0) __CPROVER_assigns(g_result) __CPROVER_ensures(g_result == RES_EMPTY) ;
XObjectPtr xv_return_result(void) __CPROVER_requires(/* the result does not end in a space */ g_out_len > 0 && g_out_ends_space == false) __CPROVER_assigns(g_result) __CPROVER_ensures(g_result == RES_STRING) ;
size_t g_w;
@@FN normalize@@
@@FN needsNormalization@@
void h_normalize(void)
{ const XalanDOMChar* p; size_t n, a, b; bool c, d, e; g_in = p; g_len = n; g_idx = a; g_looking = false; g_out_len = 0; g_out_ends_space = false; g_ws_since = false; g_written_idx = b; g_any_written = false; g_result = RES_NONE;
  normalize(0, 0, n, 0); }
void h_needs(void) { const XalanDOMChar* p; size_t n, w; g_in = p; g_len = n; g_w = w; needsNormalization(p, n); }
'''
RN = [(r'const XalanDOMString::size_type\s+theStringLength =\s*theString\.length\(\);', '', 1),
      (r'XalanDOMString&\s+theNewString = theResult\.get\(\);\s*assert\(theNewString\.length\(\) == 0\);', 'assert(g_out_len == 0);', 1),
      (r'theNewString\.reserve\(theStringLength\);', '', 1),
      (r'eLastCharState\s+theState = eSpace;', 'enum eLastCharState theState = eSpace;', 1),
      (r'for \(XalanDOMString::const_iterator i = theString\.begin\(\);\s*i != theString\.end\(\); \+\+i\)', 'for (size_t i = 0; i != theStringLength; ++i)', 1),
      (r'const XalanDOMChar\s+theCurrentChar = \*i;', 'const XalanDOMChar theCurrentChar = xv_at(theString, i);', 1),
      ('FCASTS', ['XalanDOMChar']),
      (r'theNewString\.push_back\(', 'xv_push(', 2),
      (r'theNewString\.empty\(\) == true', '(g_out_len == 0)', 1),
      (r'return executionContext\.getXObjectFactory\(\)\.createStringReference\(s_emptyString\);', 'return xv_return_empty();', 1),
      (r'theNewString\.erase\(theNewString\.end\(\) - 1\);', 'xv_erase_last();', (0, 1)),
      (r'return executionContext\.getXObjectFactory\(\)\.createString\(theResult\);', 'return xv_return_result();', 1),
      'SCOPE']
RQ = [(r'const XalanDOMString::size_type\s+theStringLength = theString\.length\(\);', '', 1),
      (r'XalanDOMString::size_type', 'size_t', 1), ('FCASTS', ['XalanDOMChar']), 'SCOPE']
BAD = '(XV_IS_WS(theString[g_w]) && (g_w == 0 || g_w == theStringLength - 1 || theString[g_w] != 0x20 || XV_IS_WS(theString[g_w - 1])))'
UNIT = Unit(
    name='c02_normalize',
    props=['C02', 'C03'],
    blocks=[UNICODE_BLOCK],
    functions=[
        Fn(FN, r'^FunctionNormalizeSpace::normalize\(\s*XPathExecutionContext&\s+executionContext,\s*const XalanDOMString&\s+theString,\s*GetCachedString&\s+theResult\) const', 'normalize',
           'XObjectPtr normalize(XPathExecutionContext* executionContext, const XalanDOMString* theString, size_t theStringLength, GetCachedString* theResult)', rules=RN, nloops=1,
           loops={0: '''__CPROVER_assigns(i, theState, g_idx, g_looking, g_out_len, g_out_ends_space, g_ws_since, g_written_idx, g_any_written)
__CPROVER_loop_invariant(i <= theStringLength && g_out_len <= i && (g_looking == true ? (i > 0 && g_idx == i - 1) : i == 0))
__CPROVER_loop_invariant(/* every non-whitespace character looked at so far has been written */ (g_looking == true && !XV_IS_WS(g_in[g_idx])) ==> (g_any_written == true && g_written_idx == g_idx))
__CPROVER_loop_invariant(/* the state of the machine mirrors the result: eSpace = nothing written since the start or since ... ; eNonSpace = ends in a word character; eSpaceAppended = ends in the one space */
    (theState == eNonSpace || theState == eSpace || theState == eSpaceAppended) && (theState == eSpaceAppended) == (g_out_len > 0 && g_out_ends_space == true) && (theState == eSpace) == (g_out_len == 0)
    && (g_out_ends_space == true || g_out_ends_space == false) && (g_ws_since == true || g_ws_since == false) && (g_any_written == true || g_any_written == false))
__CPROVER_loop_invariant(/* whitespace was seen since the last word character iff the result now ends in the space (or is still empty) */ (g_out_len > 0 ==> (g_ws_since == g_out_ends_space)) && (g_out_len == 0 ==> g_out_ends_space == false) && (g_out_ends_space == true ==> g_out_len >= 2))
__CPROVER_loop_invariant(g_any_written == true ==> g_written_idx < i)
__CPROVER_decreases(theStringLength - i)'''},
           contract='''__CPROVER_requires(theStringLength <= ((size_t)1 << 40) && g_len == theStringLength && __CPROVER_is_fresh(g_in, (g_len + 1) * sizeof(XalanDOMChar)))
__CPROVER_requires(g_looking == false && g_out_len == 0 && g_out_ends_space == false && g_ws_since == false && g_any_written == false && g_result == RES_NONE)
__CPROVER_assigns(g_idx, g_looking, g_out_len, g_out_ends_space, g_ws_since, g_written_idx, g_any_written, g_result)
__CPROVER_ensures(/* normalize-space: the empty string for an argument of whitespace only, otherwise a string that does not end in a space */
    (g_result == RES_EMPTY && g_out_len == 0) || (g_result == RES_STRING && g_out_len > 0 && g_out_ends_space == false))
__CPROVER_ensures(/* the last non-whitespace character of the argument was written too */ (g_looking == true && !XV_IS_WS(g_in[g_idx])) ==> (g_any_written == true && g_written_idx == g_idx))'''),
        Fn(FN, r'^FunctionNormalizeSpace::needsNormalization\(const XalanDOMString&\s+theString\) const', 'needsNormalization',
           'bool needsNormalization(const XalanDOMChar* theString, size_t theStringLength)', rules=RQ, nloops=1,
           loops={0: '''__CPROVER_assigns(i, fNormalize, fPreviousIsSpace)
__CPROVER_loop_invariant(i <= theStringLength && (fNormalize == true || fNormalize == false) && (fPreviousIsSpace == true || fPreviousIsSpace == false))
__CPROVER_loop_invariant(/* so far no whitespace character that normalisation would change */ fNormalize == false ==> ((g_w < i ==> !''' + BAD + ''') && (i > 0 ==> fPreviousIsSpace == XV_IS_WS(theString[i - 1])) && (i == 0 ==> fPreviousIsSpace == false)))
__CPROVER_decreases(theStringLength - i)'''},
           contract='''__CPROVER_requires(theStringLength <= ((size_t)1 << 40) && __CPROVER_is_fresh(theString, (theStringLength + 1) * sizeof(XalanDOMChar)))
__CPROVER_assigns()
__CPROVER_ensures(/* the shortcut "already normalised" is taken only when no whitespace character is leading, trailing, other than #x20, or follows another one (instantiated at an arbitrary index) */
    __CPROVER_return_value == false ==> (g_w < theStringLength ==> !''' + BAD + '''))'''),
    ],
    template=TEMPLATE,
    jobs=[Job('normalize', 'h_normalize', enforce=['normalize'], replace=['isXMLWhitespace', 'xv_at', 'xv_push', 'xv_erase_last', 'xv_return_empty', 'xv_return_result'],
              loop_contracts=True, reach='all', timeout=600, min_obligations=8),
          Job('needsNormalization', 'h_needs', enforce=['needsNormalization'], replace=['isXMLWhitespace'], loop_contracts=True, reach='all', timeout=600, min_obligations=5)],
    mutants=[
        Mutant('space_after_space_state', FN, r'else if \(theState == eNonSpace\)', 'else if (theState != eSpaceAppended)', expect=None),
        Mutant('trailing_space_kept', FN, r'if \(theState == eSpaceAppended\)\s*\{\s*theNewString\.erase\(theNewString\.end\(\) - 1\);\s*\}', '', expect='does not end in a space'),
        Mutant('shortcut_ignores_tab', FN, r'theCurrentChar != XalanDOMChar\(XalanUnicode::charSpace\) \|\|\s*', '', expect='whitespace character that normalisation would change'),
        Mutant('shortcut_ignores_last', FN, r'i == theStringLength - 1 \|\|\s*', '', expect='whitespace character that normalisation would change'),
    ],
    mechanisms=['string functions of the core library (normalize-space)'],
    assumptions=['isXMLWhitespace is #x20 #x9 #xA #xD (proved against the real table in c04_chartables)',
                 'XalanDOMString push_back/erase/iterators behave like a sequence (c20_string); the result string is modelled by its length and whether it ends in a space',
                 'needsNormalization: only the soundness direction of the shortcut is proved (a needless "yes" just takes the slow path)'],
)
