from xvlib.unit import Fn, Job, Unit, Mutant

EN = 'src/xalanc/XSLT/ElemNumber.cpp'
TEMPLATE = r'''
#include "xv_shim.h"
typedef struct XalanNode XalanNode; typedef struct Ctx StylesheetExecutionContext; typedef struct XPath XPath; typedef struct Self Self;
enum { XPath_eMatchScoreNone = 0 };
bool g_maybe_attribute;    /* the node handed to the walk may be an attribute (xsl:number can be instantiated with an attribute as current node) */
int xv_match(const XPath* p, XalanNode* n) __CPROVER_requires(n != 0) __CPROVER_assigns() __CPROVER_ensures(1) ;
XalanNode* xv_prev_sibling(XalanNode* n) __CPROVER_requires(n != 0) __CPROVER_assigns() __CPROVER_ensures(1) ;
XalanNode* xv_last_child(XalanNode* n) __CPROVER_requires(n != 0) __CPROVER_assigns() __CPROVER_ensures(1) ;
/* DOMServices::getParentOfNode: the XPath parent (owner element for an attribute) */
XalanNode* xv_xpath_parent(XalanNode* n) __CPROVER_requires(n != 0) __CPROVER_assigns() __CPROVER_ensures(1) ;
/* XalanNode::getParentNode: null for attributes (DOM): must not be used to climb from a node that may be an attribute */
XalanNode* xv_dom_parent(XalanNode* n)
__CPROVER_requires(/* the raw DOM parent is only asked of nodes known not to be attributes */ n != 0 && !g_maybe_attribute) __CPROVER_assigns() __CPROVER_ensures(1) ;
@@FN findPrecedingOrAncestorOrSelf@@
void h_nav(void) { bool a; g_maybe_attribute = XV_BOOL(a); const XPath *f, *c; XalanNode* n; findPrecedingOrAncestorOrSelf(0, 0, f, c, n); }
'''
UNIT = Unit(
    name='c17_navigation',
    props=['C17'],
    functions=[Fn(EN, r'^ElemNumber::findPrecedingOrAncestorOrSelf\(', 'findPrecedingOrAncestorOrSelf',
                  'XalanNode* findPrecedingOrAncestorOrSelf(const Self* self, StylesheetExecutionContext* executionContext, const XPath* fromMatchPattern, const XPath* countMatchPattern, XalanNode* context)',
                  head_expect=r'^XalanNode\* ElemNumber::findPrecedingOrAncestorOrSelf\(',
                  rules=['SCOPE', (r'(\w+)->getMatchScore\(\s*thePos,\s*\*this,\s*executionContext\)', r'xv_match(\1, thePos)', 2),
                         (r'thePos->getPreviousSibling\(\)', 'xv_prev_sibling(thePos)', 1), (r'thePos->getLastChild\(\)', 'xv_last_child(thePos)', 2),
                         (r'DOMServices_getParentOfNode\(\*thePos\)', 'xv_xpath_parent(thePos)', (0, 1)), (r'(\w+)->getParentNode\(\)', r'xv_dom_parent(\1)', (0, 2))],
                  contract='''__CPROVER_requires(g_maybe_attribute == true)
__CPROVER_assigns()
__CPROVER_ensures(/* level="any" walk: memory-safe node navigation that never asks an attribute for its DOM parent */ 1)''',
                  loops={0: '__CPROVER_assigns(thePos)\n__CPROVER_loop_invariant(1)\n', 1: '__CPROVER_assigns(thePos, lastChild)\n__CPROVER_loop_invariant(thePos != 0)\n'}, nloops=2)],
    template=TEMPLATE,
    jobs=[Job('nav', 'h_nav', enforce=['findPrecedingOrAncestorOrSelf'], replace=['xv_match', 'xv_prev_sibling', 'xv_last_child', 'xv_xpath_parent', 'xv_dom_parent'],
              loop_contracts=True, reach=['entry:findPrecedingOrAncestorOrSelf', 'after_loop0:findPrecedingOrAncestorOrSelf'], timeout=120)],
    mutants=[Mutant('dom_parent', EN, r'thePos = DOMServices::getParentOfNode\(\*thePos\);', 'thePos = thePos->getParentNode();', expect='raw DOM parent')],
    mechanisms=['target / previous-node navigation per level'],
    assumptions=['a thin API-discipline contract: node accessors are arbitrary functions; only "never climb with the raw DOM parent from a possibly-attribute node" and null-safety are verified; termination of the tree walk is NOT verified (no tree model)'],
)
