from xvlib.unit import Fn, Job, Unit, Mutant, Block

XO = 'src/xalanc/XPath/XObject.cpp'
XOH = 'src/xalanc/XPath/XObject.hpp'

ENUM = Block(XOH, r'^\s*enum\s+eObjectType\s*\{', 'eObjectType',
             rules=[(r'enum\s+eObjectType', 'typedef enum', 1), (r'\}\s*;', '} XObject_eObjectType;', 1)])

OPS = ['equals', 'notEquals', 'lessThan', 'lessThanOrEquals', 'greaterThan', 'greaterThanOrEquals']
HELPER = {'equals': 'equalNodeSet', 'notEquals': 'notEqualNodeSet', 'lessThan': 'lessThanNodeSet',
          'lessThanOrEquals': 'lessThanOrEqualNodeSet', 'greaterThan': 'greaterThanNodeSet',
          'greaterThanOrEquals': 'greaterThanOrEqualNodeSet'}
MIRROR = {'equals': 'equals', 'notEquals': 'notEquals', 'lessThan': 'greaterThan', 'lessThanOrEquals': 'greaterThanOrEquals',
          'greaterThan': 'lessThan', 'greaterThanOrEquals': 'lessThanOrEquals'}
CEXPR = {'equals': '==', 'notEquals': '!=', 'lessThan': '<', 'lessThanOrEquals': '<=', 'greaterThan': '>', 'greaterThanOrEquals': '>='}
DS = {'equals': 'equal', 'notEquals': 'notEqual', 'lessThan': 'lessThan', 'lessThanOrEquals': 'lessThanOrEqual',
      'greaterThan': 'greaterThan', 'greaterThanOrEquals': 'greaterThanOrEqual'}

PRELUDE = r'''
#include "xv_shim.h"
typedef struct XObject XObject;                       /* opaque: every access goes through the accessor stubs */
typedef struct XPathExecutionContext XPathExecutionContext;
@@BLOCK eObjectType@@
enum { OP_none, OP_equals, OP_notEquals, OP_lessThan, OP_lessThanOrEquals, OP_greaterThan, OP_greaterThanOrEquals };

/* ghost: the two operands as XPath sees them: dynamic type and the three standard conversions */
const XObject *g_lhs, *g_rhs;
int g_tl, g_tr;           /* getType() */
bool g_bl, g_br;          /* boolean() conversion */
double g_nl, g_nr;        /* number() conversion */
int g_sl, g_sr;           /* string() conversion, abstracted to an identity: equal ids <=> equal strings */
/* ghost: the node-set helper that was called, its arguments and its (existential) result */
int g_alias;
int g_ns_op; const XObject *g_ns_set, *g_ns_other; int g_ns_type; bool g_ns_res;

typedef XObject_eObjectType eObjectType;
#define XV_L(p) ((p) == g_lhs)
XObject_eObjectType xv_getType(const XObject* o)
__CPROVER_requires(o == g_lhs || o == g_rhs) __CPROVER_assigns()
__CPROVER_ensures(__CPROVER_return_value == (XObject_eObjectType)(XV_L(o) ? g_tl : g_tr)) ;
bool xv_boolean(const XObject* o)
__CPROVER_requires(o == g_lhs || o == g_rhs) __CPROVER_assigns()
__CPROVER_ensures(__CPROVER_return_value == (XV_L(o) ? g_bl : g_br)) ;
double xv_num(const XObject* o)
__CPROVER_requires(o == g_lhs || o == g_rhs) __CPROVER_assigns()
__CPROVER_ensures(XV_SAME(__CPROVER_return_value, (XV_L(o) ? g_nl : g_nr))) ;
int xv_str(const XObject* o)
__CPROVER_requires(o == g_lhs || o == g_rhs) __CPROVER_assigns()
__CPROVER_ensures(__CPROVER_return_value == (XV_L(o) ? g_sl : g_sr)) ;

/* DoubleSupport comparisons: contracts PROVED in unit c02_dsarith */
#define DSCMP(name, op) bool DoubleSupport_##name(double theLHS, double theRHS) \
  __CPROVER_requires(1) __CPROVER_assigns() __CPROVER_ensures(__CPROVER_return_value == (theLHS op theRHS)) ;
DSCMP(equal, ==) DSCMP(notEqual, !=) DSCMP(lessThan, <) DSCMP(lessThanOrEqual, <=) DSCMP(greaterThan, >) DSCMP(greaterThanOrEqual, >=)

/* node-set comparison helpers (compareNodeSets family): XPath 3.4 existential rule, assumed; they record how they were called */
#define NSHELPER(name, code) bool name(const XObject* theLHS, const XObject* theRHS, XObject_eObjectType theRHSType, XPathExecutionContext* ec) \
  __CPROVER_requires(g_ns_op == OP_none) __CPROVER_assigns(g_ns_op, g_ns_set, g_ns_other, g_ns_type) \
  __CPROVER_ensures(g_ns_op == code && g_ns_set == theLHS && g_ns_other == theRHS && g_ns_type == (int)theRHSType && __CPROVER_return_value == g_ns_res) ;
NSHELPER(equalNodeSet, OP_equals) NSHELPER(notEqualNodeSet, OP_notEquals) NSHELPER(lessThanNodeSet, OP_lessThan)
NSHELPER(lessThanOrEqualNodeSet, OP_lessThanOrEquals) NSHELPER(greaterThanNodeSet, OP_greaterThan) NSHELPER(greaterThanOrEqualNodeSet, OP_greaterThanOrEquals)

#define XV_SCALAR(t) ((t) == eTypeBoolean || (t) == eTypeNumber || (t) == eTypeString || (t) == eTypeResultTreeFrag)
#define XV_XPATH(t) (XV_SCALAR(t) || (t) == eTypeNodeSet)
/* one object used as both operands has one type and one value */
#define XV_ALIAS_OK ((g_lhs != g_rhs) || (g_tl == g_tr && g_bl == g_br && XV_SAME(g_nl, g_nr) && g_sl == g_sr))
'''


def contract(op):
    eq = op in ('equals', 'notEquals')
    c = CEXPR[op]
    if eq:
        scalar = ('((g_tl == eTypeBoolean || g_tr == eTypeBoolean) ? (g_bl %s g_br) : '
                  '(g_tl == eTypeNumber || g_tr == eTypeNumber) ? (g_nl %s g_nr) : (g_sl %s g_sr))' % (c, c, c))
        rule = 'XPath 3.4: if either operand is a boolean compare boolean() of both, else if either is a number compare number() of both by IEEE 754, else compare string() of both'
    else:
        scalar = '(g_nl %s g_nr)' % c
        rule = 'XPath 3.4: both operands are converted with number() and compared by IEEE 754 (any NaN gives false)'
    return '''
__CPROVER_requires(self == g_lhs && theRHS == g_rhs && XV_ALIAS_OK && g_ns_op == OP_none)
__CPROVER_assigns(g_ns_op, g_ns_set, g_ns_other, g_ns_type)
__CPROVER_ensures(/* %(op)s, neither operand a node-set: %(rule)s -- also when both operands are the same object */
    (XV_SCALAR(g_tl) && XV_SCALAR(g_tr)) ==> (__CPROVER_return_value == %(scalar)s && g_ns_op == OP_none))
__CPROVER_ensures(/* %(op)s, left operand a node-set: the %(op)s node-set rule is applied to (left set, right operand) */
    (g_tl == eTypeNodeSet && XV_XPATH(g_tr)) ==> (g_ns_op == OP_%(op)s && g_ns_set == self && g_ns_other == theRHS && g_ns_type == g_tr && __CPROVER_return_value == g_ns_res))
__CPROVER_ensures(/* %(op)s, only the right operand a node-set: the mirrored rule %(mirror)s is applied to (right set, left operand) */
    (XV_SCALAR(g_tl) && g_tr == eTypeNodeSet) ==> (g_ns_op == OP_%(mirror)s && g_ns_set == theRHS && g_ns_other == self && g_ns_type == g_tl && __CPROVER_return_value == g_ns_res))
''' % dict(op=op, rule=rule, scalar=scalar, mirror=MIRROR[op])


def fn(op):
    return Fn(XO, r'^XObject::%s\(' % op, 'XObject_' + op,
              'bool XObject_%s(const XObject* self, const XObject* theRHS, XPathExecutionContext* executionContext)' % op,
              head_expect=r'^bool XObject::%s\( const XObject& theRHS, XPathExecutionContext& executionContext\) const$' % op,
              rules=['SCOPE',
                     (r'this == &theRHS', 'self == theRHS', (0, 3)),
                     (r'\*this\b', 'self', (2, 2)),
                     (r'theRHS\.getType\(\)', 'xv_getType(theRHS)', None),
                     (r'(?<![\w.])getType\(\)', 'xv_getType(self)', 1),
                     (r'theRHS\.(boolean|num|str)\(executionContext\)', r'xv_\1(theRHS)', None),
                     (r'(?<![\w.])(boolean|num|str)\(executionContext\)', r'xv_\1(self)', None)],
              contract=contract(op), nloops=0)


TEMPLATE = PRELUDE + '\n'.join('@@FN XObject_%s@@' % op for op in OPS) + r'''
static void xv_havoc(void)
{
    const XObject *a, *b; int i1, i2, i3, i4, i5; bool b1, b2, b3; double d1, d2; const XObject *c, *d;
    g_lhs = a; g_rhs = b; g_alias = (a == b); g_tl = i1; g_tr = i2; g_bl = XV_BOOL(b1); g_br = XV_BOOL(b2); g_nl = d1; g_nr = d2; g_sl = i3; g_sr = i4;
    g_ns_op = OP_none; g_ns_set = c; g_ns_other = d; g_ns_type = i5; g_ns_res = XV_BOOL(b3);
}
''' + '\n'.join('void h_%s(void) { xv_havoc(); XObject_%s(g_lhs, g_rhs, 0); }' % (op, op) for op in OPS)

REPL = ['xv_getType', 'xv_boolean', 'xv_num', 'xv_str'] + list(HELPER.values())

UNIT = Unit(
    name='c02_xobject',
    props=['C02'],
    blocks=[ENUM],
    functions=[fn(op) for op in OPS],
    template=TEMPLATE,
    jobs=[Job(op, 'h_' + op, enforce=['XObject_' + op], replace=REPL + ['DoubleSupport_' + DS[op]], cls='P',
              reach=['entry:XObject_' + op], timeout=300) for op in OPS],
    mutants=[
        Mutant('le_mirror', XO, r'(XObject::lessThanOrEquals\(.*?)return greaterThanOrEqualNodeSet\(theRHS, \*this', r'\1return greaterThanNodeSet(theRHS, *this', expect='mirrored'),
        Mutant('eq_number_before_boolean', XO, r'(XObject::equals\(.*?)if \(theLHSType == eTypeBoolean \|\| theRHSType == eTypeBoolean\)', r'\1if (theLHSType == eTypeBoolean && theRHSType == eTypeBoolean)', expect='neither operand'),
        Mutant('identity_shortcut', XO, r'(XObject::lessThanOrEquals\(.*?)const eObjectType   theLHSType = getType\(\);', r'\1if (this == &theRHS) return false; const eObjectType   theLHSType = getType();', expect='same object'),
        Mutant('gt_args_swapped', XO, r'(XObject::greaterThan\(.*?)DoubleSupport::greaterThan\(num\(executionContext\), theRHS\.num\(executionContext\)\)', r'\1DoubleSupport::greaterThan(theRHS.num(executionContext), num(executionContext))', expect='neither operand'),
    ],
    mechanisms=["type-pair comparison rules; identity shortcut 'this == &theRHS'"],
    replay='xobject', replay_inputs={k: '*::g_' + k for k in ('tl', 'tr', 'bl', 'br', 'nl', 'nr', 'sl', 'sr', 'alias')},
    assumptions=['compareNodeSets family (equalNodeSet ... greaterThanOrEqualNodeSet) implements the XPath 3.4 existential node-set rule: stubs here; the loops and the dispatch on the operand type behind them are proved in unit c02_nodesetcmp; which functor pair each of the six helpers passes on, and what the functors do, is proved in unit c02_nshelpers',
                 'XObject::boolean()/num()/str() virtual conversions are the XPath conversions (accessor stubs); strings abstracted to identities'],
)
