"""C16 (collation, ICU build): the collator that compares two text keys is the collator of THAT key's language.  getCachedCollator(locale)
returns the collator stored in the cache entry whose locale matched (never the one of a neighbouring entry, also after the entry is moved to
the front), or 0; doCompareCached compares with that collator, or with one created for this very locale and cached under this very locale."""
from xvlib.unit import Fn, Job, Unit, Mutant

IC = 'src/xalanc/ICUBridge/ICUBridgeCollationCompareFunctorImpl.cpp'
TEMPLATE = r'''
#include "xv_shim.h"
typedef struct Collator CollatorType; typedef int UErrorCode; typedef int XalanCollationServices_eCaseOrder; typedef struct Self Self;
enum { U_ZERO_ERROR = 0 };
#define U_SUCCESS(x) ((x) <= U_ZERO_ERROR)
#define XV_END (-1)
/* ghost cache: list nodes are identities (ints >= 0); g_found is the node whose locale equals the one asked for (XV_END: none), g_found_col its collator,
   g_front the node at the front; collators of different nodes are different objects.  g_i_valid: the iterator handed out by find is still usable */
int g_found; int g_front; CollatorType* g_found_col; bool g_i_valid; const XalanDOMChar* g_locale;
int xv_find(const XalanDOMChar* loc)
__CPROVER_requires(/* the cache is searched for the locale of this comparison */ loc == g_locale) __CPROVER_assigns() __CPROVER_ensures(__CPROVER_return_value == g_found) ;
int xv_begin(void) __CPROVER_requires(1) __CPROVER_assigns() __CPROVER_ensures(__CPROVER_return_value == g_front) ;
CollatorType* xv_node_collator(int it)
__CPROVER_requires(/* only a valid iterator to a real entry is dereferenced */ it >= 0 && (it == g_found ==> g_i_valid == true)) __CPROVER_assigns()
__CPROVER_ensures(__CPROVER_return_value != 0 && ((it == g_found) == (__CPROVER_return_value == g_found_col))) ;
/* list.splice(pos, list, i): moves node i in front of pos; pos stays an iterator to the node it pointed to; i is treated as invalidated (what the code itself assumes) */
void xv_splice(int pos, int i)
__CPROVER_requires(pos >= 0 && i >= 0 && i != pos && i == g_found && g_i_valid == true) __CPROVER_assigns(g_front, g_i_valid)
__CPROVER_ensures(g_i_valid == false && (pos == __CPROVER_old(g_front) ? g_front == i : g_front == __CPROVER_old(g_front))) ;
@@FN getCachedCollator@@
/* --- doCompareCached --- */
CollatorType* g_cached; CollatorType* g_created; bool g_cached_under_locale; int g_cmp_case; CollatorType* g_cmp_col; int g_fallback;
CollatorType* xv_getCachedCollator(const Self* s, const XalanDOMChar* loc) __CPROVER_requires(loc == g_locale) __CPROVER_assigns() __CPROVER_ensures(__CPROVER_return_value == g_cached) ;
CollatorType* xv_createCollator(const XalanDOMChar* loc, UErrorCode* st)
__CPROVER_requires(/* a new collator is made for the locale of this comparison */ loc == g_locale && __CPROVER_w_ok(st, sizeof(*st))) __CPROVER_assigns(*st, g_created)
__CPROVER_ensures(U_SUCCESS(*st) ? (g_created != 0 && g_created != g_cached) : g_created == 0) __CPROVER_ensures(__CPROVER_return_value == g_created) ;
void xv_cacheCollator(const Self* s, CollatorType* c, const XalanDOMChar* loc)
__CPROVER_requires(/* a collator is cached under the locale it was created for */ c != 0 && c == g_created && loc == g_locale) __CPROVER_assigns(g_cached_under_locale) __CPROVER_ensures(g_cached_under_locale == true) ;
int xv_doCompare4(const Self* s, CollatorType* c, const XalanDOMChar* l, const XalanDOMChar* r, int co)
__CPROVER_requires(c != 0) __CPROVER_assigns(g_cmp_col, g_cmp_case) __CPROVER_ensures(g_cmp_col == c && g_cmp_case == co) ;
int xv_default_functor(const XalanDOMChar* l, const XalanDOMChar* r, int co) __CPROVER_requires(1) __CPROVER_assigns(g_fallback) __CPROVER_ensures(g_fallback == 1) ;
@@FN doCompareCached@@
void h_getCachedCollator(void)
{
    int f, fr; CollatorType* c; const XalanDOMChar* loc; __CPROVER_assume(f >= XV_END && fr >= XV_END && c != 0 && (f != XV_END ==> fr != XV_END));
    g_found = f; g_front = fr; g_found_col = c; g_i_valid = true; g_locale = loc;
    getCachedCollator(0, loc);
}
void h_doCompareCached(void)
{
    CollatorType* c; const XalanDOMChar* loc; int co; g_cached = c; g_created = 0; g_cached_under_locale = false; g_cmp_col = 0; g_cmp_case = -1; g_fallback = 0; g_locale = loc;
    __CPROVER_assume(co >= 0 && co <= 2);
    doCompareCached(0, 0, 0, loc, co);
}
'''
R1 = [(r'using std::find_if;', '', (0, 1)),
      (r'CollatorCacheListType::iterator\s+i\s*=\s*(?:std::)?find_if\(\s*m_collatorCache\.begin\(\),\s*m_collatorCache\.end\(\),\s*CollationCacheStruct::CollatorFindFunctor\((\w+)\)\);', r'int i = xv_find(\1);', 1),
      (r'm_collatorCache\.end\(\)', 'XV_END', None),
      (r'const CollatorCacheListType::iterator\s+theBegin\s*=\s*m_collatorCache\.begin\(\);', 'const int theBegin = xv_begin();', (0, 1)),
      (r'm_collatorCache\.begin\(\)', 'xv_begin()', (0, 4)),
      (r'\(\*(\w+)\)\.m_collator', r'xv_node_collator(\1)', None),
      (r'(\w+)->m_collator', r'xv_node_collator(\1)', (0, 4)),
      (r'm_collatorCache\.splice\((\w+), m_collatorCache, (\w+)\);', r'xv_splice(\1, \2);', (0, 1))]
R2 = [(r'(?<![\w.>])getCachedCollator\(theLocale\)', 'xv_getCachedCollator(self, theLocale)', 1),
      (r'XalanAutoPtr<CollatorType>\s+theCollatorGuard\(createCollator\((\w+), theStatus\)\);', r'CollatorType* theCollatorGuard = xv_createCollator(\1, &theStatus);', 1),
      (r'theCollatorGuard\.get\(\)', 'theCollatorGuard', (0, 4)),
      (r'theCollatorGuard\.release\(\)', 'theCollatorGuard', (0, 2)),
      (r'(?<![\w.>])cacheCollator\(', 'xv_cacheCollator(self, ', (0, 1)),
      (r'(?<![\w.>])doCompare\(\s*\*(\w+),', r'xv_doCompare4(self, \1,', (1, 3)),
      (r's_defaultFunctor\(', 'xv_default_functor(', (0, 1))]
UNIT = Unit(
    name='c16_collcache',
    props=['C16'],
    functions=[
        Fn(IC, r'^ICUBridgeCollationCompareFunctorImpl::getCachedCollator\(const XalanDOMChar\*\s+theLocale\) const', 'getCachedCollator',
           'CollatorType* getCachedCollator(const Self* self, const XalanDOMChar* theLocale)', rules=R1, nloops=0,
           contract='''__CPROVER_requires(theLocale == g_locale && g_i_valid == true && g_found >= XV_END && g_front >= XV_END && g_found_col != 0 && (g_found != XV_END ==> g_front != XV_END))
__CPROVER_assigns(g_front, g_i_valid)
__CPROVER_ensures(/* a hit gives the collator stored with the matching locale; a miss gives 0 */
    g_found == XV_END ? __CPROVER_return_value == 0 : __CPROVER_return_value == g_found_col)'''),
        Fn(IC, r'^ICUBridgeCollationCompareFunctorImpl::doCompareCached\(', 'doCompareCached',
           'int doCompareCached(const Self* self, const XalanDOMChar* theLHS, const XalanDOMChar* theRHS, const XalanDOMChar* theLocale, XalanCollationServices_eCaseOrder theCaseOrder)', rules=R2, nloops=0,
           contract='''__CPROVER_requires(theLocale == g_locale && g_created == 0 && g_cached_under_locale == false && g_cmp_col == 0 && g_fallback == 0)
__CPROVER_assigns(g_created, g_cached_under_locale, g_cmp_col, g_cmp_case, g_fallback)
__CPROVER_ensures(/* compared with the cached collator of this locale; else with one created for (and cached under) this locale; the plain functor only when ICU cannot make one */
    g_cached != 0 ? (g_cmp_col == g_cached && g_fallback == 0 && g_created == 0)
                  : (g_created != 0 ? (g_cmp_col == g_created && g_cached_under_locale == true && g_fallback == 0) : (g_cmp_col == 0 && g_fallback == 1)))
__CPROVER_ensures(/* with the case order of this key */ g_cmp_col != 0 ==> g_cmp_case == theCaseOrder)'''),
    ],
    template=TEMPLATE,
    jobs=[Job('getCachedCollator', 'h_getCachedCollator', enforce=['getCachedCollator'], replace=['xv_find', 'xv_begin', 'xv_node_collator', 'xv_splice'], reach='all', timeout=120, min_obligations=3),
          Job('doCompareCached', 'h_doCompareCached', enforce=['doCompareCached'], replace=['xv_getCachedCollator', 'xv_createCollator', 'xv_cacheCollator', 'xv_doCompare4', 'xv_default_functor'], reach='all', timeout=120, min_obligations=3)],
    mutants=[
        Mutant('returns_front_after_splice', IC, r'CollatorType\* const     theCollator = \(\*i\)\.m_collator;(.*?)return theCollator;', r'\1return (*theBegin).m_collator;', expect='matching locale'),
        Mutant('use_iterator_after_splice', IC, r'CollatorType\* const     theCollator = \(\*i\)\.m_collator;(.*?)return theCollator;', r'\1return (*i).m_collator;', expect='valid iterator'),
        Mutant('new_collator_not_cached', IC, r'            cacheCollator\(theCollatorGuard\.get\(\), theLocale\);\n', '', expect='created for'),
    ],
    mechanisms=['collation (ICU in this build)'],
    assumptions=['the collator cache is modelled by node identities: find_if returns the node whose locale equals the argument (CollatorFindFunctor compares locale strings; library find_if), distinct nodes hold distinct collators, splice keeps pos valid and is taken to invalidate the moved iterator',
                 'cacheCollator (eviction of the oldest entry) and createCollator (ICU locale parsing) are not under contract'],
)
