from xvlib.unit import Fn, Job, Unit, Mutant, Block

DH = 'src/xalanc/PlatformSupport/DOMStringHelper.cpp'

CONSTS = Block(DH, r'^const size_t\s+MAX_PRINTF_DIGITS', 'consts', end=r'MAX_FLOAT_CHARACTERS\s*=[^;]+;',
               rules=[(r'const size_t\s+(\w+)\s*=\s*([^;]+);', r'#define \1 ((size_t)(\2))', 2)])
PRINTF = Block(DH, r'^static const char\* const\s+thePrintfStrings\[\]', 'thePrintfStrings')

PRELUDE = r'''
#include "xv_shim.h"
typedef struct XalanDOMString XalanDOMString;
typedef struct FormatterListener FormatterListener;
typedef int MemberFunctionPtr;
@@BLOCK consts@@
@@BLOCK thePrintfStrings@@
#define XV_NFORMATS ((int)(sizeof(thePrintfStrings) / sizeof(thePrintfStrings[0])) - 1)   /* 26 */

/* ghost state written by the stub contracts (never by the extracted code) */
size_t g_w;                 /* arbitrary witness index */
char g_dp;                  /* locale decimal point as printed by sprintf */
int g_n0, g_dppos;          /* length and point position of the last sprintf output */
bool g_neg;                 /* last sprintf argument was negative */
double g_last_atof;         /* value returned by the last atof */
int g_out_kind;             /* which output stub was reached */
enum { XV_OUT_NONE, XV_OUT_NAN, XV_OUT_PINF, XV_OUT_NINF, XV_OUT_ZERO, XV_OUT_INT, XV_OUT_FRAC };
XMLInt64 g_out_int;

#define XV_CL(i) ((i) < 346 ? (i) : 0)   /* clamp a ghost index into the 347-byte buffer for unconditional evaluation */
#define XV_ISDIGIT(c) ((c) >= '0' && (c) <= '9')
#define XV_FIDXU(p) ((size_t)__CPROVER_POINTER_OFFSET(p) / sizeof(char*))
#define XV_FIDX(p) ((int)(XV_FIDXU(p) <= 64 ? XV_FIDXU(p) : 64))
#define XV_FMT_OK(p) (__CPROVER_same_object((p), thePrintfStrings) && __CPROVER_POINTER_OFFSET(p) % sizeof(char*) == 0)
#define XV_PREC(p) (10 + XV_FIDX(p))
/* integer digits printed by %f: at most 309 for any finite double; below 1e19 at most 19 (+1 for a rounding carry) */
#define XV_IDMAX(x) (XV_ABS(x) < 1e19 ? 20 : 309)
#define XV_NEG(x) ((x) < 0 ? 1 : 0)

/* --- model of sprintf(buf, "%.Nf", x) per ISO C11 7.21.6.1 (assumed; the PRECONDITION "it fits" is verified) */
int xv_sprintf_f(char* buf, const char* const* fmt, double x)
__CPROVER_requires(XV_FMT_OK(fmt) && XV_FIDXU(fmt) < (size_t)XV_NFORMATS)
__CPROVER_requires(XV_FINITE(x))
__CPROVER_requires(/* sprintf("%.Nf") of a finite double writes sign + up to 309 integer digits (20 below 1e19) + point + N decimals + NUL: this must fit the destination buffer */
    (size_t)(XV_NEG(x) + XV_IDMAX(x) + 1 + XV_PREC(fmt) + 1) <= __CPROVER_OBJECT_SIZE(buf) - __CPROVER_POINTER_OFFSET(buf))
__CPROVER_assigns(__CPROVER_object_whole(buf), g_n0, g_dppos, g_neg)
__CPROVER_ensures(__CPROVER_return_value >= XV_NEG(x) + 2 + XV_PREC(fmt) && __CPROVER_return_value <= XV_NEG(x) + XV_IDMAX(x) + 1 + XV_PREC(fmt))
__CPROVER_ensures(g_n0 == __CPROVER_return_value && g_dppos == __CPROVER_return_value - XV_PREC(fmt) - 1 && g_neg == (x < 0))
__CPROVER_ensures(buf[__CPROVER_return_value] == 0 && buf[__CPROVER_return_value - XV_PREC(fmt) - 1] == g_dp)
__CPROVER_ensures(x < 0 ==> buf[0] == '-')
__CPROVER_ensures(/* the digit before the point */ XV_ISDIGIT(buf[__CPROVER_return_value - XV_PREC(fmt) - 2]))
__CPROVER_ensures(/* every other position holds a digit (ghost witness) */ (g_w < (size_t)__CPROVER_return_value && g_w != (size_t)(__CPROVER_return_value - XV_PREC(fmt) - 1) && !(x < 0 && g_w == 0)) ==> XV_ISDIGIT(buf[XV_CL(g_w)]))
;
double xv_atof_buf(const char* buf)
__CPROVER_requires(1)
__CPROVER_assigns(g_last_atof)
__CPROVER_ensures(XV_SAME(__CPROVER_return_value, g_last_atof))
;
/* isdigit(theBuffer[i]): reads the buffer; additionally delivers, at the queried index, the universal fact
   of the sprintf model "every position other than the sign and the decimal point holds a digit" */
bool xv_isdigit_at(const char* buf, int i)
__CPROVER_requires(i >= 0 && i <= g_n0)
__CPROVER_assigns()
__CPROVER_ensures(__CPROVER_return_value == XV_ISDIGIT(buf[i]))
__CPROVER_ensures((i < g_n0 && i != g_dppos && !(g_neg && i == 0)) ==> __CPROVER_return_value == true)
__CPROVER_ensures((i == g_dppos || (g_neg && i == 0) || i == g_n0) ==> __CPROVER_return_value == false)
;
void xv_out_literal(void* out, int kind)
__CPROVER_requires(1) __CPROVER_assigns(g_out_kind) __CPROVER_ensures(g_out_kind == kind) ;
void xv_out_int64(XMLInt64 v, void* out)
__CPROVER_requires(1) __CPROVER_assigns(g_out_kind, g_out_int) __CPROVER_ensures(g_out_kind == XV_OUT_INT && g_out_int == v) ;
void xv_reserve(void* out, int n) __CPROVER_requires(n >= 0) __CPROVER_assigns() __CPROVER_ensures(1) ;

/* the fractional output: its PRECONDITIONS are the clauses of the property statement about string(x) */
void xv_out_fraction(const char* buf, int len, void* out, double x, const char* const* nextfmt)
__CPROVER_requires(/* string(x): at least one character after an optional sign */ len >= 1 + (g_neg ? 1 : 0) && len <= g_n0)
__CPROVER_requires(/* string(x): only digits, a leading '-' only for negative values, '.' only as the decimal point: no exponent (ghost witness index) */
    (g_w < (size_t)len) ==> (XV_ISDIGIT(buf[XV_CL(g_w)]) || (g_w == 0 && g_neg && x < 0 && buf[0] == '-') || (g_w == (size_t)g_dppos && buf[XV_CL(g_w)] == '.')))
__CPROVER_requires(/* string(x): a digit on each side of any decimal point */ XV_ISDIGIT(buf[len - 1]) && g_dppos >= (g_neg ? 1 : 0) + 1 && len >= g_dppos)
__CPROVER_requires(/* string(x): no superfluous trailing zeros and no trailing point */ len > g_dppos ==> (len >= g_dppos + 2 && buf[len - 1] != '0'))
__CPROVER_requires(/* string(x): the decimal point is '.' whatever the locale prints */ len > g_dppos ==> buf[g_dppos] == '.')
__CPROVER_requires(/* number(string(x)) == x: the printed decimal converts back to x (a precision of the list sufficed) */ (XV_FIDXU(nextfmt) < (size_t)XV_NFORMATS) ==> g_last_atof == x)
__CPROVER_requires(/* number(string(x)) == x ALSO when the precision list %.10f..%.35f is exhausted (doubles needing more than 35 decimals) */ (XV_FIDXU(nextfmt) >= (size_t)XV_NFORMATS) ==> g_last_atof == x)
__CPROVER_assigns(g_out_kind) __CPROVER_ensures(g_out_kind == XV_OUT_FRAC) ;
'''

LOOP_FMT = r'''
__CPROVER_assigns(theCharsWritten, thePrintfString, __CPROVER_object_whole(theBuffer), g_n0, g_dppos, g_neg, g_last_atof)
__CPROVER_loop_invariant(XV_FMT_OK(thePrintfString) && XV_FIDXU(thePrintfString) < (size_t)XV_NFORMATS)
__CPROVER_decreases(XV_NFORMATS - XV_FIDX(thePrintfString))
'''
LOOP_STRIP = r'''
__CPROVER_assigns(theCharsWritten)
__CPROVER_loop_invariant(theCharsWritten > g_dppos && theCharsWritten <= g_n0)
__CPROVER_decreases(theCharsWritten)
'''
LOOP_POINT = r'''
__CPROVER_assigns(theCurrentIndex, __CPROVER_object_whole(theBuffer))
__CPROVER_loop_invariant(theCurrentIndex >= g_dppos && theCurrentIndex <= __CPROVER_loop_entry(theCurrentIndex) && theCurrentIndex < g_n0)
__CPROVER_loop_invariant(theBuffer[g_dppos] == g_dp && (g_neg ==> theBuffer[0] == '-'))
__CPROVER_loop_invariant(theBuffer[theCharsWritten - 1] == __CPROVER_loop_entry(theBuffer[theCharsWritten - 1]))
__CPROVER_loop_invariant(theBuffer[g_dppos - 1] == __CPROVER_loop_entry(theBuffer[g_dppos - 1]))
__CPROVER_loop_invariant((g_w != (size_t)g_dppos) ==> theBuffer[XV_CL(g_w)] == __CPROVER_loop_entry(theBuffer[XV_CL(g_w)]))
__CPROVER_decreases(theCurrentIndex)
'''

CLASSIFY = r'''
__CPROVER_ensures(/* string(x): NaN prints NaN */ XV_ISNAN(theValue) ==> g_out_kind == XV_OUT_NAN)
__CPROVER_ensures(/* string(x): +Infinity prints Infinity */ (XV_ISINF(theValue) && theValue > 0) ==> g_out_kind == XV_OUT_PINF)
__CPROVER_ensures(/* string(x): -Infinity prints -Infinity */ (XV_ISINF(theValue) && theValue < 0) ==> g_out_kind == XV_OUT_NINF)
__CPROVER_ensures(/* string(x): both zeros print 0 */ theValue == 0.0 ==> g_out_kind == XV_OUT_ZERO)
__CPROVER_ensures(/* string(x): integral values inside the 64-bit range are printed by the integer formatter with exactly that value */
    (XV_FINITE(theValue) && theValue != 0.0 && theValue > -9223372036854775808.0 && theValue < 9223372036854775808.0 && (double)(XMLInt64)theValue == theValue)
        ==> (g_out_kind == XV_OUT_INT && (double)g_out_int == theValue))
__CPROVER_ensures(/* string(x): every other finite value goes through the decimal formatter */
    (XV_FINITE(theValue) && theValue != 0.0 && (theValue < -9223372036854775808.0 || theValue >= 9223372036854775808.0 || (theValue > -9223372036854775808.0 && (double)(XMLInt64)theValue != theValue)))
        ==> g_out_kind == XV_OUT_FRAC)
'''

COMMON_RULES = [
    'CASTS', 'SCOPE',
    (r'sprintf\(theBuffer, \*thePrintfString, theValue\)', 'xv_sprintf_f(theBuffer, thePrintfString, theValue)', 1),
    (r'atof\(theBuffer\)', 'xv_atof_buf(theBuffer)', 1),
    (r'isdigit\(theBuffer\[(\w+)\]\)', r'xv_isdigit_at(theBuffer, \1)', 2),
]

N2S = Fn(DH, r'^NumberToDOMString\(\s*double\s+theValue,', 'NumberToDOMString_double',
         'void* NumberToDOMString_double(double theValue, void* theResult)',
         head_expect=r'NumberToDOMString\( double theValue, XalanDOMString& theResult\)$',
         rules=COMMON_RULES + [
             (r'theResult\.append\(\s*theNaNString,[^;]*;', 'xv_out_literal(theResult, XV_OUT_NAN);', (0, 4)),
             (r'theResult\.append\(\s*thePositiveInfinityString,[^;]*;', 'xv_out_literal(theResult, XV_OUT_PINF);', (0, 4)),
             (r'theResult\.append\(\s*theNegativeInfinityString,[^;]*;', 'xv_out_literal(theResult, XV_OUT_NINF);', (0, 4)),
             (r'theResult\.append\(\s*theZeroString,[^;]*;', 'xv_out_literal(theResult, XV_OUT_ZERO);', (0, 4)),
             (r'NumberToDOMString\(\(\(XMLInt64\)\(theValue\)\), theResult\)', 'xv_out_int64(((XMLInt64)(theValue)), theResult)', 1),
             (r'theResult\.reserve\(theResult\.length\(\) \+ theCharsWritten\);', 'xv_reserve(theResult, theCharsWritten);', 1),
             (r'TranscodeNumber\(\s*theBuffer,\s*theBuffer \+ theCharsWritten,\s*back_inserter\(theResult\)\);',
              'xv_out_fraction(theBuffer, theCharsWritten, theResult, theValue, thePrintfString);', 1),
         ],
         contract='__CPROVER_requires(g_w <= 100000 && g_out_kind == XV_OUT_NONE && g_dp != 0 && g_dp != \'0\' && !XV_ISDIGIT(g_dp) && g_dp != \'-\')\n'
                  '__CPROVER_assigns(g_out_kind, g_out_int, g_n0, g_dppos, g_neg, g_last_atof)\n' + CLASSIFY,
         loops={0: LOOP_FMT, 1: LOOP_STRIP, 2: LOOP_POINT}, nloops=3)

N2C = Fn(DH, r'^DOMStringHelper::NumberToCharacters\(\s*double\s+theValue,', 'NumberToCharacters_double',
         'void NumberToCharacters_double(double theValue, void* formatterListener, MemberFunctionPtr function)',
         head_expect=r'DOMStringHelper::NumberToCharacters\( double theValue, FormatterListener& formatterListener, MemberFunctionPtr function\)$',
         rules=COMMON_RULES + [
             (r'\(formatterListener\.\*function\)\(\s*theNaNString,[^;]*;', 'xv_out_literal(formatterListener, XV_OUT_NAN);', (0, 4)),
             (r'\(formatterListener\.\*function\)\(\s*thePositiveInfinityString,[^;]*;', 'xv_out_literal(formatterListener, XV_OUT_PINF);', (0, 4)),
             (r'\(formatterListener\.\*function\)\(\s*theNegativeInfinityString,[^;]*;', 'xv_out_literal(formatterListener, XV_OUT_NINF);', (0, 4)),
             (r'\(formatterListener\.\*function\)\(\s*theZeroString,[^;]*;', 'xv_out_literal(formatterListener, XV_OUT_ZERO);', (0, 4)),
             (r'NumberToCharacters\(\(\(XMLInt64\)\(theValue\)\), formatterListener, function\)', 'xv_out_int64(((XMLInt64)(theValue)), formatterListener)', 1),
             (r'XalanDOMChar\s+theResult\[(\w+) \+ 1\];', r'XalanDOMChar theResult[\1 + 1];', 1),
             (r'TranscodeNumber\(\s*theBuffer,\s*theBuffer \+ theCharsWritten,\s*&theResult\[0\]\);',
              'xv_transcode_to_array(theBuffer, theCharsWritten, &theResult[0]);', 1),
             (r'\(formatterListener\.\*function\)\(\s*theResult,\s*theCharsWritten\);',
              'xv_out_fraction(theBuffer, theCharsWritten, formatterListener, theValue, thePrintfString);', 1),
         ],
         contract='__CPROVER_requires(g_w <= 100000 && g_out_kind == XV_OUT_NONE && g_dp != 0 && g_dp != \'0\' && !XV_ISDIGIT(g_dp) && g_dp != \'-\')\n'
                  '__CPROVER_assigns(g_out_kind, g_out_int, g_n0, g_dppos, g_neg, g_last_atof)\n' + CLASSIFY,
         loops={0: LOOP_FMT, 1: LOOP_STRIP, 2: LOOP_POINT}, nloops=3)

TEMPLATE = PRELUDE + r'''
/* TranscodeNumber(begin, end, XalanDOMChar* out): copies end-begin units; the destination must hold them */
void xv_transcode_to_array(const char* buf, int len, XalanDOMChar* out)
__CPROVER_requires(/* the UTF-16 result buffer holds the transcoded characters */ len >= 0 && (size_t)len * sizeof(XalanDOMChar) <= __CPROVER_OBJECT_SIZE(out) - __CPROVER_POINTER_OFFSET(out))
__CPROVER_assigns(__CPROVER_object_whole(out)) __CPROVER_ensures(1) ;

@@FN NumberToDOMString_double@@
@@FN NumberToCharacters_double@@

static void xv_havoc(void)
{
    size_t a; char c; int i, j, k; bool b; double d; XMLInt64 l;
    g_w = a; g_dp = c; g_n0 = i; g_dppos = j; g_neg = XV_BOOL(b); g_last_atof = d; g_out_kind = XV_OUT_NONE; g_out_int = l; (void)k;
}
/* the format table the sprintf model (xv_sprintf_f) stands for: entry k is exactly "%.<10+k>f" (fixed notation, never %g / %e: string(x) has no exponent), then the null terminator */
void h_printf_table(void)
{
    int k; __CPROVER_assume(k >= 0 && k < XV_NFORMATS);
    const char* const f = thePrintfStrings[k];
    XV_REACH("h_printf_table");
    __CPROVER_assert(f != 0 && f[0] == '%' && f[1] == '.' && f[2] == '0' + (10 + k) / 10 && f[3] == '0' + (10 + k) % 10 && f[4] == 'f' && f[5] == 0, "thePrintfStrings[k] is \"%.Nf\" with N = 10 + k: fixed notation with increasing precision");
    __CPROVER_assert(XV_NFORMATS == 26 && thePrintfStrings[XV_NFORMATS] == 0, "the list runs from %.10f to %.35f and ends with a null pointer");
}
void h_n2s(void) { xv_havoc(); double x; NumberToDOMString_double(x, 0); }
void h_n2c(void) { xv_havoc(); double x; NumberToCharacters_double(x, 0, 0); }
'''

REPL = ['xv_sprintf_f', 'xv_atof_buf', 'xv_isdigit_at', 'xv_out_literal', 'xv_out_int64', 'xv_reserve', 'xv_out_fraction', 'xv_transcode_to_array']

UNIT = Unit(
    name='c18_num2str',
    props=['C18', 'C03', 'C11'],
    blocks=[CONSTS, PRINTF],
    functions=[N2S, N2C],
    template=TEMPLATE,
    jobs=[
        Job('printf_table', 'h_printf_table', dfcc=False, reach=['h_printf_table'], timeout=120, min_obligations=2),
        Job('NumberToDOMString', 'h_n2s', enforce=['NumberToDOMString_double'], replace=[r for r in REPL if r != 'xv_transcode_to_array'],
            loop_contracts=True, flags=['--object-bits', '12', '--conversion-check'], timeout=900,
            reach=['entry:NumberToDOMString_double'] + ['after_loop%d:NumberToDOMString_double' % k for k in (0, 1, 2)]),
        Job('NumberToCharacters', 'h_n2c', enforce=['NumberToCharacters_double'], replace=REPL,
            loop_contracts=True, flags=['--object-bits', '12', '--conversion-check'], timeout=900,
            reach=['entry:NumberToCharacters_double'] + ['after_loop%d:NumberToCharacters_double' % k for k in (0, 1, 2)]),
    ],
    mutants=[
        Mutant('format_20_is_g', DH, r'"%\.20f",', '"%.20g",', expect='fixed notation'),
        Mutant('buffer_100', DH, r'char            theBuffer\[MAX_FLOAT_CHARACTERS \+ 1\];', 'char            theBuffer[MAX_PRINTF_DIGITS + 1];', expect='must fit the destination buffer'),
        Mutant('guard_2p63', DH, r'theValue < 9223372036854775808\.0 &&', 'theValue <= 9223372036854775807.0 &&', expect=None, count=2),
        Mutant('strip_inverted', DH, r'if\(isdigit\(theBuffer\[theCharsWritten\]\)\)', 'if(!isdigit(theBuffer[theCharsWritten]))', expect='string(x)', count=2),
        Mutant('zero_branch_lost', DH, r'else if \(DoubleSupport::isPositiveZero\(theValue\) == true \|\|\s*DoubleSupport::isNegativeZero\(theValue\) == true\)', 'else if (DoubleSupport::isPositiveZero(theValue) == true)', expect=None, count=2),
    ],
    mechanisms=['double to string', 'number to string via sprintf into stack buffer; int64 cast of arbitrary double'],
    replay='num2str', replay_inputs={'x': '*::x'},
    assumptions=['sprintf("%.Nf") follows ISO C11 7.21.6.1: [-]ddd.ddd with exactly N decimals, at least one integer digit, at most 309 integer digits, NUL-terminated (stub xv_sprintf_f / xv_isdigit_at)',
                 'atof is the C library (stub xv_atof_buf, unconstrained result)',
                 'NumberToDOMString(XMLInt64) prints the exact integer (separately proved digits loop: unit c03_scalar2str)'],
)
