from xvlib.unit import Fn, Job, Unit, Mutant, Block

ML = 'src/xalanc/XPath/MutableNodeRefList.cpp'
MLH = 'src/xalanc/XPath/MutableNodeRefList.hpp'
XN = 'src/xalanc/XalanDOM/XalanNode.hpp'

NODETYPE = Block(XN, r'^\s*enum NodeType\s*\{', 'NodeType',
                 rules=[(r'enum NodeType', 'typedef enum', 1), (r'\b([A-Z_]+_NODE)\b', r'XalanNode_\1', None), (r'\}\s*;', '} XalanNode_NodeType;', 1)])
EORDER = Block(MLH, r'^\s*enum eOrder\s*\{', 'eOrder', rules=[(r'enum eOrder', 'typedef enum', 1), (r'\}\s*;', '} eOrder;', 1)])

PRELUDE = r'''
#include "xv_shim.h"
typedef struct XalanNode XalanNode;                       /* opaque */
typedef XalanNode** NodeListIteratorType;
typedef struct XPathExecutionContext XPathExecutionContext;
typedef struct MutableNodeRefList MutableNodeRefList;     /* opaque: all access through the list stubs */
@@BLOCK NodeType@@
@@BLOCK eOrder@@

/* ghost: the receiving list (length, first and last element), the node being added, and what is known of each */
size_t g_n;
const XalanNode *g_first, *g_last, *g_node;
int g_type_first, g_type_last, g_type_node;               /* getNodeType() */
const XalanNode *g_own_first, *g_own_last, *g_own_node;   /* getOwnerDocument() */
bool g_indexed_node;                                      /* node->isIndexed() */
/* ghost: what the function did */
enum { S_NONE, S_BINARY, S_LINEAR_INDEX, S_LINEAR_EXEC };
enum { A_NONE, A_APPEND_TO_EMPTY, A_INSERT };
int g_search, g_action; bool g_fInsert; NodeListIteratorType g_ip;
/* normalised owner: a document (fragment) node owns itself */
#define XV_ISDOC(t) ((t) == XalanNode_DOCUMENT_NODE || (t) == XalanNode_DOCUMENT_FRAGMENT_NODE)
#define NO_FIRST (XV_ISDOC(g_type_first) ? g_first : g_own_first)
#define NO_LAST (XV_ISDOC(g_type_last) ? g_last : g_own_last)
#define XV_WHICH(p, a, b, c) ((p) == g_node ? (a) : (p) == g_first ? (b) : (c))

size_t xv_list_size(const MutableNodeRefList* l) __CPROVER_requires(1) __CPROVER_assigns() __CPROVER_ensures(__CPROVER_return_value == g_n) ;
const XalanNode* xv_list_front(const MutableNodeRefList* l) __CPROVER_requires(g_n > 0) __CPROVER_assigns() __CPROVER_ensures(__CPROVER_return_value == g_first && g_first != 0) ;
const XalanNode* xv_list_back(const MutableNodeRefList* l) __CPROVER_requires(g_n > 0) __CPROVER_assigns() __CPROVER_ensures(__CPROVER_return_value == g_last && g_last != 0) ;
NodeListIteratorType xv_list_begin(MutableNodeRefList* l) __CPROVER_requires(1) __CPROVER_assigns() __CPROVER_ensures(1) ;
NodeListIteratorType xv_list_end(MutableNodeRefList* l) __CPROVER_requires(1) __CPROVER_assigns() __CPROVER_ensures(1) ;
XalanNode_NodeType xv_nodeType(const XalanNode* p)
__CPROVER_requires(p == g_node || p == g_first || p == g_last) __CPROVER_assigns()
__CPROVER_ensures((int)__CPROVER_return_value == XV_WHICH(p, g_type_node, g_type_first, g_type_last)) ;
const XalanNode* xv_owner(const XalanNode* p)
__CPROVER_requires(p == g_node || p == g_first || p == g_last) __CPROVER_assigns()
__CPROVER_ensures(__CPROVER_return_value == XV_WHICH(p, g_own_node, g_own_first, g_own_last)) ;
bool xv_isIndexed(const XalanNode* p) __CPROVER_requires(p == g_node) __CPROVER_assigns() __CPROVER_ensures(__CPROVER_return_value == g_indexed_node) ;
void xv_addNode(MutableNodeRefList* l, XalanNode* n)
__CPROVER_requires(g_action == A_NONE && g_n == 0 && n == g_node) __CPROVER_assigns(g_action) __CPROVER_ensures(g_action == A_APPEND_TO_EMPTY) ;
void xv_list_insert(MutableNodeRefList* l, NodeListIteratorType ip, XalanNode* n)
__CPROVER_requires(/* the node is inserted exactly where the search said */ g_action == A_NONE && g_search != S_NONE && g_fInsert && ip == g_ip && n == g_node)
__CPROVER_assigns(g_action) __CPROVER_ensures(g_action == A_INSERT) ;

/* the three searches, by contract (their bodies are proved in unit c12_search); each records that it ran */
bool findInsertionPointBinarySearch(XalanNode* node, NodeListIteratorType b, NodeListIteratorType e, NodeListIteratorType* ip)
__CPROVER_requires(/* binary search by index needs a list of nodes of ONE indexed document, the node's: first and last element must belong to it (documents are never interleaved, C12) */
    node == g_node && g_indexed_node && NO_FIRST == g_own_node && NO_LAST == g_own_node)
__CPROVER_requires(g_search == S_NONE && __CPROVER_is_fresh(ip, sizeof(*ip)))
__CPROVER_assigns(g_search, *ip) __CPROVER_ensures(g_search == S_BINARY && __CPROVER_return_value == g_fInsert && *ip == g_ip) ;
bool findInsertionPointLinearSearch_Index(XalanNode* node, NodeListIteratorType b, NodeListIteratorType e, NodeListIteratorType* ip)
__CPROVER_requires(/* IndexPredicate compares indices: the node must be indexed */ node == g_node && g_indexed_node)
__CPROVER_requires(g_search == S_NONE && __CPROVER_is_fresh(ip, sizeof(*ip)))
__CPROVER_assigns(g_search, *ip) __CPROVER_ensures(g_search == S_LINEAR_INDEX && __CPROVER_return_value == g_fInsert && *ip == g_ip) ;
bool findInsertionPointLinearSearch_Exec(XalanNode* node, NodeListIteratorType b, NodeListIteratorType e, NodeListIteratorType* ip, XPathExecutionContext* ec)
__CPROVER_requires(node == g_node && g_search == S_NONE && __CPROVER_is_fresh(ip, sizeof(*ip)))
__CPROVER_assigns(g_search, *ip) __CPROVER_ensures(g_search == S_LINEAR_EXEC && __CPROVER_return_value == g_fInsert && *ip == g_ip) ;

/* ---- bulk merge ---- */
enum { B_NONE, B_ASSIGN_COPY, B_REVERSED_COPY, B_EACH_FORWARD, B_EACH_REVERSE };
int g_bulk; int g_other_order; bool g_empty;
eOrder xv_order(const MutableNodeRefList* l) __CPROVER_requires(1) __CPROVER_assigns() __CPROVER_ensures((int)__CPROVER_return_value == g_other_order) ;
bool xv_list_empty(const MutableNodeRefList* l) __CPROVER_requires(1) __CPROVER_assigns() __CPROVER_ensures(__CPROVER_return_value == g_empty) ;
#define BULK(name, code) void name(MutableNodeRefList* self, const MutableNodeRefList* other) \
  __CPROVER_requires(g_bulk == B_NONE) __CPROVER_assigns(g_bulk) __CPROVER_ensures(g_bulk == code) ;
BULK(xv_assign_list, B_ASSIGN_COPY) BULK(xv_copy_reversed, B_REVERSED_COPY) BULK(xv_for_each_forward, B_EACH_FORWARD) BULK(xv_for_each_reverse, B_EACH_REVERSE)
'''

ADD_CONTRACT = r'''
__CPROVER_requires(node == g_node && g_search == S_NONE && g_action == A_NONE)
__CPROVER_requires(/* every node that is not a document (fragment) has an owner document */ (XV_ISDOC(g_type_first) || g_own_first != 0) && (XV_ISDOC(g_type_last) || g_own_last != 0) && g_first != 0 && g_last != 0)
__CPROVER_requires(/* one object has one type and one owner */ (g_first != g_last || (g_type_first == g_type_last && g_own_first == g_own_last)) &&
    (g_node != g_first || (g_type_node == g_type_first && g_own_node == g_own_first)) && (g_node != g_last || (g_type_node == g_type_last && g_own_node == g_own_last)) && (g_n != 1 || g_first == g_last))
__CPROVER_assigns(g_search, g_action)
__CPROVER_ensures(/* a null node is ignored */ node == 0 ==> (g_action == A_NONE && g_search == S_NONE))
__CPROVER_ensures(/* the first node of an empty list is appended */ (node != 0 && g_n == 0) ==> g_action == A_APPEND_TO_EMPTY)
__CPROVER_ensures(/* the node equal to the last element is a duplicate: nothing happens */ (node != 0 && g_n > 0 && g_last == node) ==> (g_action == A_NONE && g_search == S_NONE))
__CPROVER_ensures(/* otherwise exactly one search runs and the node is inserted iff the search says so (duplicates are never inserted) */
    (node != 0 && g_n > 0 && g_last != node) ==> (g_search != S_NONE && g_action == (g_fInsert ? A_INSERT : A_NONE)))
__CPROVER_ensures(/* binary search by index is used only when first element, last element and node belong to one indexed document */
    g_search == S_BINARY ==> (g_indexed_node && g_own_node == NO_FIRST && NO_FIRST == NO_LAST))
__CPROVER_ensures(/* an indexed node of the first element's document in a list ending in another document: linear search by index */
    (node != 0 && g_n > 0 && g_last != node && g_indexed_node && g_own_node == NO_FIRST && NO_FIRST != NO_LAST) ==> g_search == S_LINEAR_INDEX)
__CPROVER_ensures(/* a node that is not indexed or is from another document than the first element: structural comparison through the execution context */
    (node != 0 && g_n > 0 && g_last != node && !(g_indexed_node && g_own_node == NO_FIRST)) ==> g_search == S_LINEAR_EXEC)
__CPROVER_ensures(/* single indexed document: binary search */
    (node != 0 && g_n > 0 && g_last != node && g_indexed_node && g_own_node == NO_FIRST && NO_FIRST == NO_LAST) ==> g_search == S_BINARY)
'''

BULK_CONTRACT = r'''
__CPROVER_requires(g_bulk == B_NONE && (g_other_order == eUnknownOrder || g_other_order == eDocumentOrder || g_other_order == eReverseDocumentOrder))
__CPROVER_assigns(g_bulk)
__CPROVER_ensures(/* exactly one strategy is applied */ g_bulk != B_NONE)
__CPROVER_ensures(/* the source list is copied verbatim only if it is flagged as being in document order and the receiver is empty */
    g_bulk == B_ASSIGN_COPY ==> (g_other_order == eDocumentOrder && g_empty))
__CPROVER_ensures(/* the source list is copied back to front only if it is flagged as being in reverse document order and the receiver is empty */
    g_bulk == B_REVERSED_COPY ==> (g_other_order == eReverseDocumentOrder && g_empty))
__CPROVER_ensures(/* a list of unknown order is always merged node by node through the ordered, de-duplicating insert */
    g_other_order == eUnknownOrder ==> g_bulk == B_EACH_FORWARD)
__CPROVER_ensures(/* a non-empty receiver is always merged node by node */ !g_empty ==> (g_bulk == B_EACH_FORWARD || g_bulk == B_EACH_REVERSE))
'''

TEMPLATE = PRELUDE + r'''
@@FN addNodeInDocOrder@@
@@FN addNodesInDocOrder@@

static void xv_havoc(void)
{
    size_t n; const XalanNode *a, *b, *c, *d, *e, *f; int t1, t2, t3, o; bool i, fi, em; NodeListIteratorType ip;
    g_n = n; g_first = a; g_last = b; g_node = c; g_own_first = d; g_own_last = e; g_own_node = f;
    g_type_first = t1; g_type_last = t2; g_type_node = t3; g_indexed_node = XV_BOOL(i); g_fInsert = XV_BOOL(fi); g_ip = ip;
    g_search = S_NONE; g_action = A_NONE; g_bulk = B_NONE; g_other_order = o; g_empty = XV_BOOL(em);
}
void h_addNode(void) { xv_havoc(); MutableNodeRefList* l; addNodeInDocOrder(l, (XalanNode*)g_node, 0); }
void h_addNodes(void) { xv_havoc(); MutableNodeRefList *l, *o; addNodesInDocOrder(l, o, 0); }
'''

UNIT = Unit(
    name='c12_addnode',
    props=['C12'],
    blocks=[NODETYPE, EORDER],
    functions=[
        Fn(ML, r'^MutableNodeRefList::addNodeInDocOrder\(\s*XalanNode\*\s+node,', 'addNodeInDocOrder',
           'void addNodeInDocOrder(MutableNodeRefList* self, XalanNode* node, XPathExecutionContext* executionContext)',
           head_expect=r'^void MutableNodeRefList::addNodeInDocOrder\( XalanNode\* node, XPathExecutionContext& executionContext\)$',
           rules=['SCOPE',
                  (r'm_nodeList\.size\(\)', 'xv_list_size(self)', None),
                  (r'addNode\(node\);', 'xv_addNode(self, node);', 1),
                  (r'm_nodeList\[0\]', 'xv_list_front(self)', (0, 1)),
                  (r'm_nodeList\.back\(\)', 'xv_list_back(self)', None),
                  (r'm_nodeList\.front\(\)', 'xv_list_front(self)', None),
                  (r'm_nodeList\.begin\(\)', 'xv_list_begin(self)', None),
                  (r'm_nodeList\.end\(\)', 'xv_list_end(self)', None),
                  (r'(\w+)->getNodeType\(\)', r'xv_nodeType(\1)', None),
                  (r'(\w+)->getOwnerDocument\(\)', r'xv_owner(\1)', None),
                  (r'node->isIndexed\(\)', 'xv_isIndexed(node)', None),
                  (r'insertionPoint,\s*IndexPredicate\(\)\)', '&insertionPoint)', (0, 2)),
                  (r'insertionPoint,\s*ExecutionContextPredicate\(executionContext\)\)', '&insertionPoint, executionContext)', (0, 2)),
                  (r'(findInsertionPointBinarySearch\([^;]*?)insertionPoint\)', r'\1&insertionPoint)', (0, 2)),
                  (r'findInsertionPointLinearSearch\((?=[^;]*?&insertionPoint\))', 'findInsertionPointLinearSearch_Index(', (0, 2)),
                  (r'findInsertionPointLinearSearch\((?=[^;]*?&insertionPoint, executionContext\))', 'findInsertionPointLinearSearch_Exec(', (0, 2)),
                  (r'm_nodeList\.insert\(insertionPoint, node\)', 'xv_list_insert(self, insertionPoint, node)', None)],
           contract=ADD_CONTRACT, nloops=0),
        Fn(ML, r'^MutableNodeRefList::addNodesInDocOrder\(\s*const MutableNodeRefList&\s+nodelist,', 'addNodesInDocOrder',
           'void addNodesInDocOrder(MutableNodeRefList* self, const MutableNodeRefList* nodelist, XPathExecutionContext* executionContext)',
           head_expect=r'^void MutableNodeRefList::addNodesInDocOrder\( const MutableNodeRefList& nodelist, XPathExecutionContext& executionContext\)$',
           rules=[(r'using std::\w+;+', '', None),
                  (r'nodelist\.m_order', 'xv_order(nodelist)', None),
                  (r'm_nodeList\.empty\(\)', 'xv_list_empty(self)', None),
                  (r'm_nodeList = nodelist\.m_nodeList;', 'xv_assign_list(self, nodelist);', (0, 3)),
                  (r'copy\(\s*nodelist\.m_nodeList\.rbegin\(\),\s*nodelist\.m_nodeList\.rend\(\),\s*back_inserter\(m_nodeList\)\);', 'xv_copy_reversed(self, nodelist);', (0, 3)),
                  (r'copy\(\s*nodelist\.m_nodeList\.begin\(\),\s*nodelist\.m_nodeList\.end\(\),\s*back_inserter\(m_nodeList\)\);', 'xv_assign_list(self, nodelist);', (0, 3)),
                  (r'for_each\(\s*nodelist\.m_nodeList\.begin\(\),\s*nodelist\.m_nodeList\.end\(\),\s*addNodeInDocOrderFunctor\(\*this, executionContext\)\);', 'xv_for_each_forward(self, nodelist);', (0, 4)),
                  (r'for_each\(\s*nodelist\.m_nodeList\.rbegin\(\),\s*nodelist\.m_nodeList\.rend\(\),\s*addNodeInDocOrderFunctor\(\*this, executionContext\)\);', 'xv_for_each_reverse(self, nodelist);', (0, 4))],
           contract=BULK_CONTRACT, nloops=0),
    ],
    template=TEMPLATE,
    jobs=[
        Job('addNodeInDocOrder', 'h_addNode', enforce=['addNodeInDocOrder'],
            replace=['xv_list_size', 'xv_list_front', 'xv_list_back', 'xv_list_begin', 'xv_list_end', 'xv_nodeType', 'xv_owner', 'xv_isIndexed',
                     'xv_addNode', 'xv_list_insert', 'findInsertionPointBinarySearch', 'findInsertionPointLinearSearch_Index', 'findInsertionPointLinearSearch_Exec'],
            reach=['entry:addNodeInDocOrder'], timeout=300),
        Job('addNodesInDocOrder', 'h_addNodes', enforce=['addNodesInDocOrder'],
            replace=['xv_order', 'xv_list_empty', 'xv_assign_list', 'xv_copy_reversed', 'xv_for_each_forward', 'xv_for_each_reverse'],
            reach=['entry:addNodesInDocOrder'], timeout=300),
    ],
    mutants=[
        Mutant('last_owner_from_first', ML, r'theLastNode : theLastNode->getOwnerDocument\(\);', 'theLastNode : theFirstNode->getOwnerDocument();', expect='binary search'),
        Mutant('dup_check_lost', ML, r'if \(theLastNode != node\)', 'if (theLastNode != 0)', expect=None),
        Mutant('insert_unconditional', ML, r'if \(fInsert == true\)\s*\{\s*m_nodeList\.insert', 'if (fInsert == true || theFirstNode != 0)\n                {\n                    m_nodeList.insert', expect=None),
        Mutant('bulk_unknown_copied', ML, r'if \(theOtherOrder == eUnknownOrder\)', 'if (theOtherOrder == eUnknownOrder && m_nodeList.empty() == false)', expect=None),
    ],
    mechanisms=["bulk merge that trusts the source list's order flag", 'ordered, de-duplicating insert'],
    assumptions=['XalanVector operations of m_nodeList (size, front, back, begin, end, insert, assignment, copy through back_inserter) and std::for_each with addNodeInDocOrderFunctor are assumed stubs',
                 'getNodeType/getOwnerDocument/isIndexed are pure accessors',
                 'the three search functions are used by contract (bodies proved in c12_search)'],
)
