"""C12: DOMServices::isNodeAfter, the structural document-order comparison used for documents without node indexes (Xerces DOM wrapped
on demand).  Proved for trees of any depth: an ancestor is before its descendants; otherwise the answer is the sibling comparison of the
two children of the deepest common ancestor that lead to the nodes.  The tree is abstract: a node is (depth, branch); the two ancestor
chains share everything up to the depth of the deepest common ancestor."""
from xvlib.unit import Fn, Job, Unit, Mutant

DS = 'src/xalanc/DOMSupport/DOMServices.cpp'
TEMPLATE = r'''
#include "xv_shim.h"
typedef size_t XalanSize_t;
/* a node handle: 0 is "no node"; otherwise 1 + 2*depth + branch, branch 1 only for nodes of node2's chain below the deepest common ancestor */
typedef unsigned long NodeH;
unsigned long g_da, g_db, g_c;            /* depth of node1, of node2, of their deepest common ancestor-or-self */
bool g_indexed; unsigned long g_i1, g_i2; bool g_sib; bool g_sib_asked;
#define MAXD ((unsigned long)1 << 40)
#define D(h) (((h) - 1) >> 1)
#define BR(h) (((h) - 1) & 1)
#define MK(d, br) (1 + 2 * (unsigned long)(d) + (((unsigned long)(d) > g_c) ? (unsigned long)(br) : 0))
#define NODE1 MK(g_da, 0)
#define NODE2 MK(g_db, 1)
#define ANC(p) ((p) == 0 ? 0 : D(p) + 1)      /* number of ancestors-or-self on the way up from p */
static NodeH xv_parent(NodeH n) { __CPROVER_assert(n != 0, "getParentOfNode is asked of a node"); if (D(n) == 0) return 0; return MK(D(n) - 1, BR(n)); }
bool xv_indexed(NodeH n) __CPROVER_requires(n != 0) __CPROVER_assigns() __CPROVER_ensures(__CPROVER_return_value == g_indexed) ;
unsigned long xv_index(NodeH n) __CPROVER_requires(n == NODE1 || n == NODE2) __CPROVER_assigns() __CPROVER_ensures(__CPROVER_return_value == (n == NODE1 ? g_i1 : g_i2)) ;
bool xv_sibling_after(NodeH parent, NodeH c1, NodeH c2)
__CPROVER_requires(/* the sibling comparison is made at the deepest common ancestor, between its two children that lead to node1 and to node2 */
    g_da > g_c && g_db > g_c && parent == MK(g_c, 0) && c1 == MK(g_c + 1, 0) && c2 == MK(g_c + 1, 1))
__CPROVER_assigns(g_sib_asked) __CPROVER_ensures(g_sib_asked == true && __CPROVER_return_value == g_sib) ;
@@FN isNodeAfter@@
void h_isNodeAfter(void)
{ unsigned long a, b, c, i, j; bool x, s; g_da = a; g_db = b; g_c = c; g_indexed = XV_BOOL(x); g_i1 = i; g_i2 = j; g_sib = XV_BOOL(s); g_sib_asked = false;
  __CPROVER_assume(a >= 1 && b >= 1 && a <= MAXD && b <= MAXD && c <= a && c <= b && !(a == c && b == c));
  isNodeAfter(NODE1, NODE2); }
'''
R = [(r'assert\(node1\.getOwnerDocument\(\) == node2\.getOwnerDocument\(\)\);', '', 1),
     (r'assert\(node1\.getNodeType\(\) != XalanNode::DOCUMENT_NODE &&\s*node2\.getNodeType\(\) != XalanNode::DOCUMENT_NODE\);', '', 1),
     (r'\b(node[12])\.isIndexed\(\)', r'xv_indexed(\1)', 2),
     (r'\b(node[12])\.getIndex\(\)', r'xv_index(\1)', 2),
     (r'const XalanNode\*', 'NodeH', None),
     (r'getParentOfNode\(\*?(\w+)\)', r'xv_parent(\1)', None),
     (r'isNodeAfterSibling\(\*parent1,\s*node1,\s*node2\)', 'xv_sibling_after(parent1, node1, node2)', 1),
     (r'isNodeAfterSibling\(\*startNode1,\s*\*(\w+),\s*\*(\w+)\)', r'xv_sibling_after(startNode1, \1, \2)', 1),
     (r'=\s*&(node[12]);', r'= \1;', 2)]
L_COUNT1 = '''__CPROVER_assigns(parent1, nParents1)
__CPROVER_loop_invariant(/* counting the ancestors of node1 */ (parent1 == 0 || (BR(parent1) == 0 && D(parent1) < g_da)) && nParents1 + ANC(parent1) == 2 + g_da && nParents1 >= 2)
__CPROVER_decreases(ANC(parent1))'''
L_COUNT2 = '''__CPROVER_assigns(parent2, nParents2)
__CPROVER_loop_invariant(/* counting the ancestors of node2 */ (parent2 == 0 || (parent2 == MK(D(parent2), 1) && D(parent2) < g_db)) && nParents2 + ANC(parent2) == 2 + g_db && nParents2 >= 2)
__CPROVER_decreases(ANC(parent2))'''
L_ADJ2 = '''__CPROVER_assigns(i, startNode2)
__CPROVER_loop_invariant(i <= adjust && startNode2 == MK(g_db - i, 1))
__CPROVER_decreases(adjust - i)'''
L_ADJ1 = '''__CPROVER_assigns(i, startNode1)
__CPROVER_loop_invariant(i <= adjust && startNode1 == MK(g_da - i, 0))
__CPROVER_decreases(adjust - i)'''
L_LOCK = '''__CPROVER_assigns(startNode1, startNode2, prevChild1, prevChild2, isNodeAfter)
__CPROVER_loop_invariant(/* both cursors are at the same depth, on their own chains, not above the common ancestor */
    startNode1 != 0 && startNode2 != 0 && D(startNode1) == D(startNode2) && D(startNode1) >= g_c && startNode1 == MK(D(startNode1), 0) && startNode2 == MK(D(startNode2), 1) && D(startNode1) <= g_da && D(startNode1) <= g_db)
__CPROVER_loop_invariant(/* the previous cursors are the children just left, one level below */
    (prevChild1 == 0) == (prevChild2 == 0) && (prevChild1 != 0 ==> (prevChild1 == MK(D(startNode1) + 1, 0) && prevChild2 == MK(D(startNode1) + 1, 1) && D(startNode1) + 1 <= g_da && D(startNode1) + 1 <= g_db)))
__CPROVER_loop_invariant(/* first time in the loop: the cursors stand at the depth of the shallower node */ prevChild1 == 0 ==> D(startNode1) == (g_da < g_db ? g_da : g_db))
__CPROVER_decreases(D(startNode1))'''
UNIT = Unit(
    name='c12_isnodeafter',
    props=['C12', 'C03'],
    functions=[Fn(DS, r'^DOMServices::isNodeAfter\(\s*const XalanNode&\s+node1,\s*const XalanNode&\s+node2\)', 'isNodeAfter', 'bool isNodeAfter(NodeH node1, NodeH node2)', rules=R, nloops=5,
                  loops={0: L_COUNT1, 1: L_COUNT2, 2: L_ADJ2, 3: L_ADJ1, 4: L_LOCK},
                  contract='''__CPROVER_requires(node1 == NODE1 && node2 == NODE2 && g_da >= 1 && g_db >= 1 && g_da <= MAXD && g_db <= MAXD && g_c <= g_da && g_c <= g_db && !(g_da == g_c && g_db == g_c) && g_sib_asked == false)
__CPROVER_assigns(g_sib_asked)
__CPROVER_ensures(/* indexed documents: by index */ g_indexed == true ==> __CPROVER_return_value == (g_i1 > g_i2))
__CPROVER_ensures(/* document order: an ancestor comes before its descendants */ (g_indexed != true && g_da == g_c) ==> __CPROVER_return_value == false)
__CPROVER_ensures((g_indexed != true && g_db == g_c) ==> __CPROVER_return_value == true)
__CPROVER_ensures(/* otherwise the order of the two branches below the deepest common ancestor decides */ (g_indexed != true && g_da > g_c && g_db > g_c) ==> (g_sib_asked == true && __CPROVER_return_value == g_sib))''')],
    template=TEMPLATE,
    jobs=[Job('isNodeAfter', 'h_isNodeAfter', enforce=['isNodeAfter'], replace=['xv_indexed', 'xv_index', 'xv_sibling_after'], loop_contracts=True, reach='all', timeout=900, min_obligations=10)],
    mutants=[
        Mutant('ancestor_edge_inverted', DS, r'isNodeAfter = \(nParents1 > nParents2\) \? true : false;', 'isNodeAfter = (nParents1 < nParents2) ? true : false;', expect='ancestor comes before'),
        Mutant('sibling_args_swapped', DS, r'isNodeAfterSibling\(\*startNode1,\s*\*prevChild1,\s*\*prevChild2\)', 'isNodeAfterSibling(*startNode1,\n                                                         *prevChild2,\n                                                         *prevChild1)', expect='deepest common ancestor'),
        Mutant('adjust_wrong_chain', DS, r'(if \(nParents1 < nParents2\)\s*\{\s*// adjust startNode2\s*const XalanSize_t   adjust = )nParents2 - nParents1;', r'\1nParents2 - nParents1 - 1;', expect=None),
    ],
    mechanisms=['structural document-order comparison (DOMServices::isNodeAfter)'],
    assumptions=['node1 and node2 are distinct non-document nodes of one tree (asserted by the real code; the callers test identity first)',
                 'the tree is abstract: (depth, branch) handles; getParentOfNode decreases the depth by one and the two chains coincide from the deepest common ancestor upwards',
                 'isNodeAfterSibling (order among the children / attributes of one parent) is not under contract'],
)
