from xvlib.unit import Fn, Job, Unit, Mutant
from xvlib.common import UNICODE_BLOCK

FX = 'src/xalanc/XMLSupport/FormatterToXMLUnicode.hpp'
OE = 'src/xalanc/XMLSupport/XalanOtherEncodingWriter.hpp'
FW = 'src/xalanc/XMLSupport/XalanFormatterWriter.hpp'

PRELUDE = r'''
#include "xv_shim.h"
@@BLOCK XalanUnicode@@
typedef XalanDOMChar XMLCh;
typedef struct Self Self;                          /* the formatter / writer object: opaque here */

/* ---- ghost: the input text and the output protocol of a CDATA section ------------------------------ */
const XalanDOMChar* g_in; size_t g_len;            /* the character data being written */
size_t g_cursor;                                   /* units of it already written */
bool g_in_cdata;                                   /* output is currently inside <![CDATA[ ... ]]> */
XalanUnicodeChar g_r1, g_r2;                       /* the last two characters written raw in the current section (0 = none) */
#define IS_HIGH(u) ((u) >= 0xD800u && (u) <= 0xDBFFu)
#define IS_LOW(u) ((u) >= 0xDC00u && (u) <= 0xDFFFu)
#define DECODE(h, l) ((((XalanUnicodeChar)(h) - 0xD800u) << 10) + ((XalanUnicodeChar)(l) - 0xDC00u) + 0x10000u)
#define CP_AT(p) ((IS_HIGH(g_in[p]) && (p) + 1 < g_len && IS_LOW(g_in[(p) + 1])) ? DECODE(g_in[p], g_in[(p) + 1]) : (XalanUnicodeChar)g_in[p])
#define CLOSES(c) (g_in_cdata && g_r2 == 0x5D && g_r1 == 0x5D && (c) == 0x3E)      /* would complete "]]>" */

/* the output operations, as the grammar of a CDATA-bearing text allows them (XML 1.0 2.7, 2.4) */
void xv_out_cdata_open(Self* s)
__CPROVER_requires(/* <![CDATA[ is written only when no section is open */ !g_in_cdata)
__CPROVER_assigns(g_in_cdata, g_r1, g_r2) __CPROVER_ensures(g_in_cdata == true && g_r1 == 0 && g_r2 == 0) ;
void xv_out_cdata_close(Self* s)
__CPROVER_requires(/* ]]> is written only to close an open section */ g_in_cdata)
__CPROVER_assigns(g_in_cdata, g_r1, g_r2) __CPROVER_ensures(g_in_cdata == false && g_r1 == 0 && g_r2 == 0) ;
void xv_out_raw_unit(Self* s, XalanDOMChar ch)
__CPROVER_requires(/* a raw character is written only inside the section and is the next input unit */ g_in_cdata && g_cursor < g_len && ch == g_in[g_cursor])
__CPROVER_requires(/* "]]>" is never completed inside a section */ !CLOSES(ch))
__CPROVER_assigns(g_cursor, g_r1, g_r2) __CPROVER_ensures(g_cursor == __CPROVER_old(g_cursor) + 1 && g_r2 == __CPROVER_old(g_r1) && g_r1 == ch) ;
void xv_out_newline(Self* s)
__CPROVER_requires(/* a line feed of the input becomes the newline string (legal inside and outside a section) */ g_cursor < g_len && g_in[g_cursor] == 0x0A)
__CPROVER_assigns(g_cursor, g_r1, g_r2) __CPROVER_ensures(g_cursor == __CPROVER_old(g_cursor) + 1 && g_r1 == 0x0A && g_r2 == __CPROVER_old(g_r1)) ;
void throwInvalidXMLCharacterException(XalanUnicodeChar ch, int version, void* mm) __CPROVER_requires(1) __CPROVER_assigns() __CPROVER_ensures(0) ;
void throwInvalidUTF16SurrogateException(XalanDOMChar hi, XalanDOMChar lo, void* mm) __CPROVER_requires(1) __CPROVER_assigns() __CPROVER_ensures(0) ;
bool xv_isCharRefForbidden(Self* s, XalanDOMChar ch) __CPROVER_requires(1) __CPROVER_assigns() __CPROVER_ensures(1) ;

/* ---- encoder side (XalanOtherEncodingWriter) ------------------------------------------------------- */
bool g_repr;
bool xv_representable(Self* s, XalanUnicodeChar v) __CPROVER_requires(1) __CPROVER_assigns() __CPROVER_ensures(__CPROVER_return_value == g_repr) ;
/* g_repr: the encoding can represent the code point at the cursor */
void xv_write_cp(Self* s, XalanUnicodeChar v)     /* write(XalanUnicodeChar): raw, in the output encoding */
__CPROVER_requires(/* a raw code point is written only inside the section; it is the decoded code point at the cursor and representable */
    g_in_cdata && g_cursor < g_len && v == CP_AT(g_cursor) && g_repr)
__CPROVER_requires(/* "]]>" is never completed inside a section */ !CLOSES(v))
__CPROVER_assigns(g_cursor, g_r1, g_r2) __CPROVER_ensures(g_cursor == __CPROVER_old(g_cursor) + (v > 0xFFFF ? 2 : 1) && g_r2 == __CPROVER_old(g_r1) && g_r1 == v) ;
void xv_write_charref(Self* s, XalanUnicodeChar v)
__CPROVER_requires(/* a character reference is written only outside a CDATA section, for the decoded code point at the cursor, which the encoding cannot represent */
    !g_in_cdata && g_cursor < g_len && v == CP_AT(g_cursor) && !g_repr)
__CPROVER_assigns(g_cursor) __CPROVER_ensures(g_cursor == __CPROVER_old(g_cursor) + (v > 0xFFFF ? 2 : 1)) ;

/* failure functor / raw writer of the generic transcoding write(chars,start,length,failureHandler) */
void xv_failure_handler(Self* s, XalanUnicodeChar v)
__CPROVER_requires(/* the failure handler receives the decoded code point (not a UTF-16 unit of it) */ g_cursor < g_len && v == CP_AT(g_cursor) && !g_repr)
__CPROVER_assigns(g_cursor) __CPROVER_ensures(g_cursor == __CPROVER_old(g_cursor) + (v > 0xFFFF ? 2 : 1)) ;
void xv_write_cp_plain(Self* s, XalanUnicodeChar v)
__CPROVER_requires(/* what is written raw is the decoded code point at the cursor, and it is representable */ g_cursor < g_len && v == CP_AT(g_cursor) && g_repr)
__CPROVER_assigns(g_cursor) __CPROVER_ensures(g_cursor == __CPROVER_old(g_cursor) + (v > 0xFFFF ? 2 : 1)) ;
'''

TEXT_REQ = r'''
__CPROVER_requires(length >= 1 && length <= ((size_t)1 << 40))
__CPROVER_requires(__CPROVER_is_fresh(chars, length * sizeof(XalanDOMChar)))
__CPROVER_requires(__CPROVER_pointer_in_range_dfcc(chars, g_in, chars) && g_len == length)
__CPROVER_requires(__CPROVER_is_fresh(outsideCDATA, sizeof(bool)) && (*outsideCDATA == false || *outsideCDATA == true))
__CPROVER_requires(/* the flag tells whether a section is open */ g_in_cdata == !*outsideCDATA)
'''

# contract of m_writer.writeCDATAChar(chars, start, length, outsideCDATA): enforced on XalanOtherEncodingWriter's body,
# used by contract in writeCDATAChars
CDATACHAR_CONTRACT = TEXT_REQ + r'''
__CPROVER_requires(start < length && g_cursor == start)
__CPROVER_requires(/* the caller never hands over a character that would complete "]]>" */ !CLOSES(chars[start]))
__CPROVER_assigns(*outsideCDATA, g_cursor, g_in_cdata, g_r1, g_r2)
__CPROVER_ensures(/* writeCDATAChar: one code point written (raw inside a section, or as a reference outside); returns the index of its last unit */
    __CPROVER_return_value + 1 == g_cursor && g_cursor <= length && (__CPROVER_return_value == start || (__CPROVER_return_value == start + 1 && IS_HIGH(chars[start]))))
__CPROVER_ensures(/* writeCDATAChar: the flag still tells whether a section is open */ g_in_cdata == !*outsideCDATA && (*outsideCDATA == false || *outsideCDATA == true))
__CPROVER_ensures(/* ghost: last raw characters of the current section */ (g_in_cdata && g_r1 == 0x5D) ==> (__CPROVER_return_value == start && chars[start] == 0x5D))
__CPROVER_ensures((g_in_cdata && g_r2 == 0x5D && g_r1 == 0x5D) ==> (__CPROVER_old(g_r1) == 0x5D && __CPROVER_old(g_in_cdata)))
'''

CHARS_CONTRACT = TEXT_REQ + r'''
__CPROVER_requires(g_cursor == 0 && g_r1 == 0 && g_r2 == 0)
__CPROVER_assigns(*outsideCDATA, g_cursor, g_in_cdata, g_r1, g_r2)
__CPROVER_ensures(/* CDATA text: every unit of the character data was written exactly once, in order (or an exception ended the call) */ g_cursor == length)
__CPROVER_ensures(/* CDATA text: on return the flag tells the caller truthfully whether a section is still open, so that it is closed exactly once */ g_in_cdata == !*outsideCDATA)
'''
CHARS_LOOP = r'''
__CPROVER_assigns(i, *outsideCDATA, g_cursor, g_in_cdata, g_r1, g_r2)
__CPROVER_loop_invariant(i <= length && g_cursor == i && g_in_cdata == !*outsideCDATA && (*outsideCDATA == false || *outsideCDATA == true))
__CPROVER_loop_invariant(/* a raw ']' just written is the previous input unit, and the "]]>" test did not fire there */
    (g_in_cdata && g_r1 == 0x5D) ==> (i >= 1 && chars[i - 1] == 0x5D && (i + 1 < length ==> !(chars[i] == 0x5D && chars[i + 1] == 0x3E))))
__CPROVER_loop_invariant(/* after a raw "]]" the next input unit is not '>' */ (g_in_cdata && g_r2 == 0x5D && g_r1 == 0x5D && i < length) ==> chars[i] != 0x3E)
__CPROVER_decreases(length - i)
'''

TRANSCODE_CONTRACT = r'''
__CPROVER_requires(length >= 1 && length <= ((size_t)1 << 40) && start < length)
__CPROVER_requires(__CPROVER_is_fresh(chars, (length + 1) * sizeof(XalanDOMChar)))
__CPROVER_requires(__CPROVER_pointer_in_range_dfcc(chars, g_in, chars) && g_len == length && g_cursor == start)
__CPROVER_assigns(g_cursor)
__CPROVER_ensures(/* transcoding write: one code point consumed; returns the index of its last unit */
    __CPROVER_return_value + 1 == g_cursor && g_cursor <= length && __CPROVER_return_value == start + (IS_HIGH(chars[start]) ? 1 : 0))
'''

TEMPLATE = PRELUDE + r'''
@@FN isUTF16HighSurrogate@@
@@FN isUTF16LowSurrogate@@
@@FN decodeUTF16SurrogatePair@@
@@FN writeCDATAChar@@
@@FN writeCDATAChars@@
@@FN write_transcode@@

static void xv_havoc(void)
{
    const XalanDOMChar* p; size_t a, b; bool c, d; XalanUnicodeChar e, f;
    g_in = p; g_len = a; g_cursor = b; g_in_cdata = XV_BOOL(c); g_repr = XV_BOOL(d); g_r1 = e; g_r2 = f;
}
void h_writeCDATAChar(void) { xv_havoc(); Self* s; const XalanDOMChar* p; size_t a, n; bool* o; writeCDATAChar(s, p, a, n, o); }
void h_writeCDATAChars(void) { xv_havoc(); Self* s; const XalanDOMChar* p; size_t n; bool* o; writeCDATAChars(s, p, n, o); }
void h_write_transcode(void) { xv_havoc(); Self* s; const XalanDOMChar* p; size_t a, n; write_transcode(s, p, a, n); }
'''

OECLS = r'class XalanOtherEncodingWriter : public XalanFormatterWriter'

UNIT = Unit(
    name='c04_cdata',
    props=['C04', 'C03', 'C08'],
    blocks=[UNICODE_BLOCK],
    functions=[
        Fn(FW, r'^\s+isUTF16HighSurrogate\(', 'isUTF16HighSurrogate', 'static bool isUTF16HighSurrogate(XalanDOMChar theChar)', nloops=0, reach=False),
        Fn(FW, r'^\s+isUTF16LowSurrogate\(', 'isUTF16LowSurrogate', 'static bool isUTF16LowSurrogate(XalanDOMChar theChar)', nloops=0, reach=False),
        Fn(FW, r'^\s+decodeUTF16SurrogatePair\(', 'decodeUTF16SurrogatePair',
           'static XalanUnicodeChar decodeUTF16SurrogatePair(XalanDOMChar theHighSurrogate, XalanDOMChar theLowSurrogate, void* theManager)',
           nloops=0, reach=False),
        Fn(OE, r'^\s+writeCDATAChar\(', 'writeCDATAChar',
           'size_t writeCDATAChar(Self* self, const XalanDOMChar* chars, size_t start, size_t length, bool* outsideCDATA)',
           head_expect=r'size_type writeCDATAChar\( const XalanDOMChar chars\[\], size_type start, size_type length, bool& outsideCDATA\)$',
           rules=[(r'getMemoryManager\(\)', '0', None),
                  (r'\boutsideCDATA\b', '(*outsideCDATA)', None),
                  (r'm_predicate\(value\)', 'xv_representable(self, value)', 1),
                  (r'write\(\s*m_constants\.s_cdataOpenString,\s*m_constants\.s_cdataOpenStringLength\);', 'xv_out_cdata_open(self);', None),
                  (r'write\(\s*m_constants\.s_cdataCloseString,\s*m_constants\.s_cdataCloseStringLength\);', 'xv_out_cdata_close(self);', None),
                  (r'(?<![\w.])write\(value\);', 'xv_write_cp(self, value);', None),
                  (r'writeNumericCharacterReference\(value\);', 'xv_write_charref(self, value);', None)],
           contract=CDATACHAR_CONTRACT, nloops=0, after=OECLS),
        Fn(FX, r'^\s+writeCDATAChars\(', 'writeCDATAChars',
           'void writeCDATAChars(Self* self, const XalanDOMChar* chars, size_t length, bool* outsideCDATA)',
           head_expect=r'void writeCDATAChars\( const XalanDOMChar chars\[\], size_type length, bool& outsideCDATA\)$',
           rules=['SCOPE', (r'getMemoryManager\(\)', '0', None),
                  (r'm_writer\.writeCDATAChar\(chars, i, length, outsideCDATA\)', 'writeCDATAChar(self, chars, i, length, outsideCDATA)', 1),
                  (r'\boutsideCDATA\b(?!\))', '(*outsideCDATA)', None),
                  (r'm_writer\.write\(\s*m_constants\.s_cdataOpenString,\s*m_constants\.s_cdataOpenStringLength\);', 'xv_out_cdata_open(self);', None),
                  (r'm_writer\.write\(\s*m_constants\.s_cdataCloseString,\s*m_constants\.s_cdataCloseStringLength\);', 'xv_out_cdata_close(self);', None),
                  (r'm_writer\.write\(value_type\((XalanUnicode_\w+)\)\);', r'xv_out_raw_unit(self, \1);', None),
                  (r'outputNewline\(\);', 'xv_out_newline(self);', 1),
                  (r'm_charPredicate\.isCharRefForbidden\(theChar\)', 'xv_isCharRefForbidden(self, theChar)', 1),
                  (r'm_version', '0', None)],
           contract=CHARS_CONTRACT, loops={0: CHARS_LOOP}, nloops=1),
        Fn(OE, r'^\s+write\(\s*const XalanDOMChar\s+chars\[\],\s*size_type\s+start,\s*size_type\s+length,\s*TranscodingFailureFunctor&', 'write_transcode',
           'size_t write_transcode(Self* self, const XalanDOMChar* chars, size_t start, size_t length)',
           head_expect=r'size_type write\( const XalanDOMChar chars\[\], size_type start, size_type length, TranscodingFailureFunctor& failureHandler\)$',
           rules=[(r'getMemoryManager\(\)', '0', None),
                  (r'm_predicate\(value\)', 'xv_representable(self, value)', 1),
                  (r'(?<![\w.])write\((\w+)\);', r'xv_write_cp_plain(self, \1);', 1),
                  (r'failureHandler\((\w+)\);', r'xv_failure_handler(self, \1);', 1)],
           contract=TRANSCODE_CONTRACT, nloops=0, after=OECLS),
    ],
    template=TEMPLATE,
    jobs=[
        Job('writeCDATAChar', 'h_writeCDATAChar', enforce=['writeCDATAChar'],
            replace=['xv_representable', 'xv_out_cdata_open', 'xv_out_cdata_close', 'xv_write_cp', 'xv_write_charref', 'throwInvalidUTF16SurrogateException'],
            reach=['entry:writeCDATAChar'], timeout=600),
        Job('writeCDATAChars', 'h_writeCDATAChars', enforce=['writeCDATAChars'],
            replace=['writeCDATAChar', 'xv_out_cdata_open', 'xv_out_cdata_close', 'xv_out_raw_unit', 'xv_out_newline', 'xv_isCharRefForbidden', 'throwInvalidXMLCharacterException'],
            loop_contracts=True, reach=['entry:writeCDATAChars', 'after_loop0:writeCDATAChars'], timeout=900),
        Job('write_transcode', 'h_write_transcode', enforce=['write_transcode'],
            replace=['xv_representable', 'xv_write_cp_plain', 'xv_failure_handler', 'throwInvalidUTF16SurrogateException'],
            reach=['entry:write_transcode'], timeout=600),
    ],
    mutants=[
        Mutant('guard_off_by_one', FX, r'length - i > 2 &&', 'length - i > 3 &&', expect=None),
        Mutant('skip_one', FX, r'outsideCDATA = false;\s*i \+= 2;', 'outsideCDATA = false;\n\n                i += 1;', expect=None),
        Mutant('failure_gets_unit', OE, r'failureHandler\(value\);', 'failureHandler(ch);', expect='failure handler'),
        Mutant('cdata_flag_not_set', OE, r'writeNumericCharacterReference\(value\);\s*outsideCDATA = true;', 'writeNumericCharacterReference(value);', expect=None),
    ],
    mechanisms=["CDATA section writing and splitting at ']]>' / unrepresentable characters",
                "CDATA splitting look-ahead (unsigned 'i - length > 2')",
                'character references for unrepresentable characters; exception in names'],
    replay='serializer',
    assumptions=['the writer primitives (open/close string, raw unit, newline, code point, numeric character reference) write what their names say (protocol stubs)',
                 'm_predicate (representability in the output encoding) is an arbitrary pure predicate', 'exceptions end the path'],
)
