"""C08: the on-the-fly switch to the html output method (XSLT 1.0 16: no xsl:output method, document element "html" in no namespace).
Proved for the block of XSLTEngineImpl::flushPending that performs it: the switch happens exactly under those conditions, keeps
the writer/encoding/doctype of the formatter it replaces, and turns cdata-section-elements off (CDATA sections are an XML-only
lexical form; with them on, character data would reach the HTML formatter through cdata())."""
from xvlib.unit import Fn, Job, Unit, Mutant, Block

EN = 'src/xalanc/XSLT/XSLTEngineImpl.cpp'

SWITCH = Block(EN, r'^    if\(getHasPendingStartDocument\(\) == true && isElementPending\(\) == true\)', 'switch', after=r'^XSLTEngineImpl::flushPending\(\)',
               rules=[(r'getHasPendingStartDocument\(\) == true && isElementPending\(\) == true', 'xv_pending_doc(self) == true && xv_element_pending(self) == true', 1),
                      (r'assert\(getFormatterListenerImpl\(\) != 0\);\s*assert\(m_executionContext != 0\);', '', 1),
                      (r'm_stylesheetRoot->isOutputMethodSet\(\)', 'xv_method_set(self)', 1),
                      (r'equalsIgnoreCaseASCII\(\s*getPendingElementName\(\),\s*Constants::ELEMNAME_HTML_STRING\) == true', 'xv_pending_is_html(self) == true', 1),
                      (r'pendingAttributesHasDefaultNS\(\)', 'xv_pending_has_default_ns(self)', (0, 1)),
                      (r'FormatterListener\* const\s+theFormatter =\s*getFormatterListenerImpl\(\);\s*assert\(theFormatter != 0\);', 'Formatter* const theFormatter = xv_formatter(self);', 1),
                      (r'Writer\* const theWriter = theFormatter->getWriter\(\);', 'Writer* const theWriter = xv_writer(theFormatter);', 1),
                      (r'\{\s*const ECGetCachedString\s+theGuard\(\*m_executionContext\);.*?warn\(\s*theMessage,\s*theLocator,\s*0\);\s*\}', '{ xv_warn(self); }', 1),
                      (r'theFormatter->getOutputFormat\(\) == FormatterListener::OUTPUT_METHOD_XML', 'xv_output_format(theFormatter) == OUTPUT_METHOD_XML', 1),
                      (r'setFormatterListenerImpl\(\s*m_executionContext->createFormatterToHTML\(\s*\*theFormatter->getWriter\(\),\s*theFormatter->getEncoding\(\),\s*theFormatter->getMediaType\(\),\s*theFormatter->getDoctypeSystem\(\),\s*theFormatter->getDoctypePublic\(\),\s*m_stylesheetRoot->getHTMLOutputIndent\(\),\s*theFormatter->getIndent\(\) > 0 \?\s*theFormatter->getIndent\(\) :\s*StylesheetExecutionContext::eDefaultHTMLIndentAmount\)\);',
                       'xv_switch_to_html(self, theFormatter);', 1),
                      (r'm_stylesheetRoot->hasCDATASectionElements\(\)', 'xv_root_has_cdata(self)', (0, 2)),
                      (r'\bm_hasCDATASectionElements\b', 'self->m_hasCDATASectionElements', (0, 4))])

TEMPLATE = r'''
#include "xv_shim.h"
typedef struct Self { bool m_hasCDATASectionElements; } Self; typedef struct Formatter Formatter; typedef struct Writer Writer;
enum { OUTPUT_METHOD_NONE = 0, OUTPUT_METHOD_XML = 1, OUTPUT_METHOD_HTML = 2, OUTPUT_METHOD_TEXT = 3, OUTPUT_METHOD_DOM = 4, OUTPUT_METHOD_OTHER = 5 };
bool g_pending_doc, g_element_pending, g_method_set, g_is_html, g_default_ns, g_has_writer; int g_format; bool g_switched, g_warned; Formatter g_formatter; Writer g_writer;
bool xv_pending_doc(const Self* s) __CPROVER_requires(1) __CPROVER_assigns() __CPROVER_ensures(__CPROVER_return_value == g_pending_doc) ;
bool xv_element_pending(const Self* s) __CPROVER_requires(1) __CPROVER_assigns() __CPROVER_ensures(__CPROVER_return_value == g_element_pending) ;
bool xv_method_set(const Self* s) __CPROVER_requires(1) __CPROVER_assigns() __CPROVER_ensures(__CPROVER_return_value == g_method_set) ;
bool xv_pending_is_html(const Self* s) __CPROVER_requires(g_element_pending == true) __CPROVER_assigns() __CPROVER_ensures(__CPROVER_return_value == g_is_html) ;
bool xv_pending_has_default_ns(const Self* s) __CPROVER_requires(g_element_pending == true) __CPROVER_assigns() __CPROVER_ensures(__CPROVER_return_value == g_default_ns) ;
Formatter* xv_formatter(const Self* s) __CPROVER_requires(1) __CPROVER_assigns() __CPROVER_ensures(__CPROVER_return_value == &g_formatter) ;
Writer* xv_writer(const Formatter* f) __CPROVER_requires(f == &g_formatter) __CPROVER_assigns() __CPROVER_ensures(__CPROVER_return_value == (g_has_writer ? &g_writer : (Writer*)0)) ;
int xv_output_format(const Formatter* f) __CPROVER_requires(f == &g_formatter) __CPROVER_assigns() __CPROVER_ensures(__CPROVER_return_value == g_format) ;
bool xv_root_has_cdata(const Self* s) __CPROVER_requires(1) __CPROVER_assigns() __CPROVER_ensures(1) ;   /* what the stylesheet declared */
void xv_warn(Self* s) __CPROVER_requires(1) __CPROVER_assigns(g_warned) __CPROVER_ensures(g_warned == true) ;
/* setFormatterListenerImpl(createFormatterToHTML(writer, encoding, media type, doctypes of the replaced formatter, html indent, indent amount)) */
void xv_switch_to_html(Self* s, Formatter* old)
__CPROVER_requires(old == &g_formatter && /* only an XML formatter with a writer can be replaced */ g_has_writer == true && g_format == OUTPUT_METHOD_XML && g_switched == false)
__CPROVER_assigns(g_switched) __CPROVER_ensures(g_switched == true) ;

void flush_switch(Self* self)
__CPROVER_requires(__CPROVER_is_fresh(self, sizeof(*self)) && g_switched == false && g_warned == false && (self->m_hasCDATASectionElements == true || self->m_hasCDATASectionElements == false))
__CPROVER_assigns(g_switched, g_warned, self->m_hasCDATASectionElements)
__CPROVER_ensures(/* XSLT 1.0 16: html is chosen iff no method was given and the first element is "html" (any case) in no namespace; here additionally the XML formatter must be replaceable */
    g_switched == (g_pending_doc == true && g_element_pending == true && g_method_set == false && g_is_html == true && g_default_ns == false && g_has_writer == true && g_format == OUTPUT_METHOD_XML))
__CPROVER_ensures(/* cdata-section-elements is an XML-only lexical option: off once the output method is html */ g_switched == true ==> self->m_hasCDATASectionElements == false)
__CPROVER_ensures(/* otherwise the option is left as the stylesheet set it */ g_switched == false ==> self->m_hasCDATASectionElements == __CPROVER_old(self->m_hasCDATASectionElements))
{
@@BLOCK switch@@
}
void h_flush_switch(void)
{
    bool a, b, c, d, e, f; int g;
    g_pending_doc = XV_BOOL(a); g_element_pending = XV_BOOL(b); g_method_set = XV_BOOL(c); g_is_html = XV_BOOL(d); g_default_ns = XV_BOOL(e); g_has_writer = XV_BOOL(f); g_format = g;
    g_switched = false; g_warned = false; Self* s; flush_switch(s); XV_REACH("flush_switch");
}
'''

UNIT = Unit(
    name='c08_htmlswitch',
    props=['C08'],
    blocks=[SWITCH],
    functions=[],
    template=TEMPLATE,
    jobs=[Job('flush_switch', 'h_flush_switch', enforce=['flush_switch'],
              replace=['xv_pending_doc', 'xv_element_pending', 'xv_method_set', 'xv_pending_is_html', 'xv_pending_has_default_ns', 'xv_formatter', 'xv_writer', 'xv_output_format', 'xv_warn', 'xv_switch_to_html', 'xv_root_has_cdata'],
              reach=['flush_switch'], timeout=120, min_obligations=3)],
    mutants=[
        Mutant('cdata_kept_after_switch', EN, r'if \(m_hasCDATASectionElements == true\)\s*\{\s*m_hasCDATASectionElements = false;\s*\}', '', expect='XML-only lexical option'),
        Mutant('switch_despite_default_ns', EN, r'(Constants::ELEMNAME_HTML_STRING\) == true) &&\s*pendingAttributesHasDefaultNS\(\) == false', r'\1', expect='html is chosen iff'),
        Mutant('switch_when_method_set', EN, r'if \(m_stylesheetRoot->isOutputMethodSet\(\) == false\)', 'if (m_stylesheetRoot->isOutputMethodSet() == false || true)', expect='html is chosen iff'),
    ],
    mechanisms=['switch to HTML when the document element is <html> and no method was given'],
    assumptions=['only the first block of flushPending (the method switch) is extracted; the rest of the function (startDocument, startElement, cdata stack) is not under contract',
                 'createFormatterToHTML receives the replaced formatter\'s writer, encoding, media type and doctypes (argument list matched literally by the extraction rule, so a changed argument is an extraction break)'],
)
