"""C16: NodeSorter::sort(context, list).  Every selected node goes into the sort together with its ORIGINAL position (the position is the key
of the comparator's caches and the tie-breaker of stability), the sort runs once over exactly these entries, and the list is rebuilt from the
sorted entries, one node per entry, in sorted order: the processing order is a permutation of the selected nodes."""
from xvlib.unit import Fn, Job, Unit, Mutant

NS = 'src/xalanc/XSLT/NodeSorter.cpp'
TEMPLATE = r'''
#include "xv_shim.h"
typedef struct Self Self; typedef struct Ctx StylesheetExecutionContext; typedef struct List MutableNodeRefList; typedef struct XalanNode XalanNode;
/* ghost: two arbitrary witness indices: g_w into the selected list / unsorted entries, g_v into the sorted entries / rebuilt list */
size_t g_nkeys, g_len0; size_t g_w, g_v; const XalanNode* g_item_w; size_t g_scratch_size; const XalanNode* g_scr_w_node; size_t g_scr_w_pos;
bool g_sorted; bool g_guarded; const XalanNode* g_sorted_v_node; size_t g_list_len; const XalanNode* g_out_v; bool g_cleared;
size_t xv_list_length(const MutableNodeRefList* l) __CPROVER_requires(1) __CPROVER_assigns() __CPROVER_ensures(__CPROVER_return_value == g_list_len) ;
const XalanNode* xv_list_item(const MutableNodeRefList* l, size_t i)
__CPROVER_requires(/* items are read inside the list, before it is cleared */ i < g_list_len && g_cleared == false) __CPROVER_assigns()
__CPROVER_ensures(__CPROVER_return_value != 0 && (i == g_w ==> __CPROVER_return_value == g_item_w)) ;
/* CollectionClearGuard<NodeVectorType> guard(m_scratchVector): clears the scratch vector on EVERY exit, also when a sort key throws */
void xv_guard_scratch(void) __CPROVER_requires(g_scratch_size == 0) __CPROVER_assigns(g_guarded) __CPROVER_ensures(g_guarded == true) ;
void xv_scratch_clear(void) __CPROVER_requires(1) __CPROVER_assigns() __CPROVER_ensures(1) ;   /* an explicit clear() runs on the normal path only */
size_t xv_scratch_size(void) __CPROVER_requires(1) __CPROVER_assigns() __CPROVER_ensures(__CPROVER_return_value == g_scratch_size) ;
void xv_scratch_resize(size_t n) __CPROVER_requires(n <= ((size_t)1 << 40)) __CPROVER_assigns(g_scratch_size) __CPROVER_ensures(g_scratch_size == n) ;
void xv_scratch_set(size_t i, const XalanNode* n, size_t pos) __CPROVER_requires(/* element access inside the vector */ i < g_scratch_size && n != 0 && pos == i) __CPROVER_assigns(g_scr_w_node, g_scr_w_pos)
__CPROVER_ensures(i == g_w ? (g_scr_w_node == n && g_scr_w_pos == pos) : (g_scr_w_node == __CPROVER_old(g_scr_w_node) && g_scr_w_pos == __CPROVER_old(g_scr_w_pos))) ;
void xv_scratch_push(const XalanNode* n, size_t pos)
__CPROVER_requires(n != 0 && g_sorted == false)
__CPROVER_requires(/* the position recorded with a node is its index in the selected list (and in the vector being filled) */ pos == g_scratch_size)
__CPROVER_assigns(g_scratch_size, g_scr_w_node, g_scr_w_pos)
__CPROVER_ensures(g_scratch_size == __CPROVER_old(g_scratch_size) + 1 && (__CPROVER_old(g_scratch_size) == g_w ? (g_scr_w_node == n && g_scr_w_pos == pos) : (g_scr_w_node == __CPROVER_old(g_scr_w_node) && g_scr_w_pos == __CPROVER_old(g_scr_w_pos)))) ;
/* NodeSorter::sort(executionContext): std::stable_sort of the entries with NodeSortKeyCompare (unit c16_compare) */
void xv_stable_sort(Self* self)
__CPROVER_requires(g_sorted == false && /* exactly the selected nodes are sorted */ g_scratch_size == g_len0)
__CPROVER_requires(/* sort keys can throw (run-time XPath errors): the nodes copied into the long-lived scratch vector are under a guard that clears it on every exit (C06: nothing is left behind for the next transformation) */ g_guarded == true)
__CPROVER_requires(/* every entry handed to the sort is (node at p, p) */ g_w < g_len0 ==> (g_scr_w_node == g_item_w && g_scr_w_pos == g_w))
__CPROVER_assigns(g_sorted) __CPROVER_ensures(g_sorted == true) ;
void xv_list_clear(MutableNodeRefList* l) __CPROVER_requires(g_sorted == true) __CPROVER_assigns(g_list_len, g_cleared) __CPROVER_ensures(g_list_len == 0 && g_cleared == true) ;
const XalanNode* xv_scratch_node(size_t i)
__CPROVER_requires(/* sorted entries are read inside the vector */ i < g_scratch_size && g_sorted == true) __CPROVER_assigns()
__CPROVER_ensures(__CPROVER_return_value != 0 && (i == g_v ==> __CPROVER_return_value == g_sorted_v_node)) ;
void xv_list_add(MutableNodeRefList* l, const XalanNode* n)
__CPROVER_requires(n != 0 && g_cleared == true) __CPROVER_assigns(g_list_len, g_out_v)
__CPROVER_ensures(g_list_len == __CPROVER_old(g_list_len) + 1 && (__CPROVER_old(g_list_len) == g_v ? g_out_v == n : g_out_v == __CPROVER_old(g_out_v))) ;
/* --- NodeSorter::sort(executionContext): which library algorithm, over which range, with which comparator --- */
bool g_algo_stable; bool g_algo_whole; bool g_algo_called; bool g_cache_guarded_n, g_cache_guarded_s; bool g_cmp_made;
void xv_guard_cache(int which) __CPROVER_requires(which == 1 || which == 2) __CPROVER_assigns(g_cache_guarded_n, g_cache_guarded_s)
__CPROVER_ensures(which == 1 ? (g_cache_guarded_n == true && g_cache_guarded_s == __CPROVER_old(g_cache_guarded_s)) : (g_cache_guarded_s == true && g_cache_guarded_n == __CPROVER_old(g_cache_guarded_n))) ;
void xv_make_comparer(void) __CPROVER_requires(1) __CPROVER_assigns(g_cmp_made) __CPROVER_ensures(g_cmp_made == true) ;
/* library algorithms (assumed, not verified): std::stable_sort keeps equivalent entries in input order, std::sort / partial_sort / make_heap-based ones do not promise that */
void xv_algo(int stable, int from_begin, int to_end, int with_comparer)
__CPROVER_requires(/* the comparator is NodeSortKeyCompare over this sorter's keys */ g_cmp_made == true && with_comparer == 1)
__CPROVER_requires(/* evaluated sort-key caches are dropped on every exit, also when a key throws (C06) */ g_cache_guarded_n == true && g_cache_guarded_s == true)
__CPROVER_assigns(g_algo_stable, g_algo_whole, g_algo_called)
__CPROVER_ensures(g_algo_called == true && g_algo_stable == (stable != 0) && g_algo_whole == (from_begin != 0 && to_end != 0)) ;
@@FN sortAlgo@@
void h_sortAlgo(void)
{
    size_t n; g_scratch_size = n; g_algo_called = false; g_algo_stable = false; g_algo_whole = false; g_cache_guarded_n = false; g_cache_guarded_s = false; g_cmp_made = false;
    sortAlgo(0, 0);
}
@@FN sortList@@
void h_sortList(void)
{
    size_t nk, n, w, v, sp; const XalanNode *a, *b, *c, *d;
    g_nkeys = nk; g_len0 = n; g_list_len = n; g_w = w; g_v = v; g_item_w = a; g_scratch_size = 0; g_scr_w_node = b; g_scr_w_pos = sp; g_sorted = false; g_guarded = false; g_sorted_v_node = c; g_out_v = d; g_cleared = false;
    sortList(0, 0, 0);
}
'''
R = [(r'm_keys\.empty\(\) == false', '(g_nkeys != 0)', 1),
     (r'const NodeRefListBase::size_type\s+theLength = theList\.getLength\(\);', 'const size_t theLength = xv_list_length(theList);', 1),
     (r'assert\(m_scratchVector\.empty\(\) == true\);', 'assert(g_scratch_size == 0);', (0, 1)),
     (r'm_scratchVector\.size\(\) < theLength', 'xv_scratch_size() < theLength', (0, 1)),
     (r'm_scratchVector\.resize\((\w+)\);', r'xv_scratch_resize(\1);', (0, 1)),
     (r'm_scratchVector\[(\w+)\] = NodeVectorType::value_type\(theList\.item\((\w+)\), (\w+)\);', r'xv_scratch_set(\1, xv_list_item(theList, \2), \3);', (0, 1)),
     (r'CollectionClearGuard<NodeVectorType>\s+guard\(m_scratchVector\);', 'xv_guard_scratch();', (0, 1)),
     (r'm_scratchVector\.clear\(\);', 'xv_scratch_clear();', (0, 2)),
     (r'm_scratchVector\.reserve\(theLength\);', '', (0, 1)),
     (r'NodeRefListBase::size_type\s+i = 0;', 'size_t i = 0;', 1),
     (r'm_scratchVector\.push_back\(NodeVectorType::value_type\(theList\.item\((\w+)\), (\w+)\)\);', r'xv_scratch_push(xv_list_item(theList, \1), \2);', (0, 1)),
     (r'(?<![\w.>])sort\(executionContext\);', 'xv_stable_sort(self);', (0, 2)),
     (r'assert\(m_scratchVector\.size\(\) == NodeVectorType::size_type\(theLength\)\);', 'assert(g_scratch_size == theLength);', 1),
     (r'theList\.clear\(\);', 'xv_list_clear(theList);', (0, 1)),
     (r'theList\.addNode\(m_scratchVector\[(\w+)\]\.m_node\);', r'xv_list_add(theList, xv_scratch_node(\1));', 1),
     (r'assert\(theList\.getLength\(\) == theLength\);', 'assert(xv_list_length(theList) == theLength);', 1)]
def _algo(m):
    name, a, b, c = m.group(1), m.group(2).strip(), m.group(3).strip(), m.group(4).strip()
    return 'xv_algo(%d, %d, %d, %d);' % (1 if name == 'stable_sort' else 0, 1 if a == 'm_scratchVector.begin()' else 0,
                                          1 if b == 'm_scratchVector.end()' else 0, 1 if c == 'theComparer' else 0)
R2 = [(r'assert\(m_scratchVector\.empty\(\) == false\);', 'assert(g_scratch_size != 0);', (0, 1)),
      (r'const CollectionClearGuard<NumberResultsCacheType>\s+guard1\(m_numberResultsCache\);', 'xv_guard_cache(1);', (0, 1)),
      (r'const CollectionClearGuard<StringResultsCacheType>\s+guard2\(m_stringResultsCache\);', 'xv_guard_cache(2);', (0, 1)),
      (r'NodeSortKeyCompare\s+theComparer\(\s*executionContext,\s*\*this,\s*m_scratchVector,\s*m_keys\);', 'xv_make_comparer();', 1),
      (r'using std::\w+;', '', (0, 2)),
      (r'(?<![\w.>:])(?:std::)?(\w*sort\w*)\(([^,;]*),([^,;]*),([^,;]*)\);', _algo, 1)]
GH = 'g_scratch_size, g_scr_w_node, g_scr_w_pos, g_sorted, g_list_len, g_out_v, g_cleared, g_guarded'
UNIT = Unit(
    name='c16_sortlist',
    props=['C16', 'C06'],
    functions=[Fn(NS, r'^NodeSorter::sort\(StylesheetExecutionContext&\s+executionContext\)', 'sortAlgo',
                  'void sortAlgo(Self* self, StylesheetExecutionContext* executionContext)', rules=R2, nloops=0,
                  contract='''__CPROVER_requires(g_scratch_size != 0 && g_algo_called == false && g_cache_guarded_n == false && g_cache_guarded_s == false && g_cmp_made == false)
__CPROVER_assigns(g_algo_stable, g_algo_whole, g_algo_called, g_cache_guarded_n, g_cache_guarded_s, g_cmp_made)
__CPROVER_ensures(/* all entries are sorted, by an algorithm that keeps entries the comparator calls equivalent in their input order: with the document-order fallback of the comparator (unit c16_compare) nodes equal on every key stay in document order */
    g_algo_called == true && g_algo_whole == true && g_algo_stable == true)'''),
               Fn(NS, r'^NodeSorter::sort\(\s*StylesheetExecutionContext&\s+executionContext,\s*MutableNodeRefList&\s+theList\)', 'sortList',
                  'void sortList(Self* self, StylesheetExecutionContext* executionContext, MutableNodeRefList* theList)', rules=R, nloops=2,
                  loops={0: '''__CPROVER_assigns(i, g_scratch_size, g_scr_w_node, g_scr_w_pos)
__CPROVER_loop_invariant(i <= theLength && g_scratch_size == i && g_sorted == false && g_cleared == false && g_list_len == theLength)
__CPROVER_loop_invariant(/* the entries filled so far are (node at p, p) */ i > g_w ==> (g_scr_w_node == g_item_w && g_scr_w_pos == g_w))
__CPROVER_decreases(theLength - i)''',
                         1: '''__CPROVER_assigns(i, g_list_len, g_out_v)
__CPROVER_loop_invariant(i <= theLength && g_list_len == i && g_sorted == true && g_cleared == true && g_scratch_size == theLength)
__CPROVER_loop_invariant(/* the list rebuilt so far holds the nodes of the sorted entries in order */ i > g_v ==> g_out_v == g_sorted_v_node)
__CPROVER_decreases(theLength - i)'''},
                  contract='''__CPROVER_requires(g_list_len == g_len0 && g_len0 <= ((size_t)1 << 40) && g_scratch_size == 0 && g_sorted == false && g_cleared == false && g_guarded == false)
__CPROVER_assigns(''' + GH + ''')
__CPROVER_ensures(/* without sort keys the list is left as selected */ g_nkeys == 0 ==> (g_sorted == false && g_cleared == false && g_list_len == g_len0))
__CPROVER_ensures(/* with keys: sorted once, and the list has one node per selected node, the k-th being the node of the k-th sorted entry */
    g_nkeys != 0 ==> (g_sorted == true && g_list_len == g_len0 && (g_v < g_len0 ==> g_out_v == g_sorted_v_node)))''')],
    template=TEMPLATE,
    jobs=[Job('sortAlgo', 'h_sortAlgo', enforce=['sortAlgo'], replace=['xv_guard_cache', 'xv_make_comparer', 'xv_algo'], reach='all', timeout=300, min_obligations=4),
          Job('sortList', 'h_sortList', enforce=['sortList'], replace=['xv_scratch_size', 'xv_scratch_resize', 'xv_scratch_set', 'xv_guard_scratch', 'xv_scratch_clear', 'xv_list_length', 'xv_list_item', 'xv_scratch_push', 'xv_stable_sort', 'xv_list_clear', 'xv_scratch_node', 'xv_list_add'],
              loop_contracts=True, reach='all', timeout=300, min_obligations=8)],
    mutants=[
        Mutant('unstable_sort', NS, r'using std::stable_sort;(.*?)\n    stable_sort\(', r'using std::sort;\1\n    sort(', expect='equivalent'),
        Mutant('sorts_all_but_last', NS, r'm_scratchVector\.end\(\),\s*theComparer\);', 'm_scratchVector.end() - 1, theComparer);', expect='equivalent'),
        Mutant('result_cache_not_guarded', NS, r'const CollectionClearGuard<StringResultsCacheType>  guard2\(m_stringResultsCache\);', '', expect='caches'),
        Mutant('guard_replaced_by_clear', NS, r'CollectionClearGuard<NodeVectorType>    guard\(m_scratchVector\);', '', expect='guard'),
        Mutant('position_constant', NS, r'value_type\(theList\.item\(i\), i\)\);', 'value_type(theList.item(i), 0));', expect='position recorded with a node'),
        Mutant('copy_out_off_by_one', NS, r'(theList\.clear\(\);\s*for \()i = 0(; i < theLength; \+\+i\))', r'\g<1>i = 1\2', expect=None),
        Mutant('list_not_cleared', NS, r'\n        theList\.clear\(\);\n', '\n', expect=None),
    ],
    mechanisms=['stable_sort over (node, original position) with recursive multi-key comparator'],
    assumptions=['std::stable_sort permutes the entries it is given into comparator order and keeps equivalent entries in input order (library, not verified); the comparator is unit c16_compare',
                 'MutableNodeRefList::item/addNode/clear/getLength behave like a sequence (modelled by length and two witness elements)'],
)
