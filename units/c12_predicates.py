"""C12: the "is node1 after node2" predicates that place a node in an ordered node list (MutableNodeRefList.cpp).  Within one document
they must agree with document order, in which the document node (and a document fragment root) precedes every other node of its tree;
a node of another document goes after.  The document node has no owner document in the DOM, so it must be treated as its own owner."""
from xvlib.unit import Fn, Job, Unit, Mutant

ML = 'src/xalanc/XPath/MutableNodeRefList.cpp'
TEMPLATE = r'''
#include "xv_shim.h"
typedef struct XalanNode XalanNode; typedef int XalanNode_NodeType; typedef struct Ctx XPathExecutionContext;
enum { XalanNode_ELEMENT_NODE = 1, XalanNode_ATTRIBUTE_NODE = 2, XalanNode_TEXT_NODE = 3, XalanNode_DOCUMENT_NODE = 9, XalanNode_DOCUMENT_FRAGMENT_NODE = 11 };
/* ghost: the two nodes: type, DOM owner document (0 for a document / fragment root), the tree they belong to, their index, and what the
   DOM support answers for two non-root nodes of one tree */
const XalanNode *g_n1, *g_n2; int g_t1, g_t2; const XalanNode *g_o1, *g_o2; unsigned long g_i1, g_i2; bool g_support_answer; bool g_support_asked;
#define ROOT(t) ((t) == XalanNode_DOCUMENT_NODE || (t) == XalanNode_DOCUMENT_FRAGMENT_NODE)
#define TREE1 (ROOT(g_t1) ? g_n1 : g_o1)
#define TREE2 (ROOT(g_t2) ? g_n2 : g_o2)
int xv_node_type(const XalanNode* n) __CPROVER_requires(n == g_n1 || n == g_n2) __CPROVER_assigns() __CPROVER_ensures(__CPROVER_return_value == (n == g_n1 ? g_t1 : g_t2)) ;
const XalanNode* xv_owner(const XalanNode* n) __CPROVER_requires(n == g_n1 || n == g_n2) __CPROVER_assigns() __CPROVER_ensures(__CPROVER_return_value == (n == g_n1 ? g_o1 : g_o2)) ;
unsigned long xv_index(const XalanNode* n) __CPROVER_requires(n == g_n1 || n == g_n2) __CPROVER_assigns() __CPROVER_ensures(__CPROVER_return_value == (n == g_n1 ? g_i1 : g_i2)) ;
/* XPathExecutionContext::isNodeAfter -> DOMSupport::isNodeAfter: defined for two nodes of one document, neither of them the document node
   (DOMServices::isNodeAfter asserts exactly that) */
bool xv_support_isNodeAfter(const XPathExecutionContext* c, const XalanNode* a, const XalanNode* b)
__CPROVER_requires(a == g_n1 && b == g_n2)
__CPROVER_requires(/* the DOM support is asked only about two non-root nodes of the same document */ !ROOT(g_t1) && !ROOT(g_t2) && g_o1 == g_o2)
__CPROVER_assigns(g_support_asked) __CPROVER_ensures(g_support_asked == true && __CPROVER_return_value == g_support_answer) ;
#define WELLFORMED (g_n1 != 0 && g_n2 != 0 && g_n1 != g_n2 && (ROOT(g_t1) ? g_o1 == 0 : g_o1 != 0) && (ROOT(g_t2) ? g_o2 == 0 : g_o2 != 0) \
    && /* the root of a tree has the smallest index in it */ (TREE1 == TREE2 ==> ((ROOT(g_t1) ==> g_i1 < g_i2) && (ROOT(g_t2) ==> g_i2 < g_i1) && g_i1 != g_i2)))
@@FN DocumentPredicate@@
@@FN IndexPredicate@@
@@FN ExecutionContextPredicate@@
static void xv_havoc(void) { const XalanNode *a, *b, *c, *d; int s, t; unsigned long i, j; bool x; g_n1 = a; g_n2 = b; g_t1 = s; g_t2 = t; g_o1 = c; g_o2 = d; g_i1 = i; g_i2 = j; g_support_answer = XV_BOOL(x); g_support_asked = false; }
void h_document(void) { xv_havoc(); DocumentPredicate(g_n1, g_n2); }
void h_index(void) { xv_havoc(); IndexPredicate(g_n1, g_n2); }
void h_context(void) { xv_havoc(); ExecutionContextPredicate(0, g_n1, g_n2); }
'''
R = ['SCOPE',
     (r'&(node[12])\b', r'\1', (0, 2)),
     (r'\b(node[12])\.getNodeType\(\)', r'xv_node_type(\1)', (0, 8)),
     (r'\b(node[12])\.getOwnerDocument\(\)', r'xv_owner(\1)', (0, 8)),
     (r'\b(node[12])\.getIndex\(\)', r'xv_index(\1)', (0, 4)),
     (r'm_documentPredicate\(node1, node2\)', 'DocumentPredicate(node1, node2)', (0, 1)),
     (r'm_executionContext\.isNodeAfter\(node1, node2\)', 'xv_support_isNodeAfter(m_executionContext, node1, node2)', (0, 1)),
     (r'assert\(xv_owner\(node1\) == xv_owner\(node2\)\);', '', (0, 1)),
     (r'assert\(\s*xv_node_type\(node1\) != XalanNode_DOCUMENT_NODE &&.*?\);', '', (0, 1))]
PRE = '__CPROVER_requires(node1 == g_n1 && node2 == g_n2 && WELLFORMED && g_support_asked == false)\n'
UNIT = Unit(
    name='c12_predicates',
    props=['C12'],
    functions=[
        Fn(ML, r'^\s+operator\(\)\(\s*const XalanNode&\s+node1,\s*const XalanNode&\s+node2\) const', 'DocumentPredicate', 'bool DocumentPredicate(const XalanNode* node1, const XalanNode* node2)',
           rules=R, nloops=0, after=r'^struct DocumentPredicate', reach=False,
           contract=PRE + '''__CPROVER_assigns()
__CPROVER_ensures(/* "belongs to another document": a document node or fragment root is its own tree, every other node belongs to its owner document */
    __CPROVER_return_value == (TREE1 != TREE2))'''),
        Fn(ML, r'^\s+operator\(\)\(\s*const XalanNode&\s+node1,\s*const XalanNode&\s+node2\) const', 'IndexPredicate', 'bool IndexPredicate(const XalanNode* node1, const XalanNode* node2)',
           rules=R, nloops=0, after=r'^struct IndexPredicate',
           contract=PRE + '''__CPROVER_assigns()
__CPROVER_ensures(/* indexed documents: a node of another document goes after; within one document the larger index is after (the document node has the smallest) */
    __CPROVER_return_value == (TREE1 != TREE2 ? true : (g_i1 > g_i2)))'''),
        Fn(ML, r'^\s+operator\(\)\(\s*const XalanNode&\s+node1,\s*const XalanNode&\s+node2\) const', 'ExecutionContextPredicate', 'bool ExecutionContextPredicate(const XPathExecutionContext* m_executionContext, const XalanNode* node1, const XalanNode* node2)',
           rules=R, nloops=0, after=r'^struct ExecutionContextPredicate',
           contract=PRE + '''__CPROVER_assigns(g_support_asked)
__CPROVER_ensures(/* a node of another document goes after */ TREE1 != TREE2 ==> __CPROVER_return_value == true)
__CPROVER_ensures(/* document order within one tree: the document node (fragment root) precedes every other node of its tree */
    (TREE1 == TREE2 && ROOT(g_t1)) ==> __CPROVER_return_value == false)
__CPROVER_ensures((TREE1 == TREE2 && ROOT(g_t2)) ==> __CPROVER_return_value == true)
__CPROVER_ensures(/* two other nodes of one tree: what the DOM support says */ (TREE1 == TREE2 && !ROOT(g_t1) && !ROOT(g_t2)) ==> (g_support_asked == true && __CPROVER_return_value == g_support_answer))'''),
    ],
    template=TEMPLATE,
    jobs=[Job('document', 'h_document', enforce=['DocumentPredicate'], replace=['xv_node_type', 'xv_owner'], reach='all', timeout=120, min_obligations=1),
          Job('index', 'h_index', enforce=['IndexPredicate'], replace=['DocumentPredicate', 'xv_index'], reach='all', timeout=120, min_obligations=1),
          Job('context', 'h_context', enforce=['ExecutionContextPredicate'], replace=['DocumentPredicate', 'xv_support_isNodeAfter', 'xv_node_type'], reach='all', timeout=120, min_obligations=3)],
    mutants=[
        Mutant('document_node_has_no_owner', ML, r'node1Type == XalanNode::DOCUMENT_FRAGMENT_NODE \?\s*&node1 : node1\.getOwnerDocument\(\);', 'node1Type == XalanNode::DOCUMENT_FRAGMENT_NODE ?\n                node1.getOwnerDocument() : node1.getOwnerDocument();', expect='its own tree'),
        Mutant('document_node_asked_of_support', ML, r'if \(node1Type == XalanNode::DOCUMENT_NODE \|\|\s*node1Type == XalanNode::DOCUMENT_FRAGMENT_NODE\)\s*\{\s*return false;\s*\}\s*else if', 'if', expect=None),
    ],
    mechanisms=['ordered de-duplicating insert of MutableNodeRefList (predicates)'],
    assumptions=['the document node (fragment root) has a smaller index than every other node of its tree (XalanSourceTreeDocument::getIndex() is 1, nodes start at 2; read)',
                 'nodes of different documents are only required to go "after" (the relative order of documents is implementation-defined; that the nodes of one document stay together is proved in c12_search: linsearch + documents_lemma, after fix F33)'],
)
