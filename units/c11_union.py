"""C11 / C02: the union operator in every evaluation form.  The node-list form merges EVERY operand (the parser emits one flat union of n
operands, terminated by ENDOP) into one document-ordered list; the boolean, number, string and character-event forms are the standard
conversions of exactly that list - so `a|b|c` asked as a boolean sees the third operand too."""
from xvlib.unit import Fn, Job, Unit, Mutant

XP = 'src/xalanc/XPath/XPath.cpp'
TEMPLATE = r'''
#include "xv_shim.h"
typedef struct XalanNode XalanNode; typedef struct Ctx Ctx; typedef struct Self Self; typedef long OpCodeMapPositionType; typedef struct List MutableNodeRefList; typedef struct XalanDOMString XalanDOMString;
typedef struct FL FormatterListener; typedef int MemberFunctionPtr; typedef int XObjectPtr;
enum { XPathExpression_eENDOP = -1 };
/* ghost: the union has g_nops operands laid out one after another from opPos + 2; operand k starts at g_first + k * STRIDE (symbolic stride via next-op stub) */
long g_nops, g_merged, g_first; bool g_flagged; bool g_list_built; const XalanNode* g_list_ctx; long g_list_op; MutableNodeRefList g_borrowed;
int g_conv; enum { CV_NONE, CV_BOOL, CV_NUM, CV_STR, CV_EVENTS }; bool g_bool_of_list; double g_num_of_list;
#define OP_INDEX(pos) (((pos) - g_first) / 8)
#define AT_OPERAND(pos) ((pos) >= g_first && ((pos) - g_first) % 8 == 0 && OP_INDEX(pos) <= g_nops)
int xv_op_at(const Self* s, long pos) __CPROVER_requires(AT_OPERAND(pos)) __CPROVER_assigns() __CPROVER_ensures((__CPROVER_return_value == XPathExpression_eENDOP) == (OP_INDEX(pos) == g_nops)) ;
long xv_next_op(const Self* s, long pos) __CPROVER_requires(AT_OPERAND(pos) && OP_INDEX(pos) < g_nops) __CPROVER_assigns() __CPROVER_ensures(__CPROVER_return_value == pos + 8) ;
MutableNodeRefList* xv_borrow_list(Ctx* c) __CPROVER_requires(1) __CPROVER_assigns() __CPROVER_ensures(__CPROVER_return_value == &g_borrowed) ;
/* evaluate operand at pos into temp (or return a node-set object) and merge it in document order */
void xv_merge_operand(const Self* s, XalanNode* context, long pos, Ctx* c, MutableNodeRefList* result)
__CPROVER_requires(/* operands are merged one after another, each once */ AT_OPERAND(pos) && OP_INDEX(pos) == g_merged && g_merged < g_nops && g_flagged == false) __CPROVER_assigns(g_merged) __CPROVER_ensures(g_merged == __CPROVER_old(g_merged) + 1) ;
void xv_set_document_order(MutableNodeRefList* l) __CPROVER_requires(1) __CPROVER_assigns(g_flagged) __CPROVER_ensures(g_flagged == true) ;
bool xv_list_empty(const MutableNodeRefList* l) __CPROVER_requires(1) __CPROVER_assigns() __CPROVER_ensures(__CPROVER_return_value == true) ;
/* the node-list form, by its contract (job union_list), for the typed forms */
void xv_union_list(const Self* s, XalanNode* context, long opPos, Ctx* c, MutableNodeRefList* result)
__CPROVER_requires(result == &g_borrowed && g_list_built == false) __CPROVER_assigns(g_list_built, g_list_ctx, g_list_op) __CPROVER_ensures(g_list_built == true && g_list_ctx == context && g_list_op == opPos) ;
bool xv_boolean_of(const MutableNodeRefList* l) __CPROVER_requires(l == &g_borrowed && g_list_built == true && g_conv == CV_NONE) __CPROVER_assigns(g_conv) __CPROVER_ensures(g_conv == CV_BOOL && __CPROVER_return_value == g_bool_of_list) ;
double xv_number_of(Ctx* c, const MutableNodeRefList* l) __CPROVER_requires(l == &g_borrowed && g_list_built == true && g_conv == CV_NONE) __CPROVER_assigns(g_conv) __CPROVER_ensures(g_conv == CV_NUM && XV_SAME(__CPROVER_return_value, g_num_of_list)) ;
void xv_string_of(const MutableNodeRefList* l, Ctx* c, XalanDOMString* out) __CPROVER_requires(l == &g_borrowed && g_list_built == true && g_conv == CV_NONE) __CPROVER_assigns(g_conv) __CPROVER_ensures(g_conv == CV_STR) ;
void xv_events_of(const MutableNodeRefList* l, Ctx* c, FormatterListener* fl, MemberFunctionPtr f) __CPROVER_requires(l == &g_borrowed && g_list_built == true && g_conv == CV_NONE) __CPROVER_assigns(g_conv) __CPROVER_ensures(g_conv == CV_EVENTS) ;
/* operand evaluation in a typed form: never part of a union (stub exists so that such code extracts and then fails the contract) */
void xv_execute_operand_typed(const Self* s, XalanNode* context, long pos, Ctx* c) __CPROVER_requires(1) __CPROVER_assigns() __CPROVER_ensures(1) ;
@@FN union_list@@
@@FN union_bool@@
@@FN union_num@@
@@FN union_str@@
@@FN union_events@@
static void xv_havoc(void) { long n, f; bool b; double d; __CPROVER_assume(n >= 0 && n <= (1L << 30) && f >= 2 && f <= (1L << 30)); g_nops = n; g_first = f; g_merged = 0; g_flagged = false; g_list_built = false; g_conv = CV_NONE; g_bool_of_list = XV_BOOL(b); g_num_of_list = d; g_list_ctx = 0; g_list_op = -1; }
void h_union_list(void) { xv_havoc(); XalanNode* n; union_list(0, n, g_first - 2, 0, &g_borrowed); }
void h_union_bool(void) { xv_havoc(); XalanNode* n; bool r; union_bool(0, n, g_first - 2, 0, &r); }
void h_union_num(void) { xv_havoc(); XalanNode* n; double r; union_num(0, n, g_first - 2, 0, &r); }
void h_union_str(void) { xv_havoc(); XalanNode* n; union_str(0, n, g_first - 2, 0, 0); }
void h_union_events(void) { xv_havoc(); XalanNode* n; union_events(0, n, g_first - 2, 0, 0, 0); }
'''
R = ['SCOPE',
     (r'typedef XPathExecutionContext_BorrowReturnMutableNodeRefList\s+BorrowReturnMutableNodeRefList;', '', (0, 1)),
     (r'BorrowReturnMutableNodeRefList\s+resultNodeList\(executionContext\);', 'MutableNodeRefList* const resultNodeList = xv_borrow_list(executionContext);', (0, 1)),
     (r'(?<![\w.>])Union\(context, opPos, executionContext, \*resultNodeList\);', 'xv_union_list(self, context, opPos, executionContext, resultNodeList);', (0, 1)),
     (r'XObject_boolean\(\*resultNodeList\)', 'xv_boolean_of(resultNodeList)', (0, 1)),
     (r'XObject_number\(executionContext, \*resultNodeList\)', 'xv_number_of(executionContext, resultNodeList)', (0, 1)),
     (r'XObject_string\(\*resultNodeList, executionContext, result\);', 'xv_string_of(resultNodeList, executionContext, result);', (0, 1)),
     (r'XObject_string\(\*resultNodeList, executionContext, formatterListener, function\);', 'xv_events_of(resultNodeList, executionContext, formatterListener, function);', (0, 1)),
     (r'(?<![\w.>])result = ', '*result = ', (0, 2)),
     # the list form
     (r'assert\(result\.empty\(\) == true\);', 'assert(xv_list_empty(result) == true);', (0, 1)),
     (r'BorrowReturnMutableNodeRefList\s+theGuard\(executionContext\);\s*MutableNodeRefList&\s+tempNodeList = \*theGuard;', '', (0, 1)),
     (r'm_expression\.getOpCodeMapValue\(opPos\)', 'xv_op_at(self, opPos)', (0, 2)),
     (r'const XObjectPtr\s+nodesetResult\(executeMore\(context, opPos, executionContext, tempNodeList\)\);\s*if \(nodesetResult\.null\(\) == false\)\s*\{\s*result\.addNodesInDocOrder\(nodesetResult->nodeset\(\), executionContext\);\s*\}\s*else\s*\{\s*result\.addNodesInDocOrder\(tempNodeList, executionContext\);\s*tempNodeList\.clear\(\);\s*\}',
      'xv_merge_operand(self, context, opPos, executionContext, result);', (0, 1)),
     (r'm_expression\.getNextOpCodePosition\(opPos\)', 'xv_next_op(self, opPos)', (0, 2)),
     (r'result\.setDocumentOrder\(\);', 'xv_set_document_order(result);', (0, 1)),
     (r'(?<![\w.>])executeMore\(context, opPos, executionContext, (?:\*?result|resultValue)\);', 'xv_execute_operand_typed(self, context, opPos, executionContext);', (0, 4))]
TYPED_PRE = '__CPROVER_requires(g_list_built == false && g_conv == CV_NONE && opPos == g_first - 2)\n__CPROVER_assigns(g_list_built, g_list_ctx, g_list_op, g_conv%s)\n'
TYPED_POST = '__CPROVER_ensures(/* the %s form is the standard conversion of the merged node list of ALL operands (same context node, same union) */ g_list_built == true && g_list_ctx == context && g_list_op == opPos && g_conv == %s%s)'


def typed(name, sig_tail, head, conv, extra_assign='', extra_post=''):
    return Fn(XP, r'^XPath::Union\(\s*XalanNode\*\s+context,\s*OpCodeMapPositionType\s+opPos,\s*XPathExecutionContext&\s+executionContext,\s*' + sig_tail, name, head, rules=R, nloops=0,
              contract=TYPED_PRE % extra_assign + TYPED_POST % (name.split('_')[1], conv, extra_post))


UNIT = Unit(
    name='c11_union',
    props=['C11', 'C02', 'C12'],
    functions=[
        Fn(XP, r'^XPath::Union\(\s*XalanNode\*\s+context,\s*OpCodeMapPositionType\s+opPos,\s*XPathExecutionContext&\s+executionContext,\s*MutableNodeRefList&\s+result\) const', 'union_list',
           'void union_list(const Self* self, XalanNode* context, OpCodeMapPositionType opPos, Ctx* executionContext, MutableNodeRefList* result)', rules=R, nloops=1,
           loops={0: '''__CPROVER_assigns(opPos, g_merged)
__CPROVER_loop_invariant(AT_OPERAND(opPos) && OP_INDEX(opPos) == g_merged && g_merged <= g_nops && g_flagged == false)
__CPROVER_decreases(g_nops - g_merged)'''},
           contract='''__CPROVER_requires(g_nops >= 0 && g_nops <= (1L << 30) && g_first >= 2 && g_first <= (1L << 30) && opPos == g_first - 2 && g_merged == 0 && g_flagged == false)
__CPROVER_assigns(g_merged, g_flagged)
__CPROVER_ensures(/* every operand of the (flat, n-ary) union is merged, then the list is flagged document-ordered */ g_merged == g_nops && g_flagged == true)'''),
        typed('union_bool', r'bool&\s+result\) const', 'void union_bool(const Self* self, XalanNode* context, OpCodeMapPositionType opPos, Ctx* executionContext, bool* result)', 'CV_BOOL', ', *result', ' && *result == g_bool_of_list'),
        typed('union_num', r'double&\s+result\) const', 'void union_num(const Self* self, XalanNode* context, OpCodeMapPositionType opPos, Ctx* executionContext, double* result)', 'CV_NUM', ', *result', ' && XV_SAME(*result, g_num_of_list)'),
        typed('union_str', r'XalanDOMString&\s+result\) const', 'void union_str(const Self* self, XalanNode* context, OpCodeMapPositionType opPos, Ctx* executionContext, XalanDOMString* result)', 'CV_STR'),
        typed('union_events', r'FormatterListener&\s+formatterListener,\s*MemberFunctionPtr\s+function\) const', 'void union_events(const Self* self, XalanNode* context, OpCodeMapPositionType opPos, Ctx* executionContext, FormatterListener* formatterListener, MemberFunctionPtr function)', 'CV_EVENTS'),
    ],
    template=TEMPLATE,
    jobs=[Job('union_list', 'h_union_list', enforce=['union_list'], replace=['xv_op_at', 'xv_next_op', 'xv_merge_operand', 'xv_set_document_order', 'xv_list_empty'], loop_contracts=True, reach='all', timeout=300, min_obligations=5)] +
         [Job(n, 'h_' + n, enforce=[n], replace=['xv_borrow_list', 'xv_union_list', 'xv_boolean_of', 'xv_number_of', 'xv_string_of', 'xv_events_of', 'xv_execute_operand_typed', 'xv_next_op'], reach=['entry:' + n], timeout=120, min_obligations=3)
          for n in ('union_bool', 'union_num', 'union_str', 'union_events')],
    mutants=[
        Mutant('boolean_union_looks_at_two_operands', XP, r'(bool&                   result\) const\s*\{\s*)typedef XPathExecutionContext::BorrowReturnMutableNodeRefList   BorrowReturnMutableNodeRefList;\s*BorrowReturnMutableNodeRefList  resultNodeList\(executionContext\);\s*Union\(context, opPos, executionContext, \*resultNodeList\);\s*result = XObject::boolean\(\*resultNodeList\);',
               r'\1opPos += 2;\n\n    executeMore(context, opPos, executionContext, result);\n\n    if (result == false)\n    {\n        opPos = m_expression.getNextOpCodePosition(opPos);\n\n        executeMore(context, opPos, executionContext, result);\n    }', expect=None),
        Mutant('list_union_stops_after_first_operand', XP, r'(            tempNodeList\.clear\(\);\s*\}\s*)opPos = m_expression\.getNextOpCodePosition\(opPos\);(\s*\}\s*result\.setDocumentOrder\(\);)', r'\1break;\2', expect=None),
        Mutant('number_union_of_fresh_list', XP, r'(double&                 result\) const\s*\{\s*typedef[^;]*;\s*BorrowReturnMutableNodeRefList  resultNodeList\(executionContext\);\s*)Union\(context, opPos, executionContext, \*resultNodeList\);', r'\1', expect=None),
    ],
    mechanisms=['union operator, all evaluation forms', 'union and step merging'],
    assumptions=['the op-code map lays the operands of a union out one after another (getNextOpCodePosition steps from one to the next, ENDOP follows the last); operand positions are modelled with a fixed symbolic stride',
                 'evaluating an operand and merging it (addNodesInDocOrder: units c12_addnode / c12_search) is one stub; XObject::boolean / number / string of a node list are units c11_nodenumber etc.'],
)
