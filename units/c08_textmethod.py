"""C08: the text output method (FormatterToText).  characters() writes every unit of the text once, in order, unescaped - as one block when
neither newline normalisation nor an encoding limit is active, unit by unit otherwise (on this platform the newline is LF, so the
normalising branch is not compiled; the extraction follows the build configuration) - and nothing else; cdata() and charactersRaw() are
characters(); ignorableWhitespace() is characters() when whitespace handling is on, nothing otherwise."""
from xvlib.unit import Fn, Job, Unit, Mutant

FT = 'src/xalanc/XMLSupport/FormatterToText.cpp'
TEMPLATE = r'''
#include "xv_shim.h"
typedef XalanDOMChar XMLCh; typedef size_t size_type; typedef struct W Writer;
typedef struct Self { Writer* m_writer; bool m_normalize; bool m_haveEncoding; XalanDOMChar m_maxCharacter; bool m_handleIgnorableWhitespace; } Self;
const XMLCh* g_in; size_t g_len; size_t g_cursor; int g_blocks; int g_fwd; const XMLCh* g_fwd_p; size_t g_fwd_n;
Self g_self;
/* Writer::write(chars, start, length) */
void xv_write_block(Writer* w, const XMLCh* p, size_t start, size_t n)
__CPROVER_requires(/* the block written is the whole text, from its start */ w != 0 && __CPROVER_pointer_in_range_dfcc(g_in, p, g_in) && start == 0 && n == g_len && g_cursor == 0)
__CPROVER_assigns(g_cursor, g_blocks) __CPROVER_ensures(g_cursor == n && g_blocks == __CPROVER_old(g_blocks) + 1) ;
/* Writer::write(XalanDOMChar) */
void xv_write_unit(Writer* w, XalanDOMChar c)
__CPROVER_requires(/* the unit written is the next unit of the text, unchanged */ w != 0 && g_cursor < g_len && c == g_in[g_cursor])
__CPROVER_assigns(g_cursor) __CPROVER_ensures(g_cursor == __CPROVER_old(g_cursor) + 1) ;
@@FN characters@@
/* the same function as a stub, for the forwarding functions */
void xv_characters(Self* s, const XMLCh* p, size_t n) __CPROVER_requires(1) __CPROVER_assigns(g_fwd, g_fwd_p, g_fwd_n) __CPROVER_ensures(g_fwd == __CPROVER_old(g_fwd) + 1 && g_fwd_p == p && g_fwd_n == n) ;
@@FN charactersRaw@@
@@FN cdata@@
@@FN ignorableWhitespace@@
static void xv_havoc(void) { bool a, b, c; XalanDOMChar m; Writer* w; g_self.m_writer = w; g_self.m_normalize = XV_BOOL(a); g_self.m_haveEncoding = XV_BOOL(b); g_self.m_handleIgnorableWhitespace = XV_BOOL(c); g_self.m_maxCharacter = m; g_cursor = 0; g_blocks = 0; g_fwd = 0; }
void h_characters(void) { xv_havoc(); const XMLCh* p; size_t n; g_len = n; characters(&g_self, p, n); }
void h_raw(void) { xv_havoc(); const XMLCh* p; size_t n; charactersRaw(&g_self, p, n); }
void h_cdata(void) { xv_havoc(); const XMLCh* p; size_t n; cdata(&g_self, p, n); }
void h_ws(void) { xv_havoc(); const XMLCh* p; size_t n; ignorableWhitespace(&g_self, p, n); }
'''
M = [(r'\b(m_writer|m_normalize|m_haveEncoding|m_maxCharacter|m_handleIgnorableWhitespace)\b', r'self->\1', None)]
RC = [(r'm_writer->write\(chars, 0, length\);', 'xv_write_block(m_writer, chars, 0, length);', (0, 1)),
      (r'm_writer->write\(chars\[i\]\);', 'xv_write_unit(m_writer, chars[i]);', (1, 3))] + M
RF = [(r'(?<![\w.>])characters\((\w+), length\);', r'xv_characters(self, \1, length);', (0, 1)),
      (r'\b(m_handleIgnorableWhitespace)\b', r'self->\1', (0, 2))]
FWD = '__CPROVER_requires(self == &g_self && g_fwd == 0)\n__CPROVER_assigns(g_fwd, g_fwd_p, g_fwd_n)\n'
UNIT = Unit(
    name='c08_textmethod',
    props=['C08'],
    functions=[
        Fn(FT, r'^FormatterToText::characters\(\s*const XMLCh\* const\s+chars,\s*const size_type\s+length\)', 'characters', 'void characters(Self* self, const XMLCh* const chars, const size_type length)',
           rules=RC, nloops=1,
           loops={0: '''__CPROVER_assigns(i, g_cursor)
__CPROVER_loop_invariant(i <= length && g_cursor == i)
__CPROVER_decreases(length - i)'''},
           contract='''__CPROVER_requires(self == &g_self && g_self.m_writer != 0 && length == g_len && length <= ((size_t)1 << 40) && g_cursor == 0 && g_blocks == 0)
__CPROVER_requires(__CPROVER_is_fresh(chars, (length + 1) * sizeof(XMLCh)) && __CPROVER_pointer_in_range_dfcc(chars, g_in, chars))
__CPROVER_assigns(g_cursor, g_blocks)
__CPROVER_ensures(/* text method: every unit of the text is written, once, in order, unescaped (by the writer stubs: the next unit, unchanged) */ g_cursor == length)
__CPROVER_ensures(/* one block only on the fast path */ g_blocks == ((g_self.m_normalize == false && g_self.m_haveEncoding == false) ? 1 : 0))'''),
        Fn(FT, r'^FormatterToText::charactersRaw\(\s*const XMLCh\* const\s+chars,\s*const size_type\s+length\)', 'charactersRaw', 'void charactersRaw(Self* self, const XMLCh* const chars, const size_type length)', rules=RF, nloops=0,
           contract=FWD + '__CPROVER_ensures(/* raw text is written like any text (the text method never escapes) */ g_fwd == 1 && g_fwd_p == chars && g_fwd_n == length)'),
        Fn(FT, r'^FormatterToText::cdata\(\s*const XMLCh\* const\s+ch,\s*const size_type\s+length\)', 'cdata', 'void cdata(Self* self, const XMLCh* const ch, const size_type length)', rules=RF, nloops=0,
           contract=FWD + '__CPROVER_ensures(/* a CDATA section is written as its text */ g_fwd == 1 && g_fwd_p == ch && g_fwd_n == length)'),
        Fn(FT, r'^FormatterToText::ignorableWhitespace\(\s*const XMLCh\* const\s+chars,\s*const size_type\s+length\)', 'ignorableWhitespace', 'void ignorableWhitespace(Self* self, const XMLCh* const chars, const size_type length)', rules=RF, nloops=0,
           contract=FWD + '__CPROVER_requires(g_self.m_handleIgnorableWhitespace == true || g_self.m_handleIgnorableWhitespace == false)\n__CPROVER_ensures(g_self.m_handleIgnorableWhitespace == true ? (g_fwd == 1 && g_fwd_p == chars && g_fwd_n == length) : g_fwd == 0)'),
    ],
    template=TEMPLATE,
    jobs=[Job('characters', 'h_characters', enforce=['characters'], replace=['xv_write_block', 'xv_write_unit'], loop_contracts=True, reach='all', timeout=300, min_obligations=5),
          Job('charactersRaw', 'h_raw', enforce=['charactersRaw'], replace=['xv_characters'], reach='all', timeout=120, min_obligations=1),
          Job('cdata', 'h_cdata', enforce=['cdata'], replace=['xv_characters'], reach='all', timeout=120, min_obligations=1),
          Job('ignorableWhitespace', 'h_ws', enforce=['ignorableWhitespace'], replace=['xv_characters'], reach='all', timeout=120, min_obligations=1)],
    mutants=[
        Mutant('slow_path_skips_first_unit', FT, r'(FormatterToText::characters\(.*?)size_type   i = 0;', r'\1size_type   i = 1;', expect=None),
        Mutant('fast_path_when_encoding', FT, r'if \(m_normalize == false && m_haveEncoding == false\)', 'if (m_normalize == false)', expect='one block only'),
        Mutant('cdata_dropped', FT, r'(FormatterToText::cdata\(.*?)characters\(ch, length\);', r'\1', expect=None),
    ],
    mechanisms=['text method'],
    assumptions=['Writer::write(chars, start, length) / write(char) append to the output (stubs; the stream is unit c04_outstream); XALAN_NEWLINE_IS_CRLF is not defined in this build, the newline-normalising branch is not compiled',
                 'characters above m_maxCharacter are written as they are (the source says "ToDo"): unrepresentable characters in the text method are not covered'],
)
