from xvlib.unit import Fn, Job, Unit, Mutant

XP = 'src/xalanc/XPath/XPath.cpp'

PRELUDE = r'''
#include "xv_shim.h"
typedef struct Ctx XPathExecutionContext; typedef int OpCodeMapPositionType; typedef int MemberFunctionPtr;
typedef struct { int id; } xv_str;                                           /* a string, by identity */
typedef struct { bool b; double n; xv_str s; } XToken;                       /* a token answers boolean(), num(), str() */
typedef struct { bool isnull; bool b; double n; xv_str s; } XObjectPtr;
typedef struct { bool touched; bool assigned; xv_str appended; } xv_sink;    /* a string result / character-event target */

/* ghost: the token queue entries reachable from the op code at opPos */
XToken g_tok2, g_tok3, g_tok_other; OpCodeMapPositionType g_opPos; bool g_inStylesheet;
static const XToken* xv_token(OpCodeMapPositionType slot)
{ return slot == g_opPos + 2 ? &g_tok2 : slot == g_opPos + 3 ? &g_tok3 : &g_tok_other; }
static bool xv_true(void) { return true; }
/* XObjectFactory::createString / createNumber from a token (or from its str()/num()): the object answers like the token */
static XObjectPtr xv_createFromToken(const XToken* t) { XObjectPtr r; r.isnull = false; r.b = t->b; r.n = t->n; r.s = t->s; return r; }
static void xv_append(xv_sink* r, xv_str s) { __CPROVER_assert(!r->touched, "the result is written at most once"); r->touched = true; r->assigned = false; r->appended = s; }
static void xv_assign(xv_sink* r, xv_str s) { r->touched = true; r->assigned = true; r->appended = s; }

@@FN literal_generic@@
@@FN literal_bool@@
@@FN literal_double@@
@@FN literal_string@@
@@FN literal_events@@
@@FN numberlit_generic@@
@@FN numberlit_value@@
@@FN numberlit_bool@@
@@FN numberlit_string@@
@@FN numberlit_events@@

static void xv_havoc(void)
{
    XToken a, b, c; int p; bool s;
    a.b = XV_BOOL(a.b); b.b = XV_BOOL(b.b); c.b = XV_BOOL(c.b);
    g_tok2 = a; g_tok3 = b; g_tok_other = c; g_opPos = p; g_inStylesheet = XV_BOOL(s);
    __CPROVER_assume(p >= 0 && p < 1000000);
}
#define FAMILY(fam) \
void h_##fam(void) \
{ \
    xv_havoc(); \
    XObjectPtr g = fam##_generic(g_opPos, 0); \
    bool rb; fam##_bool(g_opPos, &rb); \
    __CPROVER_assert(XV_BOOL(rb) == g.b, #fam ": the boolean form gives boolean() of the token the general form reads"); \
    xv_sink rs; rs.touched = false; fam##_string(g_opPos, &rs); \
    __CPROVER_assert(rs.touched && rs.appended.id == g.s.id, #fam ": the string form gives string() of the token the general form reads"); \
    __CPROVER_assert(!rs.assigned, #fam ": the string form APPENDS to the caller's string (attribute value templates and concat pass a non-empty one)"); \
    xv_sink re; re.touched = false; fam##_events(g_opPos, &re, 0); \
    __CPROVER_assert(re.touched && re.appended.id == g.s.id, #fam ": the character-event form sends string() of the token the general form reads"); \
    XV_REACH("h_" #fam); \
}
FAMILY(literal)
FAMILY(numberlit)
void h_numbers(void)
{
    xv_havoc();
    XObjectPtr g = literal_generic(g_opPos, 0); double rd; literal_double(g_opPos, &rd);
    __CPROVER_assert(XV_SAME(rd, g.n), "literal: the number form gives number() of the token the general form reads");
    XObjectPtr h = numberlit_generic(g_opPos, 0); double v = numberlit_value(g_opPos);
    __CPROVER_assert(XV_SAME(v, h.n), "numberlit: the number form gives number() of the token the general form reads");
    XV_REACH("h_numbers");
}
'''

R = ['SCOPE',
     (r'assert\(m_expression\.isValid\w+\(.*?\)\);', '', 2),
     (r'm_expression\.getToken\(m_expression\.getOpCodeMapValue\((opPos \+ \d)\)\)', r'xv_token(\1)', 1),
     (r'm_inStylesheet', 'g_inStylesheet', (0, 1)),
     (r'executionContext\.getXObjectFactory\(\)\.create(?:String|Number)\(\*theLiteral\)', 'xv_createFromToken(theLiteral)', (0, 1)),
     (r'executionContext\.getXObjectFactory\(\)\.create(?:String|Number)\(theLiteral->(?:str|num)\(\)\)', 'xv_createFromToken(theLiteral)', (0, 1)),
     (r'theLiteral->boolean\(\)', 'theLiteral->b', (0, 1)),
     (r'theLiteral->num\(\)', 'theLiteral->n', (0, 1)),
     (r'theLiteral->str\(\s*formatterListener, function\);', 'xv_append(formatterListener, theLiteral->s);', (0, 1)),
     (r'theLiteral->str\(\)', 'theLiteral->s', (0, 1)),
     (r'theString = (.*?);', r'xv_assign(theString, \1);', (0, 1)),
     (r'theString\.append\((.*?)\);', r'xv_append(theString, \1);', (0, 1)),
     (r'theResult = ', '(*theResult) = ', (0, 1))]


def fam(name, n):
    sig = r'^XPath::%s\(' % name
    fs = [Fn(XP, sig, name + '_generic', 'XObjectPtr %s_generic(OpCodeMapPositionType opPos, XPathExecutionContext* executionContext)' % name,
             head_expect=r'XPathExecutionContext& executionContext\) const$', rules=R, nloops=0, occurrence=0, reach=False)]
    k = 1
    if name == 'numberlit':
        fs.append(Fn(XP, sig, 'numberlit_value', 'double numberlit_value(OpCodeMapPositionType opPos)',
                     head_expect=r'^double XPath::numberlit\(OpCodeMapPositionType opPos\) const$', rules=R, nloops=0, occurrence=k, reach=False))
        k += 1
    fs.append(Fn(XP, sig, name + '_bool', 'void %s_bool(OpCodeMapPositionType opPos, bool* theResult)' % name,
                 head_expect=r'bool& theResult\) const$', rules=R, nloops=0, occurrence=k, reach=False)); k += 1
    if name == 'literal':
        fs.append(Fn(XP, sig, 'literal_double', 'void literal_double(OpCodeMapPositionType opPos, double* theResult)',
                     head_expect=r'double& theResult\) const$', rules=R, nloops=0, occurrence=k, reach=False)); k += 1
    fs.append(Fn(XP, sig, name + '_string', 'void %s_string(OpCodeMapPositionType opPos, xv_sink* theString)' % name,
                 head_expect=r'XalanDOMString& theString\) const$', rules=R, nloops=0, occurrence=k, reach=False)); k += 1
    fs.append(Fn(XP, sig, name + '_events', 'void %s_events(OpCodeMapPositionType opPos, xv_sink* formatterListener, MemberFunctionPtr function)' % name,
                 head_expect=r'MemberFunctionPtr function\) const$', rules=R, nloops=0, occurrence=k, reach=False))
    return fs


UNIT = Unit(
    name='c11_literals',
    props=['C11'],
    functions=fam('literal', 5) + fam('numberlit', 6),
    template=PRELUDE,
    jobs=[Job('literal', 'h_literal', dfcc=False, reach=['h_literal'], timeout=120, min_obligations=4),
          Job('numberlit', 'h_numberlit', dfcc=False, reach=['h_numberlit'], timeout=120, min_obligations=4),
          Job('numbers', 'h_numbers', dfcc=False, reach=['h_numbers'], timeout=120, min_obligations=2)],
    mutants=[
        Mutant('numberlit_bool_slot', XP, r'(XPath::numberlit\(\s*OpCodeMapPositionType\s+opPos,\s*bool&\s+theResult\) const\s*\{.*?getToken\(m_expression\.getOpCodeMapValue\(opPos \+ )3', r'\g<1>2', expect='numberlit'),
        Mutant('literal_events_num', XP, r'(XPath::literal\(\s*OpCodeMapPositionType\s+opPos,\s*double&\s+theResult\) const\s*\{.*?)theLiteral->num\(\)', r'\1(theLiteral->boolean() ? 1.0 : 0.0)', expect='literal'),
    ],
    mechanisms=['specialised evaluation to bool / double / XalanDOMString / FormatterListener / MutableNodeRefList'],
    assumptions=['an XObject created from a token (createString / createNumber) answers boolean()/num()/str() like the token itself',
                 'XPathExpression::getToken / getOpCodeMapValue are pure reads of the compiled expression'],
)
