"""C02: the last links between an XPath comparison operator and the per-node comparison when an operand is a node-set (XObject.cpp):
(1) each of the six helpers equalNodeSet ... greaterThanOrEqualNodeSet hands compareNodeSets the string functor and the number functor of
ITS OWN operator, with the operands in order; (2) each of the 18 call operators of the six string functors applies its own operator: = and
!= compare the strings (an XObject operand through its string value), the four relational ones convert BOTH sides to numbers (XPath 3.4)
and call the DoubleSupport function of the same name (proved in c02_dsarith), left operand first.  Together with c02_xobject (which helper
for which operand types) and c02_nodesetcmp (loops and dispatch) no link of that chain is an assumed stub any more."""
from xvlib.unit import Fn, Job, Unit, Mutant

XO = 'src/xalanc/XPath/XObject.cpp'
OPS = ['equals', 'notEquals', 'lessThan', 'lessThanOrEqual', 'greaterThan', 'greaterThanOrEqual']
NF = {'equals': 'equal', 'notEquals': 'notEqual'}
HELPER = {'equals': 'equalNodeSet', 'notEquals': 'notEqualNodeSet', 'lessThan': 'lessThanNodeSet', 'lessThanOrEqual': 'lessThanOrEqualNodeSet',
          'greaterThan': 'greaterThanNodeSet', 'greaterThanOrEqual': 'greaterThanOrEqualNodeSet'}
TEMPLATE = r'''
#include "xv_shim.h"
typedef struct XO XObject; typedef struct Ctx XPathExecutionContext; typedef struct Str XalanDOMString; typedef int XObject_eObjectType;
typedef struct Self { XPathExecutionContext* m_executionContext; } Self;
enum { SF_equals = 1, SF_notEquals, SF_lessThan, SF_lessThanOrEqual, SF_greaterThan, SF_greaterThanOrEqual };
enum { NF_equal = 11, NF_notEqual, NF_lessThan, NF_lessThanOrEqual, NF_greaterThan, NF_greaterThanOrEqual };
enum { DS_equal = 21, DS_notEqual, DS_lessThan, DS_lessThanOrEqual, DS_greaterThan, DS_greaterThanOrEqual, STR_EQ, STR_NE };
#define SAMEBITS(a, b) ((a) == (b) || ((a) != (a) && (b) != (b)))
/* ---- helpers ---- */
const XObject *g_cl, *g_cr; int g_ct, g_sf, g_nf, g_calls; bool g_res;
bool xv_compareNodeSets(const XObject* l, const XObject* r, XObject_eObjectType t, int sf, int nf, XPathExecutionContext* c)
__CPROVER_requires(1) __CPROVER_assigns(g_cl, g_cr, g_ct, g_sf, g_nf, g_calls)
__CPROVER_ensures(g_cl == l && g_cr == r && g_ct == t && g_sf == sf && g_nf == nf && g_calls == __CPROVER_old(g_calls) + 1 && __CPROVER_return_value == g_res) ;
/* ---- functors ---- */
const XalanDOMString *g_ls, *g_rs; const XObject *g_lo, *g_ro;        /* the operands (two of the four are used by an overload) */
const XalanDOMString *g_lo_str, *g_ro_str;                              /* XObject::str() of an XObject operand */
double g_ln, g_rn;                                                      /* number(left operand), number(right operand) */
int g_op; int g_opcalls; const XalanDOMString *g_eq_l, *g_eq_r; double g_ds_l, g_ds_r;
const XalanDOMString* xv_ostr(const XObject* o) __CPROVER_requires(o == g_lo || o == g_ro) __CPROVER_assigns() __CPROVER_ensures(__CPROVER_return_value == (o == g_lo ? g_lo_str : g_ro_str)) ;
double xv_onum(const XObject* o) __CPROVER_requires(o == g_lo || o == g_ro) __CPROVER_assigns() __CPROVER_ensures(SAMEBITS(__CPROVER_return_value, (o == g_lo ? g_ln : g_rn))) ;
double xv_str2num(const XalanDOMString* s) __CPROVER_requires(s == g_ls || s == g_rs) __CPROVER_assigns() __CPROVER_ensures(SAMEBITS(__CPROVER_return_value, (s == g_ls ? g_ln : g_rn))) ;
bool xv_streq(int op, const XalanDOMString* a, const XalanDOMString* b) __CPROVER_requires(1) __CPROVER_assigns(g_op, g_opcalls, g_eq_l, g_eq_r)
__CPROVER_ensures(g_op == op && g_opcalls == __CPROVER_old(g_opcalls) + 1 && g_eq_l == a && g_eq_r == b && __CPROVER_return_value == g_res) ;
bool xv_ds(int op, double a, double b) __CPROVER_requires(1) __CPROVER_assigns(g_op, g_opcalls, g_ds_l, g_ds_r)
__CPROVER_ensures(g_op == op && g_opcalls == __CPROVER_old(g_opcalls) + 1 && SAMEBITS(g_ds_l, a) && SAMEBITS(g_ds_r, b) && __CPROVER_return_value == g_res) ;
static void xv_havoc(void)
{ const XObject *a, *b; const XalanDOMString *c, *d, *e, *f; double x, y; bool r; g_lo = a; g_ro = b; g_ls = c; g_rs = d; g_lo_str = e; g_ro_str = f; g_ln = x; g_rn = y; g_res = XV_BOOL(r);
  g_op = 0; g_opcalls = 0; g_calls = 0; g_sf = 0; g_nf = 0; g_cl = 0; g_cr = 0; g_ct = -1; g_eq_l = 0; g_eq_r = 0; g_ds_l = 7.0; g_ds_r = 7.0; }
@@FNS@@
'''
RH = [(r'\b(\w+)DOMString\(executionContext\)', r'SF_\1', 1), (r'DoubleSupport::(\w+)Function\(\)', r'NF_\1', 1), (r'(?<![\w.])compareNodeSets\(', 'xv_compareNodeSets(', 1)]
RF = [(r'DOMStringEqualsFunction\(\)\(', 'xv_streq(STR_EQ, ', (0, 1)), (r'DOMStringNotEqualsFunction\(\)\(', 'xv_streq(STR_NE, ', (0, 1)),
      (r'DoubleSupport::(\w+)\(', r'xv_ds(DS_\1, ', (0, 1)),
      (r'DOMStringToDouble\((\w+), m_executionContext\.getMemoryManager\(\)\)', r'xv_str2num(\1)', (0, 2)),
      (r'\b(\w+)\.num\(m_executionContext\)', r'xv_onum(\1)', (0, 1)),
      (r'\b(\w+)\.str\(m_executionContext\)', r'xv_ostr(\1)', (0, 1))]
FORMS = [('ss', 'const XalanDOMString* theLHS, const XalanDOMString* theRHS', 'g_ls', 'g_rs', 'theLHS == g_ls && theRHS == g_rs && g_ls != g_rs'),
         ('os', 'const XObject* theLHS, const XalanDOMString* theRHS', 'g_lo_str', 'g_rs', 'theLHS == g_lo && theRHS == g_rs && g_lo != g_ro && g_ls != g_rs'),
         ('so', 'const XalanDOMString* theLHS, const XObject* theRHS', 'g_ls', 'g_ro_str', 'theLHS == g_ls && theRHS == g_ro && g_lo != g_ro && g_ls != g_rs')]
fns, jobs, harness = [], [], []
for op in OPS:
    h = HELPER[op]
    nf = NF.get(op, op)
    fns.append(Fn(XO, r'^%s\(' % h, h, 'bool %s(const XObject* theLHS, const XObject* theRHS, XObject_eObjectType theRHSType, XPathExecutionContext* executionContext)' % h,
                  rules=RH, nloops=0,
                  contract='''__CPROVER_requires(g_calls == 0)
__CPROVER_assigns(g_cl, g_cr, g_ct, g_sf, g_nf, g_calls)
__CPROVER_ensures(/* the helper of an operator passes on the string functor and the number functor of that same operator, operands in order */
    g_calls == 1 && g_sf == SF_%s && g_nf == NF_%s && g_cl == theLHS && g_cr == theRHS && g_ct == theRHSType && __CPROVER_return_value == g_res)''' % (op, nf)))
    harness.append('void h_%s(void) { xv_havoc(); const XObject *a, *b; int t; %s(a, b, t, 0); }' % (h, h))
    jobs.append(Job(h, 'h_' + h, enforce=[h], replace=['xv_compareNodeSets'], reach='all', timeout=120, min_obligations=1))
    for k, (form, params, lstr, rstr, pre) in enumerate(FORMS):
        name = '%s_%s' % (op, form)
        if op in ('equals', 'notEquals'):
            post = ('/* %s on strings: the two strings (an XObject operand by its string value) are compared as strings, left operand first */\n'
                    '    g_opcalls == 1 && g_op == %s && g_eq_l == %s && g_eq_r == %s && __CPROVER_return_value == g_res' % (op, 'STR_EQ' if op == 'equals' else 'STR_NE', lstr, rstr))
        else:
            post = ('/* relational operator on strings (XPath 3.4): both sides are converted to numbers and compared with the DoubleSupport function of the same operator, left operand first */\n'
                    '    g_opcalls == 1 && g_op == DS_%s && SAMEBITS(g_ds_l, g_ln) && SAMEBITS(g_ds_r, g_rn) && __CPROVER_return_value == g_res' % op)
        fns.append(Fn(XO, r'^\s+operator\(\)\(', name, 'bool %s(const Self* self, %s)' % (name, params), after=r'^%sDOMString$' % op, occurrence=k,
                      rules=RF + [(r'\bm_executionContext\b', 'self->m_executionContext', (0, 2))], nloops=0,
                      contract='__CPROVER_requires(%s && g_opcalls == 0)\n__CPROVER_assigns(g_op, g_opcalls, g_eq_l, g_eq_r, g_ds_l, g_ds_r)\n__CPROVER_ensures(%s)' % (pre, post)))
        args = {'ss': 'g_ls, g_rs', 'os': 'g_lo, g_rs', 'so': 'g_ls, g_ro'}[form]
        harness.append('void h_%s(void) { xv_havoc(); Self s; %s(&s, %s); }' % (name, name, args))
        jobs.append(Job(name, 'h_' + name, enforce=[name], replace=['xv_ostr', 'xv_onum', 'xv_str2num', 'xv_streq', 'xv_ds'], reach='all', timeout=120, min_obligations=1))
UNIT = Unit(
    name='c02_nshelpers',
    props=['C02'],
    functions=fns,
    template=TEMPLATE.replace('@@FNS@@', '\n'.join('@@FN %s@@' % f.name for f in fns) + '\n' + '\n'.join(harness)),
    jobs=jobs,
    mutants=[
        Mutant('le_helper_passes_lt_number_functor', XO, r'lessThanOrEqualDOMString\(executionContext\),\s*DoubleSupport::lessThanOrEqualFunction\(\)', 'lessThanOrEqualDOMString(executionContext),\n                DoubleSupport::lessThanFunction()', expect='same operator'),
        Mutant('gt_functor_operands_swapped', XO, r'(greaterThanDOMString\n.*?return DoubleSupport::greaterThan\(\s*)DOMStringToDouble\(theLHS, m_executionContext\.getMemoryManager\(\)\),\s*DOMStringToDouble\(theRHS, m_executionContext\.getMemoryManager\(\)\)',
               r'\1DOMStringToDouble(theRHS, m_executionContext.getMemoryManager()),\n                DOMStringToDouble(theLHS, m_executionContext.getMemoryManager())', expect='left operand first'),
        Mutant('ne_functor_uses_equals', XO, r'(notEqualsDOMString\n.*?)return DOMStringNotEqualsFunction\(\)\(theLHS, theRHS\);', r'\1return DOMStringEqualsFunction()(theLHS, theRHS);', expect=None),
    ],
    mechanisms=['comparison of every pair of types (node-set operands: which operator is applied per node)'],
    assumptions=['DOMStringEqualsFunction / DOMStringNotEqualsFunction compare two strings unit by unit; DOMStringToDouble is number() of a string (c18_convert); XObject::str()/num() are the conversions of c11',
                 'DoubleSupport::equalFunction() ... greaterThanOrEqualFunction() are thin functors over the DoubleSupport functions of the same name (c02_dsarith)'],
)
