from xvlib.unit import Fn, Job, Unit, Mutant

FX = 'src/xalanc/XMLSupport/FormatterToXMLUnicode.hpp'
IW = 'src/xalanc/XMLSupport/XalanIndentWriter.hpp'

PRELUDE = r'''
#include "xv_shim.h"
typedef XalanDOMChar XMLCh; typedef struct AttributeList AttributeList;
/* the formatter with its XalanIndentWriter (m_indentHandler) flattened in; data members of XalanIndentWriter */
typedef struct Self { size_t m_indent; size_t m_currentIndent; bool m_startNewLine; bool m_ispreserve; bool m_isprevtext; bool m_spaceBeforeClose; } Self;

/* ghost: what the last thing written to the output was */
enum { L_START, L_MARKUP, L_TEXT, L_INDENT };
int g_last;
bool g_parent_open;          /* the start tag of the current parent has not been closed with '>' yet */

/* output primitives --------------------------------------------------------------------------------- */
void xv_out_markup(Self* s) __CPROVER_requires(1) __CPROVER_assigns(g_last) __CPROVER_ensures(g_last == L_MARKUP) ;     /* tag / comment / PI / reference characters, names */
void xv_out_text(Self* s)                                                                                               /* character data: text, raw text, CDATA section */
__CPROVER_requires(/* indentation whitespace is never directly followed by character data (it would become part of that text node) */ g_last != L_INDENT)
__CPROVER_assigns(g_last) __CPROVER_ensures(g_last == L_TEXT) ;
void xv_out_newline(Self* s)                                                                                            /* m_newLineWriter() */
__CPROVER_requires(/* indentation (newline) is never written directly after character data (it would alter that text node) */ g_last != L_TEXT)
__CPROVER_assigns(g_last) __CPROVER_ensures(g_last == L_INDENT) ;
void xv_out_whitespace(Self* s, size_t n)                                                                               /* m_whiteSpaceWriter(n) */
__CPROVER_requires(/* indentation (spaces) is never written directly after character data (it would alter that text node) */ g_last != L_TEXT)
__CPROVER_assigns(g_last) __CPROVER_ensures(g_last == L_INDENT) ;
/* element stack (XalanXMLSerializerBase): assumed; nothing has been written after a start tag that is still open */
bool markParentForChildren(Self* s) __CPROVER_requires(1) __CPROVER_assigns(g_parent_open)
__CPROVER_ensures(__CPROVER_return_value == __CPROVER_old(g_parent_open) && g_parent_open == false) ;
void openElementForChildren(Self* s) __CPROVER_requires(1) __CPROVER_assigns(g_parent_open) __CPROVER_ensures(g_parent_open == true) ;
bool childNodesWereAdded(Self* s) __CPROVER_requires(1) __CPROVER_assigns(g_parent_open)
__CPROVER_ensures(__CPROVER_return_value == !__CPROVER_old(g_parent_open) && g_parent_open == false) ;
void xv_preserves_push(Self* s, bool v) __CPROVER_requires(1) __CPROVER_assigns() __CPROVER_ensures(1) ;
bool xv_preserves_empty(Self* s) __CPROVER_requires(1) __CPROVER_assigns() __CPROVER_ensures(1) ;
bool xv_preserves_back(Self* s) __CPROVER_requires(1) __CPROVER_assigns() __CPROVER_ensures(__CPROVER_return_value == true || __CPROVER_return_value == false) ;
void xv_preserves_pop(Self* s) __CPROVER_requires(1) __CPROVER_assigns() __CPROVER_ensures(1) ;
bool xv_pred(Self* s) __CPROVER_requires(1) __CPROVER_assigns() __CPROVER_ensures(1) ;                 /* m_charPredicate.range/content: any answer */
void xv_text_run(Self* s, size_t n)                                                                      /* safeWriteContent(run): n units of text, nothing if n == 0 */
__CPROVER_requires(n == 0 || g_last != L_INDENT) __CPROVER_assigns(g_last) __CPROVER_ensures(n > 0 ? g_last == L_TEXT : g_last == __CPROVER_old(g_last)) ;
size_t xv_text_big(Self* s, size_t i, size_t length)                                                      /* writeNormalizedCharBig: one or two units of text */
__CPROVER_requires(i < length && g_last != L_INDENT) __CPROVER_assigns(g_last)
__CPROVER_ensures(g_last == L_TEXT && (__CPROVER_return_value == i || __CPROVER_return_value == i + 1) && __CPROVER_return_value < length) ;
void xv_other(Self* s) __CPROVER_requires(1) __CPROVER_assigns() __CPROVER_ensures(1) ;      /* doctype bookkeeping etc. */
size_t xv_attr_count(AttributeList* a) __CPROVER_requires(1) __CPROVER_assigns() __CPROVER_ensures(1) ;

/* representation invariant of formatter + indent writer:
   after character data indentation is switched off until markup has been written; a start tag that is still open is markup */
#define INV(s) ((g_last == L_TEXT ==> (s)->m_isprevtext == true) && g_last != L_INDENT && (g_parent_open ==> g_last == L_MARKUP) \
    && ((s)->m_ispreserve == true || (s)->m_ispreserve == false) && ((s)->m_isprevtext == true || (s)->m_isprevtext == false) \
    && ((s)->m_startNewLine == true || (s)->m_startNewLine == false)  && (s)->m_indent <= 1000)
#define OP_CONTRACT(name) __CPROVER_requires(__CPROVER_is_fresh(self, sizeof(*self)) && INV(self)) \
    __CPROVER_assigns(__CPROVER_object_whole(self), g_last, g_parent_open) \
    __CPROVER_ensures(/* name: the representation invariant holds again (indentation stays off after character data) */ INV(self))
'''

IH = ['indent', 'increaseIndent', 'decreaseIndent', 'setStartNewLine', 'setPrevText', 'setPreserve', 'pop_preserve', 'push_preserve', 'shouldIndent']
M = ['SCOPE',
     (r'm_indentHandler\.(\w+)\(\)', r'ih_\1(self)', (0, 9)),
     (r'm_indentHandler\.(\w+)\(', r'ih_\1(self, ', (0, 9)),
     (r'm_writer\.write\(value_type\([^;]*?\)\);', 'xv_out_markup(self);', (0, 12)),
     (r'(?<![\w.>])writeName\([^;]*?\);', 'xv_out_markup(self);', (0, 3)),
     (r'(?<![\w.>])generateDoctypeDecl\(name\);', 'xv_other(self);', (0, 1)),
     (r'(?<![\w.>])writeParentTagEnd\(\);', 'writeParentTagEnd(self);', (0, 1)),
     (r'(?<![\w.>])(markParentForChildren|openElementForChildren|childNodesWereAdded)\(\)', r'\1(self)', (0, 1)),
     (r'const XalanSize_t\s+nAttrs = attrs\.getLength\(\);', 'const size_t nAttrs = xv_attr_count(attrs);', (0, 1)),
     (r'processAttribute\(attrs\.getName\(i\), attrs\.getValue\(i\)\);', 'xv_out_markup(self);', (0, 1)),
     (r'\bm_spaceBeforeClose\b', 'self->m_spaceBeforeClose', (0, 1)),
     (r'm_writer\.write\(chars, length\);', 'xv_out_text(self);', (0, 1)),
     (r'writeNormalizedData\([^;]*?\);', 'xv_out_markup(self);', (0, 1)),
     # character data written by the escaping / CDATA code (proved in c04_escape / c04_cdata): here only "text was written"
     (r'm_writer\.write\(\s*m_constants\.s_cdata(?:Open|Close)String,\s*m_constants\.s_cdata(?:Open|Close)StringLength\);', 'xv_out_text(self);', (0, 2)),
     (r'writeCDATAChars\(chars, length, outsideCDATA\);', 'xv_out_text(self);', (0, 1))]
IHM = [(r'\bm_(indent|currentIndent|startNewLine|ispreserve|isprevtext)\b', r'self->m_\1', (0, 9)),
       (r'm_newLineWriter\(\);', 'xv_out_newline(self);', (0, 2)),
       (r'm_whiteSpaceWriter\(self->m_currentIndent\);', 'xv_out_whitespace(self, self->m_currentIndent);', (0, 1)),
       (r'(?<![\w.>])shouldIndent\(\)', 'ih_shouldIndent(self)', (0, 1)),
       (r'm_preserves\.empty\(\)', 'xv_preserves_empty(self)', (0, 1)),
       (r'm_preserves\.back\(\)', 'xv_preserves_back(self)', (0, 1)),
       (r'm_preserves\.pop_back\(\)', 'xv_preserves_pop(self)', (0, 1)),
       (r'm_preserves\.push_back\(self->m_ispreserve\)', 'xv_preserves_push(self, self->m_ispreserve)', (0, 1))]


def ih(name, head, expect):
    return Fn(IW, r'^\s+%s\(' % name, 'ih_' + name, head, head_expect=expect, rules=IHM, nloops=0, reach=False)


OPS = {
    'startElement': ('void startElement(Self* self, const XMLCh* name, AttributeList* attrs)', r'startElement\( const XMLCh\* const name, AttributeList& attrs\)$', 1),
    'endElement': ('void endElement(Self* self, const XMLCh* name)', r'endElement\(const XMLCh\* const name\)$', 0),
    'charactersRaw': ('void charactersRaw(Self* self, const XMLCh* chars, size_t length)', r'charactersRaw\( const XMLCh\* const chars, const size_type length\)$', 0),
    'entityReference': ('void entityReference(Self* self, const XMLCh* name)', r'entityReference\(const XMLCh\* const name\)$', 0),
    'comment': ('void comment(Self* self, const XMLCh* data)', r'comment\(const XMLCh\* const data\)$', 0),
    'writeCDATA': ('void writeCDATA(Self* self, const XMLCh* chars, size_t length)', r'writeCDATA\( const XMLCh\* chars, size_type length\)$', 0),
}

ATTR_LOOP = r'''
__CPROVER_assigns(i, g_last)
__CPROVER_loop_invariant(i <= nAttrs && g_last == L_MARKUP)
__CPROVER_decreases(nAttrs - i)
'''

TEMPLATE = PRELUDE + '\n'.join('@@FN ih_%s@@' % n for n in reversed(IH)) + r'''
@@FN writeParentTagEnd@@
@@FN writeCharacters@@
''' + '\n'.join('@@FN %s@@' % n for n in OPS) + r'''
static void xv_havoc(void) { int l; bool p; g_last = l; g_parent_open = XV_BOOL(p); }
void h_writeCharacters(void) { xv_havoc(); Self* s; size_t n; writeCharacters(s, 0, n); }
''' + '\n'.join('void h_%s(void) { xv_havoc(); Self* s; %s(s, 0%s); }' % (n, n, ', 0' if n == 'startElement' else ', 1' if n in ('charactersRaw', 'writeCDATA') else '') for n in OPS)

# writeCharacters here: only its indentation behaviour; the escaping loop is proved in c04_escape
WC_RULES = M + [(r'size_type\s+i = 0;.*?safeWriteContent\(chars \+ firstIndex, i - firstIndex\);\s*(?=m_indentHandler|ih_)', 'xv_out_text(self);\n\n        ', 1)]

UNIT = Unit(
    name='c08_indent',
    props=['C08'],
    functions=[
        ih('indent', 'static void ih_indent(Self* self)', r'void indent\(\)$'),
        ih('increaseIndent', 'static void ih_increaseIndent(Self* self)', r'void increaseIndent\(\)$'),
        ih('decreaseIndent', 'static void ih_decreaseIndent(Self* self)', r'void decreaseIndent\(\)$'),
        ih('setStartNewLine', 'static void ih_setStartNewLine(Self* self, bool value)', r'void setStartNewLine\(bool value\)$'),
        ih('setPrevText', 'static void ih_setPrevText(Self* self, bool value)', r'void setPrevText\(bool value\)$'),
        ih('setPreserve', 'static void ih_setPreserve(Self* self, bool value)', r'void setPreserve\(bool value\)$'),
        ih('pop_preserve', 'static void ih_pop_preserve(Self* self)', r'void pop_preserve\(\)$'),
        ih('push_preserve', 'static void ih_push_preserve(Self* self)', r'void push_preserve\(\)$'),
        ih('shouldIndent', 'static bool ih_shouldIndent(const Self* self)', r'bool shouldIndent\(\) const$'),
        Fn(FX, r'^\s+writeParentTagEnd\(\)', 'writeParentTagEnd', 'static void writeParentTagEnd(Self* self)', head_expect=r'void writeParentTagEnd\(\)$', rules=M, nloops=0, reach=False),
        Fn(FX, r'^\s+writeCharacters\(', 'writeCharacters', 'void writeCharacters(Self* self, const XMLCh* chars, size_t length)',
           head_expect=r'void writeCharacters\( const XMLCh\* chars, size_type length\)$',
           rules=M + [(r'm_charPredicate\.(\w+)\(ch\)', r'xv_pred(self)', (0, 3)),
                      (r'(?<![\w.>])safeWriteContent\(chars \+ firstIndex, i - firstIndex\);', 'xv_text_run(self, i - firstIndex);', (1, 4)),
                      (r'i = writeNormalizedCharBig\(chars, i, length\);', 'i = xv_text_big(self, i, length);', 1),
                      (r'(?<![\w.>])writeDefaultEscape\(ch\);', 'xv_out_text(self);', 1),
                      (r'const XalanDOMChar\s+ch = chars\[i\];', '', 1)],
           contract='OP_CONTRACT(characters)\n__CPROVER_requires(length >= 1 && length <= ((size_t)1 << 40))',
           loops={0: '''
__CPROVER_assigns(i, firstIndex, g_last)
__CPROVER_loop_invariant(firstIndex <= i && i <= length && g_last != L_INDENT)
__CPROVER_loop_invariant(/* when the pending run is empty something has already been written as text (or nothing was consumed yet) */ (i > 0 && firstIndex == i) ==> g_last == L_TEXT)
__CPROVER_decreases(length - i)
'''}, nloops=1),
    ] + [Fn(FX, r'^\s+%s\(' % n, n, OPS[n][0], head_expect=OPS[n][1], rules=M + ([(r'bool\s+outsideCDATA = false;', 'bool outsideCDATA = false;', 1), (r'if \(outsideCDATA == false\)', 'if (outsideCDATA == false)', 1)] if n == 'writeCDATA' else []),
            contract=('OP_CONTRACT(%s)' % n) + ('\n__CPROVER_requires(/* an element is open: one indentation step can be taken back */ self->m_currentIndent >= self->m_indent)' if n == 'endElement' else ''), loops=({0: ATTR_LOOP} if OPS[n][2] else None), nloops=OPS[n][2]) for n in OPS],
    template=TEMPLATE,
    jobs=[Job(n, 'h_' + n, enforce=[n],
              replace=['xv_out_markup', 'xv_out_text', 'xv_out_newline', 'xv_out_whitespace', 'markParentForChildren', 'openElementForChildren', 'childNodesWereAdded',
                       'xv_preserves_push', 'xv_preserves_empty', 'xv_preserves_back', 'xv_preserves_pop', 'xv_other', 'xv_attr_count', 'xv_pred', 'xv_text_run', 'xv_text_big'],
              loop_contracts=bool(OPS.get(n, (0, 0, 1))[2]), reach=['entry:' + n], timeout=300) for n in list(OPS) + ['writeCharacters']],
    mutants=[
        Mutant('chars_no_prevtext', FX, r'(safeWriteContent\(chars \+ firstIndex, i - firstIndex\);\s*)m_indentHandler\.setPrevText\(true\);', r'\1m_indentHandler.setPrevText(false);', expect='representation invariant'),
        Mutant('should_indent_or', IW, r'return \(!m_ispreserve && !m_isprevtext\);', 'return (!m_ispreserve || !m_isprevtext);', expect='indentation'),
        Mutant('end_prevtext_before_indent', FX, r'(endElement\(const XMLCh\* const\s+name\)\s*\{\s*)m_indentHandler\.decreaseIndent\(\);', r'\1m_indentHandler.setPrevText(false);\n        m_indentHandler.decreaseIndent();', expect='indentation'),
    ],
    mechanisms=['indentation points'],
    assumptions=['the element stack helpers (markParentForChildren / openElementForChildren / childNodesWereAdded) track whether the current start tag is still open; nothing is written between a start tag and its closing ">"',
                 'the text-producing code (escaping loop, CDATA writer, m_writer.write(chars,length)) is abstracted to "character data was written" here; its own behaviour is proved in c04_escape / c04_cdata',
                 'm_preserves (XalanVector<bool>) is an assumed stack'],
)
