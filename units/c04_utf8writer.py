from xvlib.unit import Fn, Job, Unit, Mutant, Block

W8 = 'src/xalanc/XMLSupport/XalanUTF8Writer.hpp'
FW = 'src/xalanc/XMLSupport/XalanFormatterWriter.hpp'

BITS = Block(W8, r'^inline char\s+bits19to21', 'bitfns', end=r'trailingByte\(char\s+theBits\)\s*\{[^}]*\}',
             rules=['CASTS', (r'\binline char\b', 'static inline char', 10)])
KBUF = Block(W8, r'^\s*enum\s*\{\s*kBufferSize', 'kBufferSize')
MEMBERS = Block(W8, r'^\s*value_type\s+m_buffer\[kBufferSize\];', 'members', end=r'size_type\s+m_bufferRemaining;')

M = [(r'm_writer\.write\(', 'xv_writer_write(', (0, 1)),
     (r'\bm_(buffer|bufferPosition|bufferRemaining)\b', r'self->m_\1', (0, 99)),
     (r'getMemoryManager\(\)', '0', (0, 9))]

PRELUDE = r'''
#include "xv_shim.h"
typedef char value_type;
@@BLOCK kBufferSize@@
typedef struct XalanUTF8Writer {
@@BLOCK members@@
} XalanUTF8Writer;
@@BLOCK bitfns@@

/* ghost */
size_t g_flushed;                 /* bytes handed to the underlying Writer so far */
const XalanDOMChar* g_in;         /* the UTF-16 input of the multi-unit writers */
size_t g_len;                     /* its length */
size_t g_cursor;                  /* number of input units already handed to the encoder */

/* representation invariant of the buffered writer */
#define INV(s) ((s)->m_bufferRemaining <= kBufferSize && (s)->m_bufferPosition == (s)->m_buffer + (kBufferSize - (s)->m_bufferRemaining))
#define WRITER_OK(s) (__CPROVER_is_fresh((s), sizeof(*(s))) && __CPROVER_pointer_in_range_dfcc(&(s)->m_buffer[0], (s)->m_bufferPosition, &(s)->m_buffer[0] + kBufferSize) && INV(s))
#define TOTAL(s) (g_flushed + (kBufferSize - (s)->m_bufferRemaining))      /* bytes produced so far */
#define OLDTOTAL(s) (__CPROVER_old(g_flushed) + (kBufferSize - __CPROVER_old((s)->m_bufferRemaining)))
#define UB(s, k) ((unsigned)(unsigned char)(s)->m_bufferPosition[-(k)])     /* k-th last byte in the buffer */
#define IS_HIGH(u) ((u) >= 0xD800u && (u) <= 0xDBFFu)
#define IS_LOW(u) ((u) >= 0xDC00u && (u) <= 0xDFFFu)
#define IS_SURR(c) ((c) >= 0xD800u && (c) <= 0xDFFFu)
#define DECODE(h, l) ((((XalanUnicodeChar)(h) - 0xD800u) << 10) + ((XalanUnicodeChar)(l) - 0xDC00u) + 0x10000u)

/* the underlying Writer: receives bytes (assumed; counts them) */
void xv_writer_write(const char* p, size_t start, size_t n)
__CPROVER_requires(start == 0 && n <= kBufferSize)
__CPROVER_assigns(g_flushed)
__CPROVER_ensures(g_flushed == __CPROVER_old(g_flushed) + n)
;
/* exceptions end the path (assumption A5) */
void throwInvalidCharacterException(XalanUnicodeChar c, void* mm) __CPROVER_requires(1) __CPROVER_assigns() __CPROVER_ensures(0) ;
void throwInvalidUTF16SurrogateException(XalanDOMChar hi, XalanDOMChar lo, void* mm) __CPROVER_requires(1) __CPROVER_assigns() __CPROVER_ensures(0) ;
'''

WRITE_CHAR_CONTRACT = r'''
__CPROVER_requires(WRITER_OK(self) && g_flushed <= ((size_t)1 << 60))
__CPROVER_assigns(__CPROVER_object_whole(self), g_flushed)
__CPROVER_ensures(INV(self))
__CPROVER_ensures(/* write(char): exactly one byte, the given one */ TOTAL(self) == OLDTOTAL(self) + 1 && self->m_bufferRemaining <= kBufferSize - 1 && self->m_bufferPosition[-1] == theChar)
'''

UCS_POST = r'''
__CPROVER_ensures(INV(self))
__CPROVER_ensures(/* UTF-8: surrogate code points and values above U+10FFFF are never encoded (an exception is raised instead) */ !IS_SURR(theChar) && theChar <= 0x10FFFFu)
__CPROVER_ensures(/* UTF-8 (RFC 3629): U+0000..U+007F is one byte, the code point itself */
    theChar <= 0x7F ==> (TOTAL(self) == OLDTOTAL(self) + 1 && self->m_bufferRemaining <= kBufferSize - 1 && UB(self, 1) == theChar))
__CPROVER_ensures(/* UTF-8 (RFC 3629): U+0080..U+07FF is two bytes 110xxxxx 10xxxxxx that decode back to the code point */
    (theChar > 0x7F && theChar <= 0x7FF) ==> (TOTAL(self) == OLDTOTAL(self) + 2 && self->m_bufferRemaining <= kBufferSize - 2 &&
        (UB(self, 2) & 0xE0) == 0xC0 && (UB(self, 1) & 0xC0) == 0x80 && (((UB(self, 2) & 0x1F) << 6) | (UB(self, 1) & 0x3F)) == theChar))
__CPROVER_ensures(/* UTF-8 (RFC 3629): U+0800..U+FFFF is three bytes 1110xxxx 10xxxxxx 10xxxxxx that decode back to the code point */
    (theChar > 0x7FF && theChar <= 0xFFFF) ==> (TOTAL(self) == OLDTOTAL(self) + 3 && self->m_bufferRemaining <= kBufferSize - 3 &&
        (UB(self, 3) & 0xF0) == 0xE0 && (UB(self, 2) & 0xC0) == 0x80 && (UB(self, 1) & 0xC0) == 0x80 &&
        (((UB(self, 3) & 0x0F) << 12) | ((UB(self, 2) & 0x3F) << 6) | (UB(self, 1) & 0x3F)) == theChar))
__CPROVER_ensures(/* UTF-8 (RFC 3629): U+10000..U+10FFFF is four bytes 11110xxx 10xxxxxx 10xxxxxx 10xxxxxx that decode back to the code point */
    (theChar > 0xFFFF && theChar <= 0x10FFFF) ==> (TOTAL(self) == OLDTOTAL(self) + 4 && self->m_bufferRemaining <= kBufferSize - 4 &&
        (UB(self, 4) & 0xF8) == 0xF0 && (UB(self, 3) & 0xC0) == 0x80 && (UB(self, 2) & 0xC0) == 0x80 && (UB(self, 1) & 0xC0) == 0x80 &&
        (((UB(self, 4) & 0x07) << 18) | ((UB(self, 3) & 0x3F) << 12) | ((UB(self, 2) & 0x3F) << 6) | (UB(self, 1) & 0x3F)) == theChar))
'''
WRITE_UCS_CONTRACT = r'''
__CPROVER_requires(WRITER_OK(self) && g_flushed <= ((size_t)1 << 60))
__CPROVER_assigns(__CPROVER_object_whole(self), g_flushed)
''' + UCS_POST

DECODE_CONTRACT = r'''
__CPROVER_requires(IS_HIGH(theHighSurrogate))
__CPROVER_assigns()
__CPROVER_ensures(/* a high surrogate must be followed by a low surrogate (otherwise an exception) */ IS_LOW(theLowSurrogate))
__CPROVER_ensures(/* UTF-16 decoding (Unicode 3.9 D91): 0x10000 + (hi - 0xD800) * 0x400 + (lo - 0xDC00) */ __CPROVER_return_value == DECODE(theHighSurrogate, theLowSurrogate))
__CPROVER_ensures(__CPROVER_return_value >= 0x10000u && __CPROVER_return_value <= 0x10FFFFu)
'''

# the encoder as seen by the multi-unit writers: contract of write(XalanUnicodeChar) (proved in job write_ucs)
# plus ghost bookkeeping that ties every call to the input units it encodes
EMIT = r'''
void xv_emit(XalanUTF8Writer* self, XalanUnicodeChar theChar, size_t pos, size_t nunits)
__CPROVER_requires(/* units are encoded in order, none skipped, none twice */ pos == g_cursor && pos + nunits <= g_len)
__CPROVER_requires(/* what is encoded is the decoding of the input units at the cursor: a BMP unit itself, or a high+low pair combined */
    (nunits == 1 && theChar == g_in[pos] && !IS_HIGH(g_in[pos])) || (nunits == 2 && IS_HIGH(g_in[pos]) && IS_LOW(g_in[pos + 1]) && theChar == DECODE(g_in[pos], g_in[pos + 1])))
__CPROVER_requires(INV(self))
__CPROVER_assigns(__CPROVER_object_whole(self), g_flushed, g_cursor)
__CPROVER_ensures(__CPROVER_pointer_in_range_dfcc(&self->m_buffer[0], self->m_bufferPosition, &self->m_buffer[0] + kBufferSize))
__CPROVER_ensures(g_cursor == pos + nunits && INV(self) && !IS_SURR(theChar))
;
'''

UNITS_REQ = r'''
__CPROVER_requires(WRITER_OK(self) && theLength <= ((size_t)1 << 40))
__CPROVER_requires(__CPROVER_is_fresh(theChars, (theLength + 1) * sizeof(XalanDOMChar)))
__CPROVER_requires(__CPROVER_pointer_in_range_dfcc(theChars, g_in, theChars) && g_len == theLength && g_cursor == 0)
__CPROVER_assigns(__CPROVER_object_whole(self), g_flushed, g_cursor)
__CPROVER_ensures(/* every UTF-16 unit of the input was handed to the encoder exactly once, in order (or an exception ended the call) */ g_cursor == theLength)
__CPROVER_ensures(INV(self))
'''
UNITS_LOOP = r'''
__CPROVER_assigns(i, __CPROVER_object_whole(self), g_flushed, g_cursor)
__CPROVER_loop_invariant(i <= theLength && g_cursor == i && INV(self))
__CPROVER_loop_invariant(__CPROVER_same_object(self->m_bufferPosition, self))
__CPROVER_decreases(theLength - i)
'''

AT_CONTRACT = r'''
__CPROVER_requires(WRITER_OK(self) && length <= ((size_t)1 << 40) && start < length)
__CPROVER_requires(__CPROVER_is_fresh(chars, (length + 1) * sizeof(XalanDOMChar)))
__CPROVER_requires(__CPROVER_pointer_in_range_dfcc(chars, g_in, chars) && g_len == length && g_cursor == start)
__CPROVER_assigns(__CPROVER_object_whole(self), g_flushed, g_cursor)
__CPROVER_ensures(/* write(chars,start,length): encodes the code point at start, returns the index of its last unit */ __CPROVER_return_value + 1 == g_cursor && g_cursor <= length &&
    __CPROVER_return_value == start + (IS_HIGH(chars[start]) ? 1 : 0))
__CPROVER_ensures(INV(self))
'''



def unit_rules(unit_expr, idx_expr, pair_lo, n1_idx=None):
    return ['CASTS'] + M + [
        (r'write\(\s*\(\(XalanUnicodeChar\)\(%s\)\)\)' % unit_expr, 'xv_emit(self, ((XalanUnicodeChar)(%s)), %s, 1)' % (unit_expr.replace('\\', ''), idx_expr), 1),
        (r'write\(\s*(decodeUTF16SurrogatePair\(.*?0\))\)', r'xv_emit(self, \1, %s, 2)' % idx_expr, 1),
    ]


TEMPLATE = PRELUDE + r'''
@@FN flushBuffer@@
@@FN write_char@@
@@FN write_ucs@@
@@FN isUTF16HighSurrogate@@
@@FN isUTF16LowSurrogate@@
@@FN decodeUTF16SurrogatePair@@
''' + EMIT + r'''
@@FN write_units@@
@@FN write_at@@
@@FN writeSafe@@

static void xv_havoc(void) { size_t a, b, c; const XalanDOMChar* p; g_flushed = a; g_len = b; g_cursor = c; g_in = p; }
void h_write_char(void) { xv_havoc(); XalanUTF8Writer* s; char c; write_char(s, c); }
void h_write_ucs(void) { xv_havoc(); XalanUTF8Writer* s; XalanUnicodeChar hc; write_ucs(s, hc); }
void h_decode(void) { xv_havoc(); XalanDOMChar h, l; decodeUTF16SurrogatePair(h, l, 0); }
void h_write_units(void) { xv_havoc(); XalanUTF8Writer* s; const XalanDOMChar* p; size_t n; write_units(s, p, n); }
void h_write_at(void) { xv_havoc(); XalanUTF8Writer* s; const XalanDOMChar* p; size_t a, n; write_at(s, p, a, n); }
void h_writeSafe(void) { xv_havoc(); XalanUTF8Writer* s; const XalanDOMChar* p; size_t n; writeSafe(s, p, n); }
'''

CLS = r'class XalanUTF8Writer : public XalanFormatterWriter'

UNIT = Unit(
    name='c04_utf8writer',
    props=['C04', 'C03'],
    blocks=[KBUF, MEMBERS, BITS],
    functions=[
        Fn(W8, r'^\s+flushBuffer\(\)', 'flushBuffer', 'static void flushBuffer(XalanUTF8Writer* self)', head_expect=r'void flushBuffer\(\)$',
           rules=M, nloops=0, reach=False, after=CLS),
        Fn(W8, r'^\s+write\(value_type\s+theChar\)', 'write_char', 'void write_char(XalanUTF8Writer* self, char theChar)',
           head_expect=r'void write\(value_type theChar\)$', rules=M + [(r'flushBuffer\(\)', 'flushBuffer(self)', 1)],
           contract=WRITE_CHAR_CONTRACT, nloops=0, after=CLS),
        Fn(W8, r'^\s+write\(XalanUnicodeChar\s+theChar\)', 'write_ucs', 'void write_ucs(XalanUTF8Writer* self, XalanUnicodeChar theChar)',
           head_expect=r'void write\(XalanUnicodeChar theChar\)$',
           rules=[('FCASTS', ['char'])] + M + [(r'flushBuffer\(\)', 'flushBuffer(self)', 3), (r'(?<![\w.>])write\(\(\(char\)', 'write_char(self, ((char)', 1)],
           contract=WRITE_UCS_CONTRACT, nloops=0, after=CLS),
        Fn(FW, r'^\s+isUTF16HighSurrogate\(', 'isUTF16HighSurrogate', 'static bool isUTF16HighSurrogate(XalanDOMChar theChar)',
           head_expect=r'static bool isUTF16HighSurrogate\(XalanDOMChar theChar\)$', nloops=0, reach=False),
        Fn(FW, r'^\s+isUTF16LowSurrogate\(', 'isUTF16LowSurrogate', 'static bool isUTF16LowSurrogate(XalanDOMChar theChar)',
           head_expect=r'static bool isUTF16LowSurrogate\(XalanDOMChar theChar\)$', nloops=0, reach=False),
        Fn(FW, r'^\s+decodeUTF16SurrogatePair\(', 'decodeUTF16SurrogatePair',
           'XalanUnicodeChar decodeUTF16SurrogatePair(XalanDOMChar theHighSurrogate, XalanDOMChar theLowSurrogate, void* theManager)',
           head_expect=r'static XalanUnicodeChar decodeUTF16SurrogatePair\( XalanDOMChar theHighSurrogate, XalanDOMChar theLowSurrogate, MemoryManager& theManager\)$',
           contract=DECODE_CONTRACT, nloops=0),
        Fn(W8, r'^\s+write\(\s*const XalanDOMChar\*\s+theChars,\s*size_type\s+theLength\)', 'write_units',
           'void write_units(XalanUTF8Writer* self, const XalanDOMChar* theChars, size_t theLength)',
           head_expect=r'void write\( const XalanDOMChar\* theChars, size_type theLength\)$',
           rules=unit_rules(r'theChars\[i\]', 'i', None), contract=UNITS_REQ, loops={0: UNITS_LOOP}, nloops=1, after=CLS),
        Fn(W8, r'^\s+write\(\s*const XalanDOMChar\s+chars\[\],\s*size_type\s+start,\s*size_type\s+length\)', 'write_at',
           'size_t write_at(XalanUTF8Writer* self, const XalanDOMChar* chars, size_t start, size_t length)',
           head_expect=r'size_type write\( const XalanDOMChar chars\[\], size_type start, size_type length\)$',
           rules=['CASTS'] + M + [
               (r'write\(\s*\(\(XalanUnicodeChar\)\(ch\)\)\)', 'xv_emit(self, ((XalanUnicodeChar)(ch)), start, 1)', 1),
               (r'write\(\s*(decodeUTF16SurrogatePair\(\s*ch,\s*chars\[\+\+start\],\s*0\))\)', r'xv_emit(self, \1, start - 1, 2)', 1)],
           contract=AT_CONTRACT, nloops=0, after=CLS),
        Fn(W8, r'^\s+writeSafe\(', 'writeSafe', 'void writeSafe(XalanUTF8Writer* self, const XalanDOMChar* theChars, size_t theLength)',
           head_expect=r'void writeSafe\( const XalanDOMChar\* theChars, size_type theLength\)$',
           rules=unit_rules(r'ch', 'i', None), contract=UNITS_REQ, loops={0: UNITS_LOOP}, nloops=1, after=CLS),
    ],
    template=TEMPLATE,
    jobs=[
        Job('write_char', 'h_write_char', enforce=['write_char'], replace=['xv_writer_write'], reach=['entry:write_char'], timeout=300),
        Job('write_ucs', 'h_write_ucs', enforce=['write_ucs'], replace=['xv_writer_write', 'throwInvalidCharacterException'],
            reach=['entry:write_ucs'], timeout=600),
        Job('decode', 'h_decode', enforce=['decodeUTF16SurrogatePair'], replace=['throwInvalidUTF16SurrogateException'],
            reach=['entry:decodeUTF16SurrogatePair'], timeout=300),
        Job('write_units', 'h_write_units', enforce=['write_units'], replace=['xv_emit', 'decodeUTF16SurrogatePair', 'throwInvalidUTF16SurrogateException'],
            loop_contracts=True, reach=['entry:write_units', 'after_loop0:write_units'], timeout=600),
        Job('write_at', 'h_write_at', enforce=['write_at'], replace=['xv_emit', 'decodeUTF16SurrogatePair', 'throwInvalidUTF16SurrogateException'],
            reach=['entry:write_at'], timeout=600),
        Job('writeSafe', 'h_writeSafe', enforce=['writeSafe'], replace=['xv_emit', 'decodeUTF16SurrogatePair', 'throwInvalidUTF16SurrogateException'],
            loop_contracts=True, reach=['entry:writeSafe', 'after_loop0:writeSafe'], timeout=600),
    ],
    mutants=[
        Mutant('two_byte_threshold', W8, r'else if \(theChar <= 0x7FF\)', 'else if (theChar < 0x7FF)', expect='UTF-8'),
        Mutant('flush_lt_2', W8, r'if \(m_bufferRemaining < 3\)', 'if (m_bufferRemaining < 2)', expect=None),
        Mutant('cont_mask', W8, r'return static_cast<char>\(\(theChar >> 6\) & 0x3f\);', 'return static_cast<char>((theChar >> 6) & 0x1f);', expect='UTF-8'),
        Mutant('pair_no_skip', W8, r'(theChars\[i \+ 1\],\s*getMemoryManager\(\)\)\);\s*)\+\+i;', r'\1', expect=None),
        Mutant('decode_shift', FW, r'\(\(theHighSurrogate - 0xD800u\) << 10\)', '((theHighSurrogate - 0xD800u) << 9)', expect='UTF-16 decoding'),
    ],
    mechanisms=['UTF-16 to UTF-8 with surrogate decoding'],
    assumptions=['the underlying Writer accepts the flushed bytes (stub xv_writer_write)', 'exceptions end the path'],
    replay='utf8writer', replay_inputs={'c': '*::hc'},
)
