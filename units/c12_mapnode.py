"""C12 (Xerces DOM wrapped on demand): XercesDocumentWrapper::mapNode gives ONE wrapper per DOM node: a node that has a wrapper gets that
wrapper, and a wrapper made on demand is registered in the node map, so the next navigation step to the same DOM node returns the same
XalanNode (node identity is what duplicate removal and document order compare)."""
from xvlib.unit import Fn, Job, Unit, Mutant

XW = 'src/xalanc/XercesParserLiaison/XercesDocumentWrapper.cpp'
TEMPLATE = r'''
#include "xv_shim.h"
typedef struct DOMNodeType DOMNodeType; typedef struct XalanNode XalanNode;
typedef struct Self { bool m_mappingMode; bool m_buildMaps; const DOMNodeType* m_xercesDocument; } Self;
XalanNode* g_mapped; XalanNode* g_new; bool g_registered; bool g_created; bool g_foreign; bool g_thrown;
XalanNode* xv_map_get(const Self* s, const DOMNodeType* n) __CPROVER_requires(n != 0) __CPROVER_assigns() __CPROVER_ensures(__CPROVER_return_value == g_mapped) ;
bool xv_is_foreign(const Self* s, const DOMNodeType* n) __CPROVER_requires(n != 0) __CPROVER_assigns() __CPROVER_ensures(__CPROVER_return_value == g_foreign) ;
XalanNode* xv_createWrapperNode(const Self* s, const DOMNodeType* n, unsigned long idx, bool addToMap)
__CPROVER_requires(n != 0 && g_created == false) __CPROVER_assigns(g_created, g_registered) __CPROVER_ensures(g_created == true && g_registered == addToMap && __CPROVER_return_value == g_new) ;
void xv_throw_wrong_document(void) __CPROVER_requires(1) __CPROVER_assigns(g_thrown) __CPROVER_ensures(g_thrown == true) ;
@@FN mapNode@@
void h_mapNode(void)
{
    Self s; bool a, b, f; XalanNode *m, *n; const DOMNodeType *x, *d; __CPROVER_assume(n != 0 && n != m); s.m_mappingMode = XV_BOOL(a); s.m_buildMaps = XV_BOOL(b); s.m_xercesDocument = d;
    g_mapped = m; g_new = n; g_registered = false; g_created = false; g_foreign = XV_BOOL(f); g_thrown = false;
    mapNode(&s, x);
}
'''
R = [(r'm_nodeMap\.getNode\((\w+)\)', r'xv_map_get(self, \1)', 1),
     (r'theXercesNode != m_xercesDocument &&\s*theXercesNode->getOwnerDocument\(\) != m_xercesDocument &&\s*theXercesNode->getParentNode\(\) != static_cast<const DOMNodeType\*>\(m_xercesDocument\)', 'xv_is_foreign(self, theXercesNode)', 1),
     (r'throw XercesDOMWrapperException\(XercesDOMWrapperException::WRONG_DOCUMENT_ERR\);', 'xv_throw_wrong_document(); return 0;', 1),
     (r'(?<![\w.>])createWrapperNode\(', 'xv_createWrapperNode(self, ', 1),
     (r'(?<![\w.>])(m_mappingMode|m_buildMaps)\b', r'self->\1', (1, 3))]
UNIT = Unit(
    name='c12_mapnode',
    props=['C12'],
    functions=[
        Fn(XW, r'^XercesDocumentWrapper::mapNode\(const DOMNodeType\*\s+theXercesNode\) const', 'mapNode', 'XalanNode* mapNode(const Self* self, const DOMNodeType* theXercesNode)', rules=R, nloops=0,
           contract='''__CPROVER_requires(__CPROVER_is_fresh(self, sizeof(*self)) && g_new != 0 && g_new != g_mapped && g_created == false && g_registered == false && g_thrown == false)
__CPROVER_assigns(g_created, g_registered, g_thrown)
__CPROVER_ensures(/* no DOM node, no wrapper */ theXercesNode == 0 ==> (__CPROVER_return_value == 0 && g_created == false))
__CPROVER_ensures(/* a node that has a wrapper gets that wrapper: never a second one */ (theXercesNode != 0 && g_mapped != 0) ==> (__CPROVER_return_value == g_mapped && g_created == false))
__CPROVER_ensures(/* a wrapper made on demand is registered, whatever the build-maps setting: the next lookup of this DOM node finds it */
    (theXercesNode != 0 && g_mapped == 0 && g_foreign == false && self->m_mappingMode == true) ==> (__CPROVER_return_value == g_new && g_created == true && g_registered == true))
__CPROVER_ensures(/* a node of another document is refused */ (theXercesNode != 0 && g_mapped == 0 && g_foreign == true) ==> (g_thrown == true && g_created == false))
__CPROVER_ensures((theXercesNode != 0 && g_mapped == 0 && g_foreign == false && self->m_mappingMode == false) ==> (__CPROVER_return_value == 0 && g_created == false))'''),
    ],
    template=TEMPLATE,
    jobs=[Job('mapNode', 'h_mapNode', enforce=['mapNode'], replace=['xv_map_get', 'xv_is_foreign', 'xv_createWrapperNode', 'xv_throw_wrong_document'], reach='all', timeout=120, min_obligations=4)],
    mutants=[
        Mutant('on_demand_wrapper_follows_build_maps', XW, r'createWrapperNode\(theXercesNode, 0, true\);', 'createWrapperNode(theXercesNode, 0, m_buildMaps);', expect='registered'),
        Mutant('second_wrapper_for_mapped_node', XW, r'(theXalanNode = m_nodeMap\.getNode\(theXercesNode\);\s*)if \(theXalanNode == 0\)', r'\1if (theXalanNode == 0 || m_mappingMode == true)', expect='never a second one'),
    ],
    mechanisms=['Xerces DOM wrapper (on-demand mapping)'],
    assumptions=['m_nodeMap.getNode / createWrapperNode(node, index, addToMap) as named (XercesDocumentWrapper.cpp, not verified); the three-part "belongs to this document" test is one stub',
                 'a thrown XercesDOMWrapperException ends the path'],
)
