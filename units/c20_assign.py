"""C20: XalanDOMString::assign(source, pos, count) gives count units equal to source[pos .. pos+count), like std::u16string::assign, ALSO when
the source is the string itself (substr into itself): the units are moved to the front from the intact original, then the string is cut."""
from xvlib.unit import Fn, Job, Unit, Mutant

XS = 'src/xalanc/XalanDOM/XalanDOMString.cpp'
TEMPLATE = r'''
#include "xv_shim.h"
typedef struct XalanDOMString { size_t m_size; } XalanDOMString;
#define XV_MAX ((size_t)1 << 40)
/* ghost: two tracked units of this string's buffer, index g_w (any index of the result) and g_w2 == g_w + position (where that unit comes from);
   g_v1 / g_v2 their current values; g_src_v the unit source[g_w2] when the call is made */
size_t g_w, g_w2; XalanDOMChar g_v1, g_v2, g_src_v; const XalanDOMString* g_source; bool g_erased; XalanDOMString g_me, g_other;   /* the other string, when the source is not the string itself */
static void invariants(const XalanDOMString* s) { }
/* resize(n) as verified in unit c20_string: n units, kept units keep their value, the terminator at n */
void xv_resize(XalanDOMString* s, size_t n)
__CPROVER_requires(n <= XV_MAX) __CPROVER_assigns(s->m_size, g_v1, g_v2)
__CPROVER_ensures(s->m_size == n)
__CPROVER_ensures((g_w < n && g_w < __CPROVER_old(s->m_size)) ==> g_v1 == __CPROVER_old(g_v1)) __CPROVER_ensures(g_w == n ==> g_v1 == 0)
__CPROVER_ensures((g_w2 < n && g_w2 < __CPROVER_old(s->m_size)) ==> g_v2 == __CPROVER_old(g_v2)) __CPROVER_ensures(g_w2 == n ==> g_v2 == 0) ;
/* memmove(&*begin(), &*begin() + pos, n * sizeof(XalanDOMChar)) */
void xv_memmove_front(XalanDOMString* s, size_t pos, size_t n)
__CPROVER_requires(/* source and destination ranges lie inside the string */ pos <= s->m_size && n <= s->m_size - pos && g_w2 == g_w + pos)
__CPROVER_assigns(g_v1, g_v2)
__CPROVER_ensures(g_w < n ? g_v1 == __CPROVER_old(g_v2) : g_v1 == __CPROVER_old(g_v1)) __CPROVER_ensures(g_w2 >= n ==> g_v2 == __CPROVER_old(g_v2)) ;
void xv_erase_all(XalanDOMString* s) __CPROVER_requires(1) __CPROVER_assigns(s->m_size, g_erased, g_v1, g_v2) __CPROVER_ensures(s->m_size == 0 && g_erased == true) ;
/* append(source, pos, count) to an empty string, source another string (append is under contract in c20_string) */
void xv_append_sub(XalanDOMString* s, const XalanDOMString* src, size_t pos, size_t n)
__CPROVER_requires(src == g_source && src != s && g_erased == true && g_w2 == g_w + pos) __CPROVER_assigns(s->m_size, g_v1, g_v2)
__CPROVER_ensures(s->m_size == n && (g_w < n ==> g_v1 == g_src_v) && (g_w == n ==> g_v1 == 0)) ;
@@FN assign_sub@@
void h_assign_sub(void)
{
    size_t w, w2, p, n; XalanDOMChar a, b, c; bool self_case; size_t srcsize;
    g_w = w; g_w2 = w2; g_v1 = a; g_v2 = b; g_src_v = c; g_erased = false; g_source = XV_BOOL(self_case) ? &g_me : &g_other;
    size_t s1, s2; g_me.m_size = s1; g_other.m_size = s2; assign_sub(&g_me, g_source, p, n);
}
'''
R = [(r'theSource\.size\(\)', 'theSource->m_size', 2),
     (r'&theSource != this', 'theSource != self', 1),
     (r'(?<![\w.>])erase\(\);', 'xv_erase_all(self);', 1),
     (r'(?<![\w.>])append\(theSource, thePosition, theCount\);', 'xv_append_sub(self, theSource, thePosition, theCount);', 1),
     (r'(?<![\w.>])resize\((\w+)\);', r'xv_resize(self, \1);', 2),
     (r'(?:std::)?memmove\(&\*begin\(\), &\*begin\(\) \+ (\w+), (\w+|\([^()]*\)) \* sizeof\(XalanDOMChar\)\);', r'xv_memmove_front(self, \1, \2);', 1),
     (r'(?<![\w.>])invariants\(\);', 'invariants(self);', 2),
     (r'(?<![\w>.])m_size\b', 'self->m_size', (1, 3)),
     (r'return \*this;', 'return self;', 1)]
UNIT = Unit(
    name='c20_assign',
    props=['C20'],
    functions=[
        Fn(XS, r'^XalanDOMString::assign\(\s*const XalanDOMString&\s+theSource,\s*size_type\s+thePosition,\s*size_type\s+theCount\)', 'assign_sub',
           'XalanDOMString* assign_sub(XalanDOMString* self, const XalanDOMString* theSource, size_t thePosition, size_t theCount)', rules=R, nloops=0,
           contract='''__CPROVER_requires(/* the two strings are the same object or two different ones */ self == &g_me && (theSource == &g_me || theSource == &g_other) && theSource == g_source && g_erased == false)
__CPROVER_requires(self->m_size <= XV_MAX && theSource->m_size <= XV_MAX && /* the precondition of assign (its own assert) */ thePosition < theSource->m_size && theCount <= theSource->m_size - thePosition)
__CPROVER_requires(/* the tracked units */ g_w2 == g_w + thePosition && g_w <= theCount && (theSource == self ==> (g_src_v == g_v2 && /* one unit tracked twice has one value */ (g_w2 == g_w ==> g_v1 == g_v2) && (g_w == self->m_size ==> g_v1 == 0) && (g_w2 == self->m_size ==> g_v2 == 0))))
__CPROVER_assigns(self->m_size, g_v1, g_v2, g_erased)
__CPROVER_ensures(/* count units ... */ self->m_size == theCount)
__CPROVER_ensures(/* ... unit k of the result is unit pos+k of the source as it was when the call was made, also for the string itself */ g_w < theCount ==> g_v1 == g_src_v)
__CPROVER_ensures(/* ... and the terminator follows */ g_w == theCount ==> g_v1 == 0)'''),
    ],
    template=TEMPLATE,
    jobs=[Job('assign_sub', 'h_assign_sub', enforce=['assign_sub'], replace=['xv_resize', 'xv_memmove_front', 'xv_erase_all', 'xv_append_sub'], reach='all', timeout=300, min_obligations=6)],
    mutants=[
        Mutant('self_truncate_before_move', XS, r'(            std::memmove\(&\*begin\(\), &\*begin\(\) \+ thePosition, theCount \* sizeof\(XalanDOMChar\)\);\n)\n(            resize\(theCount\);\n)', r'\2\n\1', expect=None),
        Mutant('self_move_one_short', XS, r'&\*begin\(\) \+ thePosition, theCount \* sizeof', '&*begin() + thePosition, (theCount - 1) * sizeof', expect=None),
        Mutant('self_no_truncate_at_zero', XS, r'if \(theCount != m_size\)', 'if (theCount > m_size)', expect='count units'),
    ],
    mechanisms=['XalanDOMString (in-place substring)'],
    assumptions=['resize, erase and append(source, pos, count) are taken by their contracts (resize/erase/append are verified in unit c20_string); memmove has the C library meaning, over two tracked units',
                 'the two strings are the same object or disjoint'],
)
