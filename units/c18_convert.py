import copy
from xvlib.unit import Fn, Job, Unit, Mutant
from xvlib.common import UNICODE_BLOCK, ISWS_STUB
from units.c18_validate import UNIT as VAL, PRELUDE, CURSOR_LOOP

DS = 'src/xalanc/PlatformSupport/DoubleSupport.cpp'
DH = 'src/xalanc/PlatformSupport/DOMStringHelper.cpp'
DHH = 'src/xalanc/PlatformSupport/DOMStringHelper.hpp'

STR_REQ = r'''
__CPROVER_requires(g_n <= XV_MAXLEN)
__CPROVER_requires(__CPROVER_is_fresh(g_str, (g_n + 1) * sizeof(XalanDOMChar)))
__CPROVER_requires(g_str[g_n] == 0)
'''

LEN_CONTRACT = STR_REQ + r'''
__CPROVER_requires(__CPROVER_pointer_in_range_dfcc(g_str, theString, g_str + g_n) && __CPROVER_POINTER_OFFSET(theString) % 2 == 0)
__CPROVER_assigns()
__CPROVER_ensures(/* length: result indexes a NUL unit inside the string */ __CPROVER_return_value <= g_n - SOFF(theString) && theString[__CPROVER_return_value] == 0)
__CPROVER_ensures(/* length: no NUL before the result (at the ghost witness index) */ (g_w >= SOFF(theString) && g_w < SOFF(theString) + __CPROVER_return_value) ==> g_str[g_w] != 0)
'''
LEN_LOOP = r'''
__CPROVER_assigns(theBufferPointer)
__CPROVER_loop_invariant(IN_STR(theBufferPointer) && SOFF(theBufferPointer) >= SOFF(theString))
__CPROVER_loop_invariant((g_w >= SOFF(theString) && g_w < SOFF(theBufferPointer)) ==> g_str[g_w] != 0)
__CPROVER_decreases(g_n - SOFF(theBufferPointer))
'''

CW2_CONTRACT = STR_REQ + r'''
__CPROVER_requires(__CPROVER_is_fresh(theString, sizeof(*theString)) && __CPROVER_is_fresh(theLength, sizeof(*theLength)))
__CPROVER_requires(__CPROVER_pointer_in_range_dfcc(g_str, *theString, g_str + g_n) && __CPROVER_POINTER_OFFSET(*theString) % 2 == 0)
__CPROVER_requires(/* theLength is the distance to a NUL */ *theLength <= g_n - SOFF(*theString) && (*theString)[*theLength] == 0)
__CPROVER_assigns(*theString, *theLength)
__CPROVER_ensures(__CPROVER_pointer_in_range_dfcc(g_str, *theString, g_str + g_n))
__CPROVER_ensures(/* consumeWhitespace(ptr,len): cursor and length move together */ IN_STR(*theString) && SOFF(*theString) >= SOFF(__CPROVER_old(*theString))
    && SOFF(*theString) - SOFF(__CPROVER_old(*theString)) == __CPROVER_old(*theLength) - *theLength && *theLength <= __CPROVER_old(*theLength)
    && (*theString)[*theLength] == 0)
__CPROVER_ensures(/* consumeWhitespace(ptr,len): stops at the first non-whitespace unit */ !XV_IS_WS(**theString))
__CPROVER_ensures(/* consumeWhitespace(ptr,len): only whitespace is skipped (ghost witness) */ (g_w >= SOFF(__CPROVER_old(*theString)) && g_w < SOFF(*theString)) ==> XV_IS_WS(g_str[g_w]))
'''
CW2_LOOP = r'''
__CPROVER_assigns(*theString, *theLength)
__CPROVER_loop_invariant(IN_STR(*theString) && SOFF(*theString) >= SOFF(__CPROVER_loop_entry(*theString)))
__CPROVER_loop_invariant(SOFF(*theString) - SOFF(__CPROVER_loop_entry(*theString)) == __CPROVER_loop_entry(*theLength) - *theLength && *theLength <= __CPROVER_loop_entry(*theLength))
__CPROVER_loop_invariant((*theString)[*theLength] == 0)
__CPROVER_loop_invariant((g_w >= SOFF(__CPROVER_loop_entry(*theString)) && g_w < SOFF(*theString)) ==> XV_IS_WS(g_str[g_w]))
__CPROVER_decreases(g_n - SOFF(*theString))
'''

W2L_CONTRACT = STR_REQ + r'''
__CPROVER_requires(__CPROVER_pointer_in_range_dfcc(g_str, theString, g_str) )
__CPROVER_requires(/* callers use the integer fast path only for strings shorter than 10 units: at most 9 digits, cannot overflow a long */ XV_NUL_WITHIN_10(g_str))
__CPROVER_assigns()
__CPROVER_ensures(/* WideStringToLong: magnitude below 10^9, so the conversion to double is exact */ __CPROVER_return_value > -1000000000 && __CPROVER_return_value < 1000000000)
'''

W2I_LOOP0 = r'''
__CPROVER_assigns(theString)
__CPROVER_loop_invariant(IN_STR(theString) && XV_NUL_FROM(g_str, SOFF(theString)))
__CPROVER_decreases(g_n - SOFF(theString))
'''
W2I_LOOP1 = r'''
__CPROVER_assigns(theString, theResult)
__CPROVER_loop_invariant(IN_STR(theString) && XV_NUL_FROM(g_str, SOFF(theString)))
__CPROVER_loop_invariant(/* at most SOFF digits consumed: the value is below 10^SOFF <= 10^9 */ theResult >= 0 && theResult < xv_p10[SOFF(theString) <= 9 ? SOFF(theString) : 0])
__CPROVER_decreases(g_n - SOFF(theString))
'''

CH_CONTRACT = STR_REQ + r'''
__CPROVER_requires(__CPROVER_pointer_in_range_dfcc(g_str, theString, g_str))
__CPROVER_requires(g_dp != 0)
__CPROVER_assigns(g_atof_called, g_atof_off, g_atof_len)
__CPROVER_ensures(/* convertHelper: the integer fast path is taken only without a decimal point and below 10 units; it returns the long value converted to double */
    (!g_atof_called) ==> (fGotDecimalPoint == false && XV_NUL_WITHIN_10(g_str) && __CPROVER_return_value > -1000000000.0 && __CPROVER_return_value < 1000000000.0 && (double)(long)__CPROVER_return_value == __CPROVER_return_value))
__CPROVER_ensures(/* convertHelper: otherwise atof is applied to an exact narrow copy of the string from its first non-whitespace unit up to a NUL */
    g_atof_called ==> (XV_SAME(__CPROVER_return_value, g_atof_ret) && g_atof_off <= g_n && g_str[g_atof_off + g_atof_len] == 0 && !XV_IS_WS(g_str[g_atof_off])))
__CPROVER_ensures(/* convertHelper: only whitespace precedes the text handed to atof (ghost witness) */
    (g_atof_called && g_w < g_atof_off) ==> XV_IS_WS(g_str[g_w]))
'''
CH_LOOP = r'''
__CPROVER_assigns(i, __CPROVER_object_whole(theBuffer))
__CPROVER_loop_invariant(i <= theLength)
__CPROVER_loop_invariant(/* narrow copy exact so far (ghost witness) */ g_w2 < i ==> theBuffer[g_w2] == XV_NARROW(theString[g_w2], theDecimalPointChar))
__CPROVER_decreases(theLength - i)
'''

TEMPLATE = PRELUDE + r'''
typedef size_t XalanDOMString_size_type;
typedef struct { int dummy; } CharVectorType;
typedef long Type;   /* R8: the instantiation WideStringToIntegral<long> */
size_t g_w, g_w2;          /* ghost witness indices (arbitrary) */
long g_w2l_ret;            /* ghost: value returned by WideStringToLong */
double g_atof_ret;         /* ghost: value returned by atof */
bool g_atof_called; size_t g_atof_off, g_atof_len; char g_dp;
#define XV_NUL_AT(s, k) ((k) <= g_n && (s)[(k) <= g_n ? (k) : 0] == 0)
#define XV_NUL_WITHIN_10(s) (XV_NUL_AT(s,0) || XV_NUL_AT(s,1) || XV_NUL_AT(s,2) || XV_NUL_AT(s,3) || XV_NUL_AT(s,4) || XV_NUL_AT(s,5) || XV_NUL_AT(s,6) || XV_NUL_AT(s,7) || XV_NUL_AT(s,8) || XV_NUL_AT(s,9))
#define XV_NARROW(u, dp) ((u) == 0x2E ? (dp) : (char)(u))

/* --- assumed externals ------------------------------------------------ */
char xv_decimal_point(void)      /* localeconv()->decimal_point[0] */
__CPROVER_requires(1) __CPROVER_assigns() __CPROVER_ensures(__CPROVER_return_value == g_dp) ;

/* atof: assumed correctly rounded (C library); its PRECONDITION is what is verified:
   the buffer is NUL-terminated at len and is the exact narrow copy of src[0..len) */
double xv_atof(const char* buf, const XalanDOMChar* src, size_t len, char dp)
__CPROVER_requires(/* atof argument is NUL-terminated at the string length */ buf[len] == 0)
__CPROVER_requires(/* atof argument is the exact narrow copy of the wide string (ghost witness index) */ g_w2 < len ==> buf[g_w2] == XV_NARROW(src[g_w2], dp))
__CPROVER_requires(IN_STR(src) && src[len] == 0)
__CPROVER_assigns(g_atof_called, g_atof_off, g_atof_len)
__CPROVER_ensures(g_atof_called && g_atof_off == SOFF(src) && g_atof_len == len && XV_SAME(__CPROVER_return_value, g_atof_ret))
;
void xv_vec_reserve(CharVectorType* v, size_t n) __CPROVER_requires(1) __CPROVER_assigns() __CPROVER_ensures(1) ;
void CopyWideStringToVector(const XalanDOMChar* theString, CharVectorType* theVector)
__CPROVER_requires(IN_STR(theString)) __CPROVER_assigns() __CPROVER_ensures(1) ;
double xv_atof_vec(CharVectorType* v, const XalanDOMChar* src, size_t len)
__CPROVER_requires(IN_STR(src) && src[len] == 0)
__CPROVER_assigns(g_atof_called, g_atof_off, g_atof_len)
__CPROVER_ensures(g_atof_called && g_atof_off == SOFF(src) && g_atof_len == len && XV_SAME(__CPROVER_return_value, g_atof_ret))
;
#ifndef XV_BOUNDED
bool DoubleSupport_isValid(const XalanDOMChar* theString)
__CPROVER_requires(1) __CPROVER_assigns() __CPROVER_ensures(1) ;
#endif
static const long xv_p10[11] = {1, 10, 100, 1000, 10000, 100000, 1000000, 10000000, 100000000, 1000000000, 10000000000};
#define XV_NUL_FROM(s, p) ((p) <= 9 && (((p) <= 0 && XV_NUL_AT(s,0)) || ((p) <= 1 && XV_NUL_AT(s,1)) || ((p) <= 2 && XV_NUL_AT(s,2)) || ((p) <= 3 && XV_NUL_AT(s,3)) || ((p) <= 4 && XV_NUL_AT(s,4)) || ((p) <= 5 && XV_NUL_AT(s,5)) || ((p) <= 6 && XV_NUL_AT(s,6)) || ((p) <= 7 && XV_NUL_AT(s,7)) || ((p) <= 8 && XV_NUL_AT(s,8)) || ((p) <= 9 && XV_NUL_AT(s,9))))

@@FN consumeWhitespace@@
@@FN consumeNumbers@@
@@FN doValidate@@
#ifdef XV_BOUNDED
bool isXMLWhitespace(XalanDOMChar c) { return XV_IS_WS(c); }
#endif

@@FN length@@
@@FN consumeWhitespace2@@
@@FN WideStringToIntegral_long@@
@@FN WideStringToLong@@
@@FN convertHelper@@

void xv_havoc_ghosts(void)
{
    size_t a, b, c, d, e; long l; double x; bool f; char ch; const XalanDOMChar* s;
    g_n = a; g_w = b; g_w2 = c; g_atof_off = d; g_atof_len = e; g_w2l_ret = l; g_atof_ret = x; g_atof_called = false; g_dp = ch; g_str = s;
}
void h_length(void) { xv_havoc_ghosts(); const XalanDOMChar* s; length(s); }
void h_consumeWhitespace2(void) { xv_havoc_ghosts(); const XalanDOMChar** p; size_t* l; consumeWhitespace2(p, l); }
void h_WideStringToLong(void) { xv_havoc_ghosts(); const XalanDOMChar* s; WideStringToLong(s); }
void h_convertHelper(void) { xv_havoc_ghosts(); const XalanDOMChar* s; bool f; convertHelper(s, XV_BOOL(f), 0); }

/* ---- W: integer fast path, all strings shorter than 10 units, against the numeral's value */
static bool spec_number(const XalanDOMChar* s, bool* point)
{
    size_t i = 0, d1 = 0, d2 = 0;
    *point = false;
    while (XV_IS_WS(s[i])) i++;
    if (s[i] == 0x2D) i++;
    while (IS_DIGIT(s[i])) { i++; d1++; }
    if (s[i] == 0x2E) { *point = true; i++; while (IS_DIGIT(s[i])) { i++; d2++; } }
    if (!(d1 > 0 || (*point && d2 > 0))) return false;
    while (XV_IS_WS(s[i])) i++;
    return s[i] == 0;
}
static long spec_value(const XalanDOMChar* s)   /* value of ws* -? digits ws*, at most 9 digits */
{
    static const long p10[10] = {1, 10, 100, 1000, 10000, 100000, 1000000, 10000000, 100000000, 1000000000};
    size_t i = 0, b, e;
    while (XV_IS_WS(s[i])) i++;
    bool neg = s[i] == 0x2D;
    if (neg) i++;
    b = i;
    while (IS_DIGIT(s[i])) i++;
    e = i;
    long v = 0;
    for (i = b; i < e; i++) v = v * 10 + (long)(s[i] - 0x30);
    (void)p10;
    return neg ? -v : v;
}
#ifdef XV_BOUNDED
/* in the bounded job the validator is its specification (doValidate == grammar is the job c18_validate/grammar_bounded) */
bool DoubleSupport_isValid(const XalanDOMChar* theString) { bool p; return spec_number(theString, &p); }
#endif
void h_w2l_bounded(void)
{
    XalanDOMChar s[10];
    s[9] = 0;
#ifdef XV_ALPHABET
    /* bounded stand-in for the quick tier: one representative unit per class the function distinguishes */
    for (int k = 0; k < 9; ++k)
        __CPROVER_assume(s[k] == 0 || s[k] == 0x20 || s[k] == 0x0A || s[k] == 0x2D || s[k] == 0x2E || s[k] == 0x30 || s[k] == 0x31 || s[k] == 0x37 || s[k] == 0x39 || s[k] == 0x78);
#endif
    g_str = s; g_n = 9;
    long r = WideStringToLong(s);
    bool point;
    bool ok = spec_number(s, &point);
    __CPROVER_assert(ok || r == 0, "WideStringToLong: strings outside the Number grammar give 0");
    __CPROVER_assert(!(ok && !point) || r == spec_value(s), "WideStringToLong: value of the numeral for every valid string shorter than 10 units without a decimal point");
    XV_REACH("h_w2l_bounded");
}
'''

val_fns = [copy.copy(f) for f in VAL.functions]
for f in val_fns:
    f.reach = False

UNIT = Unit(
    name='c18_convert',
    props=['C18', 'C03', 'C02'],
    blocks=[UNICODE_BLOCK],
    functions=val_fns + [
        Fn(DHH, r'^length\(const XalanDOMChar\*\s+theString\)', 'length',
           'static size_t length(const XalanDOMChar* theString)',
           head_expect=r'^inline XalanDOMString::size_type length\(const XalanDOMChar\* theString\)$',
           rules=['SCOPE', ('FCASTS', ['XalanDOMString_size_type'])], contract=LEN_CONTRACT, loops={0: LEN_LOOP}, nloops=1),
        Fn(DS, r'^consumeWhitespace\(\s*const XalanDOMChar\*&?\s+theString,', 'consumeWhitespace2',
           'static void consumeWhitespace2(const XalanDOMChar** theString, size_t* theLength)',
           head_expect=r'^inline void consumeWhitespace\( const XalanDOMChar\*&? theString, XalanDOMString::size_type&? theLength\)$',
           rules=[], ref_params={'theString': 'const XalanDOMChar*', 'theLength': 'size_t'},
           contract=CW2_CONTRACT, loops={0: CW2_LOOP}, nloops=1),
        Fn(DH, r'^WideStringToIntegral\(', 'WideStringToIntegral_long',
           'static long WideStringToIntegral_long(const XalanDOMChar* theString, long theDummy)',
           head_expect=r'^template <class Type> Type WideStringToIntegral\( const XalanDOMChar\* theString, Type \)$',
           rules=['SCOPE', ('FCASTS', ['Type'])], nloops=2, reach=True, loops={0: W2I_LOOP0, 1: W2I_LOOP1}),
        Fn(DH, r'^WideStringToLong\(', 'WideStringToLong', 'long WideStringToLong(const XalanDOMChar* theString)',
           head_expect=r'WideStringToLong\(const XalanDOMChar\* theString\)$',
           rules=[('FCASTS', ['long']), (r'WideStringToIntegral\(', 'WideStringToIntegral_long(', 1)],
           contract=W2L_CONTRACT, nloops=0, reach=False),
        Fn(DS, r'^convertHelper\(', 'convertHelper',
           'static double convertHelper(const XalanDOMChar* theString, bool fGotDecimalPoint, void* theManager)',
           head_expect=r'^inline double convertHelper\( const XalanDOMChar\* theString, bool fGotDecimalPoint, MemoryManager& theManager\)$',
           rules=['SCOPE', ('FCASTS', ['double', 'char']),
                  (r'localeconv\(\)->decimal_point\[0\]', 'xv_decimal_point()', 1),
                  (r'consumeWhitespace\(theString, theLength\)', 'consumeWhitespace2(&theString, &theLength)', 1),
                  (r'atof\(theBuffer\)', 'xv_atof(theBuffer, theString, theLength, theDecimalPointChar)', 1),
                  (r'CharVectorType\s+theVector\(theManager\);', 'CharVectorType theVector;', 1),
                  (r'theVector\.reserve\(', 'xv_vec_reserve(&theVector, ', 1),
                  (r'CopyWideStringToVector\(theString, theVector\)', 'CopyWideStringToVector(theString, &theVector)', 1),
                  (r'atof\(&\*theVector\.begin\(\)\)', 'xv_atof_vec(&theVector, theString, theLength)', 1)],
           contract=CH_CONTRACT, loops={0: CH_LOOP}, nloops=1),
    ],
    template=TEMPLATE,
    jobs=[
        Job('length', 'h_length', enforce=['length'], loop_contracts=True, reach=['entry:length', 'after_loop0:length'], timeout=300),
        Job('consumeWhitespace2', 'h_consumeWhitespace2', enforce=['consumeWhitespace2'], replace=['isXMLWhitespace'],
            loop_contracts=True, reach=['entry:consumeWhitespace2', 'after_loop0:consumeWhitespace2'], timeout=300),
        Job('WideStringToLong', 'h_WideStringToLong', enforce=['WideStringToLong'], replace=['isXMLWhitespace', 'DoubleSupport_isValid'],
            loop_contracts=True, reach=['entry:WideStringToIntegral_long', 'after_loop0:WideStringToIntegral_long', 'after_loop1:WideStringToIntegral_long'], timeout=600),
        Job('convertHelper', 'h_convertHelper', enforce=['convertHelper'],
            replace=['length', 'consumeWhitespace2', 'WideStringToLong', 'xv_decimal_point', 'xv_atof', 'xv_vec_reserve',
                     'CopyWideStringToVector', 'xv_atof_vec'],
            loop_contracts=True, reach=['entry:convertHelper', 'after_loop0:convertHelper'], timeout=600, flags=['--object-bits', '12']),
        Job('w2l_alphabet', 'h_w2l_bounded', cls='B', unwind=11, dfcc=False, defines=['XV_BOUNDED', 'XV_ALPHABET'], reach=['h_w2l_bounded'],
            bound_note='all strings of fewer than 10 units over the 10 representative units NUL space LF - . 0 1 7 9 x (one per class the function distinguishes)', timeout=900),
    ],
    mutants=[
        Mutant('threshold_20', DS, r'theLongHackThreshold = 10;', 'theLongHackThreshold = 20;', expect=None),
        Mutant('copy_off_by_one', DS, r'theBuffer\[theLength\] = \'\\0\';', "theBuffer[theLength - 1] = '\\\\0';", expect=None),
        Mutant('buffer_le', DS, r'if \(theLength < theBufferSize\)', 'if (theLength <= theBufferSize)', expect=None),
        Mutant('w2l_neg_lost', DH, r'return isNegative == true \? -theResult : theResult;', 'return theResult;', expect='WideStringToLong'),
        Mutant('w2l_sign_before_whitespace', DH, r'(// Consume any leading whitespace \(which we allow\)\s*while\(isXMLWhitespace\(\*theString\) == true\)\s*\{\s*\+\+theString;\s*\}\s*)(const bool  isNegative = \*theString == XalanUnicode::charHyphenMinus \? true : false;\s*if \(isNegative == true\)\s*\{\s*\+\+theString;\s*\}\s*)', r'\2\1', expect='WideStringToLong'),
    ],
    mechanisms=['string to double (integer fast path for < 10 characters, atof otherwise)'],
    assumptions=['atof / strtod of the C library is correctly rounded (stub xv_atof: only its precondition is verified)',
                 'localeconv()->decimal_point[0] is a non-NUL char', 'CharVectorType (XalanVector<char>) reserve/CopyWideStringToVector: assumed stubs (long-string path >= 200 units)'],
)
