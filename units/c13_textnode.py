"""C13: the whitespace flag of a source-tree text node is decided when the node is built.  XalanSourceTreeDocument::createTextNode makes the
"ignorable white space" flavour of text node (isWhitespace() true) exactly when ALL units of the text are XML whitespace - whatever the
length - and the ordinary flavour otherwise; StylesheetRoot::shouldStripSourceNode consults the strip/preserve declarations only for
nodes whose flag is set, so a whitespace-only node built without the flag can never be stripped."""
import re
from xvlib.unit import Fn, Job, Unit, Mutant, Block

SD = 'src/xalanc/XalanSourceTree/XalanSourceTreeDocument.cpp'
HEAD = Block(SD, r'\A', 'filehead', end=r'^XalanSourceTreeDocument::createTextNode\(', hidden=True)


def gen(fn_texts, blk_texts):
    # file-scope anonymous enums defined before the function (a constant the function may use) are carried over verbatim
    enums = re.findall(r'^enum\s*\{[^{}]*\};', blk_texts['filehead'], re.M)
    return {'consts': '\n'.join(enums)}


TEMPLATE = r'''
#include "xv_shim.h"
@@GEN consts@@
typedef struct XalanNode XalanNode; typedef struct Self { unsigned long m_nextIndexValue; } Self; typedef size_t XalanDOMString_size_type; typedef int StrId; typedef long TextNode;
enum { KIND_NONE, KIND_IWS, KIND_PLAIN };
bool g_all_ws; size_t g_len; const XalanDOMChar* g_chars; int g_made; unsigned long g_made_index; bool g_ws_asked_whole;
/* isXMLWhitespace(chars, start, length): every unit of the range is XML whitespace */
bool xv_is_ws_range(const XalanDOMChar* c, size_t start, size_t len) __CPROVER_requires(c == g_chars) __CPROVER_assigns(g_ws_asked_whole)
__CPROVER_ensures(g_ws_asked_whole == (start == 0 && len == g_len) && (__CPROVER_return_value == true || __CPROVER_return_value == false) && ((start == 0 && len == g_len) ==> __CPROVER_return_value == g_all_ws)) ;
StrId xv_pool_get(Self* s, const XalanDOMChar* c, size_t len) __CPROVER_requires(c == g_chars && len == g_len) __CPROVER_assigns() __CPROVER_ensures(1) ;
StrId xv_text_string(Self* s, const XalanDOMChar* c, size_t len) __CPROVER_requires(c == g_chars && len == g_len) __CPROVER_assigns() __CPROVER_ensures(1) ;
TextNode xv_create_iws(Self* s, StrId str, XalanNode* p, XalanNode* prev, XalanNode* next, unsigned long index) __CPROVER_requires(g_made == KIND_NONE) __CPROVER_assigns(g_made, g_made_index) __CPROVER_ensures(g_made == KIND_IWS && g_made_index == index && __CPROVER_return_value != 0) ;
TextNode xv_create_plain(Self* s, StrId str, XalanNode* p, XalanNode* prev, XalanNode* next, unsigned long index) __CPROVER_requires(g_made == KIND_NONE) __CPROVER_assigns(g_made, g_made_index) __CPROVER_ensures(g_made == KIND_PLAIN && g_made_index == index && __CPROVER_return_value != 0) ;
Self g_self;
@@FN createTextNode@@
void h_createTextNode(void) { bool w; size_t n; const XalanDOMChar* c; unsigned long i; __CPROVER_assume(c != 0 && i < (1UL << 62)); g_all_ws = XV_BOOL(w); g_len = n; g_chars = c; g_made = KIND_NONE; g_self.m_nextIndexValue = i; createTextNode(&g_self, c, n, 0, 0, 0); }
'''
R = ['SCOPE',
     (r'(?<![\w.>])isXMLWhitespace\(chars, ([^,]+), ([^)]+)\)', r'xv_is_ws_range(chars, \1, \2)', (1, 2)),
     (r'const XalanDOMString&\s+theString = m_valuesStringPool\.get\(chars, length\);', 'const StrId theString = xv_pool_get(self, chars, length);', (0, 1)),
     (r'm_valuesStringPool\.get\(chars, length\)', 'xv_pool_get(self, chars, length)', (0, 2)),
     (r'(?<![\w.>])getTextNodeString\(chars, length\)', 'xv_text_string(self, chars, length)', (0, 2)),
     (r'm_textIWSAllocator\.create\(', 'xv_create_iws(self, ', (0, 2)),
     (r'm_textAllocator\.create\(', 'xv_create_plain(self, ', (0, 2)),
     (r'(?<![\w.>])m_nextIndexValue\b', 'self->m_nextIndexValue', (1, 4))]
UNIT = Unit(
    name='c13_textnode',
    props=['C13', 'C12'],
    blocks=[HEAD],
    gen=gen,
    functions=[
        Fn(SD, r'^XalanSourceTreeDocument::createTextNode\(', 'createTextNode',
           'TextNode createTextNode(Self* self, const XalanDOMChar* chars, XalanDOMString_size_type length, XalanNode* theParentNode, XalanNode* thePreviousSibling, XalanNode* theNextSibling)', rules=R, nloops=0,
           contract='''__CPROVER_requires(self == &g_self && chars == g_chars && chars != 0 && length == g_len && g_made == KIND_NONE && self->m_nextIndexValue < (1UL << 62))
__CPROVER_assigns(self->m_nextIndexValue, g_made, g_made_index, g_ws_asked_whole)
__CPROVER_ensures(/* the white-space flavour (isWhitespace() true, the only one xsl:strip-space can strip) exactly for text that is ALL XML whitespace, of any length */
    g_made == (g_all_ws ? KIND_IWS : KIND_PLAIN) && __CPROVER_return_value != 0)
__CPROVER_ensures(/* the node takes the index counter and the counter moves on */ g_made_index == __CPROVER_old(self->m_nextIndexValue) && self->m_nextIndexValue == __CPROVER_old(self->m_nextIndexValue) + 1)'''),
    ],
    template=TEMPLATE,
    jobs=[Job('createTextNode', 'h_createTextNode', enforce=['createTextNode'], replace=['xv_is_ws_range', 'xv_pool_get', 'xv_text_string', 'xv_create_iws', 'xv_create_plain'], reach='all', timeout=120, min_obligations=4)],
    mutants=[
        Mutant('long_whitespace_not_flagged', SD, r'if \(isXMLWhitespace\(chars, 0, length\) == true\)', 'if (length <= 128 &&\n        isXMLWhitespace(chars, 0, length) == true)', expect='ALL XML whitespace'),
        Mutant('flag_from_first_unit_only', SD, r'if \(isXMLWhitespace\(chars, 0, length\) == true\)', 'if (isXMLWhitespace(chars, 0, 1) == true)', expect='ALL XML whitespace'),
        Mutant('flavours_swapped', SD, r'(theNextSibling,\s*m_nextIndexValue\+\+\);\s*\}\s*else\s*\{\s*return )m_textAllocator\.create\(', r'\1m_textIWSAllocator.create(', expect=None),
    ],
    mechanisms=['whitespace flag of source-tree text nodes'],
    assumptions=['isXMLWhitespace(chars, start, length) is true iff every unit of the range is XML whitespace (DOMStringHelper, table facts in c04_chartables); the two allocators build XalanSourceTreeTextIWS / XalanSourceTreeText, whose isWhitespace() is constant true / false',
                 'the SAX build (XalanSourceTreeContentHandler) calls createTextNode for character data and createTextIWSNode for ignorableWhitespace events; those callers are not under contract'],
)
