from xvlib.unit import Fn, Job, Unit, Mutant

EN = 'src/xalanc/XSLT/ElemNumber.cpp'

TEMPLATE = r'''
#include "xv_shim.h"
typedef size_t CountType; typedef size_t NodeRefListBase_size_type;
typedef struct Self { const void* m_valueExpr; int m_level; } Self;
typedef struct Ctx StylesheetExecutionContext; typedef struct XalanDOMString XalanDOMString; typedef struct XalanNode XalanNode;
typedef struct CountersTable CountersTable; typedef struct NodeList NodeList;
enum { eSingle, eMultiple, eAny };
double g_value; size_t g_nancestors; CountType g_count; int g_done; bool g_rounded; double g_round_in, g_round_out;
enum { D_NONE, D_PLAIN_NUMBER, D_FORMAT_ONE, D_FORMAT_LIST };

XalanNode* xv_current_node(StylesheetExecutionContext* e) __CPROVER_requires(1) __CPROVER_assigns() __CPROVER_ensures(__CPROVER_return_value != 0) ;
void xv_value_execute(const void* expr, const Self* self, StylesheetExecutionContext* e, double* out)
__CPROVER_requires(__CPROVER_w_ok(out, sizeof(double))) __CPROVER_assigns(*out) __CPROVER_ensures(XV_SAME(*out, g_value)) ;
/* DoubleSupport: contracts proved in c02_dsarith / c18_round */
bool DoubleSupport_lessThan(double a, double b) __CPROVER_requires(1) __CPROVER_assigns() __CPROVER_ensures(__CPROVER_return_value == (a < b)) ;
bool DoubleSupport_greaterThanOrEqual(double a, double b) __CPROVER_requires(1) __CPROVER_assigns() __CPROVER_ensures(__CPROVER_return_value == (a >= b)) ;
double DoubleSupport_round(double x) __CPROVER_requires(1) __CPROVER_assigns(g_rounded, g_round_in, g_round_out)
__CPROVER_ensures(XV_FINITE(x) ==> (XV_FINITE(__CPROVER_return_value) && __CPROVER_return_value - 0.5 <= x && x <= __CPROVER_return_value + 0.5))
__CPROVER_ensures(XV_FINITE(x) && XV_ABS(x) >= XV_TWO52 ==> __CPROVER_return_value == x)
__CPROVER_ensures(g_rounded == true && XV_SAME(g_round_in, x) && XV_SAME(g_round_out, __CPROVER_return_value)) ;
/* any other rounding routine of libm: not the XPath round() */
double xv_libm_round_like(double x) __CPROVER_requires(1) __CPROVER_assigns() __CPROVER_ensures(1) ;
void xv_NumberToDOMString(double v, XalanDOMString* r) __CPROVER_requires(g_done == D_NONE) __CPROVER_assigns(g_done) __CPROVER_ensures(g_done == D_PLAIN_NUMBER) ;
void xv_formatNumberList(const Self* self, StylesheetExecutionContext* e, const CountType* list, size_t n, XalanDOMString* r)
__CPROVER_requires(g_done == D_NONE && n == 1 && __CPROVER_r_ok(list, sizeof(CountType)))
__CPROVER_requires(/* xsl:number value=: the number formatted is round(value) as XPath 4.4 defines it (DoubleSupport::round, unit c18_round), ties towards +infinity */
    self->m_valueExpr != 0 ==> (g_rounded == true && XV_SAME(g_round_in, g_value) && list[0] == (CountType)g_round_out))
__CPROVER_requires(/* level=any: the count the counters table gives for the node */ self->m_valueExpr == 0 ==> list[0] == g_count)
__CPROVER_assigns(g_done) __CPROVER_ensures(g_done == D_FORMAT_ONE) ;
CountersTable* xv_counters(StylesheetExecutionContext* e) __CPROVER_requires(1) __CPROVER_assigns() __CPROVER_ensures(1) ;
CountType xv_countNode(CountersTable* t, StylesheetExecutionContext* e, const Self* self, XalanNode* n) __CPROVER_requires(1) __CPROVER_assigns() __CPROVER_ensures(__CPROVER_return_value == g_count) ;
NodeList* xv_borrow_list(StylesheetExecutionContext* e) __CPROVER_requires(1) __CPROVER_assigns() __CPROVER_ensures(1) ;
void xv_getMatchingAncestors(const Self* self, StylesheetExecutionContext* e, XalanNode* n, bool stop, NodeList* l) __CPROVER_requires(1) __CPROVER_assigns() __CPROVER_ensures(1) ;
size_t xv_list_length(NodeList* l) __CPROVER_requires(1) __CPROVER_assigns() __CPROVER_ensures(__CPROVER_return_value == g_nancestors) ;
/* the worker that fills numberList[0 .. theListLength): its PRECONDITION is the memory-safety obligation of the caller */
void xv_getCountString_list(const Self* self, StylesheetExecutionContext* e, NodeList* l, CountersTable* t, CountType* numberList, size_t theListLength, XalanDOMString* r)
__CPROVER_requires(/* the count array handed to the worker has room for one count per matching ancestor */
    theListLength >= 1 && theListLength <= (__CPROVER_OBJECT_SIZE(numberList) - __CPROVER_POINTER_OFFSET(numberList)) / sizeof(CountType) && __CPROVER_w_ok(numberList, sizeof(CountType)))
__CPROVER_requires(g_done == D_NONE)
__CPROVER_assigns(g_done) __CPROVER_ensures(g_done == D_FORMAT_LIST) ;
CountType* xv_heap_array(size_t n) __CPROVER_requires(n >= 1 && n <= ((size_t)1 << 40)) __CPROVER_assigns()
__CPROVER_ensures(__CPROVER_is_fresh(__CPROVER_return_value, n * sizeof(CountType))) ;

@@FN getCountString@@
void h_getCountString(void)
{
    double v; size_t n; CountType c; g_value = v; g_nancestors = n; g_count = c; g_done = D_NONE; g_rounded = false;
    __CPROVER_assume(n <= ((size_t)1 << 40));
    Self* s; getCountString(s, 0, 0);
}
'''

UNIT = Unit(
    name='c03_countstring',
    props=['C03', 'C17'],
    functions=[
        Fn(EN, r'^ElemNumber::getCountString\(\s*StylesheetExecutionContext&\s+executionContext,\s*XalanDOMString&\s+theResult\) const', 'getCountString',
           'void getCountString(const Self* self, StylesheetExecutionContext* executionContext, XalanDOMString* theResult)',
           head_expect=r'^void ElemNumber::getCountString\( StylesheetExecutionContext& executionContext, XalanDOMString& theResult\) const$',
           rules=[(r'(?:std::)?\b(?:nearbyint|rint|lround|llround|floor|ceil|trunc)\(', 'xv_libm_round_like(', (0, 2)), 'SCOPE', ('FCASTS', ['CountType']),
                  (r'executionContext\.getCurrentNode\(\)', 'xv_current_node(executionContext)', 1),
                  (r'\bm_(valueExpr|level)\b', r'self->m_\1', None),
                  (r'self->m_valueExpr->execute\(\*this, executionContext, theValue\);', 'xv_value_execute(self->m_valueExpr, self, executionContext, &theValue);', 1),
                  (r'(?<![\w.>])NumberToDOMString\(theValue, theResult\);', 'xv_NumberToDOMString(theValue, theResult);', None),
                  (r'formatNumberList\(\s*executionContext,', 'xv_formatNumberList(self, executionContext,', None),
                  (r'CountersTable&\s+ctable = executionContext\.getCountersTable\(\);', 'CountersTable* ctable = xv_counters(executionContext);', 1),
                  (r'ctable\.countNode\(executionContext, \*this, sourceNode\)', 'xv_countNode(ctable, executionContext, self, sourceNode)', 1),
                  (r'typedef XPathExecutionContext_BorrowReturnMutableNodeRefList\s+BorrowReturnMutableNodeRefList;', '', 1),
                  (r'BorrowReturnMutableNodeRefList\s+ancestors\(executionContext\);', 'NodeList* ancestors = xv_borrow_list(executionContext);', 1),
                  (r'getMatchingAncestors\(\s*executionContext,\s*sourceNode,\s*(.*?),\s*\*ancestors\.get\(\)\);', r'xv_getMatchingAncestors(self, executionContext, sourceNode, \1, ancestors);', 1),
                  (r'ancestors->getLength\(\)', 'xv_list_length(ancestors)', 1),
                  (r'CountTypeArrayType\s+numberList\(executionContext\.getMemoryManager\(\)\);\s*numberList\.resize\(lastIndex, 0\);', 'CountType* numberList = xv_heap_array(lastIndex);', 1),
                  (r'&\*numberList\.begin\(\)', 'numberList', 1),
                  (r'getCountString\(\s*executionContext,\s*\*ancestors\.get\(\),\s*ctable,', 'xv_getCountString_list(self, executionContext, ancestors, ctable,', 2)],
           contract='''__CPROVER_requires(__CPROVER_is_fresh(self, sizeof(*self)) && g_done == D_NONE && g_rounded == false && (self->m_level == eSingle || self->m_level == eMultiple || self->m_level == eAny))
__CPROVER_assigns(g_done, g_rounded, g_round_in, g_round_out)
__CPROVER_ensures(/* xsl:number: at most one formatting action */ g_done == D_NONE || g_done == D_PLAIN_NUMBER || g_done == D_FORMAT_ONE || g_done == D_FORMAT_LIST)''',
           nloops=0),
    ],
    template=TEMPLATE,
    jobs=[Job('getCountString', 'h_getCountString', enforce=['getCountString'],
              replace=['xv_current_node', 'xv_value_execute', 'DoubleSupport_lessThan', 'DoubleSupport_greaterThanOrEqual', 'DoubleSupport_round', 'xv_NumberToDOMString',
                       'xv_formatNumberList', 'xv_counters', 'xv_countNode', 'xv_borrow_list', 'xv_getMatchingAncestors', 'xv_list_length',
                       'xv_getCountString_list', 'xv_heap_array', 'xv_libm_round_like'],
              flags=['--conversion-check'], reach=['entry:getCountString'], timeout=300)],
    mutants=[
        Mutant('value_rounded_half_even', EN, r'CountType\(DoubleSupport::round\(theValue\)\)', 'CountType(std::nearbyint(theValue))', expect='round(value)'),
        Mutant('threshold_sizeof', EN, r'if \(lastIndex < theStackArrayThreshold\)', 'if (lastIndex < theStackArrayThreshold * sizeof(CountType))', expect='room for one count'),
    ],
    mechanisms=['number list computation'],
    assumptions=['all collaborators of ElemNumber::getCountString (XPath::execute, CountersTable::countNode, getMatchingAncestors, formatNumberList, BorrowReturnMutableNodeRefList, XalanVector::resize) are assumed stubs; verified: no undefined conversion, the count array is large enough'],
)
