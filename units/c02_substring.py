from xvlib.unit import Fn, Job, Unit, Mutant

FS = 'src/xalanc/XPath/FunctionSubstring.cpp'

TEMPLATE = r'''
#include "xv_shim.h"
typedef size_t XalanDOMString_size_type;
typedef struct XObjectPtr XObjectPtr;
typedef struct XPathExecutionContext XPathExecutionContext;
#define XV_MAXSTR ((size_t)1 << 40)     /* string lengths up to 2^40 UTF-16 units: exactly representable as doubles */

/* ghost */
size_t g_p;          /* arbitrary XPath character position (witness), 1-based */
bool g_has3;         /* substring() was called with a third argument */
double g_c;          /* number() of the third argument */
double g_r3;         /* DoubleSupport::round(g_c) */

/* DoubleSupport comparisons: contracts PROVED in unit c02_dsarith; round(): PROVED in unit c18_round */
bool DoubleSupport_lessThanOrEqual(double theLHS, double theRHS)
__CPROVER_requires(1) __CPROVER_assigns() __CPROVER_ensures(__CPROVER_return_value == (theLHS <= theRHS)) ;
bool DoubleSupport_equal(double theLHS, double theRHS)
__CPROVER_requires(1) __CPROVER_assigns() __CPROVER_ensures(__CPROVER_return_value == (theLHS == theRHS)) ;
double DoubleSupport_subtract(double theLHS, double theRHS)
__CPROVER_requires(XV_FINITE(theLHS) && theRHS == 1.0) __CPROVER_assigns() __CPROVER_ensures(__CPROVER_return_value == theLHS - theRHS) ;
double DoubleSupport_round(double theValue)
__CPROVER_requires(1) __CPROVER_assigns()
__CPROVER_ensures(XV_SAME(theValue, g_c) ==> XV_SAME(__CPROVER_return_value, g_r3))
__CPROVER_ensures(XV_IS_INTEGRAL(theValue) && XV_FINITE(theValue) ==> __CPROVER_return_value == theValue)
__CPROVER_ensures(XV_ISNAN(theValue) ==> XV_ISNAN(__CPROVER_return_value))
__CPROVER_ensures(XV_ISINF(theValue) ==> __CPROVER_return_value == theValue)
__CPROVER_ensures(XV_FINITE(theValue) ==> (XV_FINITE(__CPROVER_return_value) && XV_IS_INTEGRAL(__CPROVER_return_value)))
;
bool xv_arg3_null(const XObjectPtr* a) __CPROVER_requires(1) __CPROVER_assigns() __CPROVER_ensures(__CPROVER_return_value == !g_has3) ;
double xv_arg3_num(const XObjectPtr* a) __CPROVER_requires(g_has3) __CPROVER_assigns() __CPROVER_ensures(XV_SAME(__CPROVER_return_value, g_c)) ;

/* "rounded value": NaN, infinities or an integer-valued double */
#define XV_ROUNDED(a) (XV_ISNAN(a) || XV_ISINF(a) || XV_IS_INTEGRAL(a))
/* the sum the Recommendation speaks of: rounded second argument + rounded third argument (IEEE 754) */
#define XV_R3 ((XV_ISNAN(g_c) || XV_ISINF(g_c)) ? g_c : g_r3)

@@FN getStartIndex@@
@@FN getSubstringLength@@

static void xv_havoc(void) { size_t p; bool b; double c, r; g_p = p; g_has3 = XV_BOOL(b); g_c = c; g_r3 = r; }
void h_getStartIndex(void) { xv_havoc(); double ha; size_t hl; getStartIndex(ha, hl); }
void h_getSubstringLength(void) { xv_havoc(); size_t hl, hs; double ha; getSubstringLength(0, hl, hs, ha, 0); }
'''

START_CONTRACT = r'''
__CPROVER_requires(XV_ROUNDED(theSecondArgValue) && theStringLength >= 1 && theStringLength <= XV_MAXSTR)
__CPROVER_assigns()
__CPROVER_ensures(/* substring start: the index never exceeds the string length */ __CPROVER_return_value <= theStringLength)
__CPROVER_ensures(/* substring start (XPath 4.2): position p is at or after the start iff p >= round(arg2), by IEEE 754 comparison -- for every position p of the string (ghost witness), NaN and both infinities included */
    (g_p >= 1 && g_p <= theStringLength) ==> (((double)g_p >= theSecondArgValue) == (g_p - 1 >= __CPROVER_return_value)))
'''

LEN_CONTRACT = r'''
__CPROVER_requires(theSourceStringLength >= 1 && theSourceStringLength <= XV_MAXSTR && theStartIndex < theSourceStringLength)
__CPROVER_requires(XV_ROUNDED(theSecondArgValue) && !XV_ISNAN(theSecondArgValue) && !(XV_ISINF(theSecondArgValue) && theSecondArgValue > 0))
__CPROVER_requires(/* theStartIndex is what getStartIndex returned for theSecondArgValue */
    (theSecondArgValue <= 1.0 && theStartIndex == 0) || (theSecondArgValue > 1.0 && (double)theStartIndex == theSecondArgValue - 1.0))
__CPROVER_requires(/* g_r3 is round(g_c) (contract of DoubleSupport::round, proved in c18_round) */
    XV_FINITE(g_c) ==> (XV_FINITE(g_r3) && XV_IS_INTEGRAL(g_r3)))
__CPROVER_assigns()
__CPROVER_ensures(/* substring length: never runs past the end of the string */ __CPROVER_return_value <= theSourceStringLength - theStartIndex)
__CPROVER_ensures(/* substring end (XPath 4.2): a position p at or after the start is in the result iff there is no third argument or p < round(arg2) + round(arg3), computed by IEEE 754 -- for every such position (ghost witness) */
    (g_p >= theStartIndex + 1 && g_p <= theSourceStringLength) ==>
        ((g_p <= theStartIndex + __CPROVER_return_value) == (!g_has3 || (double)g_p < XV_R3 + theSecondArgValue)))
'''

UNIT = Unit(
    name='c02_substring',
    props=['C02', 'C03'],
    functions=[
        Fn(FS, r'^getStartIndex\(', 'getStartIndex',
           'static size_t getStartIndex(double theSecondArgValue, size_t theStringLength)',
           head_expect=r'^inline XalanDOMString::size_type getStartIndex\( double theSecondArgValue, XalanDOMString::size_type theStringLength\)$',
           rules=['SCOPE', ('FCASTS', ['XalanDOMString_size_type', 'double'])], contract=START_CONTRACT, nloops=0),
        Fn(FS, r'^getSubstringLength\(', 'getSubstringLength',
           'static size_t getSubstringLength(XPathExecutionContext* executionContext, size_t theSourceStringLength, size_t theStartIndex, double theSecondArgValue, const XObjectPtr* arg3)',
           head_expect=r'^inline XalanDOMString::size_type getSubstringLength\( XPathExecutionContext& executionContext, XalanDOMString::size_type theSourceStringLength, XalanDOMString::size_type theStartIndex, double theSecondArgValue, const XObjectPtr& arg3\)$',
           rules=['SCOPE', (r'typedef XalanDOMString_size_type\s+size_type;', '', 1), ('FCASTS', ['size_type', 'double']),
                  (r'arg3\.null\(\)', 'xv_arg3_null(arg3)', 1), (r'arg3->num\(executionContext\)', 'xv_arg3_num(arg3)', 1)],
           contract=LEN_CONTRACT, nloops=0),
    ],
    template=TEMPLATE,
    jobs=[
        Job('getStartIndex', 'h_getStartIndex', enforce=['getStartIndex'],
            replace=['DoubleSupport_lessThanOrEqual', 'DoubleSupport_equal', 'DoubleSupport_subtract', 'DoubleSupport_round'],
            flags=['--conversion-check'], reach=['entry:getStartIndex'], timeout=300),
        Job('getSubstringLength', 'h_getSubstringLength', enforce=['getSubstringLength'],
            replace=['DoubleSupport_round', 'xv_arg3_null', 'xv_arg3_num'],
            # the IEEE sum round(arg2)+round(arg3) appears in the code and in the postcondition: SAT has to prove two
            # float adders equivalent; CaDiCaL needs ~3 min, MiniSat > 5 min
            flags=['--conversion-check', '--sat-solver', 'cadical'], reach=['entry:getSubstringLength'], timeout=900),
    ],
    mutants=[
        Mutant('start_not_decremented', FS, r'const double    theResult = theSecondArgValue - 1;', 'const double    theResult = theSecondArgValue;', expect='substring start'),
        Mutant('total_uses_start_index', FS, r'theRoundedValue \+ theSecondArgValue;', 'theRoundedValue + double(theStartIndex + 1);', expect='substring end'),
        Mutant('neg_inf_with_len', FS, r'else if \(DoubleSupport::isNegativeInfinity\(theSecondArgValue\) == true\)\s*\{[^}]*return 0;', 'else if (DoubleSupport::isNegativeInfinity(theSecondArgValue) == true)\n    {\n        return theMaxLength;', expect='substring end'),
    ],
    mechanisms=['op-code interpreter'],
    assumptions=['XObject::num() of the third argument is XPath number() (accessor stub)', 'string lengths <= 2^40 units',
                 'DoubleSupport::round / lessThanOrEqual contracts as proved in c18_round / c02_dsarith'],
    replay='substring', replay_inputs={'a': '*::ha', 'l': '*::hl', 's': '*::hs', 'c': '*::g_c', 'has3': '*::g_has3'},
)
