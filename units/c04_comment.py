"""C04: xsl:comment content repair (XSLT 1.0 7.4 / XML 2.5): the string handed to the serializer as comment content contains no "--" and
does not end in "-"; nothing but single spaces is inserted.
Job comment_wf (class P): loop contract on the real in-place repair loop of ElemComment::endElement, strings of any length up to 1024 units over the
full 16-bit alphabet, XalanDOMString::insert(iterator, char) as a contract (ghost-witness instantiation of "units before the position stay, the
unit at the position moves up by one"); the postcondition is the precondition of the comment() stub.
Job comment (class B, kept for the "every original unit is kept, in order" clause, which the witness form cannot state): the same loop run on
every string of at most 7 units over the alphabet { '-', 'x', ' ' } against a concrete string model."""
from xvlib.unit import Fn, Job, Unit, Mutant
from xvlib.common import UNICODE_BLOCK

EC = 'src/xalanc/XSLT/ElemComment.cpp'
TEMPLATE = r'''
#include "xv_shim.h"
@@BLOCK XalanUnicode@@
#ifdef XV_PROOF
#define MAXN 1024
#define CAP (2 * MAXN + 2)
typedef struct Self Self; typedef struct Ctx StylesheetExecutionContext; typedef struct XS XStr;
typedef XalanDOMChar* XalanDOMString_iterator;
XalanDOMChar g_buf[CAP]; size_t g_len; size_t g_n; size_t g_w; bool g_commented; XStr* g_str_p;
#define IDX(p) ((size_t)(__CPROVER_POINTER_OFFSET(p) / sizeof(XalanDOMChar)))
#define INBUF(p) (__CPROVER_same_object(p, &g_buf[0]) && __CPROVER_POINTER_OFFSET(p) % sizeof(XalanDOMChar) == 0 && IDX(p) < CAP)
#define NO_DD_AT(k) (!(g_buf[k] == 0x2D && g_buf[(k) + 1] == 0x2D))
static XalanDOMChar* xv_begin(XStr* s) { return &g_buf[0]; }
static XalanDOMChar* xv_end(XStr* s) { return &g_buf[g_len]; }
/* XalanDOMString::insert(iterator, char) (proved against the vector model in c20_string): the units before the position stay, the new unit is at
   the position, the unit that was there follows it; returns an iterator to the inserted unit.  The universal facts are instantiated at the
   ghost index g_w and at the two units before the position. */
XalanDOMChar* xv_insert(XStr* s, XalanDOMChar* pos, XalanDOMChar c)
__CPROVER_requires(INBUF(pos) && IDX(pos) <= g_len && g_len + 1 < CAP)
__CPROVER_requires(/* nothing but a space is inserted, and only right after a hyphen */ c == 0x20 && IDX(pos) > 0 && g_buf[IDX(pos) - 1] == 0x2D)
__CPROVER_assigns(g_len, __CPROVER_object_whole(g_buf))
__CPROVER_ensures(__CPROVER_pointer_in_range_dfcc(&g_buf[0], __CPROVER_return_value, &g_buf[CAP - 1]))
__CPROVER_ensures(__CPROVER_return_value == __CPROVER_old(pos) && g_len == __CPROVER_old(g_len) + 1)
__CPROVER_ensures(g_buf[IDX(__CPROVER_return_value)] == 0x20)
__CPROVER_ensures(g_buf[IDX(__CPROVER_return_value) - 1] == 0x2D)
__CPROVER_ensures(IDX(__CPROVER_return_value) >= 2 ==> g_buf[IDX(__CPROVER_return_value) - 2] == __CPROVER_old(g_buf[IDX(pos) >= 2 ? IDX(pos) - 2 : 0]))
__CPROVER_ensures(g_w < IDX(__CPROVER_return_value) ==> g_buf[g_w] == __CPROVER_old(g_buf[g_w < CAP ? g_w : 0]))
__CPROVER_ensures(g_w + 1 < IDX(__CPROVER_return_value) ==> g_buf[g_w + 1] == __CPROVER_old(g_buf[g_w + 1 < CAP ? g_w + 1 : 0]))
__CPROVER_ensures(g_buf[IDX(__CPROVER_return_value) + 1] == __CPROVER_old(g_buf[IDX(pos) < CAP ? IDX(pos) : 0])) ;
/* XML 2.5: Comment ::= '<!--' ((Char - '-') | ('-' (Char - '-')))* '-->' : what reaches the serializer has no "--" (at the arbitrary index g_w)
   and does not end in "-" */
void xv_comment(StylesheetExecutionContext* e, XStr* s)
__CPROVER_requires(/* comment content: no "--" reaches the serializer */ g_w + 1 < g_len ==> NO_DD_AT(g_w))
__CPROVER_requires(/* comment content: no trailing "-" reaches the serializer */ g_len > 0 ==> g_buf[g_len - 1] != 0x2D)
__CPROVER_requires(/* at most one space per original unit was added */ g_len <= 2 * g_n)
__CPROVER_assigns(g_commented) __CPROVER_ensures(g_commented == true) ;
@@FN endElement_wf@@
void h_comment_wf(void)
{
    size_t n, w; XalanDOMChar fill[CAP];
    __CPROVER_array_copy(g_buf, fill);
    g_n = n; g_len = n; g_w = w; g_commented = false;
    endElement_wf(0, 0);
}
#else
#define MAXN 7
typedef struct Self Self; typedef struct Ctx StylesheetExecutionContext;
typedef struct { XalanDOMChar buf[2 * MAXN + 2]; size_t len; } XStr;     /* a concrete string with room for one inserted space per unit */
typedef XalanDOMChar* XalanDOMString_iterator;
XStr g_str; XStr g_orig; bool g_commented;
static XalanDOMChar* xv_begin(XStr* s) { return &s->buf[0]; }
static XalanDOMChar* xv_end(XStr* s) { return &s->buf[s->len]; }
static XalanDOMChar* xv_insert(XStr* s, XalanDOMChar* pos, XalanDOMChar c)    /* XalanDOMString::insert(iterator, char): returns an iterator to the inserted unit */
{
    size_t p = (size_t)(pos - &s->buf[0]);
    __CPROVER_assert(p <= s->len && s->len < 2 * MAXN + 1, "insert position inside the string, room left");
    for (size_t i = s->len; i > p; --i) s->buf[i] = s->buf[i - 1];
    s->buf[p] = c; s->len++; s->buf[s->len] = 0;
    return &s->buf[p];
}
static void xv_comment(StylesheetExecutionContext* e, XStr* s)
{
    g_commented = true;
    /* XML 2.5: Comment ::= '<!--' ((Char - '-') | ('-' (Char - '-')))* '-->' */
    for (size_t i = 0; i < s->len; ++i)
        __CPROVER_assert(!(s->buf[i] == 0x2D && (i + 1 == s->len || s->buf[i + 1] == 0x2D)), "comment content: no \"--\" and no trailing \"-\" reaches the serializer");
    /* nothing but spaces was added: dropping the spaces that follow a '-' where the original had none gives the original back */
    size_t j = 0;
    for (size_t i = 0; i < s->len; ++i)
    {
        if (j < g_orig.len && s->buf[i] == g_orig.buf[j]) { ++j; }
        else { __CPROVER_assert(s->buf[i] == 0x20 && i > 0 && s->buf[i - 1] == 0x2D, "only single spaces after a hyphen are inserted; every original unit is kept, in order"); }
    }
    __CPROVER_assert(j == g_orig.len, "every original unit is kept");
}
@@FN endElement@@
void h_comment(void)
{
    size_t n; __CPROVER_assume(n <= MAXN);
    g_str.len = n;
    for (size_t i = 0; i < MAXN; ++i) { XalanDOMChar c; __CPROVER_assume(c == 0x2D || c == 0x78 || c == 0x20); g_str.buf[i] = c; }
    g_str.buf[n] = 0; g_orig = g_str; g_commented = false;
    endElement(0, 0);
    __CPROVER_assert(g_commented, "the comment is written");
    XV_REACH("h_comment");
}
#endif
'''
R = [(r'endChildrenToString\(executionContext\);', '', 1),
     (r'XalanDOMString&\s+theResult = executionContext\.getAndPopCachedString\(\);', 'XStr* const theResult_p = &g_str;', 1),
     (r'XalanDOMString::iterator', 'XalanDOMString_iterator', None),
     (r'theResult\.end\(\)', 'xv_end(theResult_p)', (1, 2)),
     (r'theResult\.begin\(\)', 'xv_begin(theResult_p)', 1),
     (r'theResult\.insert\(\s*theNext,\s*XalanUnicode::charSpace\)', 'xv_insert(theResult_p, theNext, XalanUnicode::charSpace)', 1),
     (r'executionContext\.comment\(theResult\.c_str\(\)\);', 'xv_comment(executionContext, theResult_p);', 1),
     (r'executionContext\.popCopyTextNodesOnly\(\);', '', 1),
     'SCOPE']
RP = [(r'XalanDOMString&\s+theResult = executionContext\.getAndPopCachedString\(\);', 'XStr* const theResult_p = g_str_p;', 1) if i == 1 else r for i, r in enumerate(R)]
INV = '''__CPROVER_assigns(theCurrent, theEnd, g_len, __CPROVER_object_whole(g_buf))
__CPROVER_loop_invariant(INBUF(theCurrent) && INBUF(theEnd) && IDX(theEnd) == g_len && IDX(theCurrent) <= g_len && g_len < CAP)
__CPROVER_loop_invariant(/* one space at most per unit already passed: room is left */ 2 * g_len <= 2 * g_n + IDX(theCurrent))
__CPROVER_loop_invariant(/* the part already passed has no "--" (at the arbitrary index g_w) */ g_w + 1 < IDX(theCurrent) ==> NO_DD_AT(g_w))
__CPROVER_loop_invariant(/* a hyphen just passed is followed by a unit that is not a hyphen */ (IDX(theCurrent) > 0 && g_buf[IDX(theCurrent) - 1] == 0x2D) ==> (IDX(theCurrent) < g_len && g_buf[IDX(theCurrent)] != 0x2D))
__CPROVER_decreases(g_len - IDX(theCurrent))'''
UNIT = Unit(
    name='c04_comment',
    props=['C04'],
    blocks=[UNICODE_BLOCK],
    functions=[Fn(EC, r'^ElemComment::endElement\(StylesheetExecutionContext&\s+executionContext\) const', 'endElement', 'void endElement(const Self* self, StylesheetExecutionContext* executionContext)',
                  rules=R, nloops=1, reach=False),
               Fn(EC, r'^ElemComment::endElement\(StylesheetExecutionContext&\s+executionContext\) const', 'endElement_wf', 'void endElement_wf(const Self* self, StylesheetExecutionContext* executionContext)',
                  rules=RP, nloops=1, reach=True, loops={0: INV},
                  contract='''__CPROVER_requires(g_n <= MAXN && g_len == g_n && g_commented == false && g_w < CAP - 1)
__CPROVER_assigns(g_len, g_commented, __CPROVER_object_whole(g_buf))
__CPROVER_ensures(g_commented == true)''')],
    template=TEMPLATE,
    jobs=[Job('comment_wf', 'h_comment_wf', enforce=['endElement_wf'], replace=['xv_insert', 'xv_comment'], loop_contracts=True, defines=['XV_PROOF'], reach='all', timeout=900, min_obligations=6),
          Job('comment', 'h_comment', dfcc=False, cls='B', unwind=17, reach=['h_comment'], timeout=900, min_obligations=3,
              bound_note='all strings of at most 7 units over { hyphen, x, space } (3280 strings); the repair loop, the insert shift loop and the checking loops are fully unwound')],
    mutants=[
        Mutant('trailing_hyphen_kept', EC, r'if \(theNext == theEnd \|\|\s*\*theNext == XalanUnicode::charHyphenMinus\)', 'if (theNext != theEnd &&\n                *theNext == XalanUnicode::charHyphenMinus)', expect='no trailing'),
        Mutant('end_not_refreshed', EC, r'\n                theEnd = theResult\.end\(\);\n', '\n', expect=None),
    ],
    mechanisms=['comment content repair (xsl:comment)', "comment '--' and PI '?>' repair before serialization"],
    assumptions=['bounded: strings of at most 7 units over a 3-unit alphabet (the loop distinguishes only hyphen / not hyphen)',
                 'XalanDOMString::insert(iterator, char) is modelled by a concrete shift; endChildrenToString / comment() of the execution context are not under contract'],
)
