"""C04: xsl:comment content repair (XSLT 1.0 7.4 / XML 2.5): the string handed to the serializer as comment content contains no "--" and
does not end in "-"; nothing but single spaces is inserted.  BOUNDED stand-in (class B): the real in-place repair loop of
ElemComment::endElement is run on every string of at most 7 units over the alphabet { '-', 'x', ' ' } against a concrete string model."""
from xvlib.unit import Fn, Job, Unit, Mutant
from xvlib.common import UNICODE_BLOCK

EC = 'src/xalanc/XSLT/ElemComment.cpp'
TEMPLATE = r'''
#include "xv_shim.h"
@@BLOCK XalanUnicode@@
#define MAXN 7
typedef struct Self Self; typedef struct Ctx StylesheetExecutionContext;
typedef struct { XalanDOMChar buf[2 * MAXN + 2]; size_t len; } XStr;     /* a concrete string with room for one inserted space per unit */
typedef XalanDOMChar* XalanDOMString_iterator;
XStr g_str; XStr g_orig; bool g_commented;
static XalanDOMChar* xv_begin(XStr* s) { return &s->buf[0]; }
static XalanDOMChar* xv_end(XStr* s) { return &s->buf[s->len]; }
static XalanDOMChar* xv_insert(XStr* s, XalanDOMChar* pos, XalanDOMChar c)    /* XalanDOMString::insert(iterator, char): returns an iterator to the inserted unit */
{
    size_t p = (size_t)(pos - &s->buf[0]);
    __CPROVER_assert(p <= s->len && s->len < 2 * MAXN + 1, "insert position inside the string, room left");
    for (size_t i = s->len; i > p; --i) s->buf[i] = s->buf[i - 1];
    s->buf[p] = c; s->len++; s->buf[s->len] = 0;
    return &s->buf[p];
}
static void xv_comment(StylesheetExecutionContext* e, XStr* s)
{
    g_commented = true;
    /* XML 2.5: Comment ::= '<!--' ((Char - '-') | ('-' (Char - '-')))* '-->' */
    for (size_t i = 0; i < s->len; ++i)
        __CPROVER_assert(!(s->buf[i] == 0x2D && (i + 1 == s->len || s->buf[i + 1] == 0x2D)), "comment content: no \"--\" and no trailing \"-\" reaches the serializer");
    /* nothing but spaces was added: dropping the spaces that follow a '-' where the original had none gives the original back */
    size_t j = 0;
    for (size_t i = 0; i < s->len; ++i)
    {
        if (j < g_orig.len && s->buf[i] == g_orig.buf[j]) { ++j; }
        else { __CPROVER_assert(s->buf[i] == 0x20 && i > 0 && s->buf[i - 1] == 0x2D, "only single spaces after a hyphen are inserted; every original unit is kept, in order"); }
    }
    __CPROVER_assert(j == g_orig.len, "every original unit is kept");
}
@@FN endElement@@
void h_comment(void)
{
    size_t n; __CPROVER_assume(n <= MAXN);
    g_str.len = n;
    for (size_t i = 0; i < MAXN; ++i) { XalanDOMChar c; __CPROVER_assume(c == 0x2D || c == 0x78 || c == 0x20); g_str.buf[i] = c; }
    g_str.buf[n] = 0; g_orig = g_str; g_commented = false;
    endElement(0, 0);
    __CPROVER_assert(g_commented, "the comment is written");
    XV_REACH("h_comment");
}
'''
R = [(r'endChildrenToString\(executionContext\);', '', 1),
     (r'XalanDOMString&\s+theResult = executionContext\.getAndPopCachedString\(\);', 'XStr* const theResult_p = &g_str;', 1),
     (r'XalanDOMString::iterator', 'XalanDOMString_iterator', None),
     (r'theResult\.end\(\)', 'xv_end(theResult_p)', (1, 2)),
     (r'theResult\.begin\(\)', 'xv_begin(theResult_p)', 1),
     (r'theResult\.insert\(\s*theNext,\s*XalanUnicode::charSpace\)', 'xv_insert(theResult_p, theNext, XalanUnicode::charSpace)', 1),
     (r'executionContext\.comment\(theResult\.c_str\(\)\);', 'xv_comment(executionContext, theResult_p);', 1),
     (r'executionContext\.popCopyTextNodesOnly\(\);', '', 1),
     'SCOPE']
UNIT = Unit(
    name='c04_comment',
    props=['C04'],
    blocks=[UNICODE_BLOCK],
    functions=[Fn(EC, r'^ElemComment::endElement\(StylesheetExecutionContext&\s+executionContext\) const', 'endElement', 'void endElement(const Self* self, StylesheetExecutionContext* executionContext)',
                  rules=R, nloops=1, reach=False)],
    template=TEMPLATE,
    jobs=[Job('comment', 'h_comment', dfcc=False, cls='B', unwind=17, reach=['h_comment'], timeout=900, min_obligations=3,
              bound_note='all strings of at most 7 units over { hyphen, x, space } (3280 strings); the repair loop, the insert shift loop and the checking loops are fully unwound')],
    mutants=[
        Mutant('trailing_hyphen_kept', EC, r'if \(theNext == theEnd \|\|\s*\*theNext == XalanUnicode::charHyphenMinus\)', 'if (theNext != theEnd &&\n                *theNext == XalanUnicode::charHyphenMinus)', expect='no trailing'),
        Mutant('end_not_refreshed', EC, r'\n                theEnd = theResult\.end\(\);\n', '\n', expect=None),
    ],
    mechanisms=['comment content repair (xsl:comment)'],
    assumptions=['bounded: strings of at most 7 units over a 3-unit alphabet (the loop distinguishes only hyphen / not hyphen)',
                 'XalanDOMString::insert(iterator, char) is modelled by a concrete shift; endChildrenToString / comment() of the execution context are not under contract'],
)
