from xvlib.unit import Fn, Job, Unit, Mutant

NS = 'src/xalanc/XSLT/NodeSorter.cpp'

TEMPLATE = r'''
#include "xv_shim.h"
typedef struct Self Self;
#define XV_K 4          /* bound on the number of sort keys for the recursion (class W) */
#define XV_E 3          /* entries a, b, c */
/* ghost: the key matrix.  For key k and entry e: its numeric value, or the collation rank of its string value */
size_t g_nkeys; bool g_numeric[XV_K], g_desc[XV_K]; double g_num[XV_K][XV_E]; int g_rank[XV_K][XV_E];
/* DoubleSupport::lessThan/greaterThan: contracts proved in c02_dsarith */
static bool DoubleSupport_lessThan(double a, double b) { return a < b; }
static bool DoubleSupport_greaterThan(double a, double b) { return a > b; }
static double xv_numkey(size_t k, int e) { return g_num[k][e]; }
static int xv_strkey(size_t k, int e) { return g_rank[k][e]; }
/* collation: any total preorder on strings (assumed of ICU / the default collator): here the order of the ranks */
static int xv_collate(int l, int r) { return l < r ? -1 : l > r ? 1 : 0; }

@@FN compare@@

/* oracle, XSLT 1.0 section 10: keys in order, the first on which the entries differ decides, negated for descending;
   data-type number compares numerically with NaN before every number */
static int spec_key(size_t k, int a, int b)
{
    if (!g_numeric[k]) return g_rank[k][a] < g_rank[k][b] ? -1 : g_rank[k][a] > g_rank[k][b] ? 1 : 0;
    double x = g_num[k][a], y = g_num[k][b];
    if (XV_ISNAN(x)) return XV_ISNAN(y) ? 0 : -1;
    if (XV_ISNAN(y)) return 1;
    return x < y ? -1 : x > y ? 1 : 0;
}
static int spec_cmp(int a, int b)
{
    for (size_t k = 0; k < g_nkeys; ++k) { int c = spec_key(k, a, b); if (c != 0) return g_desc[k] ? -c : c; }
    return 0;
}
static void xv_havoc(void)
{
    size_t n; g_nkeys = n; __CPROVER_assume(n >= 1 && n <= XV_K);
    for (int k = 0; k < XV_K; ++k) { bool a, b; g_numeric[k] = XV_BOOL(a); g_desc[k] = XV_BOOL(b);
        for (int e = 0; e < XV_E; ++e) { double d; int r; g_num[k][e] = d; g_rank[k][e] = r; } }
}
void h_compare(void)
{
    xv_havoc();
    Self* s; int a, b, c; __CPROVER_assume(a >= 0 && a < XV_E && b >= 0 && b < XV_E && c >= 0 && c < XV_E);
    int ab = compare(s, a, b, 0), ba = compare(s, b, a, 0), bc = compare(s, b, c, 0), ac = compare(s, a, c, 0);
    __CPROVER_assert(ab == spec_cmp(a, b), "sort comparator: sign of the first key (in order) on which the entries differ, negated iff that key is descending; numeric keys by IEEE < with NaN before every number; 0 iff all keys tie");
    __CPROVER_assert(ab == -ba, "sort comparator is antisymmetric (strict weak order for std::stable_sort)");
    __CPROVER_assert(!(ab < 0 && bc < 0) || ac < 0, "sort comparator is transitive");
    __CPROVER_assert(!(ab == 0 && bc == 0) || ac == 0, "sort comparator: equivalence (ties) is transitive, so ties keep input order under a stable sort");
    __CPROVER_assert(compare(s, a, a, 0) == 0, "sort comparator is irreflexive");
    XV_REACH("h_compare");
}
'''

UNIT = Unit(
    name='c16_compare',
    props=['C16'],
    functions=[
        Fn(NS, r'^NodeSorter::NodeSortKeyCompare::compare\(', 'compare', 'int compare(const Self* self, int theLHS, int theRHS, size_t theKeyIndex)',
           head_expect=r'^int NodeSorter::NodeSortKeyCompare::compare\( const NodeVectorType::value_type& theLHS, const NodeVectorType::value_type& theRHS, XalanSize_t theKeyIndex\) const$',
           rules=['SCOPE',
                  (r'assert\(theLHS\.m_node != 0 && theRHS\.m_node != 0\);', '', 1),
                  (r'm_nodeSortKeys\.size\(\)', 'g_nkeys', None),
                  (r'const NodeSortKey&\s+theKey = m_nodeSortKeys\[theKeyIndex\];', 'const size_t theKey = theKeyIndex;', 1),
                  (r'theKey\.getTreatAsNumbers\(\)', 'g_numeric[theKey]', 1),
                  (r'theKey\.getDescending\(\)', 'g_desc[theKey]', 1),
                  (r'const XalanDOMString&\s+(\w+) =\s*getStringResult\(theKey, theKeyIndex, (\w+)\);', r'const int \1 = xv_strkey(theKeyIndex, \2);', 2),
                  (r'doCollationCompare\(\s*m_executionContext,\s*theLHSString,\s*theRHSString,\s*theKey\.getLanguageString\(\),\s*theKey\.getCaseOrder\(\)\)', 'xv_collate(theLHSString, theRHSString)', 1),
                  (r'getNumberResult\(theKey, theKeyIndex, (\w+)\)', r'xv_numkey(theKeyIndex, \1)', 2),
                  (r'(?<![\w.])compare\(theLHS, theRHS, theKeyIndex \+ 1\)', 'compare(self, theLHS, theRHS, theKeyIndex + 1)', 1)],
           nloops=0, reach=False),
    ],
    template=TEMPLATE,
    jobs=[Job('compare', 'h_compare', dfcc=False, cls='W', unwind=6, reach=['h_compare'], timeout=600, min_obligations=5,
              bound_note='recursion over the key list: at most 4 sort keys; entries and key values fully symbolic')],
    mutants=[
        Mutant('nan_nan_less', NS, r'if \(DoubleSupport::isNaN\(n2Num\) == false\)\s*\{\s*theResult = -1;\s*\}', 'theResult = -1;', expect='sort comparator'),
        Mutant('descending_ignored_on_tie_key', NS, r'(if \(theResult != 0\)\s*\{\s*)if \(theKey\.getDescending\(\) == true\)', r'\1if (theKey.getDescending() == true && theKeyIndex == 0)', expect='sort comparator'),
        Mutant('last_key_ignored', NS, r'else if\(theKeyIndex \+ 1 < m_nodeSortKeys\.size\(\)\)', 'else if(theKeyIndex + 2 < m_nodeSortKeys.size())', expect='sort comparator'),
    ],
    mechanisms=['stable_sort over (node, original position) with recursive multi-key comparator'],
    assumptions=['std::stable_sort is the C++ standard stable sort (assumed); what is proved is that the comparator handed to it is the XSLT key order and a strict weak order',
                 'collationCompare (ICU) is a total preorder on strings, consistent between calls (ranks)',
                 'getNumberResult/getStringResult return the key value of (key index, entry) (ghost matrix); cache logic not covered by this job'],
)
