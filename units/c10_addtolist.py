from xvlib.unit import Fn, Job, Unit, Mutant

ST = 'src/xalanc/XSLT/Stylesheet.cpp'

TEMPLATE = r'''
#include "xv_shim.h"
typedef struct XalanMatchPatternData XalanMatchPatternData;    /* opaque */
typedef const XalanMatchPatternData** iterator;
typedef struct PatternTableVectorType PatternTableVectorType;  /* opaque vector: begin/end/insert by stub */
typedef PatternTableVectorType Stylesheet_PatternTableVectorType;
#define MAXN 100000000

/* ghost: the list as arrays of (priority, position) keys; the new pattern's key; a witness position; where insert happened */
double* g_prio; size_t* g_posn; iterator g_base; size_t g_n; double g_np; size_t g_npos; size_t g_w; size_t g_ip; bool g_inserted;
#define OFF(p) ((size_t)__CPROVER_POINTER_OFFSET(p) / sizeof(void*))
#define ALIGNED(p) (__CPROVER_POINTER_OFFSET(p) % sizeof(void*) == 0)
#define IN_LIST(p) (__CPROVER_same_object((p), g_base) && ALIGNED(p) && OFF(p) <= g_n)
/* XSLT 5.5 order of a rule list: higher priority first; among equal priorities the rule occurring later first */
#define BEFORE(p1, o1, p2, o2) ((p1) > (p2) || ((p1) == (p2) && (o1) > (o2)))

iterator xv_list_begin(PatternTableVectorType* l) __CPROVER_requires(1) __CPROVER_assigns() __CPROVER_ensures(__CPROVER_return_value == g_base) ;
iterator xv_list_end(PatternTableVectorType* l) __CPROVER_requires(1) __CPROVER_assigns() __CPROVER_ensures(__CPROVER_return_value == g_base + g_n) ;
/* (*it)->getPriorityOrDefault() / getPosition(): positional reads that also deliver the representation invariant
   "the list is in BEFORE order" instantiated at the ghost witness */
double xv_prio_at(iterator it)
__CPROVER_requires(__CPROVER_same_object(it, g_base) && ALIGNED(it) && OFF(it) < g_n) __CPROVER_assigns()
__CPROVER_ensures(__CPROVER_return_value == g_prio[OFF(it)])
__CPROVER_ensures(OFF(it) < g_w ==> BEFORE(g_prio[OFF(it)], g_posn[OFF(it)], g_prio[g_w], g_posn[g_w]))
__CPROVER_ensures(OFF(it) > g_w ==> BEFORE(g_prio[g_w], g_posn[g_w], g_prio[OFF(it)], g_posn[OFF(it)])) ;
size_t xv_posn_at(iterator it)
__CPROVER_requires(__CPROVER_same_object(it, g_base) && ALIGNED(it) && OFF(it) < g_n) __CPROVER_assigns()
__CPROVER_ensures(__CPROVER_return_value == g_posn[OFF(it)]) ;
double xv_new_prio(const XalanMatchPatternData* p) __CPROVER_requires(1) __CPROVER_assigns() __CPROVER_ensures(__CPROVER_return_value == g_np) ;
size_t xv_new_posn(const XalanMatchPatternData* p) __CPROVER_requires(1) __CPROVER_assigns() __CPROVER_ensures(__CPROVER_return_value == g_npos) ;
void xv_list_insert(PatternTableVectorType* l, iterator at, const XalanMatchPatternData* p)
__CPROVER_requires(IN_LIST(at) && !g_inserted) __CPROVER_assigns(g_ip, g_inserted) __CPROVER_ensures(g_inserted == true && g_ip == OFF(at)) ;

@@FN addToList@@

void h_addToList(void)
{
    double* a; size_t* b; iterator c; size_t n, w, o, i; double p;
    g_prio = a; g_posn = b; g_base = c; g_n = n; g_w = w; g_np = p; g_npos = o; g_ip = i; g_inserted = false;
    PatternTableVectorType* l; const XalanMatchPatternData* pat;
    addToList(l, pat);
}
'''

CONTRACT = r'''
__CPROVER_requires(g_n <= MAXN && g_w < g_n + 1 && !g_inserted && thePattern != 0)
__CPROVER_requires(__CPROVER_is_fresh(g_base, (g_n + 1) * sizeof(void*)))
__CPROVER_requires(__CPROVER_is_fresh(g_prio, (g_n + 1) * sizeof(double)) && __CPROVER_is_fresh(g_posn, (g_n + 1) * sizeof(size_t)))
__CPROVER_requires(/* priorities are numbers; positions identify rules, the new rule is not in the list */ !XV_ISNAN(g_np) && (g_w < g_n ==> (!XV_ISNAN(g_prio[g_w]) && g_posn[g_w] != g_npos)))
__CPROVER_assigns(g_ip, g_inserted)
__CPROVER_ensures(/* the rule is inserted exactly once, inside the list */ g_inserted && g_ip <= g_n)
__CPROVER_ensures(/* template rule order (XSLT 5.5): every rule in front of the insertion point has higher priority, or equal priority and occurs later -- for every position (ghost witness) */
    (g_w < g_ip) ==> BEFORE(g_prio[g_w], g_posn[g_w], g_np, g_npos))
__CPROVER_ensures(/* template rule order (XSLT 5.5): the new rule has higher priority than, or equal priority and occurs later than, every rule from the insertion point on -- so "first match in the list" is the rule the Recommendation prescribes */
    (g_w >= g_ip && g_w < g_n) ==> BEFORE(g_np, g_npos, g_prio[g_w], g_posn[g_w]))
'''
LOOP = r'''
__CPROVER_assigns(theCurrent)
__CPROVER_loop_invariant(IN_LIST(theCurrent))
__CPROVER_loop_invariant((g_w < OFF(theCurrent)) ==> BEFORE(g_prio[g_w], g_posn[g_w], g_np, g_npos))
__CPROVER_decreases(g_n - OFF(theCurrent))
'''

UNIT = Unit(
    name='c10_addtolist',
    props=['C10'],
    functions=[
        Fn(ST, r'^addToList\(', 'addToList', 'void addToList(PatternTableVectorType* theList, const XalanMatchPatternData* thePattern)',
           head_expect=r'^static void addToList\( Stylesheet::PatternTableVectorType& theList, const XalanMatchPatternData\* thePattern\)$',
           rules=['SCOPE',
                  (r'typedef Stylesheet_PatternTableVectorType\s+PatternTableListType;', '', 1),
                  (r'typedef PatternTableListType_iterator\s+iterator;', '', 1),
                  (r'thePattern->getPriorityOrDefault\(\)', 'xv_new_prio(thePattern)', (1, 3)),
                  (r'thePattern->getPosition\(\)', 'xv_new_posn(thePattern)', (0, 3)),
                  (r'\(\*theCurrent\)->getPriorityOrDefault\(\)', 'xv_prio_at(theCurrent)', (1, 3)),
                  (r'\(\*theCurrent\)->getPosition\(\)', 'xv_posn_at(theCurrent)', (0, 3)),
                  (r'theList\.begin\(\)', 'xv_list_begin(theList)', 1), (r'theList\.end\(\)', 'xv_list_end(theList)', 1),
                  (r'theList\.insert\(theCurrent, thePattern\)', 'xv_list_insert(theList, theCurrent, thePattern)', 1)],
           contract=CONTRACT, loops={0: LOOP}, nloops=1),
    ],
    template=TEMPLATE,
    jobs=[Job('addToList', 'h_addToList', enforce=['addToList'],
              replace=['xv_list_begin', 'xv_list_end', 'xv_prio_at', 'xv_posn_at', 'xv_new_prio', 'xv_new_posn', 'xv_list_insert'],
              loop_contracts=True, reach=['entry:addToList', 'after_loop0:addToList'], timeout=600)],
    mutants=[
        Mutant('ge_priority', ST, r'if \(thePatternPriority > theCurrentPriority\)\s*\{\s*break;\s*\}\s*else if \(thePatternPriority == theCurrentPriority &&\s*thePatternPosition > \(\*theCurrent\)->getPosition\(\)\)', 'if (thePatternPriority >= theCurrentPriority)', expect='template rule order'),
        Mutant('position_lt', ST, r'thePatternPosition > \(\*theCurrent\)->getPosition\(\)', 'thePatternPosition < (*theCurrent)->getPosition()', expect='template rule order'),
    ],
    mechanisms=["table construction, 'later first' insertion, wildcard merge"],
    assumptions=['PatternTableVectorType (XalanVector) begin/end/insert are assumed stubs; getPriorityOrDefault/getPosition are pure accessors',
                 'the list is in (priority desc, position desc) order on entry (representation invariant, consumed at the ghost witness)'],
)
