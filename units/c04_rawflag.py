"""C04: the "next text is raw" flag of the XML serializer (XalanXMLSerializerBase).  The internal marker processing instruction that a
result-tree fragment carries for disable-output-escaping text arms the flag; the text event that follows - whether it arrives through
characters() or through cdata() - is written unescaped AND disarms the flag, so no later text goes out unescaped.  Every other text
goes through the escaping writers, every other processing instruction is written."""
from xvlib.unit import Fn, Job, Unit, Mutant

SB = 'src/xalanc/XMLSupport/XalanXMLSerializerBase.cpp'
TEMPLATE = r'''
#include "xv_shim.h"
typedef XalanDOMChar XMLCh;
typedef struct Self { bool m_nextIsRaw; } Self;
enum { W_NONE = 0, W_RAW = 1, W_ESCAPED = 2, W_CDATA = 3, W_PI = 4 };
int g_wrote; int g_calls; const XMLCh* g_arg; size_t g_arglen; bool g_is_target, g_is_data;
#define WRITER(name, code) void name(Self* s, const XMLCh* p, size_t n) __CPROVER_requires(1) __CPROVER_assigns(g_wrote, g_calls, g_arg, g_arglen) \
    __CPROVER_ensures(g_wrote == code && g_calls == __CPROVER_old(g_calls) + 1 && g_arg == p && g_arglen == n) ;
WRITER(xv_charactersRaw, W_RAW) WRITER(xv_writeCharacters, W_ESCAPED) WRITER(xv_writeCDATA, W_CDATA)
void xv_writePI(Self* s, const XMLCh* t, const XMLCh* d) __CPROVER_requires(1) __CPROVER_assigns(g_wrote, g_calls) __CPROVER_ensures(g_wrote == W_PI && g_calls == __CPROVER_old(g_calls) + 1) ;
bool xv_is_marker_target(const XMLCh* t) __CPROVER_requires(1) __CPROVER_assigns() __CPROVER_ensures(__CPROVER_return_value == g_is_target) ;
bool xv_is_marker_data(const XMLCh* d) __CPROVER_requires(1) __CPROVER_assigns() __CPROVER_ensures(__CPROVER_return_value == g_is_data) ;
Self g_self;
@@FN characters@@
@@FN cdata@@
@@FN processingInstruction@@
static void xv_havoc(void) { bool a, b, c; g_self.m_nextIsRaw = XV_BOOL(a); g_is_target = XV_BOOL(b); g_is_data = XV_BOOL(c); g_wrote = W_NONE; g_calls = 0; }
void h_characters(void) { xv_havoc(); const XMLCh* p; size_t n; characters(&g_self, p, n); }
void h_cdata(void) { xv_havoc(); const XMLCh* p; size_t n; cdata(&g_self, p, n); }
void h_pi(void) { xv_havoc(); const XMLCh *t, *d; processingInstruction(&g_self, t, d); }
'''
R = [(r'\bm_nextIsRaw\b', 'self->m_nextIsRaw', None),
     (r'(?<![\w.>])charactersRaw\(', 'xv_charactersRaw(self, ', (0, 1)),
     (r'(?<![\w.>])writeCharacters\(', 'xv_writeCharacters(self, ', (0, 1)),
     (r'(?<![\w.>])writeCDATA\(', 'xv_writeCDATA(self, ', (0, 1)),
     (r'(?<![\w.>])writeProcessingInstruction\(', 'xv_writePI(self, ', (0, 1)),
     (r'equals\(target, length\(target\), s_piTarget, s_piTargetLength\)', 'xv_is_marker_target(target)', (0, 1)),
     (r'equals\(data, length\(data\), s_piData, s_piDataLength\)', 'xv_is_marker_data(data)', (0, 1))]
PRE = '__CPROVER_requires(self == &g_self && XV_ISB(self->m_nextIsRaw) && g_wrote == W_NONE && g_calls == 0)\n__CPROVER_assigns(g_self.m_nextIsRaw, g_wrote, g_calls, g_arg, g_arglen)\n'
TEXT = PRE + '''__CPROVER_ensures(/* the text that follows the raw marker is written unescaped, every other text through the %(what)s writer, once, whole */
    length != 0 ? (g_calls == 1 && g_arg == %(p)s && g_arglen == length && g_wrote == (__CPROVER_old(g_self.m_nextIsRaw) == true ? W_RAW : %(code)s)) : g_calls == 0)
__CPROVER_ensures(/* the raw flag is used up by the text it was armed for: no later text goes out unescaped */ length != 0 ==> g_self.m_nextIsRaw == false)
__CPROVER_ensures(length == 0 ==> g_self.m_nextIsRaw == __CPROVER_old(g_self.m_nextIsRaw))'''
UNIT = Unit(
    name='c04_rawflag',
    props=['C04', 'C08'],
    functions=[
        Fn(SB, r'^XalanXMLSerializerBase::characters\(\s*const XMLCh\* const\s+chars,\s*const size_type\s+length\)', 'characters', 'void characters(Self* self, const XMLCh* const chars, const size_t length)',
           rules=R, nloops=0, contract=TEXT % {'what': 'escaping', 'p': 'chars', 'code': 'W_ESCAPED'}),
        Fn(SB, r'^XalanXMLSerializerBase::cdata\(\s*const XMLCh\* const\s+ch,\s*const size_type\s+length\)', 'cdata', 'void cdata(Self* self, const XMLCh* const ch, const size_t length)',
           rules=R, nloops=0, contract=TEXT % {'what': 'CDATA', 'p': 'ch', 'code': 'W_CDATA'}),
        Fn(SB, r'^XalanXMLSerializerBase::processingInstruction\(\s*const XMLCh\* const\s+target,\s*const XMLCh\* const\s+data\)', 'processingInstruction',
           'void processingInstruction(Self* self, const XMLCh* const target, const XMLCh* const data)', rules=R, nloops=0,
           contract=PRE + '''__CPROVER_ensures(/* only the marker (target AND data) arms the flag and is swallowed; every other processing instruction is written and leaves the flag alone */
    (g_is_target == true && g_is_data == true) ? (g_self.m_nextIsRaw == true && g_calls == 0)
                                               : (g_self.m_nextIsRaw == __CPROVER_old(g_self.m_nextIsRaw) && g_calls == 1 && g_wrote == W_PI))'''),
    ],
    template=TEMPLATE.replace('@@FN characters@@', '#define XV_ISB(b) ((b) == true || (b) == false)\n@@FN characters@@'),
    jobs=[Job('characters', 'h_characters', enforce=['characters'], replace=['xv_charactersRaw', 'xv_writeCharacters'], reach='all', timeout=120, min_obligations=3),
          Job('cdata', 'h_cdata', enforce=['cdata'], replace=['xv_charactersRaw', 'xv_writeCDATA'], reach='all', timeout=120, min_obligations=3),
          Job('pi', 'h_pi', enforce=['processingInstruction'], replace=['xv_writePI', 'xv_is_marker_target', 'xv_is_marker_data'], reach='all', timeout=120, min_obligations=2)],
    mutants=[
        Mutant('cdata_keeps_flag', SB, r'(XalanXMLSerializerBase::cdata\(.*?)m_nextIsRaw = false;\s*', r'\1', expect='used up'),
        Mutant('marker_by_target_only', SB, r'equals\(target, length\(target\), s_piTarget, s_piTargetLength\) == true &&\s*equals\(data, length\(data\), s_piData, s_piDataLength\) == true',
               'equals(target, length(target), s_piTarget, s_piTargetLength) == true', expect='only the marker'),
        Mutant('raw_branch_inverted', SB, r'(XalanXMLSerializerBase::characters\(.*?)if\(m_nextIsRaw\)', r'\1if(!m_nextIsRaw)', expect=None),
    ],
    mechanisms=['disable-output-escaping marker handling in the serializer (raw flag)'],
    assumptions=['charactersRaw / writeCharacters / writeCDATA / writeProcessingInstruction are the virtual writers of the concrete serializer (writeCharacters and writeCDATA under contract in c04_escape / c04_cdata)',
                 'equals(target, ...) / equals(data, ...) against the marker constants are uninterpreted'],
)
