"""C16 / C03 (ICU build): createCollator(locale, status) - the collator for an xsl:sort lang value.  Every language tag ICU itself can take
(fewer than ULOC_FULLNAME_CAPACITY = 157 units, e.g. de-DE-u-co-phonebk) is copied unit by unit, terminator included, into the stack
buffer - never past it - and handed to ICU; only longer tags are refused (the callers then fall back to code-point order, silently)."""
from xvlib.unit import Fn, Job, Unit, Mutant

IC = 'src/xalanc/ICUBridge/ICUBridgeCollationCompareFunctorImpl.cpp'
TEMPLATE = r'''
#include "xv_shim.h"
typedef struct Collator CollatorType; typedef int UErrorCode; typedef size_t XalanDOMString_size_type;
enum { U_ZERO_ERROR = 0, U_ILLEGAL_ARGUMENT_ERROR = 1 };
#define ULOC_FULLNAME_CAPACITY 157      /* unicode/uloc.h */
#define ULOC_LANG_CAPACITY 12
#define ICU_FULLNAME_CAPACITY 157       /* the limit the contract speaks about: what ICU accepts */
size_t g_len; size_t g_w; bool g_created; CollatorType* g_new;
size_t xv_length(const XalanDOMChar* s) __CPROVER_requires(1) __CPROVER_assigns() __CPROVER_ensures(__CPROVER_return_value == g_len) ;
XalanDOMChar g_unit_w;   /* the unit of the tag at the witness position g_w */
/* CollatorType::createInstance(icu::Locale::createFromName(buffer), status) */
CollatorType* xv_create_from_name(const char* name, UErrorCode* st)
__CPROVER_requires(/* the name handed to ICU is the language tag: terminated where the tag ends, each unit as it was (ghost witness) */ name[g_len] == 0 && (g_w < g_len ==> name[g_w] == (char)g_unit_w) && g_created == false)
__CPROVER_assigns(g_created) __CPROVER_ensures(g_created == true && __CPROVER_return_value == g_new) ;
@@FN createCollator@@
void h_createCollator(void) { size_t n, w; CollatorType* c; g_len = n; g_w = w; g_created = false; g_new = c; UErrorCode st = U_ZERO_ERROR; const XalanDOMChar* l; XalanDOMChar u; g_unit_w = u; createCollator(l, &st); }
'''
R = ['SCOPE',
     (r'(?<![\w.>])length\(theLocale\)', 'xv_length(theLocale)', 1),
     (r'theStatus = U_ILLEGAL_ARGUMENT_ERROR;', '*theStatus = U_ILLEGAL_ARGUMENT_ERROR;', 1),
     (r'char\(theLocale\[i\]\)', '(char)(theLocale[i])', 1),
     (r'CollatorType_createInstance\(\s*icu_Locale_createFromName\(theBuffer\),\s*theStatus\)', 'xv_create_from_name(theBuffer, theStatus)', (0, 1)),
     (r'CollatorType::createInstance\(\s*icu::Locale::createFromName\(theBuffer\),\s*theStatus\)', 'xv_create_from_name(theBuffer, theStatus)', (0, 1))]
UNIT = Unit(
    name='c16_createcollator',
    props=['C16', 'C03'],
    functions=[
        Fn(IC, r'^createCollator\(\s*const XalanDOMChar\*\s+theLocale,\s*UErrorCode&\s+theStatus\)', 'createCollator', 'CollatorType* createCollator(const XalanDOMChar* theLocale, UErrorCode* theStatus)', rules=R, nloops=1,
           loops={0: '''__CPROVER_assigns(i, __CPROVER_object_whole(theBuffer))
__CPROVER_loop_invariant(i <= theLength + 1 && theLength < sizeof(theBuffer))
__CPROVER_loop_invariant(/* copied so far */ (g_w < i && g_w <= theLength) ==> theBuffer[g_w] == (char)theLocale[g_w])
__CPROVER_loop_invariant(/* the terminator is copied last */ i > theLength ==> theBuffer[theLength] == 0)
__CPROVER_decreases(theLength + 1 - i)'''},
           contract='''__CPROVER_requires(g_len < ((size_t)1 << 20) && __CPROVER_is_fresh(theLocale, (g_len + 1) * sizeof(XalanDOMChar)) && theLocale[g_len] == 0 && (g_w < g_len ==> theLocale[g_w] == g_unit_w) && __CPROVER_is_fresh(theStatus, sizeof(*theStatus)) && g_created == false)
__CPROVER_assigns(*theStatus, g_created)
__CPROVER_ensures(/* every tag ICU can take (shorter than its full-name capacity) reaches ICU; only longer ones are refused */
    g_len < ICU_FULLNAME_CAPACITY ? (g_created == true && __CPROVER_return_value == g_new) : (g_created == false && __CPROVER_return_value == 0 && *theStatus == U_ILLEGAL_ARGUMENT_ERROR))'''),
    ],
    template=TEMPLATE,
    jobs=[Job('createCollator', 'h_createCollator', enforce=['createCollator'], replace=['xv_length', 'xv_create_from_name'], loop_contracts=True, reach='all', timeout=300, min_obligations=6)],
    mutants=[
        Mutant('language_capacity_instead_of_full_name', IC, r'if \(theLength >= ULOC_FULLNAME_CAPACITY\)(.*?)char    theBuffer\[ULOC_FULLNAME_CAPACITY\];', r'if (theLength >= ULOC_LANG_CAPACITY)\1char    theBuffer[ULOC_LANG_CAPACITY];', expect='every tag ICU can take'),
        Mutant('guard_off_by_one_overruns_buffer', IC, r'if \(theLength >= ULOC_FULLNAME_CAPACITY\)', 'if (theLength > ULOC_FULLNAME_CAPACITY)', expect=None),
        Mutant('terminator_not_copied', IC, r'for \(XalanDOMString::size_type i = 0; i <= theLength; \+\+i\)(\s*\{\s*theBuffer\[i\] = char\(theLocale\[i\]\);)', r'for (XalanDOMString::size_type i = 0; i < theLength; ++i)\1', expect=None),
    ],
    mechanisms=['collation (ICU in this build)'],
    assumptions=['ULOC_FULLNAME_CAPACITY = 157 and ULOC_LANG_CAPACITY = 12 (unicode/uloc.h of the installed ICU, repeated in the template); icu::Locale::createFromName + Collator::createInstance are one stub',
                 'language tags are ASCII (the unit-to-char conversion truncates otherwise); tags shorter than 2^20 units'],
)
