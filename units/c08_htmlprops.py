"""C08 (method="html"): the HTML element property table (XalanHTMLElementsProperties) that decides how FormatterToHTML treats each element.
Facts proved over the REAL table initialiser (extracted verbatim on every run), for every entry:
 * names are upper-case ASCII and the entries are in the order the lookup relies on (by length, then by units: compareIgnoreCaseASCII);
 * the elements whose content is written RAW (never escaped: an HTML parser reads it as CDATA) are exactly SCRIPT and STYLE (HTML 4.01 6.2);
 * the EMPTY elements (no end tag) are exactly the thirteen of HTML 4.01 (AREA BASE BASEFONT BR COL FRAME HR IMG INPUT ISINDEX LINK META PARAM);
 * attribute sub-tables are terminated, and only known flags are used."""
from xvlib.unit import Fn, Job, Unit, Mutant, Block
from xvlib.common import UNICODE_BLOCK

HC = 'src/xalanc/XMLSupport/XalanHTMLElementsProperties.cpp'
HH = 'src/xalanc/XMLSupport/XalanHTMLElementsProperties.hpp'
SIZES = Block(HH, r'^\s*enum \{ eMaxAttributes', 'sizes', end=r'\};')
FLAGS = Block(HH, r'^\s*enum eFlags\s*\{', 'eFlags', rules=[(r'enum eFlags', 'enum', 1), (r'\b([A-Z]+) = \(1 << (\d+)\)', r'ElemDesc_\1 = (1 << \2)', None)])
TABLE = Block(HC, r'^const XalanHTMLElementsProperties::InternalElementProperties\s+XalanHTMLElementsProperties::s_elementProperties\[\]', 's_elementProperties',
              rules=[(r'const XalanHTMLElementsProperties::InternalElementProperties\s+XalanHTMLElementsProperties::s_elementProperties\[\]', 'static const InternalElementProperties s_elementProperties[]', 1),
                     (r'XalanUnicode::', 'XalanUnicode_', None), (r'ElemDesc::', 'ElemDesc_', None)])
TEMPLATE = r'''
#include "xv_shim.h"
@@BLOCK XalanUnicode@@
@@BLOCK sizes@@
@@BLOCK eFlags@@
typedef struct InternalAttributeProperties { XalanDOMChar m_name[eMaxAttributeName + 1]; unsigned char m_flags; } InternalAttributeProperties;
typedef struct InternalElementProperties { XalanDOMChar m_name[eMaxElementName + 1]; unsigned int m_flags; InternalAttributeProperties m_attributes[eMaxAttributes + 1]; } InternalElementProperties;
@@BLOCK s_elementProperties@@
#define NENTRIES ((int)(sizeof(s_elementProperties) / sizeof(s_elementProperties[0])))
static int xv_len(const XalanDOMChar* s, int max) { int n = 0; while (n <= max && s[n] != 0) ++n; return n; }
static bool xv_is(const XalanDOMChar* s, const char* lit) { int i = 0; while (lit[i] != 0 && s[i] == (XalanDOMChar)lit[i]) ++i; return lit[i] == 0 && s[i] == 0; }
void h_table(void)
{
    int k; __CPROVER_assume(k >= 0 && k < NENTRIES - 1);          /* every real entry; the last one is the dummy */
    const InternalElementProperties* const e = &s_elementProperties[k];
    XV_REACH("h_table");
#if XV_PART == 2
    const int len = xv_len(e->m_name, eMaxElementName);
    __CPROVER_assert(len >= 1 && len <= eMaxElementName, "element name: 1..eMaxElementName units, NUL-terminated inside its array");
    for (int i = 0; i < len; ++i) __CPROVER_assert((e->m_name[i] >= 'A' && e->m_name[i] <= 'Z') || (e->m_name[i] >= '0' && e->m_name[i] <= '9'), "element names are upper-case ASCII letters / digits (the lookup folds case to upper)");
    if (k + 1 < NENTRIES - 1)
    {
        const InternalElementProperties* const f = &s_elementProperties[k + 1];
        const int len2 = xv_len(f->m_name, eMaxElementName);
        bool less = len < len2;
        if (len == len2) { int i = 0; while (i < len && e->m_name[i] == f->m_name[i]) ++i; less = i < len && e->m_name[i] < f->m_name[i]; }
        __CPROVER_assert(less, "entries are strictly ordered by length, then by units (the order the lookup loop relies on)");
    }
#endif
#if XV_PART == 1
    __CPROVER_assert(((e->m_flags & ElemDesc_RAW) != 0) == (xv_is(e->m_name, "SCRIPT") || xv_is(e->m_name, "STYLE")), "RAW content (written without escaping, as an HTML parser reads it): exactly SCRIPT and STYLE");
    __CPROVER_assert(((e->m_flags & ElemDesc_EMPTY) != 0) == (xv_is(e->m_name, "AREA") || xv_is(e->m_name, "BASE") || xv_is(e->m_name, "BASEFONT") || xv_is(e->m_name, "BR") || xv_is(e->m_name, "COL") || xv_is(e->m_name, "FRAME") ||
                     xv_is(e->m_name, "HR") || xv_is(e->m_name, "IMG") || xv_is(e->m_name, "INPUT") || xv_is(e->m_name, "ISINDEX") || xv_is(e->m_name, "LINK") || xv_is(e->m_name, "META") || xv_is(e->m_name, "PARAM")),
                     "EMPTY elements (no end tag is written): exactly the thirteen of HTML 4.01");
    __CPROVER_assert(((e->m_flags & ElemDesc_SCRIPTELEM) != 0) == xv_is(e->m_name, "SCRIPT") && ((e->m_flags & ElemDesc_STYLEELEM) != 0) == xv_is(e->m_name, "STYLE"), "the script / style markers sit on SCRIPT / STYLE only");
    __CPROVER_assert((e->m_flags & ~(unsigned)((1 << 25) - 2)) == 0, "only the declared element flags (bits 1..24) are used");
#endif
#if XV_PART == 2
    bool terminated = false;
    for (int a = 0; a <= eMaxAttributes; ++a)
    {
        if (e->m_attributes[a].m_name[0] == 0) { terminated = true; break; }
        __CPROVER_assert(xv_len(e->m_attributes[a].m_name, eMaxAttributeName) <= eMaxAttributeName, "attribute name NUL-terminated inside its array");
        __CPROVER_assert((e->m_attributes[a].m_flags & ~(ElemDesc_ATTRURL | ElemDesc_ATTREMPTY)) == 0 && e->m_attributes[a].m_flags != 0, "attribute entries carry ATTRURL and/or ATTREMPTY only");
    }
    __CPROVER_assert(terminated, "every attribute sub-table ends with the dummy entry inside its array");
    __CPROVER_assert(s_elementProperties[NENTRIES - 1].m_name[0] == 0, "the table ends with the dummy entry (s_dummyProperties)");
#endif
}
'''
UNIT = Unit(
    name='c08_htmlprops',
    props=['C08'],
    blocks=[UNICODE_BLOCK, SIZES, FLAGS, TABLE],
    functions=[],
    template=TEMPLATE,
    jobs=[Job('flags', 'h_table', dfcc=False, cls='W', unwind=14, reach=['h_table'], timeout=900, min_obligations=4, defines=('XV_PART=1',),
              bound_note='complete: name arrays have eMaxElementName + 1 = 11 units; the entry index is symbolic over the whole table'),
          Job('shape', 'h_table', dfcc=False, cls='W', unwind=14, reach=['h_table'], timeout=1800, min_obligations=6, defines=('XV_PART=2',), thorough_only=True,
              bound_note='complete: loops run over name arrays of eMaxElementName + 1 = 11 units and eMaxAttributes + 1 = 7 attribute slots; the entry index is symbolic over the whole table')],
    mutants=[
        Mutant('style_content_escaped', HC, r'ElemDesc::BLOCK \| ElemDesc::RAW \| ElemDesc::HEADMISC \| ElemDesc::STYLEELEM', 'ElemDesc::BLOCK | ElemDesc::CDATA | ElemDesc::HEADMISC | ElemDesc::STYLEELEM', expect='RAW content'),
        Mutant('br_gets_end_tag', HC, r'(\{ XalanUnicode::charLetter_B, XalanUnicode::charLetter_R, 0 \},\s*)ElemDesc::EMPTY \| ', r'\1', expect='EMPTY elements'),
    ],
    mechanisms=['HTML element property table'],
    assumptions=['the two struct layouts are repeated in the template from XalanHTMLElementsProperties.hpp (members and array bounds; the bounds themselves and the flag enum are extracted); the lookup code (find / compareIgnoreCaseASCII) is not under contract',
                 'HTML 4.01: script and style have CDATA content; the EMPTY elements are the thirteen listed'],
)
