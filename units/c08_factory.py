"""C08: XalanXMLSerializerFactory::create picks one of twelve template instantiations of FormatterToXMLUnicode from the requested
encoding, XML version and indent option.  Proved: the writer fits the encoding class, the character table (CharFunctor1_0 / 1_1)
and the version constant both equal the requested version, and the indenting writer is used exactly when indent was requested -
in every branch.  The branches are rewritten mechanically (one regular expression) into calls that carry the template arguments."""
import re
from xvlib.unit import Fn, Job, Unit, Mutant

FA = 'src/xalanc/XMLSupport/XalanXMLSerializerFactory.cpp'
TEMPLATE = r'''
#include "xv_shim.h"
typedef struct Mgr MemoryManager; typedef struct Wr Writer; typedef struct Str XalanDOMString; typedef struct FL { int dummy; } FormatterListener;
enum { W_XalanUTF8Writer = 1, W_XalanUTF16Writer, W_WriterType /* XalanOtherEncodingWriter */ };
enum { E_UTF8 = 1, E_UTF16 }; enum { CharFunctor1_0 = 10, CharFunctor1_1 = 11 }; enum { XML_VERSION_1_0 = 10, XML_VERSION_1_1 = 11 };
bool g_v11, g_utf8, g_utf16; bool g_created; int g_w, g_iw, g_enc, g_cf, g_ver; bool g_indenting; FormatterListener g_formatter;
bool xv_version_is_1_1(const XalanDOMString* v) __CPROVER_requires(1) __CPROVER_assigns() __CPROVER_ensures(__CPROVER_return_value == g_v11) ;
bool xv_is_utf8(void) __CPROVER_requires(1) __CPROVER_assigns() __CPROVER_ensures(__CPROVER_return_value == g_utf8) ;
bool xv_is_utf16(void) __CPROVER_requires(1) __CPROVER_assigns() __CPROVER_ensures(__CPROVER_return_value == g_utf16) ;
void xv_set_encoding(void) __CPROVER_requires(1) __CPROVER_assigns() __CPROVER_ensures(1) ;
FormatterListener* xv_create(int writer, int indent_writer_of, bool indenting, int enc, int cf, int ver)
__CPROVER_requires(g_created == false) __CPROVER_assigns(g_created, g_w, g_iw, g_indenting, g_enc, g_cf, g_ver)
__CPROVER_ensures(g_created == true && g_w == writer && g_iw == indent_writer_of && g_indenting == indenting && g_enc == enc && g_cf == cf && g_ver == ver && __CPROVER_return_value == &g_formatter) ;
@@FN create@@
void h_create(void) { bool a, b, c, d; g_v11 = XV_BOOL(a); g_utf8 = XV_BOOL(b); g_utf16 = XV_BOOL(c); g_created = false; create(0, 0, 0, XV_BOOL(d), 0, 0, 0, 0, 0, true, 0); }
'''
BRANCH = (r'(?:typedef XalanFormatterWriter::NewLineWriterFunctor<(\w+)> NewLineWriter;\s*typedef XalanFormatterWriter::WhiteSpaceWriterFunctor<(\w+)> WhiteSpaceWriter;\s*'
          r'typedef XalanIndentWriter<WhiteSpaceWriter,\s*NewLineWriter> IndentWriter;|typedef XalanDummyIndentWriter<(\w+)> IndentWriter;)\s*'
          r'typedef FormatterToXMLUnicode<\s*(\w+),\s*XalanXMLSerializerBase::(\w+),\s*XalanXMLSerializerBase::(CharFunctor1_\d),\s*IndentWriter,\s*FormatterListener::(XML_VERSION_1_\d)>\s*Type;\s*'
          r'theFormatter =\s*Type::create\([^;]*\);')


def branch(m):
    nl, ws, dummy, writer, enc, cf, ver = m.groups()
    if dummy:
        return 'theFormatter = xv_create(W_%s, W_%s, false, E_%s, %s, %s);' % (writer, dummy, enc, cf, ver)
    if nl != ws:
        return m.group(0)
    return 'theFormatter = xv_create(W_%s, W_%s, true, E_%s, %s, %s);' % (writer, nl, enc, cf, ver)


R = [(r'theVersion == XalanXMLSerializerBase::s_1_1String', 'xv_version_is_1_1(theVersion)', 1),
     (r'XalanDOMString fixedEncoding\(theEncoding, theManager\);\s*setEncoding\(theManager, theWriter, fixedEncoding\);', 'xv_set_encoding();', 1),
     (r'XalanTranscodingServices::encodingIsUTF8\(fixedEncoding\)', 'xv_is_utf8()', 1),
     (r'XalanTranscodingServices::encodingIsUTF16\(fixedEncoding\)', 'xv_is_utf16()', 1),
     (r'typedef XalanOtherEncodingWriter<\s*XalanFormatterWriter::CommonRepresentableCharFunctor,\s*XalanXMLSerializerBase::UTF16>\s*WriterType\s*;', '', 1),
     (BRANCH, branch, 12)]
UNIT = Unit(
    name='c08_factory',
    props=['C08', 'C04'],
    functions=[Fn(FA, r'^XalanXMLSerializerFactory::create\(', 'create',
                  'FormatterListener* create(MemoryManager* theManager, Writer* theWriter, const XalanDOMString* theVersion, bool doIndent, int theIndentAmount, const XalanDOMString* theEncoding, const XalanDOMString* theMediaType, const XalanDOMString* theDoctypeSystem, const XalanDOMString* theDoctypePublic, bool generateXMLDeclaration, const XalanDOMString* theStandaloneString)',
                  rules=R, nloops=0,
                  contract='''__CPROVER_requires(g_created == false && (doIndent == true || doIndent == false))
__CPROVER_assigns(g_created, g_w, g_iw, g_indenting, g_enc, g_cf, g_ver)
__CPROVER_ensures(g_created == true && __CPROVER_return_value == &g_formatter)
__CPROVER_ensures(/* the writer fits the encoding: UTF-8 writer, UTF-16 writer, or the transcoding writer (which represents characters as UTF-16 units) */
    g_w == (g_utf8 == true ? W_XalanUTF8Writer : g_utf16 == true ? W_XalanUTF16Writer : W_WriterType) && g_enc == (g_utf8 == true ? E_UTF8 : E_UTF16))
__CPROVER_ensures(/* the XML version option selects both the table of characters that need escaping and the version constant - in every branch */
    g_cf == (g_v11 == true ? CharFunctor1_1 : CharFunctor1_0) && g_ver == (g_v11 == true ? XML_VERSION_1_1 : XML_VERSION_1_0))
__CPROVER_ensures(/* the indent option only selects the indenting writer, built on the same writer */ g_indenting == doIndent && g_iw == g_w)''')],
    template=TEMPLATE,
    jobs=[Job('create', 'h_create', enforce=['create'], replace=['xv_version_is_1_1', 'xv_is_utf8', 'xv_is_utf16', 'xv_set_encoding', 'xv_create'], reach='all', timeout=120, min_obligations=4)],
    mutants=[
        Mutant('other_encoding_1_1_indent_uses_1_0_table', FA, r'(typedef XalanIndentWriter<WhiteSpaceWriter,NewLineWriter> IndentWriter;\s*typedef FormatterToXMLUnicode<\s*WriterType,\s*XalanXMLSerializerBase::UTF16,\s*XalanXMLSerializerBase::)CharFunctor1_1', r'\1CharFunctor1_0', expect='XML version option'),
        Mutant('utf8_1_0_noindent_indents', FA, r'typedef XalanDummyIndentWriter<XalanUTF8Writer> IndentWriter;(\s*typedef FormatterToXMLUnicode<\s*XalanUTF8Writer,\s*XalanXMLSerializerBase::UTF8,\s*XalanXMLSerializerBase::CharFunctor1_0,)',
               r'typedef XalanFormatterWriter::NewLineWriterFunctor<XalanUTF8Writer> NewLineWriter;\n                typedef XalanFormatterWriter::WhiteSpaceWriterFunctor<XalanUTF8Writer> WhiteSpaceWriter;\n                typedef XalanIndentWriter<WhiteSpaceWriter,NewLineWriter> IndentWriter;\1', expect='indent option'),
    ],
    mechanisms=['output method and option selection, API overrides', 'serializer selection by encoding/version/indent (3 writer families x 2 x 2 template instances)'],
    assumptions=['setEncoding (fallback to UTF-8 for unsupported encodings) and the constructors of the twelve instantiations are not under contract',
                 'the arguments of Type::create(...) are not compared (they are the same nine values in every branch)'],
)
