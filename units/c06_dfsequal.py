"""C06 / C03: XalanDecimalFormatSymbols::operator== and operator= over the member list GENERATED FROM THE HEADER on every run.  operator== is the
key comparison of the ICU DecimalFormat cache that lives in the long-lived execution context: two symbol sets are equal exactly when EVERY
member is equal (a member left out makes a later transformation pick up the formatter cached for an earlier stylesheet); operator= copies
every member.  A member added to the header and forgotten in either function fails here."""
import re
from xvlib.unit import Fn, Job, Unit, Mutant, Block
from xvlib.extract import ExtractionBreak

DC = 'src/xalanc/PlatformSupport/XalanDecimalFormatSymbols.cpp'
DH = 'src/xalanc/PlatformSupport/XalanDecimalFormatSymbols.hpp'
MEMBERS = Block(DH, r'^private:\s*$', 'members', end=r'^\};', hidden=True)
TEMPLATE = r'''
#include "xv_shim.h"
/* strings and characters are compared / copied by value: every member is modelled as an integer value */
@@GEN struct@@
XalanDecimalFormatSymbols g_lhs, g_rhs;
@@FN equals@@
@@FN assign@@
void h_equals(void) { XalanDecimalFormatSymbols a, b; g_lhs = a; g_rhs = b; equals(&g_lhs, &g_rhs); }
void h_assign(void) { XalanDecimalFormatSymbols a, b; g_lhs = a; g_rhs = b; assign(&g_lhs, &g_rhs); }
'''
R = [(r'(?<![\w.>])(m_\w+) == theRHS\.\1', r'self->\1 == theRHS->\1', None)]
R2 = [(r'&theRHS != this', 'theRHS != self', 1),
      (r'(?<![\w.>])(m_\w+) = theRHS\.\1;', r'self->\1 = theRHS->\1;', None),
      (r'return \*this;', 'return self;', 1)]


def gen(fn_texts, blk_texts):
    names = re.findall(r'^\s+(?:XalanDOMString|XalanDOMChar)\s+(m_\w+);', blk_texts['members'], re.M)
    if len(names) < 5:
        raise ExtractionBreak('data members of XalanDecimalFormatSymbols not found in the header')
    struct = 'typedef struct XalanDecimalFormatSymbols { %s } XalanDecimalFormatSymbols;\n' % ' '.join('long %s;' % n for n in names)
    alleq = ' && '.join('self->%s == theRHS->%s' % (n, n) for n in names)
    struct += '#define ALL_EQUAL (%s)\n' % alleq
    struct += '#define ALL_COPIED (%s)\n' % ' && '.join('self->%s == __CPROVER_old(theRHS->%s)' % (n, n) for n in names)
    return {'struct': struct}


UNIT = Unit(
    name='c06_dfsequal',
    props=['C06', 'C03'],
    blocks=[MEMBERS],
    gen=gen,
    functions=[
        Fn(DC, r'^XalanDecimalFormatSymbols::operator==\(', 'equals', 'bool equals(const XalanDecimalFormatSymbols* self, const XalanDecimalFormatSymbols* theRHS)', rules=R, nloops=0,
           contract='''__CPROVER_requires(self == &g_lhs && theRHS == &g_rhs)
__CPROVER_assigns()
__CPROVER_ensures(/* equal exactly when every data member (list generated from the header) is equal */ __CPROVER_return_value == ALL_EQUAL)'''),
        Fn(DC, r'^XalanDecimalFormatSymbols::operator=\(', 'assign', 'XalanDecimalFormatSymbols* assign(XalanDecimalFormatSymbols* self, const XalanDecimalFormatSymbols* theRHS)', rules=R2, nloops=0,
           contract='''__CPROVER_requires(self == &g_lhs && theRHS == &g_rhs)
__CPROVER_assigns(__CPROVER_object_whole(&g_lhs))
__CPROVER_ensures(/* every data member is copied */ ALL_COPIED && __CPROVER_return_value == self)'''),
    ],
    template=TEMPLATE,
    jobs=[Job('equals', 'h_equals', enforce=['equals'], reach='all', timeout=120, min_obligations=2),
          Job('assign', 'h_assign', enforce=['assign'], reach='all', timeout=120, min_obligations=2)],
    mutants=[
        Mutant('nan_symbol_not_compared', DC, r'        m_NaN == theRHS\.m_NaN &&\n', '', expect='every data member'),
        Mutant('percent_not_copied', DC, r'        m_percent = theRHS\.m_percent;\n', '', expect='copied'),
    ],
    mechanisms=['decimal-format symbols as cache key (format-number)'],
    assumptions=['XalanDOMString / XalanDOMChar members compare and copy by value (modelled as integers); the copy constructor is not under contract',
                 'ICUFormatNumberFunctor uses operator== as the key comparison of its formatter cache (unit c03_lrucache covers the eviction)'],
)
