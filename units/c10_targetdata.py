"""C10: default priority per alternative of a union match pattern (XSLT 1.0 5.5).  XPath::getTargetData walks the compiled pattern
and records, for every alternative, the key under which the template is filed and its default priority class.  The step counter and
every other per-alternative quantity must start afresh for each alternative."""
from xvlib.unit import Fn, Job, Unit, Mutant, Block

XP = 'src/xalanc/XPath/XPath.cpp'
XPE = 'src/xalanc/XPath/XPathExpression.hpp'
OPCODES = Block(XPE, r'^\s*enum eOpCodes\s*\{', 'eOpCodes',
                rules=[(r'enum eOpCodes', 'enum XPathExpression_eOpCodes', 1), (r'\b(e[A-Z][A-Z_0-9a-z]*)\b', r'XPathExpression_\1', None)])

TEMPLATE = r'''
#include "xv_shim.h"
typedef int OpCodeMapPositionType; typedef int OpCodeMapValueType; typedef int eMatchScore; typedef int TargetData_eTargetType; typedef struct XStr XalanDOMString;
@@BLOCK eOpCodes@@
enum { eMatchScoreNone, eMatchScoreNodeTest, eMatchScoreNSWild, eMatchScoreQName, eMatchScoreOther };   /* -inf, -0.5, -0.25, 0, 0.5 (XPath.hpp getMatchScoreValue) */
enum { TargetData_eAttribute, TargetData_eElement, TargetData_eAny, TargetData_eOther };
static const XalanDOMChar PSEUDONAME_ANY[2], PSEUDONAME_ROOT[2], PSEUDONAME_TEXT[2], PSEUDONAME_COMMENT[2], PSEUDONAME_PI[2], PSEUDONAME_OTHER[2], PSEUDONAME_NODE[2];
#define MAXPOS 100000000
/* ghost: the alternative being walked: how many steps were entered in it, and the facts of its current (last) step */
size_t g_steps; OpCodeMapPositionType g_step_pos, g_next_step_pos; int g_step_type, g_tok, g_arglen; bool g_has_local, g_local_is_any, g_ns_wild; size_t g_pushed; size_t g_alts;
OpCodeMapPositionType xv_initial_pos(void) __CPROVER_requires(1) __CPROVER_assigns() __CPROVER_ensures(__CPROVER_return_value >= 0 && __CPROVER_return_value < MAXPOS) ;
int xv_op(OpCodeMapPositionType p) __CPROVER_requires(p >= 0 && p < MAXPOS + 16) __CPROVER_assigns()
__CPROVER_ensures((p == g_step_pos && g_steps > 0) ==> __CPROVER_return_value == g_step_type)
__CPROVER_ensures((p == g_step_pos + 3 && g_steps > 0) ==> __CPROVER_return_value == g_tok) ;
/* getNextOpCodePosition at the head of an alternative: a new alternative starts, no step entered yet */
OpCodeMapPositionType xv_next_alternative(OpCodeMapPositionType p) __CPROVER_requires(p >= 0 && p < MAXPOS + 16) __CPROVER_assigns(g_steps, g_alts)
__CPROVER_ensures(g_steps == 0 && g_alts == __CPROVER_old(g_alts) + 1 && __CPROVER_return_value > p && __CPROVER_return_value < MAXPOS) ;
/* getNextOpCodePosition at a step: one more step of the current alternative is entered; p is its position */
OpCodeMapPositionType xv_next_step(OpCodeMapPositionType p) __CPROVER_requires(p >= 0 && p < MAXPOS + 16) __CPROVER_assigns(g_steps, g_step_pos, g_next_step_pos)
__CPROVER_ensures(g_steps == __CPROVER_old(g_steps) + 1 && g_step_pos == p && g_next_step_pos == __CPROVER_return_value && __CPROVER_return_value > p + 3 && __CPROVER_return_value < MAXPOS) ;
int xv_arg_len(OpCodeMapPositionType p) __CPROVER_requires(p == g_step_pos) __CPROVER_assigns() __CPROVER_ensures(__CPROVER_return_value == g_arglen) ;
const XalanDOMString* xv_token_string(OpCodeMapPositionType p) __CPROVER_requires(p == g_step_pos + 4 || p == g_step_pos + 5) __CPROVER_assigns()
__CPROVER_ensures(p == g_step_pos + 5 ==> ((__CPROVER_return_value != 0) == g_has_local)) ;
const XalanDOMChar* xv_c_str(const XalanDOMString* s) __CPROVER_requires(s != 0) __CPROVER_assigns()
__CPROVER_ensures(__CPROVER_return_value != 0 && ((__CPROVER_return_value == PSEUDONAME_ANY) == g_local_is_any)) ;
bool xv_ns_null_or_any(const XalanDOMString* s) __CPROVER_requires(1) __CPROVER_assigns() __CPROVER_ensures(__CPROVER_return_value == g_ns_wild) ;
/* the default priority XSLT 1.0 5.5 gives to ONE alternative, from its last step (the only one when it has one step) */
#define SPEC_SINGLE_STEP (g_steps == 1 && !(g_step_pos + 6 < g_next_step_pos))
#define SPEC_NAMETEST    (g_step_type == XPathExpression_eMATCH_ATTRIBUTE || g_step_type == XPathExpression_eMATCH_ANY_ANCESTOR || g_step_type == XPathExpression_eMATCH_IMMEDIATE_ANCESTOR)
void xv_push_target(const XalanDOMChar* name, eMatchScore score, int type)
__CPROVER_requires(/* an alternative with several steps or a predicate has priority 0.5 */ !SPEC_SINGLE_STEP ==> score == eMatchScoreOther)
__CPROVER_requires(/* ncname:* -> -0.25; QName or processing-instruction('lit') -> 0; any other single node test -> -0.5 */
    (SPEC_SINGLE_STEP && SPEC_NAMETEST && g_tok == XPathExpression_eNODENAME) ==>
        score == ((g_has_local == true && g_local_is_any == false) ? eMatchScoreQName : (g_ns_wild == true ? eMatchScoreNodeTest : eMatchScoreNSWild)))
__CPROVER_requires(/* processing-instruction('lit') -> 0, processing-instruction() -> -0.5 */ (SPEC_SINGLE_STEP && SPEC_NAMETEST && g_tok == XPathExpression_eNODETYPE_PI) ==> score == (g_arglen == 2 ? eMatchScoreQName : eMatchScoreNodeTest))
__CPROVER_requires(/* node(), text(), comment(), * -> -0.5 */ (SPEC_SINGLE_STEP && SPEC_NAMETEST && g_tok != XPathExpression_eNODENAME && g_tok != XPathExpression_eNODETYPE_PI) ==> score == eMatchScoreNodeTest)
__CPROVER_requires(/* "/" and id()/key() patterns: 0.5 */ (SPEC_SINGLE_STEP && (g_step_type == XPathExpression_eOP_FUNCTION || g_step_type == XPathExpression_eFROM_ROOT)) ==> score == eMatchScoreOther)
__CPROVER_requires(/* filed under a name */ name != 0)
__CPROVER_assigns(g_pushed) __CPROVER_ensures(g_pushed == __CPROVER_old(g_pushed) + 1) ;

@@FN getTargetData@@
void h_getTargetData(void)
{
    size_t s; int a, b, c, d, e; bool f, g, h;
    g_steps = s; g_step_pos = a; g_next_step_pos = b; g_step_type = c; g_tok = d; g_arglen = e; g_has_local = XV_BOOL(f); g_local_is_any = XV_BOOL(g); g_ns_wild = XV_BOOL(h); g_pushed = 0; g_alts = 0;
    /* well-formed compiled pattern (XPathProcessorImpl): the last step of an alternative is one of the five pattern step kinds; a processing-instruction test has 1 or 2 arguments */
    __CPROVER_assume(a >= 0 && a < MAXPOS && b >= 0 && b < MAXPOS && (e == 1 || e == 2));
    __CPROVER_assume(c == XPathExpression_eOP_FUNCTION || c == XPathExpression_eFROM_ROOT || c == XPathExpression_eMATCH_ATTRIBUTE || c == XPathExpression_eMATCH_ANY_ANCESTOR || c == XPathExpression_eMATCH_IMMEDIATE_ANCESTOR);
    getTargetData(0);
}
'''

R = [(r'm_expression\.getInitialOpCodePosition\(\)', 'xv_initial_pos()', 1),
     (r'targetData\.reserve\(eDefaultTargetDataSize\);', '', 1),
     (r'nextOpPos = m_expression\.getNextOpCodePosition\(opPos\)', 'nextOpPos = xv_next_alternative(opPos)', 1),
     (r'nextStepPos =\s*m_expression\.getNextOpCodePosition\(opPos\)', 'nextStepPos = xv_next_step(opPos)', 1),
     (r'm_expression\.getOpCodeMapValue\(', 'xv_op(', None),
     (r'm_expression\.getOpCodeArgumentLength\(opPos - 3\)', 'xv_arg_len(opPos - 3)', 1),
     (r'getStringFromTokenQueue\(m_expression, (opPos \+ \d)\)', r'xv_token_string(\1)', 2),
     (r'targetLocal->c_str\(\)', 'xv_c_str(targetLocal)', 1),
     (r'targetNamespace == 0 \|\|\s*\*targetNamespace == PSEUDONAME_ANY', 'xv_ns_null_or_any(targetNamespace)', 2),
     (r'TargetData::eTargetType', 'TargetData_eTargetType', 1),
     (r'targetData\.push_back\(TargetData\(targetLocalName, score, targetType\)\);', 'xv_push_target(targetLocalName, score, targetType);', 1),
     'SCOPE']

CONTRACT = '''__CPROVER_requires(g_pushed == 0 && g_alts == 0)
__CPROVER_assigns(g_steps, g_step_pos, g_next_step_pos, g_pushed, g_alts)
__CPROVER_ensures(1)'''
OUTER = '''__CPROVER_assigns(opPos, g_steps, g_step_pos, g_next_step_pos, g_pushed, g_alts)
__CPROVER_loop_invariant(/* every alternative of the union is walked from a fresh state: nothing but the position is carried from one alternative to the next */ opPos >= 0 && opPos < MAXPOS + 8 && g_step_pos >= 0 && g_step_pos < MAXPOS + 16)'''
INNER = '''__CPROVER_assigns(opPos, stepCount, g_steps, g_step_pos, g_next_step_pos, g_pushed)
__CPROVER_loop_invariant(opPos >= 0 && opPos < MAXPOS + 8 && g_steps <= (size_t)opPos && g_step_pos >= 0 && g_step_pos < MAXPOS + 16)
__CPROVER_loop_invariant(/* the step counter counts the steps of THIS alternative */ stepCount == g_steps)'''

UNIT = Unit(
    name='c10_targetdata',
    props=['C10'],
    blocks=[OPCODES],
    functions=[Fn(XP, r'^XPath::getTargetData\(TargetDataVectorType&\s+targetData\) const', 'getTargetData', 'void getTargetData(void* targetData)', rules=R,
                  contract=CONTRACT, loops={0: OUTER, 1: INNER}, nloops=2)],
    template=TEMPLATE,
    jobs=[Job('getTargetData', 'h_getTargetData', enforce=['getTargetData'],
              replace=['xv_initial_pos', 'xv_op', 'xv_next_alternative', 'xv_next_step', 'xv_arg_len', 'xv_token_string', 'xv_c_str', 'xv_ns_null_or_any', 'xv_push_target'],
              loop_contracts=True, reach='all', timeout=600, min_obligations=10)],
    mutants=[
        Mutant('step_count_not_reset', XP, r'(XPath::getTargetData\(TargetDataVectorType&  targetData\) const\s*\{.*?)(    targetData\.reserve\(eDefaultTargetDataSize\);)(.*?)\n        unsigned long   stepCount = 0;\n',
               r'\1    unsigned long   stepCount = 0;\n\n\2\3\n', expect='xv_push_target.precondition'),
        Mutant('nswild_is_qname', XP, r'(score = eMatchScoreNodeTest;\s*\}\s*else\s*\{\s*score = )eMatchScoreNSWild(;\s*\}\s*\}\s*else\s*\{\s*score = eMatchScoreQName;)', r'\1eMatchScoreQName\2', expect='ncname'),
        Mutant('predicate_ignored', XP, r'if \(stepCount > 1 \|\|\s*opPos \+ 3 < nextStepPos\)', 'if (stepCount > 1)', expect='several steps or a predicate'),
        Mutant('pi_literal_is_nodetest', XP, r'(else if \(argLen == 2\)\s*\{\s*score = )eMatchScoreQName', r'\1eMatchScoreNodeTest', expect='xv_push_target.precondition.3'),
    ],
    mechanisms=['default priority per union alternative'],
    assumptions=['the compiled op map is abstract: positions advance (next > current + 3 for steps), op codes and tokens of the current step are arbitrary but fixed',
                 'the key name returned by c_str() may or may not be the PSEUDONAME_ANY array (pointer comparison in the real code)',
                 'getMatchScoreValue maps the five classes to -inf, -0.5, -0.25, 0, 0.5 (read, table in XPath.hpp)',
                 'termination of the walk is not proved (positions grow, but the end markers are the expression\'s)'],
)
