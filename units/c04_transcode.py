"""C04: XalanOutputStream::transcode - the multi-pass loop that hands a block of UTF-16 units to the encoding transcoder and collects the
bytes.  Every pass continues exactly where the previous one stopped in the input (no unit skipped or repeated), writes its bytes directly
behind the bytes already produced (nothing overwritten, no gap), inside the destination vector; the loop ends only when all the input
is eaten and the vector is cut to the bytes produced."""
from xvlib.unit import Fn, Job, Unit, Mutant

OS = 'src/xalanc/PlatformSupport/XalanOutputStream.cpp'
TEMPLATE = r'''
#include "xv_shim.h"
typedef struct Self { void* m_transcoder; bool m_throwTranscodeException; } Self; typedef struct Vec TranscodeVectorType; typedef size_t size_type;
typedef int XalanTranscodingServices_eCode; enum { XalanTranscodingServices_OK = 0 };
const XalanDOMChar* g_in; size_t g_in_len; size_t g_eaten; size_t g_filled; size_t g_dest_size; int g_passes; bool g_local;
static size_t xv_dest_size(TranscodeVectorType* v) { return g_dest_size; }
/* XalanVector::resize keeps the elements below the new size (unit c20_vector_core) */
void xv_dest_resize(TranscodeVectorType* v, size_t n) __CPROVER_requires(/* a resize never cuts off bytes already produced */ n >= g_filled) __CPROVER_assigns(g_dest_size)
__CPROVER_ensures(g_dest_size == n && /* an allocation of more than 2^60 bytes fails with an exception (the path ends) */ n <= ((size_t)1 << 60)) ;
/* XalanOutputTranscoder::transcode(src, srcLen, dst, dstCap, &srcEaten, &dstFilled); dst is given as the offset into the destination vector */
XalanTranscodingServices_eCode xv_transcode(void* t, const XalanDOMChar* src, size_t srcLen, size_t dstOffset, size_t dstCap, size_t* srcEaten, size_t* dstFilled)
__CPROVER_requires(/* input: continues exactly where the previous pass stopped, up to the end of the block */ g_eaten <= g_in_len && __CPROVER_pointer_in_range_dfcc(g_in + g_eaten, src, g_in + g_eaten) && srcLen == g_in_len - g_eaten)
__CPROVER_requires(/* output: directly behind the bytes already produced */ dstOffset == g_filled)
__CPROVER_requires(/* output: inside the destination vector */ dstCap <= g_dest_size && dstOffset <= g_dest_size - dstCap)
__CPROVER_assigns(*srcEaten, *dstFilled, g_eaten, g_filled, g_passes)
__CPROVER_ensures(*srcEaten <= srcLen && *dstFilled <= dstCap && g_eaten == __CPROVER_old(g_eaten) + *srcEaten && g_filled == __CPROVER_old(g_filled) + *dstFilled && g_passes == 1) ;
bool xv_local(const XalanDOMChar* p, size_t n, TranscodeVectorType* v) __CPROVER_requires(__CPROVER_pointer_in_range_dfcc(g_in, p, g_in) && n == g_in_len) __CPROVER_assigns(g_local) __CPROVER_ensures(g_local == true) ;
void xv_throw(void) __CPROVER_requires(1) __CPROVER_assigns() __CPROVER_ensures(0) ;
@@FN transcode@@
void h_transcode(void)
{ Self s; bool b; void* t; s.m_transcoder = t; s.m_throwTranscodeException = XV_BOOL(b); const XalanDOMChar* p; size_t n, d; g_in = p; g_in_len = n; g_eaten = 0; g_filled = 0; g_dest_size = d; g_passes = 0; g_local = false;
  transcode(&s, p, n, 0); }
'''
R = [(r'\bm_transcoder\b(?!->)', 'self->m_transcoder', (1, 2)),
     (r'\bm_throwTranscodeException\b', 'self->m_throwTranscodeException', 2),
     (r'TranscodeToLocalCodePage\(', 'xv_local(', 1),
     (r'XalanDOMString\s+theExceptionBuffer\(theDestination\.getMemoryManager\(\)\);\s*throw TranscodingException\(\s*theExceptionBuffer,\s*0\);', 'xv_throw();', 2),
     (r'theDestination\.resize\(', 'xv_dest_resize(theDestination, ', 2),
     (r'theDestination\.size\(\)', 'xv_dest_size(theDestination)', 1),
     (r'XalanTranscodingServices::eCode', 'XalanTranscodingServices_eCode', 1),
     (r'XalanTranscodingServices::OK', 'XalanTranscodingServices_OK', 1),
     (r'm_transcoder->transcode\(\s*(\w+),\s*(\w+),\s*reinterpret_cast<XMLByte\*>\(&theDestination\[0\]\) \+ (\w+),\s*(\w+),\s*(\w+),\s*(\w+)\)',
      r'xv_transcode(self->m_transcoder, \1, \2, \3, \4, &\5, &\6)', 1),
     'SCOPE']
UNIT = Unit(
    name='c04_transcode',
    props=['C04', 'C03'],
    functions=[Fn(OS, r'^XalanOutputStream::transcode\(\s*const XalanDOMChar\*\s+theBuffer,\s*size_type\s+theBufferLength,\s*TranscodeVectorType&\s+theDestination\)', 'transcode',
                  'void transcode(Self* self, const XalanDOMChar* theBuffer, size_type theBufferLength, TranscodeVectorType* theDestination)', rules=R, nloops=1,
                  loops={0: '''__CPROVER_assigns(fDone, theTotalBytesFilled, theTotalBytesEaten, theBufferPosition, theRemainingBufferLength, theDestinationSize, theTargetSize, g_eaten, g_filled, g_dest_size, g_passes)
__CPROVER_loop_invariant((fDone == true || fDone == false) && theTotalBytesEaten == g_eaten && theTotalBytesFilled == g_filled && g_eaten <= theBufferLength)
__CPROVER_loop_invariant(__CPROVER_same_object(theBufferPosition, theBuffer) && __CPROVER_POINTER_OFFSET(theBufferPosition) == __CPROVER_POINTER_OFFSET(theBuffer) + g_eaten * sizeof(XalanDOMChar) && theRemainingBufferLength == theBufferLength - g_eaten)
__CPROVER_loop_invariant(/* the free part of the destination, once it is resized, holds the target size */ theTargetSize <= theDestinationSize && g_filled <= theDestinationSize - theTargetSize && theDestinationSize <= ((size_t)1 << 61))
__CPROVER_loop_invariant(fDone == true ==> (g_eaten == theBufferLength && g_dest_size >= g_filled))'''},
                  contract='''__CPROVER_requires(__CPROVER_is_fresh(self, sizeof(*self)) && theBufferLength == g_in_len && theBufferLength <= ((size_t)1 << 30) && g_eaten == 0 && g_filled == 0 && g_passes == 0 && g_local == false)
__CPROVER_requires(__CPROVER_is_fresh(theBuffer, (theBufferLength + 1) * sizeof(XalanDOMChar)) && __CPROVER_pointer_in_range_dfcc(theBuffer, g_in, theBuffer))
__CPROVER_assigns(g_eaten, g_filled, g_dest_size, g_passes, g_local)
__CPROVER_ensures(/* with a transcoder: all the input was eaten and the vector holds exactly the bytes produced */ self->m_transcoder != 0 ==> (g_eaten == g_in_len && g_dest_size == g_filled && g_passes == 1))
__CPROVER_ensures(/* without one: the local code page conversion got the whole block */ self->m_transcoder == 0 ==> g_local == true)''')],
    template=TEMPLATE,
    jobs=[Job('transcode', 'h_transcode', enforce=['transcode'], replace=['xv_dest_resize', 'xv_transcode', 'xv_local', 'xv_throw'], loop_contracts=True, reach='all', timeout=300, min_obligations=8)],
    mutants=[
        Mutant('destination_by_eaten', OS, r'\+ theTotalBytesFilled,', '+ theTotalBytesEaten,', expect='directly behind'),
        Mutant('position_not_advanced', OS, r'\n\s*theBufferPosition \+= theSourceBytesEaten;', '\n', expect=None),
        Mutant('target_size_new_size', OS, r'theTargetSize = theDestinationSize;\s*(// Grow[^\n]*\n[^\n]*\n[^\n]*\n\s*)theDestinationSize = theDestinationSize \* 2;', r'\1theDestinationSize = theDestinationSize * 2;\n                theTargetSize = theDestinationSize;', expect=None),
    ],
    mechanisms=['output stream transcoding in several passes (XalanOutputStream::transcode)', 'legacy transcoder-based serializer'],
    assumptions=['XalanOutputTranscoder::transcode eats at most the source length and fills at most the target size it is given (ICU / Xerces transcoders, external)',
                 'termination of the pass loop is not proved (a transcoder that makes no progress is outside the contract)',
                 'a resize of the destination vector beyond 2^60 bytes throws (so the doubling of the size cannot wrap); blocks of at most 2^30 units'],
)
