"""C03 (ICU build): the two small LRU caches of ICU objects (DecimalFormat per decimal-format, Collator per language).  When a full cache
takes a new entry, the object that is destroyed is the one owned by the entry that leaves the cache (the last one) - never an object a
remaining entry still points to (use after free, double delete at shutdown) - the cache never exceeds its maximum, and the new entry
holds the new object under the key it was created for."""
from xvlib.unit import Fn, Job, Unit, Mutant

NF = 'src/xalanc/ICUBridge/ICUFormatNumberFunctor.cpp'
IC = 'src/xalanc/ICUBridge/ICUBridgeCollationCompareFunctorImpl.cpp'
TEMPLATE = r'''
#include "xv_shim.h"
typedef struct Obj Obj; typedef struct Key Key; typedef struct Self Self;
/* ghost list: number of entries, the object owned by the last and by the first entry, the key of the first; what was destroyed */
size_t g_size, g_cache_max; Obj* g_back_obj; Obj* g_front_obj; const Key* g_front_key; Obj* g_destroyed; bool g_popped; Obj* g_evicted;
size_t xv_list_size(void) __CPROVER_requires(1) __CPROVER_assigns() __CPROVER_ensures(__CPROVER_return_value == g_size) ;
Obj* xv_back_obj(void) __CPROVER_requires(/* back() of a non-empty list */ g_size > 0) __CPROVER_assigns() __CPROVER_ensures(__CPROVER_return_value == g_back_obj) ;
Obj* xv_front_obj(void) __CPROVER_requires(/* front() of a non-empty list */ g_size > 0) __CPROVER_assigns() __CPROVER_ensures(__CPROVER_return_value == g_front_obj) ;
/* an auto-pointer constructed on p: p is deleted when the scope is left */
void xv_destroy_at_scope_end(Obj* p)
__CPROVER_requires(/* the object handed to the deleting guard is the one owned by the entry about to leave the cache, and only that one */ p != 0 && g_destroyed == 0 && g_size > 0 && p == g_back_obj && (g_size > 1 ==> p != g_front_obj))
__CPROVER_assigns(g_destroyed) __CPROVER_ensures(g_destroyed == p) ;
void xv_pop_back(void)
__CPROVER_requires(g_size > 0 && g_popped == false && /* the entry that is dropped no longer owns a live object nobody will delete */ g_destroyed == g_back_obj)
__CPROVER_assigns(g_size, g_popped, g_back_obj, g_evicted) __CPROVER_ensures(g_size == __CPROVER_old(g_size) - 1 && g_popped == true && g_evicted == __CPROVER_old(g_back_obj) && g_back_obj != g_destroyed) ;
void xv_push_front(void) __CPROVER_requires(1) __CPROVER_assigns(g_size, g_front_obj, g_front_key) __CPROVER_ensures(g_size == __CPROVER_old(g_size) + 1 && g_front_obj == 0 && g_front_key == 0) ;
void xv_front_set_obj(Obj* p) __CPROVER_requires(g_size > 0 && p != 0 && p != g_destroyed) __CPROVER_assigns(g_front_obj) __CPROVER_ensures(g_front_obj == p) ;
void xv_front_set_key(const Key* k) __CPROVER_requires(g_size > 0) __CPROVER_assigns(g_front_key) __CPROVER_ensures(g_front_key == k) ;
@@FN cacheDecimalFormat@@
@@FN cacheCollator@@
static void xv_havoc(void) { size_t n, m; Obj *b, *f; const Key* k; g_size = n; g_cache_max = m; g_back_obj = b; g_front_obj = f; g_front_key = k; g_destroyed = 0; g_popped = false; g_evicted = 0; }
void h_cacheDecimalFormat(void) { xv_havoc(); Obj* o; const Key* k; cacheDecimalFormat(0, o, k); }
void h_cacheCollator(void) { xv_havoc(); Obj* o; const Key* k; cacheCollator(0, o, k); }
'''
CACHE = r'm_(?:decimalFormat|collator)Cache'
R = [(CACHE + r'\.size\(\)', 'xv_list_size()', 1),
     (r'\beCacheMax\b', 'g_cache_max', 1),
     (r'(?:DFAutoPtrType\s+\w+\(\s*m_memoryManager,|XalanAutoPtr<CollatorType>\s+\w+\()\s*([^;]+?)\);', r'xv_destroy_at_scope_end(\1);', (0, 1)),
     (CACHE + r'\.back\(\)\.m_(?:formatter|collator)', 'xv_back_obj()', (0, 1)),
     (CACHE + r'\.front\(\)\.m_(?:formatter|collator)', 'xv_front_obj()', (0, 1)),
     (CACHE + r'\.pop_back\(\);', 'xv_pop_back();', (0, 1)),
     (CACHE + r'\.pop_front\(\);', 'xv_pop_front_not_modelled();', (0, 1)),
     (r'const DecimalFormatCacheListType::value_type\s+emptyDFC\(m_memoryManager\);', '', (0, 1)),
     (CACHE + r'\.push_front\((?:emptyDFC|CollatorCacheListType::value_type\(getMemoryManager\(\)\))\);', 'xv_push_front();', 1),
     (r'(?:DecimalFormatCacheListType|CollatorCacheListType)::value_type&\s+theEntry\s*=\s*' + CACHE + r'\.front\(\);', '', 1),
     (r'theEntry\.m_(?:formatter|collator) = (\w+);', r'xv_front_set_obj(\1);', 1),
     (r'theEntry\.m_(?:DFS|locale) = (\w+);', r'xv_front_set_key(\1);', 1)]
CONTRACT = '''__CPROVER_requires(%(obj)s != 0 && %(key)s != 0 && g_cache_max >= 1 && g_size <= g_cache_max && g_destroyed == 0 && g_popped == false && (g_size > 0 ==> (g_back_obj != 0 && g_front_obj != 0 && g_back_obj != %(obj)s && g_front_obj != %(obj)s)) && (g_size > 1 ==> g_back_obj != g_front_obj))
__CPROVER_assigns(g_size, g_back_obj, g_front_obj, g_front_key, g_destroyed, g_popped, g_evicted)
__CPROVER_ensures(/* the cache stays within its maximum; the new entry is first and holds the new object under its key */ g_size <= g_cache_max && g_size >= 1 && g_front_obj == %(obj)s && g_front_key == %(key)s)
__CPROVER_ensures(/* a full cache drops its last entry and destroys exactly the object that entry owned; otherwise nothing is destroyed */
    __CPROVER_old(g_size) == g_cache_max ? (g_popped == true && g_destroyed != 0 && g_destroyed == g_evicted) : (g_popped == false && g_destroyed == 0))
__CPROVER_ensures(g_destroyed != %(obj)s)'''
UNIT = Unit(
    name='c03_lrucache',
    props=['C03'],
    functions=[
        Fn(NF, r'^ICUFormatNumberFunctor::cacheDecimalFormat\(', 'cacheDecimalFormat', 'void cacheDecimalFormat(const Self* self, Obj* theFormatter, const Key* theDFS)', rules=R, nloops=0,
           contract=CONTRACT % {'obj': 'theFormatter', 'key': 'theDFS'}),
        Fn(IC, r'^ICUBridgeCollationCompareFunctorImpl::cacheCollator\(', 'cacheCollator', 'void cacheCollator(const Self* self, Obj* theCollator, const Key* theLocale)', rules=R, nloops=0,
           contract=CONTRACT % {'obj': 'theCollator', 'key': 'theLocale'}),
    ],
    template=TEMPLATE,
    jobs=[Job(n, 'h_' + n, enforce=[n], replace=['xv_list_size', 'xv_back_obj', 'xv_front_obj', 'xv_destroy_at_scope_end', 'xv_pop_back', 'xv_push_front', 'xv_front_set_obj', 'xv_front_set_key'],
              reach='all', timeout=120, min_obligations=4) for n in ('cacheDecimalFormat', 'cacheCollator')],
    mutants=[
        Mutant('format_cache_destroys_front', NF, r'm_decimalFormatCache\.back\(\)\.m_formatter\);', 'm_decimalFormatCache.front().m_formatter);', expect='about to leave'),
        Mutant('format_cache_one_too_many', NF, r'if \(m_decimalFormatCache\.size\(\) == eCacheMax\)', 'if (m_decimalFormatCache.size() > eCacheMax)', expect='within its maximum'),
        Mutant('collator_cache_leaks_evicted', IC, r'        XalanAutoPtr<CollatorType>  theCollatorGuard\(m_collatorCache\.back\(\)\.m_collator\);\n', '', expect='no longer owns'),
    ],
    mechanisms=['ICU object caches (format-number, collation)'],
    assumptions=['XalanList size/back/front/pop_back/push_front have the std::list meaning; the list is observed through its size and the objects owned by its first and last entry; entries own distinct objects (representation invariant, assumed on entry and re-established for the new entry)',
                 'XalanAutoPtr / XalanMemMgrAutoPtr delete their pointer when the scope is left'],
)
