"""C17: the format-token scanner of xsl:number (ElemNumber::NumberFormatStringTokenizer).  nextToken() returns the maximal run of
characters of one class (alphanumeric / not) that starts at the current position and advances past it; it never reads outside the
NUL-terminated format string (C03)."""
from xvlib.unit import Fn, Job, Unit, Mutant

EN = 'src/xalanc/XSLT/ElemNumber.cpp'
TEMPLATE = r'''
#include "xv_shim.h"
typedef struct Self { size_t m_currentPosition; size_t m_maxPosition; const XalanDOMChar* m_string; } Self; typedef struct Str XalanDOMString;
/* the letter-or-digit classification of XalanXMLChar is abstract: any fixed function of the unit.  Three units are tracked: the one the scanner
   stands on (s), the one at the witness index (w) and one arbitrary other unit (e); the stub answers consistently for them */
XalanDOMChar g_cs, g_cw, g_ce; bool g_cls_s, g_cls_w, g_cls_e;
size_t g_w;                /* witness index */
#define CLS_OK ((g_cs == g_cw ==> g_cls_s == g_cls_w) && (g_cs == g_ce ==> g_cls_s == g_cls_e) && (g_cw == g_ce ==> g_cls_w == g_cls_e) \
                && (g_cls_s == true || g_cls_s == false) && (g_cls_w == true || g_cls_w == false) && (g_cls_e == true || g_cls_e == false))
bool g_tok_set, g_tok_cleared; size_t g_tok_start, g_tok_end;
bool isXMLLetterOrDigit(XalanDOMChar c) __CPROVER_requires(1) __CPROVER_assigns()
__CPROVER_ensures((__CPROVER_return_value == true || __CPROVER_return_value == false) && (c == g_cs ==> __CPROVER_return_value == g_cls_s) && (c == g_cw ==> __CPROVER_return_value == g_cls_w) && (c == g_ce ==> __CPROVER_return_value == g_cls_e)) ;
void xv_token_clear(XalanDOMString* t) __CPROVER_requires(1) __CPROVER_assigns(g_tok_cleared) __CPROVER_ensures(g_tok_cleared == true) ;
void xv_token_set(const XalanDOMChar* s, XalanDOMString* t, size_t start, size_t end)      /* substring(*m_string, theToken, start, end) */
__CPROVER_requires(/* the token is a range inside the format string */ start <= end) __CPROVER_assigns(g_tok_set, g_tok_start, g_tok_end)
__CPROVER_ensures(g_tok_set == true && g_tok_start == start && g_tok_end == end) ;
#define STR_OK(s) (__CPROVER_is_fresh((s), sizeof(*(s))) && (s)->m_maxPosition <= ((size_t)1 << 40) && (s)->m_currentPosition <= (s)->m_maxPosition \
                   && __CPROVER_is_fresh((s)->m_string, ((s)->m_maxPosition + 1) * sizeof(XalanDOMChar)) && CLS_OK \
                   && g_cs == (s)->m_string[(s)->m_currentPosition] && (g_w <= (s)->m_maxPosition ==> g_cw == (s)->m_string[g_w]))
@@FN nextToken@@
void h_nextToken(void) { size_t w; XalanDOMChar a, b, c; bool x, y, z; g_w = w; g_cs = a; g_cw = b; g_ce = c; g_cls_s = XV_BOOL(x); g_cls_w = XV_BOOL(y); g_cls_e = XV_BOOL(z); g_tok_set = false; g_tok_cleared = false; Self* s; nextToken(s, 0); }
'''
R = [(r'\(\*m_string\)\[(\w+)\]', r'self->m_string[\1]', None),
     (r'theToken\.clear\(\);', 'xv_token_clear(theToken);', (0, 1)),
     (r'substring\(\*m_string, theToken, start, m_currentPosition\);', 'xv_token_set(self->m_string, theToken, start, m_currentPosition);', (0, 1)),
     (r'\bm_(currentPosition|maxPosition)\b', r'self->m_\1', None),
     (r'\bsize_type\b', 'size_t', None)]
LD0 = 'g_ld[self->m_string[start]]'
def run_inv(var, cls_expr):
    return ('__CPROVER_assigns(%s)\n'
            '__CPROVER_loop_invariant(start <= %s && %s <= self->m_maxPosition)\n'
            '__CPROVER_loop_invariant(/* everything scanned so far belongs to the class of the first character (witness) */ (start <= g_w && g_w < %s) ==> g_cls_w == %s)\n'
            '__CPROVER_decreases(self->m_maxPosition - %s)') % (var, var, var, var, cls_expr, var)
UNIT = Unit(
    name='c17_tokenizer',
    props=['C17', 'C03'],
    functions=[
        Fn(EN, r'^ElemNumber::NumberFormatStringTokenizer::nextToken\(XalanDOMString&\s+theToken\)', 'nextToken', 'void nextToken(Self* self, XalanDOMString* theToken)', rules=R, nloops=2,
           loops={0: run_inv('self->m_currentPosition', 'true') .replace('__CPROVER_decreases', '__CPROVER_loop_invariant(g_cls_s == true)\n__CPROVER_decreases'), 1: run_inv('self->m_currentPosition', 'false').replace('__CPROVER_decreases', '__CPROVER_loop_invariant(g_cls_s == false)\n__CPROVER_decreases')},
           contract='''__CPROVER_requires(STR_OK(self) && /* NUL-terminated */ self->m_string[self->m_maxPosition] == 0 && g_tok_set == false && g_tok_cleared == false)
__CPROVER_assigns(self->m_currentPosition, g_tok_set, g_tok_cleared, g_tok_start, g_tok_end)
__CPROVER_ensures(/* the token starts where the scanner stood and the scanner moves to its end */ g_tok_set == true && g_tok_start == __CPROVER_old(self->m_currentPosition) && g_tok_end == self->m_currentPosition && self->m_currentPosition <= self->m_maxPosition)
__CPROVER_ensures(/* a token is not empty unless the string is exhausted */ __CPROVER_old(self->m_currentPosition) < self->m_maxPosition ==> g_tok_start < g_tok_end)
__CPROVER_ensures(/* all characters of the token are of one class, alphanumeric or not (witness) */ (g_tok_start <= g_w && g_w < g_tok_end) ==> g_cls_w == g_cls_s)
__CPROVER_ensures(/* the token is maximal: it ends at the end of the string or before a character of the other class */
    (g_tok_start < g_tok_end && g_tok_end < self->m_maxPosition && self->m_string[g_tok_end] == g_ce) ==> g_cls_e != g_cls_s)'''),
    ],
    template=TEMPLATE,
    jobs=[Job('nextToken', 'h_nextToken', enforce=['nextToken'], replace=['isXMLLetterOrDigit', 'xv_token_clear', 'xv_token_set'], loop_contracts=True, reach='all', timeout=600, min_obligations=8)],
    mutants=[
        Mutant('token_not_maximal', EN, r'(NumberFormatStringTokenizer::nextToken\(XalanDOMString&  theToken\).*?while \(m_currentPosition < m_maxPosition &&\s*)isXMLLetterOrDigit\(\(\*m_string\)\[m_currentPosition\]\)\)', r'\1isXMLLetterOrDigit((*m_string)[m_currentPosition]) && m_currentPosition < start + 1)', expect='maximal'),
        Mutant('scan_past_end', EN, r'(NumberFormatStringTokenizer::nextToken\(XalanDOMString&  theToken\).*?else\s*\{\s*while \()m_currentPosition < m_maxPosition &&\s*', r'\1', expect=None),
        Mutant('mixed_classes', EN, r'(NumberFormatStringTokenizer::nextToken\(XalanDOMString&  theToken\).*?else\s*\{\s*while \(m_currentPosition < m_maxPosition &&\s*)!isXMLLetterOrDigit', r'\1isXMLLetterOrDigit', expect=None),
    ],
    mechanisms=['format token parsing and alphabetic / roman / grouped decimal rendering'],
    assumptions=['isXMLLetterOrDigit is a fixed classification of UTF-16 units (abstract: instantiated at the scanner position, the witness index and one arbitrary other unit)',
                 'substring(s, token, start, end) copies s[start, end) (DOMStringHelper, c20_string); the format string is NUL-terminated (XalanDOMString)',
                 'countTokens() and the fact that formatNumberList calls nextToken exactly countTokens() times are not under contract (a deterministic 65536-entry classification table made that job time out)'],
)
