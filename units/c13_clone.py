"""C13: copying nodes to the result tree.  A text node is written unless it is a SOURCE node the declarations strip:
source subtrees (xsl:copy-of / xsl:copy of source nodes) consult the declarations for every text node, result tree
fragments (the stylesheet's own trees) never do."""
from xvlib.unit import Fn, Job, Unit, Mutant

EN = 'src/xalanc/XSLT/XSLTEngineImpl.cpp'

TEMPLATE = r'''
#include "xv_shim.h"
typedef struct Self Self; typedef struct XalanNode XalanNode; typedef struct XalanNode XalanText; typedef struct XalanNode XalanDocumentFragment; typedef struct Locator Locator;
typedef int XalanNode_NodeType;
enum { XalanNode_UNKNOWN_NODE = 0, XalanNode_ELEMENT_NODE = 1, XalanNode_ATTRIBUTE_NODE = 2, XalanNode_TEXT_NODE = 3, XalanNode_CDATA_SECTION_NODE = 4, XalanNode_ENTITY_REFERENCE_NODE = 5,
       XalanNode_ENTITY_NODE = 6, XalanNode_PROCESSING_INSTRUCTION_NODE = 7, XalanNode_COMMENT_NODE = 8, XalanNode_DOCUMENT_NODE = 9, XalanNode_DOCUMENT_TYPE_NODE = 10,
       XalanNode_DOCUMENT_FRAGMENT_NODE = 11, XalanNode_NOTATION_NODE = 12 };
/* ghost */
bool g_strip_answer, g_asked, g_written; const XalanNode* g_written_node; bool g_expect_override; bool g_leaf_called; const XalanNode* g_leaf_node; int g_walk; enum { W_NONE, W_SOURCE, W_FRAGMENT };
bool xv_shouldStrip(const Self* self, const XalanText* t) __CPROVER_requires(t != 0) __CPROVER_assigns(g_asked) __CPROVER_ensures(g_asked == true && __CPROVER_return_value == g_strip_answer) ;
void xv_characters_of(Self* self, const XalanText* t) __CPROVER_requires(t != 0 && g_written == false) __CPROVER_assigns(g_written, g_written_node) __CPROVER_ensures(g_written == true && g_written_node == t) ;
/* cloneToResultTree(const XalanText&, bool overrideStrip): contract enforced in job text_leaf */
void xv_clone_text(Self* self, const XalanText* t, bool overrideStrip)
__CPROVER_requires(t != 0)
__CPROVER_requires(/* the dispatcher hands its own overrideStrip argument to the text leaf unchanged */ overrideStrip == g_expect_override)
__CPROVER_assigns(g_leaf_called, g_leaf_node) __CPROVER_ensures(g_leaf_called == true && g_leaf_node == t) ;
void xv_other_output(Self* self) __CPROVER_requires(1) __CPROVER_assigns() __CPROVER_ensures(1) ;
/* cloneToResultTree(node, type, overrideStrip, shouldCloneAttributes, cloneTextNodesOnly, locator): contract enforced in job dispatch */
void xv_clone_node(Self* self, const XalanNode* n, int type, bool overrideStrip, bool attrs, bool textOnly, const Locator* l)
__CPROVER_requires(n != 0)
__CPROVER_requires(/* source subtrees consult the strip declarations for every text node; result tree fragments never do */ overrideStrip == (g_walk == W_FRAGMENT))
__CPROVER_assigns() __CPROVER_ensures(1) ;
void xv_outputResultTreeFragment(Self* self, const XalanNode* n, bool textOnly, const Locator* l) __CPROVER_requires(n != 0) __CPROVER_assigns() __CPROVER_ensures(1) ;
int xv_node_type(const XalanNode* n) __CPROVER_requires(n != 0) __CPROVER_assigns() __CPROVER_ensures(__CPROVER_return_value >= 1 && __CPROVER_return_value <= 12) ;
const XalanNode* xv_first_child(const XalanNode* n) __CPROVER_requires(n != 0) __CPROVER_assigns() __CPROVER_ensures(1) ;
const XalanNode* xv_next_sibling(const XalanNode* n) __CPROVER_requires(n != 0) __CPROVER_assigns() __CPROVER_ensures(1) ;
const XalanNode* g_root;
/* tree fact: every node other than the root of the walk has a parent */
const XalanNode* xv_parent(const XalanNode* n) __CPROVER_requires(n != 0) __CPROVER_assigns() __CPROVER_ensures(n != g_root ==> __CPROVER_return_value != 0) ;

@@FN clone_text@@
@@FN clone_dispatch@@
@@FN clone_source@@
@@FN output_fragment@@
void h_text_leaf(void) { bool s; g_strip_answer = XV_BOOL(s); g_asked = false; g_written = false; g_written_node = 0; Self* p; XalanNode* n; bool o; clone_text(p, n, XV_BOOL(o)); }
void h_dispatch(void) { bool e; g_expect_override = XV_BOOL(e); g_leaf_called = false; g_leaf_node = 0; Self* p; XalanNode* n; int t; bool a, c; clone_dispatch(p, n, t, g_expect_override, XV_BOOL(a), XV_BOOL(c), 0); }
void h_source(void) { g_walk = W_SOURCE; Self* p; XalanNode* n; g_root = n; bool c; clone_source(p, n, XV_BOOL(c), 0); }
void h_fragment(void) { g_walk = W_FRAGMENT; Self* p; XalanNode* n; g_root = 0; bool c; output_fragment(p, n, XV_BOOL(c), 0); }
'''

COMMON = ['SCOPE',
          (r'assert\(m_executionContext != 0(?: && m_stylesheetRoot != 0)?\);', '', (0, 1)),
          (r'assert\(node\.getParentNode\(\) == 0 \|\|\s*node\.getParentNode\(\)->getNodeType\(\) != XalanNode_DOCUMENT_NODE\);', '', (0, 1)),
          (r'assert\(nodeType == node\.getNodeType\(\)\);', '', (0, 1)),
          (r'm_executionContext->shouldStripSourceNode\(node\)', 'xv_shouldStrip(self, node)', (0, 1)),
          (r'const XalanDOMString&\s+data = node\.getData\(\);\s*(?://[^\n]*\n\s*)*characters\(data\.c_str\(\), 0, data\.length\(\)\);', 'xv_characters_of(self, node);', (0, 1)),
          (r'warnCopyTextNodesOnly\(\s*&?(\w+),\s*locator\);', 'xv_other_output(self);', (0, 2)),
          (r'const XalanText&\s+tx =\s*static_cast<const XalanText&>\(node\);', 'const XalanText* const tx = node;', (0, 2)),
          (r'(?<![\w.>])cloneToResultTree\(tx, (\w+)\);', r'xv_clone_text(self, tx, \1);', (0, 2)),
          # the non-text cases of the dispatcher's switch write elements, attributes, comments ...: collapsed (they never consult strip declarations)
          (r'case XalanNode_ELEMENT_NODE:\s*\{\s*const XalanDOMString&\s+theElementName.*?(?=\n        \}\n    \}\n\}\s*$)', 'default: xv_other_output(self); break;', (0, 1)),
          (r'XalanNode_NodeType\s+posNodeType = (\w+)(?:\.|->)getNodeType\(\);', r'XalanNode_NodeType posNodeType = xv_node_type(\1);', (0, 1)),
          (r'posNodeType = pos->getNodeType\(\);', 'posNodeType = xv_node_type(pos);', (0, 3)),
          (r'outputResultTreeFragment\(\s*static_cast<const XalanDocumentFragment&>\(node\),\s*cloneTextNodesOnly,\s*locator\);', 'xv_outputResultTreeFragment(self, node, cloneTextNodesOnly, locator);', (0, 1)),
          (r'const XalanNode\*\s+pos = &node;', 'const XalanNode* pos = node;', (0, 1)),
          (r'&node == pos', 'node == pos', (0, 2)),
          (r'flushPending\(\);', 'xv_other_output(self);', (0, 1)),
          (r'(?<![\w.>])cloneToResultTree\(\s*\*pos,\s*posNodeType,\s*(\w+),\s*(\w+),\s*(\w+),\s*locator\);', r'xv_clone_node(self, pos, posNodeType, \1, \2, \3, locator);', (0, 1)),
          (r'pos->getFirstChild\(\)', 'xv_first_child(pos)', (0, 1)), (r'pos->getNextSibling\(\)', 'xv_next_sibling(pos)', (0, 1)), (r'pos->getParentNode\(\)', 'xv_parent(pos)', (0, 1)),
          (r'endElement\(pos->getNodeName\(\)\.c_str\(\)\);', 'xv_other_output(self);', (0, 2)),
          (r'for\(XalanNode\* child = theTree\.getFirstChild\(\); child != 0; child = child->getNextSibling\(\)\)', 'for(const XalanNode* child = xv_first_child(theTree); child != 0; child = xv_next_sibling(child))', (0, 1)),
          (r'XalanNode\*\s+pos = child;', 'const XalanNode* pos = child;', (0, 1)),
          (r'XalanNode\* const\s+top = pos;', 'const XalanNode* const top = pos;', (0, 1)),
          (r'XalanNode\*\s+nextNode = ', 'const XalanNode* nextNode = ', (0, 1)),
          (r'XalanNode_NodeType\s+posNodeType = pos->getNodeType\(\);', 'XalanNode_NodeType posNodeType = xv_node_type(pos);', (0, 1)),
          ]
WALK_LOOP = '__CPROVER_assigns(pos, posNodeType, nextNode)\n__CPROVER_loop_invariant(1)'
WALK_OUTER = '__CPROVER_assigns(pos, posNodeType)\n__CPROVER_loop_invariant(1)'

UNIT = Unit(
    name='c13_clone',
    props=['C13'],
    functions=[
        Fn(EN, r'^XSLTEngineImpl::cloneToResultTree\(\s*const XalanText&\s+node,\s*bool\s+overrideStrip\)', 'clone_text', 'void clone_text(Self* self, const XalanText* node, bool overrideStrip)',
           rules=COMMON, nloops=0,
           contract='''__CPROVER_requires(node != 0 && g_written == false && g_asked == false && (overrideStrip == true || overrideStrip == false))
__CPROVER_assigns(g_asked, g_written, g_written_node)
__CPROVER_ensures(/* a text node is written unless it is a source node that the declarations strip; overrideStrip (result tree fragments) writes it unconditionally */
    g_written == (overrideStrip == true || g_strip_answer == false) && (g_written == true ==> g_written_node == node))'''),
        Fn(EN, r'^XSLTEngineImpl::cloneToResultTree\(\s*const XalanNode&\s+node,\s*XalanNode::NodeType\s+nodeType,\s*bool\s+overrideStrip,', 'clone_dispatch',
           'void clone_dispatch(Self* self, const XalanNode* node, XalanNode_NodeType nodeType, bool overrideStrip, bool shouldCloneAttributes, bool cloneTextNodesOnly, const Locator* locator)',
           rules=COMMON, nloops=0,
           contract='''__CPROVER_requires(node != 0 && g_leaf_called == false && overrideStrip == g_expect_override)
__CPROVER_assigns(g_leaf_called, g_leaf_node)
__CPROVER_ensures(/* every text node goes through the strip-aware text leaf */ nodeType == XalanNode_TEXT_NODE ==> (g_leaf_called == true && g_leaf_node == node))
__CPROVER_ensures(nodeType != XalanNode_TEXT_NODE ==> g_leaf_called == false)'''),
        Fn(EN, r'^XSLTEngineImpl::cloneToResultTree\(\s*const XalanNode&\s+node,\s*bool\s+cloneTextNodesOnly,\s*const Locator\*\s+locator\)', 'clone_source',
           'void clone_source(Self* self, const XalanNode* node, bool cloneTextNodesOnly, const Locator* locator)',
           rules=COMMON, nloops=2, loops={0: WALK_OUTER + '\n', 1: '__CPROVER_assigns(pos, posNodeType, nextNode)\n__CPROVER_loop_invariant(pos != 0)'},
           contract='''__CPROVER_requires(node != 0 && g_walk == W_SOURCE && g_root == node)
__CPROVER_assigns()
__CPROVER_ensures(1)'''),
        Fn(EN, r'^XSLTEngineImpl::outputResultTreeFragment\(\s*const XalanDocumentFragment&\s+theTree,', 'output_fragment',
           'void output_fragment(Self* self, const XalanDocumentFragment* theTree, bool outputTextNodesOnly, const Locator* locator)',
           rules=COMMON, nloops=3, loops={0: '__CPROVER_loop_invariant(1)', 1: '__CPROVER_assigns(pos, posNodeType)\n__CPROVER_loop_invariant(1)', 2: '__CPROVER_assigns(pos, posNodeType, nextNode)\n__CPROVER_loop_invariant(pos != 0)'},
           contract='''__CPROVER_requires(theTree != 0 && g_walk == W_FRAGMENT)
__CPROVER_assigns()
__CPROVER_ensures(1)'''),
    ],
    template=TEMPLATE,
    jobs=[Job('text_leaf', 'h_text_leaf', enforce=['clone_text'], replace=['xv_shouldStrip', 'xv_characters_of'], reach='all', timeout=120, min_obligations=2),
          Job('dispatch', 'h_dispatch', enforce=['clone_dispatch'], replace=['xv_clone_text', 'xv_other_output'], reach='all', timeout=120, min_obligations=3),
          Job('source_walk', 'h_source', enforce=['clone_source'], replace=['xv_clone_node', 'xv_other_output', 'xv_outputResultTreeFragment', 'xv_node_type', 'xv_first_child', 'xv_next_sibling', 'xv_parent'],
              loop_contracts=True, reach='all', timeout=600, min_obligations=3, flags=['--object-bits', '12']),
          Job('fragment_walk', 'h_fragment', enforce=['output_fragment'], replace=['xv_clone_node', 'xv_other_output', 'xv_node_type', 'xv_first_child', 'xv_next_sibling', 'xv_parent'],
              loop_contracts=True, reach='all', timeout=600, min_obligations=3, flags=['--object-bits', '12'])],
    mutants=[
        Mutant('fragment_consults_strip', EN, r'cloneToResultTree\(\*pos, posNodeType, true, true, false, locator\);', 'cloneToResultTree(*pos, posNodeType, false, true, false, locator);', expect='result tree fragments never do'),
        Mutant('leaf_and_instead_of_or', EN, r'if \(overrideStrip == true \|\|\s*m_executionContext->shouldStripSourceNode\(node\) == false\)', 'if (overrideStrip == true &&\n        m_executionContext->shouldStripSourceNode(node) == false)', expect='a text node is written unless'),
        Mutant('dispatch_forces_override', EN, r'(\n            \{\n                const XalanText&    tx =\s*static_cast<const XalanText&>\(node\);\s*)cloneToResultTree\(tx, overrideStrip\);(\s*\}\s*break;)', r'\1cloneToResultTree(tx, true);\2', expect='unchanged'),
    ],
    mechanisms=['copy-of / copy of source nodes consult shouldStripSourceNode', 'result tree fragments bypass stripping (overrideStrip)', 'copying source nodes to the result'],
    assumptions=['the non-text cases of the node dispatcher (elements, attributes, comments, ...) are collapsed to one stub: they do not consult strip declarations',
                 'the two tree walks are checked for the strip discipline of every clone call only (loop invariant "true"); that they visit every descendant exactly once, and terminate, is not proved',
                 'DOM accessors return arbitrary nodes'],
)
