"""C20: XalanDeque::resize(n) leaves the deque with exactly n elements, like std::deque::resize."""
from xvlib.unit import Fn, Job, Unit, Mutant

XD = 'src/xalanc/Include/XalanDeque.hpp'
TEMPLATE = r'''
#include "xv_shim.h"
typedef struct Self Self; typedef size_t size_type;
size_t g_size; size_t g_pushed, g_popped;
static size_t xv_size(const Self* s) { return g_size; }
void xv_push_back_default(Self* s) __CPROVER_requires(g_size < ((size_t)1 << 60)) __CPROVER_assigns(g_size, g_pushed) __CPROVER_ensures(g_size == __CPROVER_old(g_size) + 1 && g_pushed == __CPROVER_old(g_pushed) + 1) ;
void xv_pop_back(Self* s) __CPROVER_requires(/* pop_back of a non-empty deque */ g_size > 0) __CPROVER_assigns(g_size, g_popped) __CPROVER_ensures(g_size == __CPROVER_old(g_size) - 1 && g_popped == __CPROVER_old(g_popped) + 1) ;
@@FN resize@@
void h_resize(void) { size_t a; g_size = a; g_pushed = 0; g_popped = 0; size_t n; resize(0, n); }
'''
R = [(r'const ConstructableType\s+defaultValue\(\*m_memoryManager\);', '', 1),
     (r'(?<![\w.>])size\(\)', 'xv_size(self)', None),
     (r'push_back\(defaultValue\.value\);', 'xv_push_back_default(self);', 1),
     (r'(?<![\w.>])pop_back\(\);', 'xv_pop_back(self);', 1)]
UNIT = Unit(
    name='c20_deque',
    props=['C20'],
    functions=[Fn(XD, r'^\s+resize\(size_type\s+newSize\)', 'resize', 'void resize(Self* self, size_type newSize)', rules=R, nloops=2,
                  loops={0: '__CPROVER_assigns(i, g_size, g_pushed)\n__CPROVER_loop_invariant(/* i elements appended so far, never beyond the requested size */ i <= newSize && g_size <= newSize && g_size == __CPROVER_loop_entry(g_size) + i && g_pushed == i)\n__CPROVER_decreases(newSize - g_size)',
                         1: '__CPROVER_assigns(i, g_size, g_popped)\n__CPROVER_loop_invariant(/* i elements removed so far, never below the requested size */ i <= __CPROVER_loop_entry(g_size) && g_size >= newSize && g_size + i == __CPROVER_loop_entry(g_size) && g_popped == i)\n__CPROVER_decreases(g_size - newSize)'},
                  contract='''__CPROVER_requires(g_size <= ((size_t)1 << 40) && newSize <= ((size_t)1 << 40) && g_pushed == 0 && g_popped == 0)
__CPROVER_assigns(g_size, g_pushed, g_popped)
__CPROVER_ensures(/* like std::deque::resize: exactly newSize elements afterwards */ g_size == newSize)
__CPROVER_ensures(/* only default elements appended at the back, or elements removed from the back */ (g_pushed == 0 || g_popped == 0))''')],
    template=TEMPLATE,
    jobs=[Job('resize', 'h_resize', enforce=['resize'], replace=['xv_push_back_default', 'xv_pop_back'], loop_contracts=True, reach='all', timeout=300, min_obligations=4)],
    mutants=[Mutant('bound_recomputed_each_pass', XD, r'const size_type     theCount = newSize - size\(\);\s*for \(size_type i = 0; i < theCount; \+\+i\)', 'for (size_type i = 0; i < newSize - size(); ++i)', expect='exactly newSize')],
    mechanisms=['XalanDeque block management (resize)', 'deque block management'],
    assumptions=['push_back / pop_back change the size by one (the block index is not modelled)'],
)
