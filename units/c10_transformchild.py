"""C10: which rule is instantiated for a node (ElemTemplateElement::findTemplateToTransformChild, shared by xsl:apply-templates and
xsl:apply-imports).  The rule is the caller's, else what findTemplate gives - searched in the whole stylesheet for apply-templates, in the
imports of the current rule's stylesheet for apply-imports, in the current mode - else the BUILT-IN rule for the node type (XSLT 5.8), for
apply-imports too: children processed for elements and the root, text copied for text and attributes, nothing for the rest."""
from xvlib.unit import Fn, Job, Unit, Mutant

ET = 'src/xalanc/XSLT/ElemTemplateElement.cpp'
TEMPLATE = r'''
#include "xv_shim.h"
typedef struct Ctx Ctx; typedef struct XalanNode XalanNode; typedef struct Instr Instr; typedef struct Self Self; typedef long Tmpl; typedef int XalanNode_NodeType; typedef int Tree;
enum { XalanNode_ELEMENT_NODE = 1, XalanNode_ATTRIBUTE_NODE = 2, XalanNode_TEXT_NODE = 3, XalanNode_CDATA_SECTION_NODE = 4, XalanNode_ENTITY_REFERENCE_NODE = 5, XalanNode_ENTITY_NODE = 6,
       XalanNode_PROCESSING_INSTRUCTION_NODE = 7, XalanNode_COMMENT_NODE = 8, XalanNode_DOCUMENT_NODE = 9, XalanNode_DOCUMENT_TYPE_NODE = 10, XalanNode_DOCUMENT_FRAGMENT_NODE = 11, XalanNode_NOTATION_NODE = 12 };
enum { T_NONE = 0, T_DEFAULT_RULE = 1, T_DEFAULT_TEXT_RULE = 2, T_DEFAULT_ROOT_RULE = 3 };       /* user rules are > 3 */
enum { TREE_NONE = 0, TREE_ROOT = 1, TREE_OF_CURRENT_TEMPLATE = 2 };
/* ghost */
bool g_apply_imports; Tmpl g_found; bool g_searched; Tree g_searched_tree; bool g_searched_imports_only; bool g_ns_decl; size_t g_attr_len;
bool g_text_copied, g_chars_emitted, g_traced; const XalanNode* g_child;
bool xv_is_apply_imports(const Instr* i) __CPROVER_requires(1) __CPROVER_assigns() __CPROVER_ensures(__CPROVER_return_value == g_apply_imports) ;
bool xv_has_current_template(Ctx* c) __CPROVER_requires(1) __CPROVER_assigns() __CPROVER_ensures(g_apply_imports ==> __CPROVER_return_value == true) ;
Tmpl xv_findTemplate(Tree t, Ctx* c, XalanNode* child, int nodeType, bool onlyImports)
__CPROVER_requires(t != TREE_NONE && child == g_child && g_searched == false) __CPROVER_assigns(g_searched, g_searched_tree, g_searched_imports_only)
__CPROVER_ensures(g_searched == true && g_searched_tree == t && g_searched_imports_only == onlyImports && __CPROVER_return_value == g_found) ;
bool xv_is_ns_decl(const XalanNode* n) __CPROVER_requires(n == g_child) __CPROVER_assigns() __CPROVER_ensures(__CPROVER_return_value == g_ns_decl) ;
void xv_clone_text(Ctx* c, const XalanNode* n, int type, bool overrideStrip, bool shouldCloneAttributes) __CPROVER_requires(n == g_child && type == XalanNode_TEXT_NODE && g_text_copied == false) __CPROVER_assigns(g_text_copied) __CPROVER_ensures(g_text_copied == true) ;
size_t xv_value_length(const XalanNode* n) __CPROVER_requires(n == g_child) __CPROVER_assigns() __CPROVER_ensures(__CPROVER_return_value == g_attr_len) ;
void xv_characters(Ctx* c, const XalanNode* n, size_t start, size_t len) __CPROVER_requires(n == g_child && start == 0 && len == g_attr_len && len > 0 && g_chars_emitted == false) __CPROVER_assigns(g_chars_emitted) __CPROVER_ensures(g_chars_emitted == true) ;
bool xv_tracing(Ctx* c) __CPROVER_requires(1) __CPROVER_assigns() __CPROVER_ensures(__CPROVER_return_value == true || __CPROVER_return_value == false) ;
void xv_trace(Ctx* c, Tmpl t) __CPROVER_requires(t > T_NONE) __CPROVER_assigns(g_traced) __CPROVER_ensures(g_traced == true) ;
#define BUILTIN(type) (((type) == XalanNode_ELEMENT_NODE || (type) == XalanNode_DOCUMENT_FRAGMENT_NODE) ? T_DEFAULT_RULE : ((type) == XalanNode_TEXT_NODE || (type) == XalanNode_CDATA_SECTION_NODE) ? T_DEFAULT_TEXT_RULE : \
                       ((type) == XalanNode_ATTRIBUTE_NODE && !g_ns_decl) ? T_DEFAULT_TEXT_RULE : (type) == XalanNode_DOCUMENT_NODE ? T_DEFAULT_ROOT_RULE : T_NONE)
#define EFFECTIVE(given, type) ((given) != T_NONE ? (given) : g_found != T_NONE ? g_found : BUILTIN(type))
@@FN findTemplateToTransformChild@@
void h_findTemplateToTransformChild(void)
{
    bool a, n; Tmpl f, t; size_t l; const XalanNode* c; int ty; __CPROVER_assume(c != 0 && f >= 0 && t >= 0 && ty >= 1 && ty <= 12);
    g_apply_imports = XV_BOOL(a); g_found = f; g_searched = false; g_searched_tree = TREE_NONE; g_ns_decl = XV_BOOL(n); g_attr_len = l; g_text_copied = false; g_chars_emitted = false; g_traced = false; g_child = c;
    findTemplateToTransformChild(0, 0, 0, t, (XalanNode*)c, ty);
}
'''
R = ['SCOPE',
     (r'xslInstruction\.getXSLToken\(\) ==\s*StylesheetConstructionContext_ELEMNAME_APPLY_IMPORTS', 'xv_is_apply_imports(xslInstruction)', 1),
     (r'executionContext\.getCurrentTemplate\(\) != 0', 'xv_has_current_template(executionContext)', (0, 1)),
     (r'const Stylesheet\*\s+stylesheetTree', 'const Tree stylesheetTree', 1),
     (r'&executionContext\.getCurrentTemplate\(\)->getStylesheet\(\)', 'TREE_OF_CURRENT_TEMPLATE', (0, 1)),
     (r'&getStylesheet\(\)\.getStylesheetRoot\(\)', 'TREE_ROOT', (0, 1)),
     (r'(\w+)->findTemplate\(\s*executionContext,\s*child,\s*nodeType,\s*\*executionContext\.getCurrentMode\(\),\s*(\w+)\)', r'xv_findTemplate(\1, executionContext, child, nodeType, \2)', 1),
     (r'getStylesheet\(\)\.getStylesheetRoot\(\)\.getDefaultRule\(\)', 'T_DEFAULT_RULE', (0, 2)),
     (r'getStylesheet\(\)\.getStylesheetRoot\(\)\.getDefaultTextRule\(\)', 'T_DEFAULT_TEXT_RULE', (1, 4)),
     (r'getStylesheet\(\)\.getStylesheetRoot\(\)\.getDefaultRootRule\(\)', 'T_DEFAULT_ROOT_RULE', (0, 2)),
     (r'DOMServices_isNamespaceDeclaration\(static_cast<const XalanAttr&>\(\*child\)\)', 'xv_is_ns_decl(child)', (0, 1)),
     (r'DOMServices::isNamespaceDeclaration\(static_cast<const XalanAttr&>\(\*child\)\)', 'xv_is_ns_decl(child)', (0, 1)),
     (r'executionContext\.cloneToResultTree\(\s*\*child,\s*(\w+),\s*(\w+),\s*(\w+),\s*getLocator\(\)\);', r'xv_clone_text(executionContext, child, \1, \2, \3);', (0, 1)),
     (r'const XalanDOMString&\s+val = child->getNodeValue\(\);', '', (0, 1)),
     (r'const XalanDOMString_size_type\s+len = val\.length\(\);', 'const size_t len = xv_value_length(child);', (0, 1)),
     (r'executionContext\.characters\(\s*val\.c_str\(\),\s*(\w+),\s*(\w+)\);', r'xv_characters(executionContext, child, \1, \2);', (0, 1)),
     (r'if\(0 != executionContext\.getTraceListeners\(\)\)\s*\{\s*const TracerEvent\s+te\(executionContext,\s*\*theTemplate\);\s*executionContext\.fireTraceEvent\(te\);', 'if (xv_tracing(executionContext)) { xv_trace(executionContext, theTemplate);', (0, 1))]
UNIT = Unit(
    name='c10_transformchild',
    props=['C10'],
    functions=[
        Fn(ET, r'^ElemTemplateElement::findTemplateToTransformChild\(\s*StylesheetExecutionContext&\s+executionContext,\s*const ElemTemplateElement&\s+xslInstruction,\s*const ElemTemplateElement\*\s+theTemplate,\s*XalanNode\*\s+child,\s*XalanNode::NodeType\s+nodeType\) const',
           'findTemplateToTransformChild', 'Tmpl findTemplateToTransformChild(const Self* self, Ctx* executionContext, const Instr* xslInstruction, Tmpl theTemplate, XalanNode* child, XalanNode_NodeType nodeType)', rules=R, nloops=0,
           contract='''__CPROVER_requires(child != 0 && child == g_child && theTemplate >= 0 && g_found >= 0 && nodeType >= 1 && nodeType <= 12 && g_searched == false && g_text_copied == false && g_chars_emitted == false && g_traced == false)
__CPROVER_requires(/* user rules are not the built-in ones; the caller never passes a built-in rule */ theTemplate != T_DEFAULT_RULE && theTemplate != T_DEFAULT_TEXT_RULE && theTemplate != T_DEFAULT_ROOT_RULE && g_found != T_DEFAULT_RULE && g_found != T_DEFAULT_TEXT_RULE && g_found != T_DEFAULT_ROOT_RULE)
__CPROVER_assigns(g_searched, g_searched_tree, g_searched_imports_only, g_text_copied, g_chars_emitted, g_traced)
__CPROVER_ensures(/* the search: none when the caller has the rule; else apply-imports searches the imports of the current rule's stylesheet, apply-templates the whole stylesheet */
    __CPROVER_old(theTemplate) != T_NONE ? g_searched == false : (g_searched == true && g_searched_imports_only == g_apply_imports && g_searched_tree == (g_apply_imports ? TREE_OF_CURRENT_TEMPLATE : TREE_ROOT)))
__CPROVER_ensures(/* the rule: given, else found, else the built-in rule for the node type - also for apply-imports; the built-in text rule is carried out on the spot */
    EFFECTIVE(__CPROVER_old(theTemplate), nodeType) == T_DEFAULT_TEXT_RULE
        ? (__CPROVER_return_value == 0 && (nodeType == XalanNode_ATTRIBUTE_NODE ? (g_text_copied == false && g_chars_emitted == (g_attr_len > 0)) : (g_text_copied == true && g_chars_emitted == false)))
        : (__CPROVER_return_value == EFFECTIVE(__CPROVER_old(theTemplate), nodeType) && g_text_copied == false && g_chars_emitted == false))'''),
    ],
    template=TEMPLATE,
    jobs=[Job('findTemplateToTransformChild', 'h_findTemplateToTransformChild', enforce=['findTemplateToTransformChild'],
              replace=['xv_is_apply_imports', 'xv_has_current_template', 'xv_findTemplate', 'xv_is_ns_decl', 'xv_clone_text', 'xv_value_length', 'xv_characters', 'xv_tracing', 'xv_trace'], reach='all', timeout=300, min_obligations=5)],
    mutants=[
        Mutant('apply_imports_without_builtin_fallback', ET, r'(\*executionContext\.getCurrentMode\(\),\s*isApplyImports\);\n)(    \}\n\n    if\(0 == theTemplate\)\s*\{\s*switch\(nodeType\))', r'\1\n        if (0 == theTemplate && isApplyImports == true)\n        {\n            return 0;\n        }\n\2', expect='built-in rule'),
        Mutant('apply_imports_searches_whole_stylesheet', ET, r'const Stylesheet\*   stylesheetTree = isApplyImports == true \?', 'const Stylesheet*   stylesheetTree = isApplyImports == false ?', expect='the search'),
        Mutant('fragment_root_without_builtin', ET, r'        case XalanNode::DOCUMENT_FRAGMENT_NODE:\n(        case XalanNode::ELEMENT_NODE:\s*theTemplate = getStylesheet\(\)\.getStylesheetRoot\(\)\.getDefaultRule\(\);)', r'\1', expect='built-in rule'),
        Mutant('namespace_declarations_copied', ET, r'if \(DOMServices::isNamespaceDeclaration\(static_cast<const XalanAttr&>\(\*child\)\) == false\)', 'if (true)', expect='built-in rule'),
    ],
    mechanisms=['built-in template rules', 'xsl:apply-imports', 'built-in rules and apply-imports scoping'],
    assumptions=['Stylesheet::findTemplate(..., onlyUseImports) is units c10_select / c10_imports; the built-in rules themselves are unit c10_builtin; rules are identified by handle',
                 'node types are the DOM constants (values repeated in the template)'],
)
