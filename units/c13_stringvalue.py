"""C13: string values.  DOMServices::getNodeData(node, context, sink) computes the string value of a node while
strip/preserve-space declarations exist.  Proved per function (both sinks: XalanDOMString and FormatterListener):
every text node is strip-checked before its data is emitted, a stripped node emits nothing, and no function of the
context-aware family hands a node that can hold text to the context-free walk (which would not strip below it)."""
import re
from xvlib.unit import Fn, Job, Unit, Mutant

CPP = 'src/xalanc/DOMSupport/DOMServices.cpp'
HPP = 'src/xalanc/DOMSupport/DOMServices.hpp'

KINDS = ['node', 'document', 'fragment', 'element', 'text', 'attr', 'comment', 'pi', 'child', 'children']
VAR_KIND = {'theDocumentFragment': 'fragment', 'documentFragment': 'fragment', 'theDocument': 'document', 'document': 'document', 'theElement': 'element',
            'theElementNode': 'element', 'element': 'element', 'theTextNode': 'text', 'text': 'text', 'theAttr': 'attr', 'theComment': 'comment', 'thePI': 'pi', 'node': 'node'}
CAN_HOLD_TEXT = ['node', 'document', 'fragment', 'element', 'text', 'child', 'children']
SINK_TYPES = {'S': r'XalanDOMString&\s+data', 'L': r'FormatterListener&\s+formatterListener,\s*(?:DOMServices::)?MemberFunctionPtr\s+function'}


def stub(fam, kind, sink):
    name = '%s_%s_%s' % (fam, kind, sink)
    req = ['__CPROVER_requires(n != 0)' if kind != 'children' else '__CPROVER_requires(1)']
    req.append('__CPROVER_requires(/* the walk stays on the sink it was started with */ SINK_%s == g_sink)' % sink)
    if fam == 'ctx':
        req.append('__CPROVER_requires(/* context-aware walkers are entered only while declarations exist */ g_has == true)')
    if fam == 'plain' and kind in CAN_HOLD_TEXT:
        req.append('__CPROVER_requires(/* while strip/preserve-space declarations exist, a node that can hold text is never handed to the context-free walk: '
                   'the text nodes below it would not be strip-checked */ g_has == false)')
    return ('void %s(const XalanNode* n)\n%s\n__CPROVER_assigns(g_calls, g_called, g_last_node, g_last_fam, g_last_kind)\n'
            '__CPROVER_ensures(g_called == true && g_calls == __CPROVER_old(g_calls) + 1 && g_last_node == n && g_last_fam == FAM_%s && g_last_kind == K_%s) ;\n'
            % (name, '\n'.join(req), fam, kind))


STUBS = ''.join(stub(f, k, s) for s in 'SL' for f in ('ctx', 'wrap', 'plain') for k in KINDS)
ALL_STUBS = ['%s_%s_%s' % (f, k, s) for s in 'SL' for f in ('ctx', 'wrap', 'plain') for k in KINDS]

TEMPLATE = r'''
#include "xv_shim.h"
typedef struct XalanNode XalanNode; typedef struct XalanNode XalanText; typedef struct Ctx ExecutionContext; typedef int XalanNode_NodeType;
enum { XalanNode_UNKNOWN_NODE = 0, XalanNode_ELEMENT_NODE = 1, XalanNode_ATTRIBUTE_NODE = 2, XalanNode_TEXT_NODE = 3, XalanNode_CDATA_SECTION_NODE = 4, XalanNode_ENTITY_REFERENCE_NODE = 5,
       XalanNode_ENTITY_NODE = 6, XalanNode_PROCESSING_INSTRUCTION_NODE = 7, XalanNode_COMMENT_NODE = 8, XalanNode_DOCUMENT_NODE = 9, XalanNode_DOCUMENT_TYPE_NODE = 10,
       XalanNode_DOCUMENT_FRAGMENT_NODE = 11, XalanNode_NOTATION_NODE = 12 };
enum { SINK_S, SINK_L }; enum { FAM_none, FAM_ctx, FAM_wrap, FAM_plain };
enum { K_none, ''' + ', '.join('K_' + k for k in KINDS) + r''' };
/* ghost: do declarations exist; the sink of the function under proof; the type of its node; a log of the last delegation; the strip answer for the text leaf */
bool g_has; int g_sink; int g_type; const XalanNode* g_node; size_t g_calls; bool g_called; const XalanNode* g_last_node; int g_last_fam, g_last_kind;
bool g_strip_answer, g_asked; const XalanNode* g_asked_node; size_t g_emitted; const XalanNode* g_emitted_node;
bool xv_has_conditions(const ExecutionContext* c) __CPROVER_requires(1) __CPROVER_assigns() __CPROVER_ensures(__CPROVER_return_value == g_has) ;
int xv_node_type(const XalanNode* n) __CPROVER_requires(n != 0) __CPROVER_assigns() __CPROVER_ensures(n == g_node ==> __CPROVER_return_value == g_type) ;
const XalanNode* xv_first_child(const XalanNode* n) __CPROVER_requires(n != 0) __CPROVER_assigns() __CPROVER_ensures(1) ;
const XalanNode* xv_next_sibling(const XalanNode* n) __CPROVER_requires(n != 0) __CPROVER_assigns() __CPROVER_ensures(1) ;
const XalanNode* xv_document_element(const XalanNode* n) __CPROVER_requires(n != 0) __CPROVER_assigns() __CPROVER_ensures(__CPROVER_return_value != 0) ;
bool xv_shouldStrip(ExecutionContext* c, const XalanText* t) __CPROVER_requires(t != 0) __CPROVER_assigns(g_asked, g_asked_node)
__CPROVER_ensures(g_asked == true && g_asked_node == t && __CPROVER_return_value == g_strip_answer) ;
void xv_emit_text(const XalanText* t, int sink)
__CPROVER_requires(t != 0 && sink == g_sink)
__CPROVER_requires(/* the data of a text node is emitted only after the strip check of THAT node said keep */ g_asked == true && g_asked_node == t && g_strip_answer == false)
__CPROVER_assigns(g_emitted, g_emitted_node) __CPROVER_ensures(g_emitted == __CPROVER_old(g_emitted) + 1 && g_emitted_node == t) ;
''' + STUBS + r'''
@@FNS@@
static void xv_havoc(int sink)
{ bool h, s; int t; g_has = XV_BOOL(h); g_sink = sink; g_type = t; g_calls = 0; g_called = false; g_last_node = 0; g_last_fam = FAM_none; g_last_kind = K_none;
  g_strip_answer = XV_BOOL(s); g_asked = false; g_asked_node = 0; g_emitted = 0; g_emitted_node = 0; }
@@HARNESSES@@
'''


def call_rule(sink_of_fn):
    pat = r'(?<![\w.>])(?:DOMServices(?:::|_))?(doGetNodeData|getNodeData|getChildData|getChildrenData)\(\s*(\*?)(\w+)((?:\.|->)\w+\(\))?,\s*((?:executionContext|context),\s*)?(data|formatterListener,\s*function)\)'

    def rep(m):
        fn, star, var, acc, ctx, sink = m.groups()
        s = 'S' if sink == 'data' else 'L'
        if fn == 'getChildData':
            fam, kind = ('ctx' if ctx else 'plain'), 'child'
        elif fn == 'getChildrenData':
            fam, kind = ('ctx' if ctx else 'plain'), 'children'
        else:
            if acc or var not in VAR_KIND:
                return m.group(0)         # left alone: goto-cc will not know the function -> extraction break, never a silent guess
            kind = VAR_KIND[var]
            fam = 'ctx' if fn == 'doGetNodeData' else ('wrap' if ctx else 'plain')
        arg = var
        if acc:
            a = acc.lstrip('.->')
            arg = {'getDocumentElement()': 'xv_document_element(%s)', 'getFirstChild()': 'xv_first_child(%s)'}[a] % var
        return '%s_%s_%s(%s)' % (fam, kind, s, arg)
    return (pat, rep, (0, 9))


def rules(sink):
    return ['SCOPE',
            (r'assert\((?:executionContext|context)\.hasPreserveOrStripSpaceConditions\(\) == true\);', 'assert(xv_has_conditions(executionContext) == true);', (0, 1)),
            (r'\bcontext\.hasPreserveOrStripSpaceConditions\(\)', 'xv_has_conditions(executionContext)', (0, 1)),
            (r'assert\(document\.getDocumentElement\(\) != 0\);', '', (0, 1)),
            (r'const (Xalan\w+)&\s+(\w+) =\s*static_cast<const \1&>\(node\);', r'const XalanNode* const \2 = node;', (0, 7)),
            (r'const (Xalan\w+)\*(?: const)?\s+(\w+) =\s*static_cast<const \1\*>\(child\);', r'const XalanNode* const \2 = child;', (0, 2)),
            call_rule(sink),
            (r'context\.shouldStripSourceNode\(text\)', 'xv_shouldStrip(executionContext, text)', (0, 1)),
            (r'data\.append\(text\.getData\(\)\);', 'xv_emit_text(text, SINK_S);', (0, 1)),
            (r'sendData\(formatterListener, function, text\.getData\(\)\);', 'xv_emit_text(text, SINK_L);', (0, 1)),
            # data of a text node reached some other way (a cast child): the same stub, so the strip-check precondition applies
            (r'sendData\(\s*formatterListener,\s*function,\s*static_cast<const XalanText\*>\((\w+)\)->getData\(\)\);', r'xv_emit_text(\1, SINK_L);', (0, 2)),
            (r'data\.append\(static_cast<const XalanText\*>\((\w+)\)->getData\(\)\);', r'xv_emit_text(\1, SINK_S);', (0, 2)),
            (r'\b(the\w+)(?:\.|->)getNodeType\(\)', r'xv_node_type(\1)', (0, 2)),
            (r'\b(node|child)(?:\.|->)getNodeType\(\)', r'xv_node_type(\1)', (0, 1)),
            (r'\b(\w+)(?:\.|->)getNextSibling\(\)', r'xv_next_sibling(\1)', (0, 1)),
            (r'\b(\w+)(?:\.|->)getFirstChild\(\)', r'xv_first_child(\1)', (0, 1))]


PRE = '__CPROVER_requires(%s != 0 && %s == g_node && g_sink == SINK_%s && g_calls == 0 && g_called == false && g_emitted == 0 && g_asked == false)'
GH = '__CPROVER_assigns(g_calls, g_called, g_last_node, g_last_fam, g_last_kind, g_asked, g_asked_node, g_emitted, g_emitted_node)'
ONE = 'g_calls == 1 && g_last_node == %s && '


def fns_for(sink):
    st = SINK_TYPES[sink]
    S = sink
    out = []

    def add(file, sig, name, head, contract, nloops=0, loops=None):
        # the implementation is verified as impl_<name>; calls go to the interface contract <name> (same preconditions)
        out.append(Fn(file, sig, 'impl_' + name, head.replace('void ' + name, 'void impl_' + name), rules=rules(sink), contract=contract, nloops=nloops, loops=loops or {}))
    has = '__CPROVER_requires(/* entered only while declarations exist */ g_has == true)\n'
    # 1 dispatcher on the node type
    add(CPP, r'^DOMServices::doGetNodeData\(\s*const XalanNode&\s+node,\s*ExecutionContext&\s+executionContext,\s*' + st + r'\)', 'ctx_node_' + S,
        'void ctx_node_%s(const XalanNode* node, ExecutionContext* executionContext)' % S,
        PRE % ('node', 'node', S) + '\n' + has + GH + '''
__CPROVER_ensures(/* string value of a node, by node type: containers and text go to the strip-aware walkers */
    (g_type == XalanNode_DOCUMENT_FRAGMENT_NODE ==> (%(one)s g_last_fam == FAM_ctx && g_last_kind == K_fragment)) &&
    (g_type == XalanNode_DOCUMENT_NODE ==> (%(one)s g_last_fam == FAM_ctx && g_last_kind == K_document)) &&
    (g_type == XalanNode_ELEMENT_NODE ==> (%(one)s g_last_fam == FAM_ctx && g_last_kind == K_element)) &&
    ((g_type == XalanNode_TEXT_NODE || g_type == XalanNode_CDATA_SECTION_NODE) ==> (%(one)s g_last_fam == FAM_ctx && g_last_kind == K_text)))
__CPROVER_ensures(/* attributes, comments and processing instructions have no text-node descendants: their own value */
    (g_type == XalanNode_ATTRIBUTE_NODE ==> (%(one)s g_last_kind == K_attr)) && (g_type == XalanNode_COMMENT_NODE ==> (%(one)s g_last_kind == K_comment)) &&
    (g_type == XalanNode_PROCESSING_INSTRUCTION_NODE ==> (%(one)s g_last_kind == K_pi)))''' % {'one': ONE % 'node'})
    # 2 one child
    add(CPP, r'^getChildData\(\s*const XalanNode\*\s+child,\s*ExecutionContext&\s+executionContext,\s*' + st + r'\)', 'ctx_child_' + S,
        'void ctx_child_%s(const XalanNode* child, ExecutionContext* executionContext)' % S,
        PRE % ('child', 'child', S) + '\n' + has + GH + '''
__CPROVER_ensures(/* an element child is walked with the context (so text below it is strip-checked), a text child is strip-checked itself */
    (g_type == XalanNode_ELEMENT_NODE ==> (%(one)s (g_last_fam == FAM_ctx || g_last_fam == FAM_wrap) && g_last_kind == K_element)) &&
    ((g_type == XalanNode_TEXT_NODE || g_type == XalanNode_CDATA_SECTION_NODE) ==> (%(one)s (g_last_fam == FAM_ctx || g_last_fam == FAM_wrap) && g_last_kind == K_text)))
__CPROVER_ensures(/* other children contribute nothing */ (g_type != XalanNode_ELEMENT_NODE && g_type != XalanNode_TEXT_NODE && g_type != XalanNode_CDATA_SECTION_NODE) ==> g_calls == 0)''' % {'one': ONE % 'child'})
    # 3 sibling chain
    add(CPP, r'^getChildrenData\(\s*const XalanNode\*\s+firstChild,\s*ExecutionContext&\s+executionContext,\s*' + st + r'\)', 'ctx_children_' + S,
        'void ctx_children_%s(const XalanNode* firstChild, ExecutionContext* executionContext)' % S,
        '__CPROVER_requires(g_sink == SINK_%s && g_calls == 0 && g_called == false)\n' % S + has + GH + '''
__CPROVER_ensures(/* a non-empty sibling chain is walked child by child with the context */ __CPROVER_old(firstChild) != 0 ==> (g_called == true && g_last_fam == FAM_ctx && g_last_kind == K_child))
__CPROVER_ensures(__CPROVER_old(firstChild) == 0 ==> g_called == false)''', nloops=1,
        loops={0: '__CPROVER_assigns(firstChild, g_calls, g_called, g_last_node, g_last_fam, g_last_kind)\n__CPROVER_loop_invariant(g_called == false || g_called == true)\n__CPROVER_loop_invariant(g_called == false ? firstChild == __CPROVER_loop_entry(firstChild) : (g_last_fam == FAM_ctx && g_last_kind == K_child))'})
    # 4-6 containers
    for kind, typ, var in (('document', 'XalanDocument', 'document'), ('element', 'XalanElement', 'element')):
        add(CPP, r'^DOMServices::doGetNodeData\(\s*const %s&\s+%s,\s*ExecutionContext&\s+executionContext,\s*' % (typ, var) + st + r'\)', 'ctx_%s_%s' % (kind, S),
            'void ctx_%s_%s(const XalanNode* %s, ExecutionContext* executionContext)' % (kind, S, var),
            PRE % (var, var, S) + '\n' + has + GH + '''
__CPROVER_ensures(/* a container's string value is the context-aware walk of its children */ g_calls == 1 && g_last_fam == FAM_ctx && g_last_kind == K_children)''')
    add(CPP, r'^DOMServices::doGetNodeData\(\s*const XalanDocumentFragment&\s+documentFragment,\s*ExecutionContext&\s+executionContext,\s*' + st + r'\)', 'ctx_fragment_' + S,
        'void ctx_fragment_%s(const XalanNode* documentFragment, ExecutionContext* executionContext)' % S,
        PRE % ('documentFragment', 'documentFragment', S) + '\n' + has + GH + '''
__CPROVER_ensures(/* every child of the fragment is walked with the context */ g_called == false || (g_last_fam == FAM_ctx && g_last_kind == K_child))''', nloops=1,
        loops={0: '__CPROVER_assigns(child, g_calls, g_called, g_last_node, g_last_fam, g_last_kind)\n__CPROVER_loop_invariant(g_called == false || g_called == true)\n__CPROVER_loop_invariant(g_called == false || (g_last_fam == FAM_ctx && g_last_kind == K_child))'})
    # 7 text leaf (header)
    add(HPP, r'^\s*doGetNodeData\(\s*const XalanText&\s+text,\s*ExecutionContext&\s+context,\s*' + st + r'\)', 'ctx_text_' + S,
        'void ctx_text_%s(const XalanText* text, ExecutionContext* executionContext)' % S,
        PRE % ('text', 'text', S) + '\n' + has + GH + '''
__CPROVER_ensures(/* a text node the declarations strip contributes nothing to a string value; every other text node contributes its data exactly once */
    g_asked == true && g_asked_node == text && g_emitted == (g_strip_answer == true ? 0 : 1) && (g_emitted == 1 ==> g_emitted_node == text))''')
    # 8-12 public wrappers (header)
    for kind, typ, var in (('node', 'XalanNode', 'node'), ('document', 'XalanDocument', 'document'), ('fragment', 'XalanDocumentFragment', 'documentFragment'),
                           ('element', 'XalanElement', 'element'), ('text', 'XalanText', 'text')):
        add(HPP, r'^\s*getNodeData\(\s*const %s&\s+%s,\s*ExecutionContext&\s+context,\s*' % (typ, var) + st + r'\)', 'wrap_%s_%s' % (kind, S),
            'void wrap_%s_%s(const XalanNode* %s, ExecutionContext* executionContext)' % (kind, S, var),
            PRE % (var, var, S) + '\n' + GH + '''
__CPROVER_ensures(/* the public entry point uses the context-free walk only when no strip/preserve-space declarations exist */
    g_calls == 1 && g_last_node == %s && g_last_kind == K_%s && g_last_fam == (g_has == true ? FAM_ctx : FAM_plain))''' % (var, kind))
    return out


FUNCTIONS = fns_for('S') + fns_for('L')
HARN = '\n'.join('void h_%s(void) { xv_havoc(SINK_%s); const XalanNode* n; g_node = n; %s(n, 0); }' % (f.name[5:], f.name[-1], f.name) for f in FUNCTIONS)
JOBS = []
for f in FUNCTIONS:
    JOBS.append(Job(f.name[5:], 'h_' + f.name[5:], enforce=[f.name], replace=ALL_STUBS + ['xv_has_conditions', 'xv_node_type', 'xv_first_child', 'xv_next_sibling',
                    'xv_document_element', 'xv_shouldStrip', 'xv_emit_text'], loop_contracts=bool(f.nloops), reach='all', timeout=300, min_obligations=3))

UNIT = Unit(
    name='c13_stringvalue',
    props=['C13'],
    functions=FUNCTIONS,
    template=TEMPLATE.replace('@@FNS@@', '\n'.join('@@FN %s@@' % f.name for f in FUNCTIONS)).replace('@@HARNESSES@@', HARN),
    jobs=JOBS,
    mutants=[
        Mutant('child_element_without_context', CPP, r'DOMServices::doGetNodeData\(\*theElementNode, executionContext, data\);', 'DOMServices::getNodeData(*theElementNode, data);', expect='never handed to the context-free walk'),
        Mutant('leaf_emits_stripped', HPP, r'(doGetNodeData\(\s*const XalanText&\s+text,\s*ExecutionContext&\s+context,\s*XalanDOMString&\s+data\)\s*\{.*?)if \(context\.shouldStripSourceNode\(text\) == false\)', r'\1context.shouldStripSourceNode(text);', expect='emitted only after the strip check'),
        Mutant('wrapper_inverted', HPP, r'(getNodeData\(\s*const XalanElement&\s+element,\s*ExecutionContext&\s+context,\s*XalanDOMString&\s+data\)\s*\{\s*if \()!(context\.hasPreserveOrStripSpaceConditions\(\)\))', r'\1\2', expect='context-free walk'),
        Mutant('listener_text_child_skipped', CPP, r'(FormatterListener&\s+formatterListener,\s*DOMServices::MemberFunctionPtr\s+function\)\s*\{\s*assert\(executionContext\.hasPreserveOrStripSpaceConditions\(\) == true\);\s*const XalanNode::NodeType\s+theType = child->getNodeType\(\);.*?)theType == XalanNode::CDATA_SECTION_NODE\)', r'\1false)', expect='text child is strip-checked'),
    ],
    mechanisms=['string-value computation consults shouldStripSourceNode (DOMServices::getNodeData with ExecutionContext)', 'string-value computation with strip awareness'],
    assumptions=['each function is verified against the contracts of the functions it calls (mutual recursion cut by contracts); that the sibling/child walks enumerate every child exactly once and terminate is not proved (DOM accessors return arbitrary nodes)',
                 'a document has a document element (in-code assert of the real code, dropped)',
                 'the context-free family (no declarations) is not under contract',
                 'overloads are told apart by parameter types in the signature regexes and, at call sites, by the names of the local variables holding the node (a renamed local is an extraction break, exit 2)'],
)
