"""C10: the built-in template rules (XSLT 5.8) as StylesheetRoot::initDefaultRule constructs them: match="*" and match="/" with a bare
xsl:apply-templates, match="text() | @*" with xsl:value-of select="."; each rule AND its one instruction carry the default-template flag
(ElemApplyTemplates keeps the current mode only under that flag: the built-in rules continue in the mode they were entered in)."""
from xvlib.unit import Fn, Job, Unit, Mutant

SR = 'src/xalanc/XSLT/StylesheetRoot.cpp'
TEMPLATE = r'''
#include "xv_shim.h"
typedef struct Ctx Ctx; typedef int Elem; typedef struct AttributeListImpl AttributeListImpl;
typedef struct Self { Elem m_defaultRule, m_defaultTextRule, m_defaultRootRule; } Self;
enum { K_NONE = 0, K_ELEMNAME_TEMPLATE, K_ELEMNAME_APPLY_TEMPLATES, K_ELEMNAME_VALUE_OF, K_OTHER_ELEMENT };
enum { A_NONE = 0, A_ATTRNAME_MATCH, A_ATTRNAME_SELECT, A_ATTRTYPE_CDATA, A_PSEUDONAME_ANY, A_PSEUDONAME_ROOT, A_ATTRVAL_DEFAULT_TEXT_RULE, A_ATTRVAL_THIS, A_OTHER };
#define MAXE 8
/* model of the construction calls (plain C, inlined by cbmc): elements are handles 1..; the attribute list holds at most one attribute */
int g_created; int g_kind[MAXE]; int g_attr_name[MAXE]; int g_attr_val[MAXE]; int g_nattrs_of[MAXE]; int g_child[MAXE]; bool g_flag[MAXE];
int g_nattrs; int g_cur_name, g_cur_val;
static void xv_attrs_clear(void) { g_nattrs = 0; g_cur_name = A_NONE; g_cur_val = A_NONE; }
static void xv_attrs_add(int name, int type, int value)
{ __CPROVER_assert(type == A_ATTRTYPE_CDATA, "attributes of the built-in rules are CDATA"); if (g_nattrs == 0) { g_cur_name = name; g_cur_val = value; } g_nattrs++; }
static Elem xv_create_element(Ctx* c, int kind)
{
    __CPROVER_assert(g_created + 1 < MAXE, "at most 6 elements are created");
    const int k = ++g_created; g_kind[k] = kind; g_attr_name[k] = g_cur_name; g_attr_val[k] = g_cur_val; g_nattrs_of[k] = g_nattrs; g_child[k] = 0; g_flag[k] = false;
    return k;
}
static void xv_append_child(Elem parent, Elem child)
{ __CPROVER_assert(parent >= 1 && parent <= g_created && child >= 1 && child <= g_created && child != parent, "appendChildElem on created elements"); __CPROVER_assert(g_child[parent] == 0, "one instruction per built-in rule"); g_child[parent] = child; }
/* ElemTemplateElement::setDefaultTemplate: flags the element and the children it has AT THIS MOMENT */
static void xv_set_default(Elem e, bool v)
{ __CPROVER_assert(e >= 1 && e <= g_created, "setDefaultTemplate on a created element"); g_flag[e] = true; if (g_child[e] != 0) g_flag[g_child[e]] = true; }
#define RULE(r, matchval, ckind, cattrs, cname, cval) \
    ((r) >= 1 && (r) < MAXE && g_kind[r] == K_ELEMNAME_TEMPLATE && g_nattrs_of[r] == 1 && g_attr_name[r] == A_ATTRNAME_MATCH && g_attr_val[r] == (matchval) && g_flag[r] == true && \
     g_child[r] >= 1 && g_child[r] < MAXE && g_kind[g_child[r]] == (ckind) && g_nattrs_of[g_child[r]] == (cattrs) && g_attr_name[g_child[r]] == (cname) && g_attr_val[g_child[r]] == (cval))
#define FLAGGED(r) (g_child[r] >= 1 && g_child[r] < MAXE && g_flag[g_child[r]] == true)
@@FN initDefaultRule@@
void h_initDefaultRule(void)
{
    Self s; s.m_defaultRule = 0; s.m_defaultTextRule = 0; s.m_defaultRootRule = 0; g_created = 0; g_nattrs = 0; g_cur_name = A_NONE; g_cur_val = A_NONE;
    initDefaultRule(&s, 0);
}
'''
R = [(r'AttributeListImpl\s+attrs\(constructionContext\.getMemoryManager\(\)\);', 'xv_attrs_clear();', 1),
     (r'attrs\.clear\(\);', 'xv_attrs_clear();', None),
     (r'attrs\.addAttribute\(', 'xv_attrs_add(', None),
     (r'(?:Constants|XPath)::((?:ATTRNAME|ATTRTYPE|ATTRVAL|PSEUDONAME)_\w+)(?:\.c_str\(\))?', r'A_\1', None),
     (r'constructionContext\.createElement\(\s*StylesheetConstructionContext::(\w+),\s*\*this,\s*attrs\)', r'xv_create_element(constructionContext, K_\1)', None),
     (r'ElemTemplateElement\*\s+childrenElement', 'Elem childrenElement', 1),
     (r'\b(m_default\w*Rule)->appendChildElem\((\w+)\);', r'xv_append_child(self->\1, \2);', None),
     (r'\b(m_default\w*Rule)->setDefaultTemplate\((\w+)\);', r'xv_set_default(self->\1, \2);', None),
     (r'\b(\w+)->appendChildElem\((\w+)\);', r'xv_append_child(\1, \2);', (0, 3)),
     (r'\b(\w+)->setDefaultTemplate\((\w+)\);', r'xv_set_default(\1, \2);', (0, 6)),
     (r'(?<![\w>])(m_default\w*Rule)\b', r'self->\1', None)]
UNIT = Unit(
    name='c10_builtin',
    props=['C10'],
    functions=[
        Fn(SR, r'^StylesheetRoot::initDefaultRule\(StylesheetConstructionContext&\s+constructionContext\)', 'initDefaultRule',
           'void initDefaultRule(Self* self, Ctx* constructionContext)', rules=R, nloops=0,
           contract='''__CPROVER_requires(__CPROVER_is_fresh(self, sizeof(*self)) && self->m_defaultRule == 0 && self->m_defaultTextRule == 0 && self->m_defaultRootRule == 0 && g_created == 0 && g_nattrs == 0 && g_cur_name == A_NONE && g_cur_val == A_NONE)
__CPROVER_assigns(self->m_defaultRule, self->m_defaultTextRule, self->m_defaultRootRule, g_created, g_nattrs, g_cur_name, g_cur_val,
    __CPROVER_object_whole(g_kind), __CPROVER_object_whole(g_attr_name), __CPROVER_object_whole(g_attr_val), __CPROVER_object_whole(g_nattrs_of), __CPROVER_object_whole(g_child), __CPROVER_object_whole(g_flag))
__CPROVER_ensures(/* built-in rule for elements: match="*" { xsl:apply-templates without select or mode } */ RULE(self->m_defaultRule, A_PSEUDONAME_ANY, K_ELEMNAME_APPLY_TEMPLATES, 0, A_NONE, A_NONE))
__CPROVER_ensures(/* built-in rule for text and attributes: match="text() | @*" { xsl:value-of select="." } */ RULE(self->m_defaultTextRule, A_ATTRVAL_DEFAULT_TEXT_RULE, K_ELEMNAME_VALUE_OF, 1, A_ATTRNAME_SELECT, A_ATTRVAL_THIS))
__CPROVER_ensures(/* built-in rule for the root: match="/" { xsl:apply-templates } */ RULE(self->m_defaultRootRule, A_PSEUDONAME_ROOT, K_ELEMNAME_APPLY_TEMPLATES, 0, A_NONE, A_NONE))
__CPROVER_ensures(/* the instruction inside each built-in rule carries the default-template flag (apply-templates then continues in the current mode) */
    FLAGGED(self->m_defaultRule) && FLAGGED(self->m_defaultTextRule) && FLAGGED(self->m_defaultRootRule))
__CPROVER_ensures(/* three distinct rules */ self->m_defaultRule != self->m_defaultTextRule && self->m_defaultRule != self->m_defaultRootRule && self->m_defaultTextRule != self->m_defaultRootRule)'''),
    ],
    template=TEMPLATE,
    jobs=[Job('initDefaultRule', 'h_initDefaultRule', enforce=['initDefaultRule'], reach='all', timeout=300, min_obligations=8)],
    mutants=[
        Mutant('root_rule_flag_before_child', SR, r'(        m_defaultRootRule->appendChildElem\(childrenElement\);\n)\n(        m_defaultRootRule->setDefaultTemplate\(true\);\n)', r'\2\n\1', expect='default-template flag'),
        Mutant('root_rule_matches_any', SR, r'XPath::PSEUDONAME_ROOT\);', 'XPath::PSEUDONAME_ANY);', expect='root'),
        Mutant('text_rule_attrs_not_cleared', SR, r'(assert\(m_defaultTextRule != 0\);\s*)attrs\.clear\(\);', r'\1', expect='text and attributes'),
    ],
    mechanisms=['built-in template rules', 'built-in rules and apply-imports scoping'],
    assumptions=['createElement(kind, stylesheet, attrs) builds the instruction of that kind from the attributes in the list (element constructors not verified); the attribute list is modelled as count + first attribute',
                 'setDefaultTemplate flags the element and its present children (ElemTemplateElement.cpp, modelled inline); Constants::* / XPath::PSEUDONAME_* are compared by name, their texts are not checked'],
)
