"""C11: the six public XPath::execute entry points (general, boolean, number, string, character events, node list) evaluate in the same
environment: the context node is made the current node (what current() returns) and the given prefix resolver is installed before the
expression is evaluated.  A specialised entry point that forgets one of them gives a different value for the same expression."""
from xvlib.unit import Fn, Job, Unit, Mutant

XP = 'src/xalanc/XPath/XPath.cpp'
TEMPLATE = r'''
#include "xv_shim.h"
typedef struct XalanNode XalanNode; typedef struct PrefixResolver PrefixResolver; typedef struct Ctx XPathExecutionContext; typedef int XObjectPtr;
const XalanNode* g_current; const PrefixResolver* g_resolver; bool g_evaluated; const XalanNode* g_eval_current; const PrefixResolver* g_eval_resolver; const XalanNode* g_eval_context;
void xv_set_resolver(const PrefixResolver* r) __CPROVER_requires(g_evaluated == false) __CPROVER_assigns(g_resolver) __CPROVER_ensures(g_resolver == r) ;   /* PrefixResolverSetAndRestore */
void xv_push_current(const XalanNode* n) __CPROVER_requires(g_evaluated == false) __CPROVER_assigns(g_current) __CPROVER_ensures(g_current == n) ;          /* CurrentNodePushAndPop */
XObjectPtr xv_execute_more(const XalanNode* context) __CPROVER_requires(g_evaluated == false) __CPROVER_assigns(g_evaluated, g_eval_current, g_eval_resolver, g_eval_context)
__CPROVER_ensures(g_evaluated == true && g_eval_current == g_current && g_eval_resolver == g_resolver && g_eval_context == context) ;
@@FNS@@
'''
R = [(r'const PrefixResolverSetAndRestore\s+theResolverSetAndRestore\(\s*executionContext,\s*&prefixResolver\);', 'xv_set_resolver(prefixResolver);', (0, 1)),
     (r'const CurrentNodePushAndPop\s+theNodePushAndPop\(\s*executionContext,\s*context\);', 'xv_push_current(context);', (0, 1)),
     (r'assert\(result\.empty\(\) == true\);', '', (0, 1)),
     (r'(return )?executeMore\(\s*context,\s*getInitialOpCodePosition\(\),\s*executionContext(?:,\s*[\w\s,]*?)?\);', r'\1xv_execute_more(context);', 1)]
CONTRACT = '''__CPROVER_requires(context != 0 && g_evaluated == false)
__CPROVER_assigns(g_current, g_resolver, g_evaluated, g_eval_current, g_eval_resolver, g_eval_context)
__CPROVER_ensures(/* the expression is evaluated once, for the context node */ g_evaluated == true && g_eval_context == context)
__CPROVER_ensures(/* with the context node as the current node (current()), as every other entry point does */ g_eval_current == context)
__CPROVER_ensures(/* and with the caller's prefix resolver installed */ g_eval_resolver == prefixResolver)'''
KINDS = ['general', 'boolean', 'number', 'string', 'events', 'nodelist']
RET = ['XObjectPtr', 'void', 'void', 'void', 'void', 'XObjectPtr']
FUNCTIONS = [Fn(XP, r'^XPath::execute\(\s*XalanNode\*\s+context,\s*const PrefixResolver&\s+prefixResolver,', 'execute_' + k,
                '%s execute_%s(XalanNode* context, const PrefixResolver* prefixResolver, XPathExecutionContext* executionContext)' % (RET[i], k),
                rules=R, contract=CONTRACT, nloops=0, occurrence=i) for i, k in enumerate(KINDS)]
UNIT = Unit(
    name='c11_entry',
    props=['C11'],
    functions=FUNCTIONS,
    template=TEMPLATE.replace('@@FNS@@', '\n'.join('@@FN execute_%s@@' % k for k in KINDS) + '\n' +
        '\n'.join('void h_%s(void) { const XalanNode* a; const PrefixResolver* b; g_current = a; g_resolver = b; g_evaluated = false; XalanNode* c; const PrefixResolver* r; execute_%s(c, r, 0); }' % (k, k) for k in KINDS)),
    jobs=[Job(k, 'h_' + k, enforce=['execute_' + k], replace=['xv_set_resolver', 'xv_push_current', 'xv_execute_more'], reach='all', timeout=60, min_obligations=3) for k in KINDS],
    mutants=[Mutant('number_entry_without_current', XP, r'(double&\s+result\) const\s*\{.*?)const CurrentNodePushAndPop\s+theNodePushAndPop\(\s*executionContext,\s*context\);', r'\1', expect='current node')],
    mechanisms=['callers that pick a specialised path'],
    assumptions=['CurrentNodePushAndPop / PrefixResolverSetAndRestore set the value for the lifetime of the object (RAII restore on exit is not verified)',
                 'the head of each overload is reduced to (context, prefixResolver, executionContext): the result parameters are only handed on to executeMore'],
)
