"""C13 / C11: string-length().  The zero-argument form measures the string value of the context node WITH the execution context (the
strip-aware DOMServices::getNodeData family of unit c13_stringvalue), the one-argument form evaluates its argument through the
character-event entry point; both return the number of units counted."""
from xvlib.unit import Fn, Job, Unit, Mutant

XP = 'src/xalanc/XPath/XPath.cpp'
TEMPLATE = r'''
#include "xv_shim.h"
typedef struct XalanNode XalanNode; typedef struct Ctx Ctx; typedef struct Self Self; typedef size_t OpCodeMapPositionType; typedef size_t FormatterListener_size_type;
enum { SRC_NONE, SRC_NODE_WITH_CONTEXT, SRC_NODE_PLAIN, SRC_EXPRESSION };
int g_src; const XalanNode* g_src_node; size_t g_src_op; size_t g_count;
void xv_counter_init(void) __CPROVER_requires(1) __CPROVER_assigns() __CPROVER_ensures(1) ;
/* DOMServices::getNodeData(node, executionContext, listener, &FormatterListener::characters): honours xsl:strip-space (unit c13_stringvalue) */
void xv_node_data_ctx(const XalanNode* n, Ctx* c) __CPROVER_requires(n != 0 && g_src == SRC_NONE) __CPROVER_assigns(g_src, g_src_node) __CPROVER_ensures(g_src == SRC_NODE_WITH_CONTEXT && g_src_node == n) ;
/* the overload without execution context: no strip check at all */
void xv_node_data_plain(const XalanNode* n) __CPROVER_requires(n != 0 && g_src == SRC_NONE) __CPROVER_assigns(g_src, g_src_node) __CPROVER_ensures(g_src == SRC_NODE_PLAIN && g_src_node == n) ;
void xv_execute_events(const Self* s, XalanNode* context, size_t opPos, Ctx* c) __CPROVER_requires(g_src == SRC_NONE) __CPROVER_assigns(g_src, g_src_node, g_src_op) __CPROVER_ensures(g_src == SRC_EXPRESSION && g_src_node == context && g_src_op == opPos) ;
size_t xv_counter_count(void) __CPROVER_requires(g_src != SRC_NONE) __CPROVER_assigns() __CPROVER_ensures(__CPROVER_return_value == g_count && g_count < ((size_t)1 << 52)) ;
@@FN stringLength0@@
@@FN stringLength1@@
void h_stringLength0(void) { size_t c; XalanNode* n; __CPROVER_assume(n != 0); g_src = SRC_NONE; g_count = c; stringLength0(0, n, 0); }
void h_stringLength1(void) { size_t c, o; XalanNode* n; __CPROVER_assume(n != 0 && o < ((size_t)1 << 40)); g_src = SRC_NONE; g_count = c; stringLength1(0, n, o, 0); }
'''
R = ['SCOPE', 'CASTS',
     (r'FormatterStringLengthCounter\s+theCounter;', 'xv_counter_init();', 1),
     (r'DOMServices_getNodeData\(\*context, executionContext, theCounter, &FormatterListener_characters\);', 'xv_node_data_ctx(context, executionContext);', (0, 1)),
     (r'DOMServices_getNodeData\(\*context, theCounter, &FormatterListener_characters\);', 'xv_node_data_plain(context);', (0, 1)),
     (r'(?<![\w.>])executeMore\(context, (opPos \+ \d+|opPos), executionContext, theCounter, &FormatterListener_characters\);', r'xv_execute_events(self, context, \1, executionContext);', (0, 1)),
     (r'theCounter\.getCount\(\)', 'xv_counter_count()', 1)]
UNIT = Unit(
    name='c13_stringlength',
    props=['C13', 'C11', 'C02'],
    functions=[
        Fn(XP, r'^XPath::functionStringLength\(\s*XalanNode\*\s+context,\s*XPathExecutionContext&\s+executionContext\) const', 'stringLength0', 'double stringLength0(const Self* self, XalanNode* context, Ctx* executionContext)', rules=R, nloops=0,
           contract='''__CPROVER_requires(context != 0 && g_src == SRC_NONE)
__CPROVER_assigns(g_src, g_src_node)
__CPROVER_ensures(/* string-length(): the strip-aware string value of the context node, i.e. what string-length(.) and value-of see */ g_src == SRC_NODE_WITH_CONTEXT && g_src_node == context && __CPROVER_return_value == (double)g_count)'''),
        Fn(XP, r'^XPath::functionStringLength\(\s*XalanNode\*\s+context,\s*OpCodeMapPositionType\s+opPos,\s*XPathExecutionContext&\s+executionContext\) const', 'stringLength1',
           'double stringLength1(const Self* self, XalanNode* context, OpCodeMapPositionType opPos, Ctx* executionContext)', rules=R, nloops=0,
           contract='''__CPROVER_requires(context != 0 && g_src == SRC_NONE && opPos < ((size_t)1 << 40))
__CPROVER_assigns(g_src, g_src_node, g_src_op)
__CPROVER_ensures(/* string-length(expr): the argument (opPos + 2) evaluated as character events with the same context node */ g_src == SRC_EXPRESSION && g_src_node == context && g_src_op == opPos + 2 && __CPROVER_return_value == (double)g_count)'''),
    ],
    template=TEMPLATE,
    jobs=[Job(n, 'h_' + n, enforce=[n], replace=['xv_counter_init', 'xv_node_data_ctx', 'xv_node_data_plain', 'xv_execute_events', 'xv_counter_count'], reach=['entry:' + n], timeout=120, min_obligations=3, flags=['--conversion-check'])
          for n in ('stringLength0', 'stringLength1')],
    mutants=[
        Mutant('zero_arg_ignores_strip_space', XP, r'DOMServices::getNodeData\(\*context, executionContext, theCounter, &FormatterListener::characters\);', 'DOMServices::getNodeData(*context, theCounter, &FormatterListener::characters);', expect='strip-aware'),
        Mutant('one_arg_wrong_operand', XP, r'executeMore\(context, opPos \+ 2, executionContext, theCounter, &FormatterListener::characters\);', 'executeMore(context, opPos + 3, executionContext, theCounter, &FormatterListener::characters);', expect='argument'),
    ],
    mechanisms=['string-length()'],
    assumptions=['FormatterStringLengthCounter counts the units of the character events it receives; fewer than 2^52 units (exact as a double)',
                 'DOMServices::getNodeData with / without execution context are units c13_stringvalue (strip-aware) and the context-free walkers'],
)
