"""C16 / C06: ElemForEach::createSelectedAndSortedNodeList (shared by xsl:for-each and xsl:apply-templates).  Wherever the select expression
left its nodes (in the list handed to it, or in a node-set XObject: variable reference, key(), id(), document()), two or more selected nodes are
sorted when the instruction has xsl:sort children, and the list that is processed is the sorted one; and what the function pushes on the
execution context (node lists, the XObject) is exactly what releaseSelectedAndSortedNodeList pops."""
from xvlib.unit import Fn, Job, Unit, Mutant

FE = 'src/xalanc/XSLT/ElemForEach.cpp'
TEMPLATE = r'''
#include "xv_shim.h"
typedef struct Ctx Ctx; typedef struct Self { unsigned m_sortElemsCount; const void* m_selectPattern; } Self;
/* node lists are handles: list k pushed on the context has handle k (1, 2); the node-set inside the XObject has handle H_XOBJ */
enum { H_NONE = 0, H_XOBJ = 100 };
/* ghost: number of lists / XObjects on the context stacks, where the select expression left the n selected nodes, whether they were sorted (and from / into what) */
int g_lists; int g_xobjs; bool g_in_xobj; size_t g_n; bool g_selected; bool g_sorted; int g_sorted_from, g_sorted_into; int g_select_list;
int xv_push_list(Ctx* c) __CPROVER_requires(g_lists < 8) __CPROVER_assigns(g_lists) __CPROVER_ensures(g_lists == __CPROVER_old(g_lists) + 1 && __CPROVER_return_value == g_lists) ;
/* m_selectPattern->execute(*this, context, list): either fills the list and returns a null XObjectPtr, or returns an XObject holding the node-set and leaves the list empty */
bool xv_select_null(const Self* s, Ctx* c, int list)
__CPROVER_requires(list >= 1 && list == g_lists && g_selected == false) __CPROVER_assigns(g_selected, g_select_list)
__CPROVER_ensures(g_selected == true && g_select_list == list && __CPROVER_return_value == (g_in_xobj == false)) ;
size_t xv_list_length(int h)
__CPROVER_requires(h != H_NONE && g_selected == true) __CPROVER_assigns()
__CPROVER_ensures(__CPROVER_return_value == (h == H_XOBJ ? (g_in_xobj ? g_n : 0) : h == g_select_list ? (g_in_xobj ? 0 : g_n) : 0)) ;
void xv_push_xobject(Ctx* c) __CPROVER_requires(g_selected == true) __CPROVER_assigns(g_xobjs) __CPROVER_ensures(g_xobjs == __CPROVER_old(g_xobjs) + 1) ;
void xv_trace_select(const Self* s, Ctx* c, int nodes) __CPROVER_requires(nodes != H_NONE) __CPROVER_assigns() __CPROVER_ensures(1) ;
bool xv_tracing(Ctx* c) __CPROVER_requires(1) __CPROVER_assigns() __CPROVER_ensures(__CPROVER_return_value == true || __CPROVER_return_value == false) ;
int xv_sortChildren(const Self* s, Ctx* c, int from, int into)
__CPROVER_requires(/* the sorted output goes into a list of its own */ into >= 1 && into <= g_lists && into != from && into != g_select_list && g_sorted == false) __CPROVER_assigns(g_sorted, g_sorted_from, g_sorted_into)
__CPROVER_ensures(g_sorted == true && g_sorted_from == from && g_sorted_into == into && __CPROVER_return_value == into) ;
void xv_pop_xobject(Ctx* c) __CPROVER_requires(g_xobjs >= 1) __CPROVER_assigns(g_xobjs) __CPROVER_ensures(g_xobjs == __CPROVER_old(g_xobjs) - 1) ;
void xv_pop_list(Ctx* c) __CPROVER_requires(g_lists >= 1) __CPROVER_assigns(g_lists) __CPROVER_ensures(g_lists == __CPROVER_old(g_lists) - 1) ;
#define HOLDER (g_in_xobj ? H_XOBJ : g_select_list)
@@FN create@@
@@FN release@@
void h_create(void)
{
    bool x; size_t n; Self s; unsigned k; const void* p; __CPROVER_assume(p != 0); s.m_sortElemsCount = k; s.m_selectPattern = p;
    g_lists = 0; g_xobjs = 0; g_in_xobj = XV_BOOL(x); g_n = n; g_selected = false; g_sorted = false; g_sorted_from = 0; g_sorted_into = 0; g_select_list = 0;
    create(&s, 0);
}
void h_release(void) { Self s; unsigned k; int l, x; s.m_sortElemsCount = k; s.m_selectPattern = 0; g_lists = l; g_xobjs = x; release(&s, 0); }
'''
R = [(r'typedef StylesheetExecutionContext::SetAndRestoreCurrentStackFrameIndex\s+SetAndRestoreCurrentStackFrameIndex;', '', (0, 1)),
     (r'MutableNodeRefList&\s*(\w+) = executionContext\.createAndPushMutableNodeRefList\(\);', r'const int \1 = xv_push_list(executionContext);', 2),
     (r'XObjectPtr xobjectResult;', 'bool xobjectResult_null = true;', 1),
     (r'const NodeRefListBase\*\s+nodesToTransform = 0;', 'int nodesToTransform = H_NONE;', 1),
     (r'xobjectResult = m_selectPattern->execute\(\s*\*this,\s*executionContext,\s*(\w+)\);', r'xobjectResult_null = xv_select_null(self, executionContext, \1);', 1),
     (r'xobjectResult\.null\(\)', 'xobjectResult_null', 1),
     (r'&selectedNodeList\b', 'selectedNodeList', (0, 2)),
     (r'&xobjectResult->nodeset\(\)', 'H_XOBJ', 1),
     (r'executionContext\.pushXObjectPtr\(xobjectResult\);', 'xv_push_xobject(executionContext);', 1),
     (r'if\(0 != executionContext\.getTraceListeners\(\)\)\s*\{\s*executionContext\.fireSelectEvent\(\s*SelectionEvent\([^;]*?\*(\w+)\)\);', r'if (xv_tracing(executionContext)) { xv_trace_select(self, executionContext, \1);', 1),
     (r'\*?(\w+)(?:->|\.)getLength\(\)', r'xv_list_length(\1)', (1, 2)),
     (r'(?<![\w.>])sortChildren\(\s*executionContext,\s*\*?(\w+),\s*(\w+)\)', r'xv_sortChildren(self, executionContext, \1, \2)', 1),
     (r'\bm_sortElemsCount\b', 'self->m_sortElemsCount', (0, 4)),
     (r'\bm_selectPattern\b', 'self->m_selectPattern', (0, 4)),
     (r'executionContext\.popXObjectPtr\(\);', 'xv_pop_xobject(executionContext);', (0, 1)),
     (r'executionContext\.releaseAndPopMutableNodeRefList\(\);', 'xv_pop_list(executionContext);', (0, 4))]
UNIT = Unit(
    name='c16_foreach',
    props=['C16', 'C06'],
    functions=[
        Fn(FE, r'^ElemForEach::createSelectedAndSortedNodeList\(\s*StylesheetExecutionContext&\s+executionContext\) const', 'create',
           'int create(const Self* self, Ctx* executionContext)', rules=R, nloops=0,
           contract='''__CPROVER_requires(__CPROVER_is_fresh(self, sizeof(*self)) && self->m_selectPattern != 0 && g_lists == 0 && g_xobjs == 0 && g_selected == false && g_sorted == false)
__CPROVER_assigns(g_lists, g_xobjs, g_selected, g_sorted, g_sorted_from, g_sorted_into, g_select_list)
__CPROVER_ensures(/* with xsl:sort children, two or more selected nodes are sorted - from wherever the select expression left them - and the sorted list is what gets processed */
    (self->m_sortElemsCount > 0 && g_n > 1) ? (g_sorted == true && g_sorted_from == HOLDER && __CPROVER_return_value == g_sorted_into)
                                            : (__CPROVER_return_value == HOLDER))
__CPROVER_ensures(/* without xsl:sort nothing is sorted */ self->m_sortElemsCount == 0 ==> g_sorted == false)
__CPROVER_ensures(/* pushed: the select list, the XObject, and one more list exactly when there are sort children */
    g_xobjs == 1 && g_lists == (self->m_sortElemsCount > 0 ? 2 : 1))'''),
        Fn(FE, r'^ElemForEach::releaseSelectedAndSortedNodeList\(\s*StylesheetExecutionContext&\s+executionContext\) const', 'release',
           'void release(const Self* self, Ctx* executionContext)', rules=R[12:], nloops=0,
           contract='''__CPROVER_requires(__CPROVER_is_fresh(self, sizeof(*self)) && g_xobjs == 1 && g_lists == (self->m_sortElemsCount > 0 ? 2 : 1))
__CPROVER_assigns(g_lists, g_xobjs)
__CPROVER_ensures(g_xobjs == 0 && g_lists == 0)'''),
    ],
    template=TEMPLATE,
    jobs=[Job('create', 'h_create', enforce=['create'], replace=['xv_push_list', 'xv_select_null', 'xv_list_length', 'xv_push_xobject', 'xv_trace_select', 'xv_tracing', 'xv_sortChildren'], reach='all', timeout=120, min_obligations=4),
          Job('release', 'h_release', enforce=['release'], replace=['xv_pop_xobject', 'xv_pop_list'], reach='all', timeout=120, min_obligations=2)],
    mutants=[
        Mutant('length_of_select_list', FE, r'if \(nodesToTransform->getLength\(\) > 1\)', 'if (selectedNodeList.getLength() > 1)', expect='two or more'),
        Mutant('sorts_select_list', FE, r'(sortChildren\(\s*executionContext,\s*)\*nodesToTransform,', r'\1selectedNodeList,', expect='two or more'),
        Mutant('needs_three_nodes', FE, r'if \(nodesToTransform->getLength\(\) > 1\)', 'if (nodesToTransform->getLength() > 2)', expect='two or more'),
        Mutant('release_forgets_sorted_list', FE, r'    if \(m_sortElemsCount > 0\)\n    \{\n        executionContext\.releaseAndPopMutableNodeRefList\(\);\n    \}\n', '', expect=None),
    ],
    mechanisms=['xsl:sort on xsl:for-each / xsl:apply-templates', 'execution-context stacks'],
    assumptions=['XPath::execute(context, list) either fills the list it is given and returns a null XObjectPtr or returns a node-set XObject and leaves the list empty (XPath.cpp, not verified here)',
                 'sortChildren sorts `from` into `into` with NodeSorter (units c16_sortkeys, c16_sortlist, c16_compare)'],
)
