"""C02: a predicate that is a number literal, [N], means [position() = N] (XPath 1.0 2.4).  The shortcut in XPath::predicates keeps
exactly the node at position N when N is an integer between 1 and the size of the list, and nothing otherwise (fractional, zero,
negative or too large N select nothing); the conversion of N to an index is defined (C03)."""
from xvlib.unit import Fn, Job, Unit, Mutant, Block

XP = 'src/xalanc/XPath/XPath.cpp'
BLK = Block(XP, r'^\s+const double\s+theIndex =', 'numlit', after=r'^XPath::predicates\(',
            end=r'assert\(theIndex == 1\.0\);\s*\}',
            rules=[(r'm_expression\.getNumberLiteral\(m_expression\.getOpCodeMapValue\(predOpPos \+ 2\)\)', 'xv_number_literal()', 1),
                   ('FCASTS', ['NodeRefListBase::size_type', 'double']),
                   (r'NodeRefListBase::size_type', 'size_t', None),
                   (r'subQueryResults\.clear\(\);', 'xv_clear();', (1, 3)),
                   (r'subQueryResults\.item\(', 'xv_item(', (0, 1)),
                   (r'subQueryResults\.addNode\(theNode\);', 'xv_add(theNode);', (0, 1)),
                   (r'subQueryResults\.setDocumentOrder\(\);', 'xv_set_document_order();', (0, 1)),
                   (r'XalanNode\* const', 'const XalanNode* const', (0, 1))])
TEMPLATE = r'''
#include "xv_shim.h"
typedef struct XalanNode { int dummy; } XalanNode;
double g_lit; size_t g_len; size_t g_cur_len; const XalanNode* g_kept; size_t g_item_index; bool g_item_taken; bool g_order_set;
double xv_number_literal(void) __CPROVER_requires(1) __CPROVER_assigns() __CPROVER_ensures(XV_SAME(__CPROVER_return_value, g_lit)) ;
void xv_clear(void) __CPROVER_requires(1) __CPROVER_assigns(g_cur_len, g_kept) __CPROVER_ensures(g_cur_len == 0 && g_kept == 0) ;
XalanNode g_nodes[2];
const XalanNode* xv_item(size_t i) __CPROVER_requires(/* item() inside the list */ i < g_cur_len) __CPROVER_assigns(g_item_index, g_item_taken)
__CPROVER_ensures(g_item_taken == true && g_item_index == i && __CPROVER_return_value == &g_nodes[0]) ;
void xv_add(const XalanNode* n) __CPROVER_requires(n == &g_nodes[0] && g_cur_len == 0) __CPROVER_assigns(g_cur_len, g_kept) __CPROVER_ensures(g_cur_len == 1 && g_kept == n) ;
void xv_set_document_order(void) __CPROVER_requires(g_cur_len <= 1) __CPROVER_assigns(g_order_set) __CPROVER_ensures(g_order_set == true) ;
#define IS_POS(x) ((x) >= 1.0 && (x) <= (double)g_len && XV_IS_INTEGRAL(x))
void numlit_predicate(size_t theLength)
__CPROVER_requires(theLength == g_len && g_len >= 1 && g_len <= ((size_t)1 << 40) && g_cur_len == g_len && g_item_taken == false && !XV_ISNAN(g_lit))
__CPROVER_assigns(g_cur_len, g_kept, g_item_index, g_item_taken, g_order_set)
__CPROVER_ensures(/* [N] selects nothing unless N is an integer position inside the list */ !IS_POS(g_lit) ==> g_cur_len == 0)
__CPROVER_ensures(/* [N] = [position() = N]: exactly the N-th node is kept */
    IS_POS(g_lit) ==> (g_len == 1 ? (g_cur_len == 1 && g_item_taken == false) : (g_cur_len == 1 && g_item_taken == true && g_item_index == (size_t)g_lit - 1)))
{
@@BLOCK numlit@@
}
void h_numlit(void) { double d; size_t n; g_lit = d; g_len = n; g_cur_len = n; g_kept = 0; g_item_taken = false; g_order_set = false; numlit_predicate(n); XV_REACH("numlit_predicate"); }
'''
UNIT = Unit(
    name='c02_predlit',
    props=['C02', 'C03'],
    blocks=[BLK],
    functions=[],
    template=TEMPLATE,
    jobs=[Job('numlit', 'h_numlit', enforce=['numlit_predicate'], replace=['xv_number_literal', 'xv_clear', 'xv_item', 'xv_add', 'xv_set_document_order'],
              flags=['--conversion-check'], reach=['numlit_predicate'], timeout=300, min_obligations=4)],
    mutants=[Mutant('fraction_truncated', XP, r'if \(theIndex <= 0\.0 \|\|\s*theIndex > double\(theLength\) \|\|\s*double\(NodeRefListBase::size_type\(theIndex\)\) != theIndex\)',
                    'if (theIndex < 1.0 ||\n                    NodeRefListBase::size_type(theIndex) > theLength)', expect='selects nothing unless')],
    mechanisms=['predicate evaluation (number-literal shortcut)', 'predicate filtering incl. numeric-literal shortcut'],
    assumptions=['only the number-literal branch of XPath::predicates is extracted (a block); the general per-node predicate loop is not under contract',
                 'a number literal is never NaN (the XPath lexer produces digits with an optional fraction)'],
)
