from xvlib.unit import Fn, Job, Unit, Mutant, Block
from xvlib.common import UNICODE_BLOCK

EN = 'src/xalanc/XSLT/ElemNumber.cpp'
DR = 'src/xalanc/XSLT/DecimalToRoman.hpp'

TAB_RULES = ['SCOPE']
ALPHA = Block(EN, r'^const XalanDOMChar\s+ElemNumber::s_alphaCountTable\[\]', 's_alphaCountTable', rules=TAB_RULES)
ELALPHA = Block(EN, r'^const XalanDOMChar\s+ElemNumber::s_elalphaCountTable\[\]', 's_elalphaCountTable', rules=TAB_RULES)
ROMAN = Block(EN, r'^const DecimalToRoman\s+ElemNumber::s_romanConvertTable\[\]', 's_romanConvertTable', rules=TAB_RULES)
D2R = Block(DR, r'^struct XALAN_XSLT_EXPORT DecimalToRoman', 'DecimalToRoman',
            rules=[(r'struct XALAN_XSLT_EXPORT DecimalToRoman', 'typedef struct DecimalToRoman', 1),
                   (r'typedef XalanSize_t\s+ValueType;', '', 1), (r'\bValueType\b', 'size_t', None),
                   (r'enum \{ eMaxLetter = 2 \};', '', 1), (r'\}\s*;', '} DecimalToRoman;', 1)])

TEMPLATE = r'''
#include "xv_shim.h"
#include <string.h>
@@BLOCK XalanUnicode@@
typedef size_t CountType; typedef size_t XalanDOMString_size_type; typedef size_t DecimalToRoman_ValueType;
enum { eMaxLetter = 2 };
@@BLOCK DecimalToRoman@@
@@BLOCK s_alphaCountTable@@
@@BLOCK s_elalphaCountTable@@
@@BLOCK s_romanConvertTable@@
#define s_alphaCountTable ElemNumber_s_alphaCountTable
#define s_elalphaCountTable ElemNumber_s_elalphaCountTable
#define s_romanConvertTable ElemNumber_s_romanConvertTable
static const size_t s_romanConvertTableSize = sizeof(ElemNumber_s_romanConvertTable) / sizeof(ElemNumber_s_romanConvertTable[0]);

#ifndef XV_MAXVAL
#define XV_MAXVAL 20000
#endif
/* the result string: a ghost output array that records what the formatter produced */
typedef struct XalanDOMString XalanDOMString;
XalanDOMChar g_out[128]; size_t g_outlen; bool g_error;
#ifdef XV_SAFETY
void xv_res_assign(XalanDOMString* r, const XalanDOMChar* p, size_t n)
__CPROVER_requires(/* the characters handed to the result lie inside the stack buffer */ n <= 100 && __CPROVER_r_ok(p, n * sizeof(XalanDOMChar)))
__CPROVER_assigns(g_outlen) __CPROVER_ensures(g_outlen == n) ;
#else
static void xv_res_assign(XalanDOMString* r, const XalanDOMChar* p, size_t n)
{ __CPROVER_assert(n <= 100, "alphabetic numbering writes at most the 100 buffered characters"); g_outlen = n; for (size_t i = 0; i < n && i < 128; ++i) g_out[i] = p[i]; }
static void xv_res_set_char(XalanDOMString* r, XalanDOMChar c) { g_out[0] = c; g_outlen = 1; }
static void xv_res_set_error(XalanDOMString* r) { g_error = true; g_outlen = 0; }
static void xv_res_clear(XalanDOMString* r) { g_outlen = 0; }
static void xv_res_append(XalanDOMString* r, const XalanDOMChar* p)
{ for (size_t i = 0; i <= eMaxLetter && p[i] != 0; ++i) { __CPROVER_assert(g_outlen < 127, "roman numeral fits"); g_out[g_outlen++] = p[i]; } }
#endif

@@FN int2alphaCount@@
#ifndef XV_SAFETY
@@FN toRoman@@
#endif

/* ---- alphabetic: unbounded safety for every 64-bit value and every radix >= 2 ------------------------ */
void h_alpha_safety(void) { CountType v; const XalanDOMChar* t; size_t n; int2alphaCount(v, t, n, 0); }

#ifndef XV_SAFETY
/* ---- alphabetic: the string decodes back to the number (bounded value range, the two tables of the call sites) */
static size_t decode_alpha(const XalanDOMChar* table, size_t radix)
{
    size_t v = 0;
    for (size_t i = 0; i < g_outlen && i < 8; ++i) {
        size_t d = radix + 1;
        for (size_t k = 0; k < radix; ++k) if (table[k] == g_out[i]) d = (k == 0 ? radix : k);
        __CPROVER_assert(d <= radix, "every output character is a letter of the numbering alphabet");
        v = v * radix + d;
    }
    return v;
}
void h_alpha_value(void)
{
    CountType v; bool greek;
    __CPROVER_assume(v >= 1 && v <= XV_MAXVAL);
    g_outlen = 0;
    if (greek) { int2alphaCount(v, s_elalphaCountTable, sizeof(ElemNumber_s_elalphaCountTable) / 2 - 1, 0); __CPROVER_assert(decode_alpha(s_elalphaCountTable, 25) == v, "Greek alphabetic numbering decodes back to the number (bijective base 25)"); }
    else { int2alphaCount(v, s_alphaCountTable, sizeof(ElemNumber_s_alphaCountTable) / 2 - 1, 0); __CPROVER_assert(decode_alpha(s_alphaCountTable, 26) == v, "alphabetic numbering A..Z, AA.. decodes back to the number (bijective base 26)"); }
    __CPROVER_assert(g_outlen >= 1 && g_outlen <= 5, "alphabetic numbering: 1 to 5 letters in this range");
    XV_REACH("h_alpha_value");
}

/* ---- roman: decodes back by the subtractive rule, for the whole supported domain 1..3999 ---------------- */
static size_t roman_letter(XalanDOMChar c)
{ return c == 'I' ? 1 : c == 'V' ? 5 : c == 'X' ? 10 : c == 'L' ? 50 : c == 'C' ? 100 : c == 'D' ? 500 : c == 'M' ? 1000 : 0; }
void h_roman(void)
{
    CountType v; bool prefixes;
    g_outlen = 0; g_error = false;
    toRoman(v, XV_BOOL(prefixes), 0);
    if (v == 0) __CPROVER_assert(g_outlen == 1 && g_out[0] == '0', "roman: zero prints 0");
    else if (v > 3999) __CPROVER_assert(g_error, "roman: values above 3999 give the error string");
    else {
        size_t sum = 0;
        __CPROVER_assert(!g_error && g_outlen >= 1 && g_outlen <= 30, "roman: between 1 and 30 letters");
        for (size_t i = 0; i < g_outlen && i < 30; ++i) {
            size_t a = roman_letter(g_out[i]), b = (i + 1 < g_outlen) ? roman_letter(g_out[i + 1]) : 0;
            __CPROVER_assert(a != 0, "roman: only the letters I V X L C D M");
            if (a < b) sum -= a; else sum += a;
        }
        __CPROVER_assert(sum == v, "roman numeral decodes back to the number (subtractive rule), for every value 1..3999");
    }
    XV_REACH("h_roman");
}
#endif
'''

ALPHA_CONTRACT = r'''
__CPROVER_requires(/* call sites pass tables of 26 and 25 letters; the algorithm needs at least 2 */ length >= 2 && length <= 65536)
__CPROVER_requires(__CPROVER_is_fresh(table, (length + 1) * sizeof(XalanDOMChar)))
__CPROVER_assigns(g_out, g_outlen)
__CPROVER_ensures(/* alphabetic numbering: at most 64 letters for any 64-bit value (the 100-unit stack buffer suffices) */ g_outlen <= 64)
'''
ALPHA_LOOP = r'''
__CPROVER_assigns(correction, lookupIndex, val, charPos, __CPROVER_object_whole(buf))
__CPROVER_loop_invariant(charPos <= buflen - 1 && charPos >= buflen - 1 - 64)
__CPROVER_loop_invariant(/* one column is consumed per letter written: after k letters val has lost k bits */ (buflen - 1 - charPos >= 64) ? (val == 0) : (val <= (((size_t)-1) >> (buflen - 1 - charPos))))
__CPROVER_loop_invariant(/* the loop is re-entered only while val > 0 */ (charPos < buflen - 1) ==> val > 0)
__CPROVER_decreases(val)
'''

UNIT = Unit(
    name='c17_format',
    props=['C17', 'C03'],
    blocks=[UNICODE_BLOCK, D2R, ALPHA, ELALPHA, ROMAN],
    functions=[
        Fn(EN, r'^ElemNumber::int2alphaCount\(', 'int2alphaCount',
           'void int2alphaCount(CountType val, const XalanDOMChar* table, size_t length, XalanDOMString* theResult)',
           head_expect=r'^void ElemNumber::int2alphaCount\( CountType val, const XalanDOMChar table\[\], XalanDOMString::size_type length, XalanDOMString& theResult\)$',
           rules=['SCOPE', (r'theResult\.assign\(', 'xv_res_assign(theResult, ', 1)],
           contract=ALPHA_CONTRACT, loops={0: ALPHA_LOOP}, nloops=1),
        Fn(EN, r'^ElemNumber::toRoman\(', 'toRoman', 'void toRoman(CountType val, bool prefixesAreOK, XalanDOMString* theResult)',
           head_expect=r'^void ElemNumber::toRoman\( CountType val, bool prefixesAreOK, XalanDOMString& theResult\)$',
           rules=['SCOPE', (r'theResult = XalanUnicode_charDigit_0;', 'xv_res_set_char(theResult, XalanUnicode_charDigit_0);', 1),
                  (r'theResult = s_errorString;', 'xv_res_set_error(theResult);', 1),
                  (r'theResult\.clear\(\);', 'xv_res_clear(theResult);', 1),
                  (r'theResult \+= (theCurrent\.m_p\w+Letter);', r'xv_res_append(theResult, \1);', 2),
                  (r'const DecimalToRoman&\s+theCurrent =\s*s_romanConvertTable\[place\];', 'const DecimalToRoman theCurrent = s_romanConvertTable[place];', 1)],
           nloops=2, reach=False),
    ],
    template=TEMPLATE,
    jobs=[
        Job('alpha_safety', 'h_alpha_safety', enforce=['int2alphaCount'], replace=['xv_res_assign'], loop_contracts=True, defines=['XV_SAFETY'],
            reach=['entry:int2alphaCount', 'after_loop0:int2alphaCount'], timeout=900),
        Job('alpha_value', 'h_alpha_value', dfcc=False, cls='B', unwind=30, defines=['XV_MAXVAL=20000'], reach=['h_alpha_value'], timeout=900,
            bound_note='values 1..20000 (three-column carries: 26^3 = 17576), radix 26 and 25 with the real tables'),
        Job('alpha_value_1e6', 'h_alpha_value', dfcc=False, cls='B', unwind=30, defines=['XV_MAXVAL=1000000'], reach=['h_alpha_value'], timeout=1200, thorough_only=True,
            bound_note='values 1..1000000 (four-column carries: 26^4 = 456976), radix 26 and 25 with the real tables; about 10 minutes'),
        Job('roman', 'h_roman', dfcc=False, cls='W', unwind=9, flags=['--unwindset', 'h_roman.0:32'], reach=['h_roman'], timeout=900,
            bound_note='complete: the function only formats 1..3999 (at most 30 letters without prefixes); larger values take the error branch'),
    ],
    mutants=[
        Mutant('alpha_carry', EN, r'lookupIndex == radix - 1 \)\)', 'lookupIndex == radix ))', expect='decodes back'),
        Mutant('alpha_leading_zero', EN, r'if \(lookupIndex == 0 && val == 0\)', 'if (lookupIndex == 0 && val == 1)', expect=None),
        Mutant('roman_pre_letter_post_value', EN, r'theResult \+= theCurrent\.m_preLetter;\s*localValue -= theCurrent\.m_preValue;', 'theResult += theCurrent.m_preLetter;\n                    localValue -= theCurrent.m_preValue + (place == 5 ? 1 : 0);', expect='roman'),
    ],
    mechanisms=['format token parsing and alphabetic / roman / grouped decimal rendering'],
    assumptions=['XalanDOMString::assign / += / clear / operator= record exactly the characters given (ghost output array)',
                 'memset is the C library memset (CBMC model)'],
)
