"""C13: the XPath node tests text() and node() never match a text node the declarations strip (axes, position(), last() and count() see
the document as if the node were absent); every other node is matched as XPath 1.0 2.3 says."""
from xvlib.unit import Fn, Job, Unit, Mutant

XP = 'src/xalanc/XPath/XPath.cpp'
TEMPLATE = r'''
#include "xv_shim.h"
typedef struct Self Self; typedef struct XalanNode XalanNode; typedef struct XalanNode XalanText; typedef int XalanNode_NodeType; typedef int XPath_eMatchScore;
enum { XalanNode_ELEMENT_NODE = 1, XalanNode_ATTRIBUTE_NODE = 2, XalanNode_TEXT_NODE = 3, XalanNode_CDATA_SECTION_NODE = 4, XalanNode_PROCESSING_INSTRUCTION_NODE = 7, XalanNode_COMMENT_NODE = 8, XalanNode_DOCUMENT_NODE = 9 };
enum { eMatchScoreNone = 0, eMatchScoreNodeTest = 1 };
bool g_strip_answer, g_asked;
bool xv_shouldStrip(const Self* self, const XalanText* t)
__CPROVER_requires(t != 0) __CPROVER_assigns(g_asked) __CPROVER_ensures(g_asked == true && __CPROVER_return_value == g_strip_answer) ;
@@FN testText@@
@@FN testNode@@
void h_testText(void) { bool s; g_strip_answer = XV_BOOL(s); g_asked = false; Self* p; XalanNode* n; int t; testText(p, n, t); }
void h_testNode(void) { bool s; g_strip_answer = XV_BOOL(s); g_asked = false; Self* p; XalanNode* n; int t; testNode(p, n, t); }
'''
R = ['SCOPE', (r'(?<![\w.>])shouldStripSourceNode\(static_cast<const XalanText&>\(context\)\)', 'xv_shouldStrip(self, context)', 1)]
UNIT = Unit(
    name='c13_nodetest',
    props=['C13'],
    functions=[
        Fn(XP, r'^XPath::NodeTester::testText\(', 'testText', 'XPath_eMatchScore testText(const Self* self, const XalanNode* context, XalanNode_NodeType nodeType)', rules=R, nloops=0,
           contract='''__CPROVER_requires(context != 0 && g_asked == false && nodeType >= 1 && nodeType <= 12)
__CPROVER_assigns(g_asked)
__CPROVER_ensures(/* text() matches exactly the text nodes the declarations keep */ (__CPROVER_return_value != eMatchScoreNone) == (nodeType == XalanNode_TEXT_NODE && g_strip_answer == false))
__CPROVER_ensures(/* the strip check is made for text nodes only (the cast to XalanText is valid) */ g_asked == true ==> nodeType == XalanNode_TEXT_NODE)'''),
        Fn(XP, r'^XPath::NodeTester::testNode\(', 'testNode', 'XPath_eMatchScore testNode(const Self* self, const XalanNode* context, XalanNode_NodeType nodeType)', rules=R, nloops=0,
           contract='''__CPROVER_requires(context != 0 && g_asked == false && nodeType >= 1 && nodeType <= 12)
__CPROVER_assigns(g_asked)
__CPROVER_ensures(/* node() matches every node except a text node the declarations strip */ (__CPROVER_return_value != eMatchScoreNone) == !(nodeType == XalanNode_TEXT_NODE && g_strip_answer == true))
__CPROVER_ensures(/* the strip check is made for text nodes only (the cast to XalanText is valid) */ g_asked == true ==> nodeType == XalanNode_TEXT_NODE)'''),
    ],
    template=TEMPLATE,
    jobs=[Job('testText', 'h_testText', enforce=['testText'], replace=['xv_shouldStrip'], reach='all', timeout=60, min_obligations=2),
          Job('testNode', 'h_testNode', enforce=['testNode'], replace=['xv_shouldStrip'], reach='all', timeout=60, min_obligations=2)],
    mutants=[
        Mutant('node_test_ignores_strip', XP, r'if \(nodeType != XalanNode::TEXT_NODE \|\|\s*shouldStripSourceNode\(static_cast<const XalanText&>\(context\)\) == false\)', 'if (nodeType != XalanNode::TEXT_NODE ||\n        shouldStripSourceNode(static_cast<const XalanText&>(context)) == false || true)', expect='node() matches every node except'),
        Mutant('text_test_or', XP, r'if \(XalanNode::TEXT_NODE == nodeType &&\s*shouldStripSourceNode', 'if (XalanNode::TEXT_NODE == nodeType ||\n        shouldStripSourceNode', expect='text'),
    ],
    mechanisms=['node tests consult shouldStripSourceNode (XPath::NodeTester)'],
    assumptions=['only testText and testNode consult the declarations; the name tests cannot match text nodes'],
)
