from xvlib.unit import Fn, Job, Unit, Mutant, Block
from xvlib.common import UNICODE_BLOCK

UR = 'src/xalanc/PlatformSupport/XalanParsedURI.cpp'

OUTER = r'''
__CPROVER_assigns(index, g_len)
__CPROVER_loop_invariant(index <= g_len + 1 && g_len <= XV_MAXLEN && g_len <= __CPROVER_loop_entry(g_len))
__CPROVER_decreases(g_len, g_len + 1 - index)
'''
BACK = r'''
__CPROVER_assigns(index)
__CPROVER_loop_invariant(index <= __CPROVER_loop_entry(index))
__CPROVER_decreases(index)
'''
FWD = r'''
__CPROVER_assigns(index)
__CPROVER_loop_invariant(index <= g_len && index >= __CPROVER_loop_entry(index))
__CPROVER_decreases(g_len - index)
'''
LOOP = Block(UR, r'^\s*for \(XalanDOMString::size_type index = 0; index < m_path\.length\(\); \)', 'dotsegments',
             rules=['SCOPE', (r'XalanDOMString_size_type', 'size_t', None),
                    (r'm_path\.length\(\)', 'xv_path_length()', None),
                    (r'm_path\[([^\]]+)\]', r'xv_path_at(\1)', None),
                    (r'm_path\.erase\(', 'xv_path_erase(', None)],
             loops={0: OUTER, 1: BACK, 2: BACK, 3: FWD}, nloops=4)

TEMPLATE = r'''
#include "xv_shim.h"
@@BLOCK XalanUnicode@@
#define XV_MAXLEN ((size_t)1 << 40)
/* ghost: m_path as a string of g_len units with arbitrary contents (every read may return any unit: sound for safety) */
size_t g_len;
size_t xv_path_length(void) __CPROVER_requires(1) __CPROVER_assigns() __CPROVER_ensures(__CPROVER_return_value == g_len) ;
XalanDOMChar xv_path_at(size_t i)
__CPROVER_requires(/* XalanDOMString::operator[] index inside the string */ i < g_len) __CPROVER_assigns() __CPROVER_ensures(1) ;
void xv_path_erase(size_t pos, size_t n)
__CPROVER_requires(/* XalanDOMString::erase(pos, n): the range lies inside the string */ pos <= g_len && n <= g_len - pos)
__CPROVER_assigns(g_len) __CPROVER_ensures(g_len == __CPROVER_old(g_len) - n) ;

/* the dot-segment removal loop of XalanParsedURI::resolve (RFC 2396 5.2 step 6 c-g), cut out of the function */
void remove_dot_segments(void)
__CPROVER_requires(g_len <= XV_MAXLEN)
__CPROVER_assigns(g_len)
__CPROVER_ensures(/* path normalisation only ever shortens the path and terminates */ g_len <= __CPROVER_old(g_len))
{
    XV_REACH("entry:remove_dot_segments");
@@BLOCK dotsegments@@
    XV_REACH("exit:remove_dot_segments");
}
void h_uripath(void) { size_t n; g_len = n; remove_dot_segments(); }
'''

UNIT = Unit(
    name='c03_uripath',
    props=['C03'],
    blocks=[UNICODE_BLOCK, LOOP],
    functions=[],
    template=TEMPLATE,
    jobs=[Job('dotsegments', 'h_uripath', enforce=['remove_dot_segments'], replace=['xv_path_length', 'xv_path_at', 'xv_path_erase'],
              loop_contracts=True, reach=['entry:remove_dot_segments', 'exit:remove_dot_segments'], timeout=600)],
    mutants=[
        Mutant('unguarded_decrement', UR, r'(index--\)\s*;\s*)if \(index > 0\) --index;(\s*m_path\.erase\(index, end - index\);)', r'\1--index;\2', expect='erase'),
        Mutant('lookahead_off_by_one', UR, r'else if \(index < m_path\.length\(\)-2 &&', 'else if (index < m_path.length()-1 &&', expect='operator[]'),
    ],
    mechanisms=[],
    assumptions=['XalanDOMString length()/operator[]/erase(pos,n) of m_path are stubs with the std::basic_string preconditions; string contents are not tracked (any unit may be read): memory safety and termination only',
                 'the loop is cut out of XalanParsedURI::resolve(const XalanParsedURI&) as a block (the rest of the function manipulates string objects)'],
)
