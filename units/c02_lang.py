"""C02: lang(s) (XPath 1.0 4.3).  The language of the context node is given by the xml:lang attribute of the NEAREST ancestor-or-self element
that has one; lang() is true iff that value equals s or starts with s followed by "-" (ASCII case-insensitive), and false when no such
attribute exists.  An outer xml:lang never counts once a nearer one was seen - whether the nearer one matched or not."""
from xvlib.unit import Fn, Job, Unit, Mutant

FL = 'src/xalanc/XPath/FunctionLang.cpp'
TEMPLATE = r'''
#include "xv_shim.h"
typedef struct Ctx Ctx; typedef struct XalanNode XalanNode; typedef struct XalanNode XalanElement; typedef struct XalanNode XalanNamedNodeMap; typedef struct XalanDOMString XalanDOMString; typedef int XObjectPtr;
enum { XalanNode_ELEMENT_NODE = 1 };
/* ghost: the walk up the ancestor-or-self chain: the element reached now, whether it has xml:lang and whether that value matches the argument;
   g_decided: the first (nearest) element with the attribute has been seen, g_answer what it says */
bool g_is_element, g_has_attr, g_attr_matches; bool g_decided, g_answer; bool g_result_set, g_result; const XalanNode* g_cur;
int xv_node_type(const XalanNode* n) __CPROVER_requires(n != 0 && n == g_cur) __CPROVER_assigns() __CPROVER_ensures((__CPROVER_return_value == XalanNode_ELEMENT_NODE) == g_is_element) ;
/* getAttributes()->getNamedItemNS(xml namespace, "lang") of the element reached: records what the nearest declaring element says */
const XalanNode* xv_lang_attribute(const XalanNode* e) __CPROVER_requires(e != 0 && e == g_cur && g_is_element == true) __CPROVER_assigns(g_decided, g_answer)
__CPROVER_ensures((__CPROVER_return_value != 0) == g_has_attr && g_decided == (__CPROVER_old(g_decided) || g_has_attr) && g_answer == ((!__CPROVER_old(g_decided) && g_has_attr) ? g_attr_matches : __CPROVER_old(g_answer))) ;
/* the comparison of the attribute value with the argument: equal, or a prefix followed by '-' (case-insensitive) */
bool xv_value_matches(const XalanNode* attr) __CPROVER_requires(attr != 0) __CPROVER_assigns() __CPROVER_ensures(__CPROVER_return_value == g_attr_matches) ;
bool xv_boundary_ok(void) __CPROVER_requires(1) __CPROVER_assigns() __CPROVER_ensures(__CPROVER_return_value == true) ;   /* second half of the comparison, folded into xv_value_matches */
bool xv_value_empty(const XalanNode* attr) __CPROVER_requires(1) __CPROVER_assigns() __CPROVER_ensures((__CPROVER_return_value == true || __CPROVER_return_value == false) && (attr == 0 ==> __CPROVER_return_value == true) && (g_attr_matches && attr != 0 ==> __CPROVER_return_value == false)) ;
/* DOMServices::getParentOfNode: the next element up; everything about it is new */
const XalanNode* xv_parent_of(const XalanNode* n) __CPROVER_requires(n != 0 && n == g_cur) __CPROVER_assigns(g_cur, g_is_element, g_has_attr, g_attr_matches)
__CPROVER_ensures(__CPROVER_return_value == g_cur && (g_is_element == true || g_is_element == false) && (g_has_attr == true || g_has_attr == false) && (g_attr_matches == true || g_attr_matches == false)) ;
XObjectPtr xv_create_boolean(Ctx* c, bool b) __CPROVER_requires(g_result_set == false) __CPROVER_assigns(g_result_set, g_result) __CPROVER_ensures(g_result_set == true && g_result == b) ;
@@FN lang@@
void h_lang(void) { bool a, b, c; const XalanNode* n; g_is_element = XV_BOOL(a); g_has_attr = XV_BOOL(b); g_attr_matches = XV_BOOL(c); g_decided = false; g_answer = false; g_result_set = false; g_cur = n; lang(0, 0, (XalanNode*)n, 1, 0); }
'''
R = ['SCOPE',
     (r'assert\(arg1\.null\(\) == false\);', '', 1),
     (r'const XalanDOMString&\s+lang = arg1->str\(executionContext\);', '', 1),
     (r'parent->getNodeType\(\)', 'xv_node_type(parent)', 1),
     (r'const XalanElement\* const\s+theElementNode =\s*static_cast<const XalanElement\*>\(parent\);', '', 1),
     (r'const XalanNamedNodeMap\* const\s+theAttributes =\s*theElementNode->getAttributes\(\);\s*assert\(theAttributes != 0\);', '', 1),
     (r'theAttributes->getNamedItemNS\(\s*DOMServices_s_XMLNamespaceURI,\s*s_attributeName\)', 'xv_lang_attribute(parent)', 1),
     (r'theAttributes->getNamedItemNS\(\s*DOMServices::s_XMLNamespaceURI,\s*s_attributeName\)', 'xv_lang_attribute(parent)', (0, 1)),
     (r'const XalanDOMString&\s+langVal = theAttribute == 0 \?\s*s_emptyString : theAttribute->getNodeValue\(\);', '', 1),
     (r'langVal\.empty\(\) == false', '(xv_value_empty(theAttribute) == false)', (0, 1)),
     (r'const GetCachedString\s+theGuard1\(executionContext\);\s*const GetCachedString\s+theGuard2\(executionContext\);', '', 1),
     (r'if \(startsWith\(toLowerCaseASCII\(langVal, theGuard1\.get\(\)\), toLowerCaseASCII\(lang, theGuard2\.get\(\)\)\)\)\s*\{\s*const XalanDOMString_size_type\s+valLen = lang\.length\(\);\s*if \(langVal\.length\(\) == valLen \|\|\s*langVal\[valLen\] == XalanUnicode_charHyphenMinus\)', 'if (xv_value_matches(theAttribute)) { if (xv_boundary_ok())', 1),
     (r'DOMServices_getParentOfNode\(\*parent\)', 'xv_parent_of(parent)', (0, 1)),
     (r'DOMServices::getParentOfNode\(\*parent\)', 'xv_parent_of(parent)', (0, 1)),
     (r'executionContext\.getXObjectFactory\(\)\.createBoolean\((\w+)\)', r'xv_create_boolean(executionContext, \1)', 1)]
UNIT = Unit(
    name='c02_lang',
    props=['C02'],
    functions=[
        Fn(FL, r'^FunctionLang::execute\(', 'lang', 'XObjectPtr lang(const void* self, Ctx* executionContext, XalanNode* context, XObjectPtr arg1, const void* locator)', rules=R, nloops=1,
           loops={0: '''__CPROVER_assigns(parent, fMatch, g_cur, g_is_element, g_has_attr, g_attr_matches, g_decided, g_answer)
__CPROVER_loop_invariant(parent == g_cur && (fMatch == true || fMatch == false) && (g_is_element == true || g_is_element == false) && (g_has_attr == true || g_has_attr == false) && (g_attr_matches == true || g_attr_matches == false))
__CPROVER_loop_invariant(/* while the walk goes on no declaring element has been seen; */ g_decided == false && fMatch == false)'''},
           contract='''__CPROVER_requires(context == g_cur && g_decided == false && g_answer == false && g_result_set == false)
__CPROVER_assigns(g_cur, g_is_element, g_has_attr, g_attr_matches, g_decided, g_answer, g_result_set, g_result)
__CPROVER_ensures(/* lang(): what the NEAREST ancestor-or-self element with an xml:lang attribute says; false if there is none */ g_result_set == true && g_result == (g_decided ? g_answer : false))'''),
    ],
    template=TEMPLATE,
    jobs=[Job('lang', 'h_lang', enforce=['lang'], replace=['xv_node_type', 'xv_lang_attribute', 'xv_value_matches', 'xv_boundary_ok', 'xv_value_empty', 'xv_parent_of', 'xv_create_boolean'], loop_contracts=True, reach='all', timeout=300, min_obligations=5)],
    mutants=[
        Mutant('outer_language_counts_after_mismatch', FL, r'(                        fMatch = true;\n)(                    \}\n                \}\n)\n                // The nearest xml:lang attribute decides, whether\n                // it matches or not\.\.\.\n                break;\n', r'\1\n                        break;\n\2', expect=None),
        Mutant('always_true_when_declared', FL, r'if \(langVal\.length\(\) == valLen \|\|\s*langVal\[valLen\] == XalanUnicode::charHyphenMinus\)\s*\{\s*fMatch = true;\s*\}\s*\}', 'if (langVal.length() == valLen ||\n                        langVal[valLen] == XalanUnicode::charHyphenMinus)\n                    {\n                        fMatch = true;\n                    }\n                }\n                fMatch = true;', expect=None),
    ],
    mechanisms=['lang()'],
    assumptions=['the comparison of the attribute value with the argument (case-insensitive prefix followed by "-") is one stub; the walk up uses DOMServices::getParentOfNode; termination of the walk is not proved (parent chain)'],
)
