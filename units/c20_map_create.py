"""C20: XalanMap::doCreateEntry files a new entry in the bucket that find() will look in: the bucket index is computed for the
table size that is in force when the entry is filed (i.e. after a possible rehash)."""
from xvlib.unit import Fn, Job, Unit, Mutant

XM = 'src/xalanc/Include/XalanMap.hpp'
TEMPLATE = r'''
#include "xv_shim.h"
typedef struct Self { size_t m_size; size_t m_minBuckets; } Self; typedef struct Key key_type; typedef struct Data data_type; typedef int iterator;
/* ghost: the number of buckets, an epoch that changes whenever the table is resized, the epoch the last hash index was computed in */
size_t g_nbuckets; size_t g_epoch, g_index_epoch; bool g_filed; size_t g_filed_index; bool g_have_free, g_key_built, g_value_built, g_spliced;
bool xv_buckets_empty(const Self* s) __CPROVER_requires(1) __CPROVER_assigns() __CPROVER_ensures(__CPROVER_return_value == (g_nbuckets == 0)) ;
void xv_init_buckets(Self* s) __CPROVER_requires(g_nbuckets == 0 && s->m_minBuckets >= 1) __CPROVER_assigns(g_nbuckets, g_epoch)
__CPROVER_ensures(g_nbuckets == s->m_minBuckets && g_epoch == __CPROVER_old(g_epoch) + 1) ;
bool xv_load_factor_reached(const Self* s) __CPROVER_requires(g_nbuckets >= 1) __CPROVER_assigns() __CPROVER_ensures(1) ;   /* size_type(m_loadFactor * size()) > m_buckets.size() */
void xv_rehash(Self* s) __CPROVER_requires(g_nbuckets >= 1) __CPROVER_assigns(g_nbuckets, g_epoch)
__CPROVER_ensures(g_nbuckets > __CPROVER_old(g_nbuckets) && g_epoch == __CPROVER_old(g_epoch) + 1) ;
size_t xv_doHash(const Self* s, const key_type* k)        /* m_hash(key) % m_buckets.size() */
__CPROVER_requires(/* no division by zero */ g_nbuckets >= 1) __CPROVER_assigns(g_index_epoch)
__CPROVER_ensures(__CPROVER_return_value < g_nbuckets && g_index_epoch == g_epoch) ;
bool xv_free_empty(const Self* s) __CPROVER_requires(1) __CPROVER_assigns() __CPROVER_ensures(__CPROVER_return_value == !g_have_free) ;
void xv_free_push_new(Self* s) __CPROVER_requires(g_have_free == false) __CPROVER_assigns(g_have_free) __CPROVER_ensures(g_have_free == true) ;
void xv_build_key(Self* s, const key_type* k) __CPROVER_requires(g_have_free == true) __CPROVER_assigns(g_key_built) __CPROVER_ensures(g_key_built == true) ;
void xv_build_value(Self* s, const data_type* d) __CPROVER_requires(g_have_free == true) __CPROVER_assigns(g_value_built) __CPROVER_ensures(g_value_built == true) ;
void xv_splice_to_entries(Self* s) __CPROVER_requires(g_have_free == true && g_key_built == true && g_value_built == true) __CPROVER_assigns(g_spliced) __CPROVER_ensures(g_spliced == true) ;
void xv_bucket_push(Self* s, size_t index)
__CPROVER_requires(/* bounds */ index < g_nbuckets && g_spliced == true && g_filed == false)
__CPROVER_requires(/* the bucket index was computed for the table size the entry is filed under: find() hashes with the current size */ g_index_epoch == g_epoch)
__CPROVER_assigns(g_filed, g_filed_index) __CPROVER_ensures(g_filed == true && g_filed_index == index) ;
iterator xv_last_entry(const Self* s) __CPROVER_requires(g_spliced == true) __CPROVER_assigns() __CPROVER_ensures(1) ;
@@FN doCreateEntry@@
void h_doCreateEntry(void)
{ size_t n, e, i; bool f; g_nbuckets = n; g_epoch = e; g_index_epoch = i; g_filed = false; g_have_free = XV_BOOL(f); g_key_built = false; g_value_built = false; g_spliced = false;
  __CPROVER_assume(n < ((size_t)1 << 60) && e < ((size_t)1 << 60) && i <= e);
  Self* s; key_type* k; data_type* d; doCreateEntry(s, k, d); }
'''
R = [(r'm_buckets\.empty\(\)', 'xv_buckets_empty(self)', 1),
     (r'm_buckets\.insert\(\s*m_buckets\.begin\(\),\s*m_minBuckets,\s*BucketType\(\*m_memoryManager\)\);', 'xv_init_buckets(self);', 1),
     (r'size_type\(m_loadFactor \* size\(\)\) > m_buckets\.size\(\)', 'xv_load_factor_reached(self)', 1),
     (r'(?<![\w.>])rehash\(\);', 'xv_rehash(self);', (0, 2)),
     (r'const size_type\s+index = doHash\(key\);', 'const size_t index = xv_doHash(self, key);', 1),
     (r'm_freeEntries\.empty\(\)', 'xv_free_empty(self)', 1),
     (r'm_freeEntries\.push_back\(Entry\(allocate\(1\)\)\);', 'xv_free_push_new(self);', 1),
     (r'Entry&\s+newEntry = m_freeEntries\.back\(\);\s*newEntry\.erased = false;', '', 1),
     (r'FirstConstructor::construct\(\s*const_cast<key_type\*>\(&newEntry\.value->first\),\s*key,\s*\*m_memoryManager\);', 'xv_build_key(self, key);', 1),
     (r'SecondConstructor::construct\(\s*&newEntry\.value->second,\s*\*data,\s*\*m_memoryManager\);', 'xv_build_value(self, data);', 1),
     (r'SecondConstructor::construct\(\s*&newEntry\.value->second,\s*\*m_memoryManager\);', 'xv_build_value(self, 0);', 1),
     (r'm_entries\.splice\(m_entries\.end\(\), m_freeEntries, --m_freeEntries\.end\(\)\);', 'xv_splice_to_entries(self);', 1),
     (r'm_buckets\[index\]\.push_back\(--m_entries\.end\(\)\);', 'xv_bucket_push(self, index);', 1),
     (r'\+\+m_size;', '++self->m_size;', (0, 1)),
     (r'return iterator\(--m_entries\.end\(\)\);', 'return xv_last_entry(self);', 1)]
UNIT = Unit(
    name='c20_map_create',
    props=['C20'],
    functions=[Fn(XM, r'^\s+iterator doCreateEntry\(const key_type & key, const data_type\*\s+data = 0\)', 'doCreateEntry', 'iterator doCreateEntry(Self* self, const key_type* key, const data_type* data)',
                  rules=R, nloops=0,
                  contract='''__CPROVER_requires(__CPROVER_is_fresh(self, sizeof(*self)) && self->m_minBuckets >= 1 && self->m_minBuckets < ((size_t)1 << 60) && self->m_size < ((size_t)1 << 60))
__CPROVER_requires(g_filed == false && g_key_built == false && g_value_built == false && g_spliced == false && g_index_epoch <= g_epoch && g_epoch < ((size_t)1 << 60) && g_nbuckets < ((size_t)1 << 60))
__CPROVER_assigns(self->m_size, g_nbuckets, g_epoch, g_index_epoch, g_filed, g_filed_index, g_have_free, g_key_built, g_value_built, g_spliced)
__CPROVER_ensures(/* one new entry, filed in a bucket of the current table */ g_filed == true && g_filed_index < g_nbuckets && g_index_epoch == g_epoch && self->m_size == __CPROVER_old(self->m_size) + 1)''')],
    template=TEMPLATE,
    jobs=[Job('doCreateEntry', 'h_doCreateEntry', enforce=['doCreateEntry'],
              replace=['xv_buckets_empty', 'xv_init_buckets', 'xv_load_factor_reached', 'xv_rehash', 'xv_doHash', 'xv_free_empty', 'xv_free_push_new', 'xv_build_key', 'xv_build_value',
                       'xv_splice_to_entries', 'xv_bucket_push', 'xv_last_entry'], reach='all', timeout=120, min_obligations=5)],
    mutants=[Mutant('index_before_rehash', XM, r'(        // if the load factor has been reached, rehash\n        if \(size_type\(m_loadFactor \* size\(\)\) > m_buckets\.size\(\)\)\s*\{\s*rehash\(\);\s*\}\s*)(const size_type     index = doHash\(key\);\s*)', r'\2\1', expect='computed for the table size'),
             Mutant('size_not_counted', XM, r'(m_buckets\[index\]\.push_back\(--m_entries\.end\(\)\);\s*)\+\+m_size;', r'\1', expect='one new entry')],
    mechanisms=['XalanMap bucket filing and rehash', 'insert / find / erase / rehash / compaction'],
    assumptions=['doHash(key) is m_hash(key) % m_buckets.size() (read); rehash() and the initial bucket creation change the number of buckets; the entry lists are modelled by protocol flags only'],
)
