from xvlib.unit import Fn, Job, Unit, Mutant, Block

BH = 'src/xalanc/PlatformSupport/XalanBitmap.hpp'
BC = 'src/xalanc/PlatformSupport/XalanBitmap.cpp'

MASKS = Block(BC, r'^const int\s+XalanBitmap::s_setMasks', 'masks', end=r's_clearMasks\[[^\]]*\]\s*=\s*\{[^}]*\};',
              rules=[(r'XalanBitmap::eBitsPerUnit', 'eBitsPerUnit', 2), (r'XalanBitmap::', '', 2), (r'const int', 'static const int', 2)])
ENUM = Block(BH, r'^\s*enum \{ eBitsPerUnit', 'eBitsPerUnit', end=r'\};')

TEMPLATE = r'''
#include "xv_shim.h"
@@BLOCK eBitsPerUnit@@
@@BLOCK masks@@
typedef struct XalanBitmap { size_t m_size; char* m_bitmap; } XalanBitmap;   /* m_bitmap: XalanVector<char>, indexed like an array (assumed) */
size_t g_w;     /* ghost witness: any other bit */
#define NBYTES(s) (((s)->m_size + eBitsPerUnit) / eBitsPerUnit)
#define BIT(s, k) ((((unsigned char)(s)->m_bitmap[(k) / 8]) >> ((k) % 8)) & 1u)
#define OLDBIT(s, k) ((((unsigned char)__CPROVER_old((s)->m_bitmap[(k) / 8])) >> ((k) % 8)) & 1u)
#define PRE(s) (__CPROVER_is_fresh((s), sizeof(*(s))) && (s)->m_size >= 1 && (s)->m_size <= ((size_t)1 << 32) && __CPROVER_is_fresh((s)->m_bitmap, NBYTES(s)) && theBit < (s)->m_size && g_w < (s)->m_size)

@@FN isSet@@
@@FN set@@
@@FN clear@@
@@FN toggle@@
void h_isSet(void) { size_t w; g_w = w; XalanBitmap* b; size_t k; isSet(b, k); }
void h_set(void) { size_t w; g_w = w; XalanBitmap* b; size_t k; set(b, k); }
void h_clear(void) { size_t w; g_w = w; XalanBitmap* b; size_t k; clear(b, k); }
void h_toggle(void) { size_t w; g_w = w; XalanBitmap* b; size_t k; toggle(b, k); }
'''
R = [(r'\bm_(size|bitmap)\b', r'self->m_\1', None)]
FRAME = '__CPROVER_ensures(/* %s: every other bit keeps its value (ghost witness), like std::bitset / vector<bool> */ g_w != theBit ==> BIT(self, g_w) == OLDBIT(self, g_w))\n'


def mut(name, post):
    return Fn(BH, r'^\s+%s\(size_type\s+theBit\)' % name, name, 'void %s(XalanBitmap* self, size_t theBit)' % name,
              head_expect=r'void %s\(size_type theBit\)$' % name, rules=R, nloops=0,
              contract='__CPROVER_requires(PRE(self))\n__CPROVER_assigns(__CPROVER_object_whole(self->m_bitmap))\n'
                       '__CPROVER_ensures(/* %s: the addressed bit */ %s)\n' % (name, post) + FRAME % name)


UNIT = Unit(
    name='c20_bitmap',
    props=['C20', 'C03'],
    blocks=[ENUM, MASKS],
    functions=[
        Fn(BH, r'^\s+isSet\(size_type\s+theBit\) const', 'isSet', 'bool isSet(const XalanBitmap* self, size_t theBit)',
           head_expect=r'bool isSet\(size_type theBit\) const$', rules=R, nloops=0,
           contract='__CPROVER_requires(PRE(self))\n__CPROVER_assigns()\n__CPROVER_ensures(/* isSet: the value of the addressed bit */ __CPROVER_return_value == (BIT(self, theBit) != 0))\n'),
        mut('set', 'BIT(self, theBit) == 1'), mut('clear', 'BIT(self, theBit) == 0'), mut('toggle', 'BIT(self, theBit) == 1 - OLDBIT(self, theBit)'),
    ],
    template=TEMPLATE,
    jobs=[Job(n, 'h_' + n, enforce=[n], reach=['entry:' + n], timeout=300) for n in ('isSet', 'set', 'clear', 'toggle')],
    mutants=[Mutant('clear_mask', BC, r'\{ ~1, ~2, ~4, ~8, ~16, ~32, ~64, ~128 \}', '{ ~1, ~2, ~4, ~8, ~16, ~32, ~64, ~127 }', expect='clear'),
             Mutant('toggle_or', BH, r'\^= s_setMasks', '|= s_setMasks', expect='toggle')],
    mechanisms=[],
    assumptions=['XalanVector<char>::operator[] is plain array indexing'],
)
