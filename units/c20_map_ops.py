"""C20: XalanMap lookup and update, observed at one arbitrary key K: find(K) returns the live entry for K exactly when there is one (skipping
erased entries and other keys in the bucket), operator[] and insert create an entry only when K is absent (insert never overwrites, like
std::map::insert), erase(K) removes it and says so, and the erase counter triggers bucket compaction exactly at the threshold."""
from xvlib.unit import Fn, Job, Unit, Mutant

XM = 'src/xalanc/Include/XalanMap.hpp'
TEMPLATE = r'''
#include "xv_shim.h"
typedef struct Self { size_t m_size; size_t m_eraseCount; size_t m_eraseThreshold; } Self; typedef struct Key key_type; typedef struct Data data_type;
typedef long iterator; typedef long const_iterator; typedef size_t BucketIterator;      /* a map iterator is an entry handle (>= 1), IT_END is end() */
#define IT_END 0
#define XV_BIG ((size_t)1 << 60)
/* ghost: the bucket the key hashes to: its length, the position of THE live entry whose key equals K (g_blen: none), the handle of that entry;
   protocol flags of the update functions */
size_t g_nbuckets, g_bucket_of_key, g_blen, g_hit; long g_hit_entry; const key_type* g_key;
bool g_created; const data_type* g_created_with; long g_new_entry; bool g_removed; long g_removed_entry; bool g_compacted; bool g_destroyed_value, g_spliced_to_free, g_marked_erased;
bool xv_buckets_empty(const Self* s) __CPROVER_requires(1) __CPROVER_assigns() __CPROVER_ensures(__CPROVER_return_value == (g_nbuckets == 0)) ;
size_t xv_buckets_size(const Self* s) __CPROVER_requires(1) __CPROVER_assigns() __CPROVER_ensures(__CPROVER_return_value == g_nbuckets) ;
size_t xv_doHash(const Self* s, const key_type* k) __CPROVER_requires(k == g_key && /* no division by zero */ g_nbuckets >= 1) __CPROVER_assigns() __CPROVER_ensures(__CPROVER_return_value == g_bucket_of_key && g_bucket_of_key < g_nbuckets) ;
size_t xv_bucket_end(size_t bucket) __CPROVER_requires(bucket < g_nbuckets) __CPROVER_assigns() __CPROVER_ensures(__CPROVER_return_value == (bucket == g_bucket_of_key ? g_blen : 0)) ;
size_t g_checked_pos; bool g_checked_live;
bool xv_entry_erased(size_t bucket, size_t pos) __CPROVER_requires(/* inside the bucket the key hashes to */ bucket == g_bucket_of_key && pos < g_blen) __CPROVER_assigns(g_checked_pos, g_checked_live)
__CPROVER_ensures((__CPROVER_return_value == true || __CPROVER_return_value == false) && (pos == g_hit ==> __CPROVER_return_value == false) && g_checked_pos == pos && g_checked_live == !__CPROVER_return_value) ;
bool xv_entry_key_equals(const Self* s, const key_type* k, size_t bucket, size_t pos) __CPROVER_requires(k == g_key && bucket == g_bucket_of_key && pos < g_blen)
__CPROVER_requires(/* the key of an erased slot has been destroyed: only a slot just found live is compared */ g_checked_pos == pos && g_checked_live == true) __CPROVER_assigns()
__CPROVER_ensures(/* keys of live entries are unique: only the entry at g_hit is live with an equal key (erased entries are never compared: their key is destroyed) */ __CPROVER_return_value == (pos == g_hit)) ;
iterator xv_entry_iterator(size_t bucket, size_t pos) __CPROVER_requires(bucket == g_bucket_of_key && pos < g_blen) __CPROVER_assigns() __CPROVER_ensures(__CPROVER_return_value >= 1 && (pos == g_hit ==> __CPROVER_return_value == g_hit_entry)) ;
/* callees of the update functions, by contract */
iterator xv_find(Self* s, const key_type* k) __CPROVER_requires(k == g_key) __CPROVER_assigns() __CPROVER_ensures(__CPROVER_return_value == (g_hit < g_blen && s->m_size != 0 ? g_hit_entry : (long)IT_END)) ;
iterator xv_doCreateEntry(Self* s, const key_type* k, const data_type* d)
__CPROVER_requires(k == g_key && /* an entry is created only for a key that has none */ !(g_hit < g_blen && s->m_size != 0) && g_created == false) __CPROVER_assigns(g_created, g_created_with, s->m_size)
__CPROVER_ensures(g_created == true && g_created_with == d && __CPROVER_return_value == g_new_entry && s->m_size == __CPROVER_old(s->m_size) + 1) ;
data_type* xv_entry_second(iterator it) __CPROVER_requires(/* only an iterator to an entry is dereferenced */ it != IT_END && it >= 1 && it <= ((long)1 << 40)) __CPROVER_assigns() __CPROVER_ensures(__CPROVER_return_value == (data_type*)(it * 64)) ;
void xv_doErase(Self* s, iterator it) __CPROVER_requires(it != IT_END && it == g_hit_entry && g_removed == false) __CPROVER_assigns(g_removed, g_removed_entry, s->m_size)
__CPROVER_ensures(g_removed == true && g_removed_entry == it && s->m_size == __CPROVER_old(s->m_size) - 1) ;
void xv_doRemoveEntry(Self* s, iterator it) __CPROVER_requires(it != IT_END && g_removed == false) __CPROVER_assigns(g_removed, g_removed_entry, s->m_size)
__CPROVER_ensures(g_removed == true && g_removed_entry == it && s->m_size == __CPROVER_old(s->m_size) - 1) ;
void xv_compactBuckets(Self* s) __CPROVER_requires(g_compacted == false) __CPROVER_assigns(g_compacted) __CPROVER_ensures(g_compacted == true) ;
void xv_destroy_value(iterator it) __CPROVER_requires(it != IT_END && g_destroyed_value == false && g_spliced_to_free == false) __CPROVER_assigns(g_destroyed_value) __CPROVER_ensures(g_destroyed_value == true) ;
void xv_splice_to_free(Self* s, iterator it) __CPROVER_requires(it != IT_END && g_spliced_to_free == false) __CPROVER_assigns(g_spliced_to_free, g_removed_entry) __CPROVER_ensures(g_spliced_to_free == true && g_removed_entry == it) ;
void xv_mark_erased(iterator it) __CPROVER_requires(it != IT_END) __CPROVER_assigns(g_marked_erased) __CPROVER_ensures(g_marked_erased == true) ;
@@FN find@@
@@FN index@@
@@FN insert2@@
@@FN erase_key@@
@@FN doErase@@
@@FN doRemoveEntry@@
static void xv_havoc(Self* s)
{ size_t a, b, c, d, e, f, g; long h, n; const key_type* k; const data_type* w; g_nbuckets = a; g_bucket_of_key = b; g_blen = c; g_hit = d; g_hit_entry = h; g_new_entry = n; g_key = k;
  g_created = false; g_created_with = w; g_removed = false; g_removed_entry = 0; g_compacted = false; g_destroyed_value = false; g_spliced_to_free = false; g_marked_erased = false; g_checked_pos = (size_t)-1; g_checked_live = false; s->m_size = e; s->m_eraseCount = f; s->m_eraseThreshold = g; }
void h_find(void) { Self s; xv_havoc(&s); find(&s, g_key); }
void h_index(void) { Self s; xv_havoc(&s); index(&s, g_key); }
void h_insert2(void) { Self s; xv_havoc(&s); const data_type* d; insert2(&s, g_key, d); }
void h_erase_key(void) { Self s; xv_havoc(&s); erase_key(&s, g_key); }
void h_doErase(void) { Self s; xv_havoc(&s); long it; doErase(&s, it); }
void h_doRemoveEntry(void) { Self s; xv_havoc(&s); long it; doRemoveEntry(&s, it); }
'''
WORLD = 'g_nbuckets < XV_BIG && g_blen < XV_BIG && g_hit <= g_blen && g_hit_entry >= 1 && g_new_entry >= 1 && g_hit_entry <= ((long)1 << 40) && g_new_entry <= ((long)1 << 40) && g_new_entry != g_hit_entry && self->m_size < XV_BIG && (self->m_size != 0 ==> (g_nbuckets >= 1 && g_bucket_of_key < g_nbuckets)) && (g_hit < g_blen ==> self->m_size != 0)'
PRESENT = '(g_hit < g_blen)'
R = [(r'\bm_size\b', 'self->m_size', (0, 3)),
     (r'm_buckets\.empty\(\)', 'xv_buckets_empty(self)', (0, 1)),
     (r'm_buckets\.size\(\)', 'xv_buckets_size(self)', (0, 1)),
     (r'const size_type\s+index = doHash\(key\);', 'const size_t index = xv_doHash(self, key);', (0, 1)),
     (r'BucketType&\s+bucket = m_buckets\[index\];', '', (0, 1)),
     (r'BucketIterator\s+pos = bucket\.begin\(\);', 'BucketIterator pos = 0;', (0, 1)),
     (r'bucket\.end\(\)', 'xv_bucket_end(index)', (0, 1)),
     (r'!\(\*pos\)->erased', '!xv_entry_erased(index, pos)', (0, 1)),
     (r'm_equals\(key, \(\*pos\)->value->first\)', 'xv_entry_key_equals(self, key, index, pos)', (0, 1)),
     (r'return iterator\(\*pos\);', 'return xv_entry_iterator(index, pos);', (0, 1)),
     (r'(?<![\w.>])end\(\)', 'IT_END', (0, 3)),
     (r'(?:const )?(?:const_)?iterator\s+pos = find\(key\);', 'iterator pos = xv_find(self, key);', (0, 1)),
     (r'(?<![\w.>])doCreateEntry\(key\)', 'xv_doCreateEntry(self, key, 0)', (0, 1)),
     (r'(?<![\w.>])doCreateEntry\(key, &data\)', 'xv_doCreateEntry(self, key, data)', (0, 1)),
     (r'return \(\*pos\)\.second;', 'return xv_entry_second(pos);', (0, 1)),
     (r'(?<![\w.>])doErase\(pos\);', 'xv_doErase(self, pos);', (0, 1)),
     (r'(?<![\w.>])doRemoveEntry\(pos\);', 'xv_doRemoveEntry(self, pos);', (0, 1)),
     (r'(?<![\w.>])compactBuckets\(\);', 'xv_compactBuckets(self);', (0, 1)),
     (r'\b(m_eraseCount|m_eraseThreshold)\b', r'self->\1', (0, 4)),
     (r'value_type&\s+toRemove = \*toRemovePos;\s*toRemove\.~value_type\(\);', 'xv_destroy_value(toRemovePos);', (0, 1)),
     (r'm_freeEntries\.splice\(\s*m_freeEntries\.end\(\),\s*m_entries,\s*toRemovePos\.baseIterator\);', 'xv_splice_to_free(self, toRemovePos);', (0, 1)),
     (r'toRemovePos\.baseIterator->erased = true;', 'xv_mark_erased(toRemovePos);', (0, 1))]
GH = '__CPROVER_assigns(self->m_size, self->m_eraseCount, g_created, g_created_with, g_removed, g_removed_entry, g_compacted, g_destroyed_value, g_spliced_to_free, g_marked_erased)\n'
PRE = '__CPROVER_requires(__CPROVER_is_fresh(self, sizeof(*self)) && key == g_key && ' + WORLD + ' && g_created == false && g_removed == false && g_compacted == false)\n'
UNIT = Unit(
    name='c20_map_ops',
    props=['C20'],
    functions=[
        Fn(XM, r'^\s+iterator find\(const key_type& key\)\s*$', 'find', 'iterator find(Self* self, const key_type* key)', rules=R, nloops=1,
           loops={0: '''__CPROVER_assigns(pos, g_checked_pos, g_checked_live)
__CPROVER_loop_invariant(pos <= g_blen && /* the entry for the key has not been passed */ pos <= g_hit)
__CPROVER_decreases(g_blen - pos)'''},
           contract=PRE + '__CPROVER_assigns(g_checked_pos, g_checked_live)\n__CPROVER_ensures(/* find like std::unordered_map: the live entry with this key, or end() */ __CPROVER_return_value == (' + PRESENT + ' ? g_hit_entry : (long)IT_END))'),
        Fn(XM, r'^\s+data_type & operator\[\]\(const key_type& key\)', 'index', 'data_type* index(Self* self, const key_type* key)', rules=R, nloops=0,
           contract=PRE + GH + '''__CPROVER_ensures(/* operator[]: the mapped value of the existing entry; a new default entry only when the key is absent */
    ''' + PRESENT + ''' ? (g_created == false && __CPROVER_return_value == (data_type*)(g_hit_entry * 64) && self->m_size == __CPROVER_old(self->m_size))
                        : (g_created == true && g_created_with == 0 && __CPROVER_return_value == (data_type*)(g_new_entry * 64) && self->m_size == __CPROVER_old(self->m_size) + 1))'''),
        Fn(XM, r'^\s+void insert\(const key_type& key, const data_type& data\)', 'insert2', 'void insert2(Self* self, const key_type* key, const data_type* data)', rules=R, nloops=0,
           contract=PRE + GH + '''__CPROVER_ensures(/* insert like std::map::insert: an existing entry is left alone; otherwise one entry with this value */
    ''' + PRESENT + ''' ? (g_created == false && self->m_size == __CPROVER_old(self->m_size)) : (g_created == true && g_created_with == data && self->m_size == __CPROVER_old(self->m_size) + 1))'''),
        Fn(XM, r'^\s+size_type erase\(const key_type& key\)', 'erase_key', 'size_t erase_key(Self* self, const key_type* key)', rules=R, nloops=0,
           contract=PRE + GH + '''__CPROVER_ensures(/* erase(key): 1 and the entry for the key removed, or 0 and nothing touched */
    ''' + PRESENT + ''' ? (__CPROVER_return_value == 1 && g_removed == true && g_removed_entry == g_hit_entry && self->m_size == __CPROVER_old(self->m_size) - 1)
                        : (__CPROVER_return_value == 0 && g_removed == false && self->m_size == __CPROVER_old(self->m_size)))'''),
        Fn(XM, r'^\s+doErase\(iterator\s+pos\)', 'doErase', 'void doErase(Self* self, iterator pos)', rules=R, nloops=0,
           contract='''__CPROVER_requires(__CPROVER_is_fresh(self, sizeof(*self)) && pos != IT_END && g_removed == false && g_compacted == false && self->m_size >= 1 && self->m_size < XV_BIG && self->m_eraseThreshold >= 1 && self->m_eraseCount < self->m_eraseThreshold)
''' + GH + '''__CPROVER_ensures(/* the entry is removed; erased bucket slots are compacted exactly when their number reaches the threshold, and the count starts again */
    g_removed == true && g_removed_entry == pos && self->m_size == __CPROVER_old(self->m_size) - 1 &&
    (__CPROVER_old(self->m_eraseCount) + 1 == self->m_eraseThreshold ? (g_compacted == true && self->m_eraseCount == 0) : (g_compacted == false && self->m_eraseCount == __CPROVER_old(self->m_eraseCount) + 1)))
__CPROVER_ensures(self->m_eraseCount < self->m_eraseThreshold)'''),
        Fn(XM, r'^\s+void doRemoveEntry\(const iterator & toRemovePos\)', 'doRemoveEntry', 'void doRemoveEntry(Self* self, iterator toRemovePos)', rules=R, nloops=0,
           contract='''__CPROVER_requires(__CPROVER_is_fresh(self, sizeof(*self)) && toRemovePos != IT_END && self->m_size >= 1 && g_destroyed_value == false && g_spliced_to_free == false && g_marked_erased == false)
''' + GH + '''__CPROVER_ensures(/* value destroyed, entry moved to the free list and marked erased (its bucket slot stays until compaction and must be skipped by find), size one less */
    g_destroyed_value == true && g_spliced_to_free == true && g_removed_entry == toRemovePos && g_marked_erased == true && self->m_size == __CPROVER_old(self->m_size) - 1)'''),
    ],
    template=TEMPLATE,
    jobs=[Job('find', 'h_find', enforce=['find'], replace=['xv_buckets_empty', 'xv_buckets_size', 'xv_doHash', 'xv_bucket_end', 'xv_entry_erased', 'xv_entry_key_equals', 'xv_entry_iterator'], loop_contracts=True, reach='all', timeout=300, min_obligations=5),
          Job('index', 'h_index', enforce=['index'], replace=['xv_find', 'xv_doCreateEntry', 'xv_entry_second'], reach='all', timeout=120, min_obligations=3),
          Job('insert2', 'h_insert2', enforce=['insert2'], replace=['xv_find', 'xv_doCreateEntry'], reach='all', timeout=120, min_obligations=3),
          Job('erase_key', 'h_erase_key', enforce=['erase_key'], replace=['xv_find', 'xv_doErase'], reach='all', timeout=120, min_obligations=3),
          Job('doErase', 'h_doErase', enforce=['doErase'], replace=['xv_doRemoveEntry', 'xv_compactBuckets'], reach='all', timeout=120, min_obligations=3),
          Job('doRemoveEntry', 'h_doRemoveEntry', enforce=['doRemoveEntry'], replace=['xv_destroy_value', 'xv_splice_to_free', 'xv_mark_erased'], reach='all', timeout=120, min_obligations=3)],
    mutants=[
        Mutant('find_ignores_erased_flag', XM, r'if \(!\(\*pos\)->erased && m_equals\(key, \(\*pos\)->value->first\)\)', 'if (m_equals(key, (*pos)->value->first))', expect=None),
        Mutant('find_stops_at_first_entry', XM, r'(return iterator\(\*pos\);\s*\}\s*)\+\+pos;', r'\1break;', expect=None),
        Mutant('insert_overwrites_nothing_but_creates_twice', XM, r'(const const_iterator    pos = find\(key\);\s*)if \(pos == end\(\)\)', r'\1if (pos != end())', expect=None),
        Mutant('erase_key_reports_zero', XM, r'(doErase\(pos\);\s*)return 1;', r'\1return 0;', expect='erase(key)'),
        Mutant('compaction_one_late', XM, r'if \(m_eraseCount == m_eraseThreshold\)', 'if (m_eraseCount > m_eraseThreshold)', expect='compacted'),
        Mutant('removed_entry_not_marked', XM, r'        toRemovePos\.baseIterator->erased = true;\n', '', expect='marked erased'),
    ],
    mechanisms=['XalanMap lookup / insert / erase', 'insert / find / erase / rehash / compaction'],
    assumptions=['the map is observed at ONE arbitrary key: its bucket is a sequence of g_blen slots of which at most one is live with an equal key (uniqueness of live keys is the representation invariant insert/operator[] maintain: they create only after find says absent); erased slots are skipped before the key is compared',
                 'doHash, doCreateEntry (unit c20_map_create), compactBuckets, rehash and the entry lists (XalanList, units c20_splice / c20_listnodes) are taken by contract',
                 'mapped values are identified by their entry handle'],
)
