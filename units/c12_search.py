from xvlib.unit import Fn, Job, Unit, Mutant

ML = 'src/xalanc/XPath/MutableNodeRefList.cpp'

PRELUDE = r'''
#include "xv_shim.h"
typedef unsigned long IndexType;
typedef IndexType XalanNode_IndexType;
typedef struct XalanNode XalanNode;                  /* opaque: never dereferenced */
typedef XalanNode** NodeListIteratorType;
typedef NodeListIteratorType MutableNodeRefList_NodeListIteratorType;
#define MAXN 100000000

/* ghost: the list as an array of document-order indices, its base and length; the key; one arbitrary witness position */
IndexType* g_idx; NodeListIteratorType g_base; size_t g_n; IndexType g_nodeIndex; size_t g_w;
bool* g_after;          /* linear search: g_after[p] = isNodeAfterPredicate(node, element p) */
bool* g_other;          /* linear search: g_other[p] = isNodeAfterPredicate.m_documentPredicate(node, element p): element p belongs to another document */
size_t g_w2;            /* a second arbitrary witness position */
#define OFF(p) ((size_t)__CPROVER_POINTER_OFFSET(p) / sizeof(XalanNode*))
#define ALIGNED(p) (__CPROVER_POINTER_OFFSET(p) % sizeof(XalanNode*) == 0)
#define IN_LIST(p) (__CPROVER_same_object((p), g_base) && ALIGNED(p) && OFF(p) <= g_n)

/* (*it)->getIndex(): positional read; additionally delivers the representation invariant "strictly
   increasing indices" instantiated at the ghost witness (true of every strictly sorted list for every g_w) */
IndexType xv_index_at(NodeListIteratorType it)
__CPROVER_requires(__CPROVER_same_object(it, g_base) && ALIGNED(it) && OFF(it) < g_n)
__CPROVER_assigns()
__CPROVER_ensures(__CPROVER_return_value == g_idx[OFF(it)])
__CPROVER_ensures(OFF(it) < g_w ==> __CPROVER_return_value < g_idx[g_w])
__CPROVER_ensures(OFF(it) > g_w ==> __CPROVER_return_value > g_idx[g_w])
;
IndexType xv_node_index(XalanNode* n) __CPROVER_requires(1) __CPROVER_assigns() __CPROVER_ensures(__CPROVER_return_value == g_nodeIndex) ;
/* isNodeAfterPredicate(*node, **it): any predicate; its answers are the ghost array g_after */
bool xv_pred_at(XalanNode* node, NodeListIteratorType it)
__CPROVER_requires(__CPROVER_same_object(it, g_base) && ALIGNED(it) && OFF(it) < g_n)
__CPROVER_assigns()
__CPROVER_ensures(__CPROVER_return_value == g_after[OFF(it)])
;
/* isNodeAfterPredicate.m_documentPredicate(*node, **it): "belongs to another document" (unit c12_predicates) */
bool xv_other_at(XalanNode* node, NodeListIteratorType it)
__CPROVER_requires(__CPROVER_same_object(it, g_base) && ALIGNED(it) && OFF(it) < g_n)
__CPROVER_assigns()
__CPROVER_ensures(__CPROVER_return_value == g_other[OFF(it)])
;
'''

BS_CONTRACT = r'''
__CPROVER_requires(g_n > 0 && g_n <= MAXN && g_w < g_n)
__CPROVER_requires(__CPROVER_is_fresh(begin, g_n * sizeof(XalanNode*)))
__CPROVER_requires(__CPROVER_is_fresh(g_idx, g_n * sizeof(IndexType)))
__CPROVER_requires(end == begin + g_n && g_base == begin)
__CPROVER_requires(__CPROVER_is_fresh(insertionPoint, sizeof(*insertionPoint)))
__CPROVER_assigns(*insertionPoint)
__CPROVER_ensures(/* binary search: when the node is to be inserted the insertion point lies inside [begin, end] */
    __CPROVER_return_value == true ==> (__CPROVER_same_object(*insertionPoint, begin) && ALIGNED(*insertionPoint) && OFF(*insertionPoint) <= g_n))
__CPROVER_ensures(/* binary search: every element before the insertion point has a smaller index and every element from it on a larger one, for EVERY position (ghost witness): inserting there keeps the list strictly ordered and duplicate-free */
    __CPROVER_return_value == true ==> (((g_w < OFF(*insertionPoint)) ==> g_idx[g_w] < g_nodeIndex) && ((g_w >= OFF(*insertionPoint)) ==> g_idx[g_w] > g_nodeIndex)))
'''
BS_LOOP = r'''
__CPROVER_assigns(first, last, current, theCurrentIndex, fInsert)
__CPROVER_loop_invariant(__CPROVER_same_object(first, begin) && __CPROVER_same_object(last, begin) && __CPROVER_same_object(current, begin))
__CPROVER_loop_invariant(ALIGNED(first) && ALIGNED(last) && ALIGNED(current))
__CPROVER_loop_invariant(OFF(first) <= g_n && OFF(last) < g_n && OFF(current) <= g_n && OFF(first) <= OFF(last) + 1)
__CPROVER_loop_invariant(fInsert == true)
__CPROVER_loop_invariant((OFF(first) == 0 && OFF(last) == g_n - 1 && OFF(current) == g_n) || (OFF(current) < g_n && theCurrentIndex != theIndex && theCurrentIndex == g_idx[OFF(current)] && (theCurrentIndex < theIndex ? OFF(first) == OFF(current) + 1 : OFF(last) + 1 == OFF(current))))
__CPROVER_loop_invariant(((g_w < OFF(first)) ==> g_idx[g_w] < theIndex) && ((g_w > OFF(last)) ==> g_idx[g_w] > theIndex))
__CPROVER_decreases(OFF(last) + 1 - OFF(first))
'''

LS_CONTRACT = r'''
__CPROVER_requires(g_n <= MAXN)
__CPROVER_requires(__CPROVER_is_fresh(begin, (g_n + 1) * sizeof(XalanNode*)))
__CPROVER_requires(__CPROVER_is_fresh(g_after, (g_n + 1) * sizeof(bool)))
__CPROVER_requires(__CPROVER_is_fresh(g_other, (g_n + 1) * sizeof(bool)))
__CPROVER_requires(end == begin + g_n && g_base == begin)
__CPROVER_requires(__CPROVER_is_fresh(insertionPoint, sizeof(*insertionPoint)))
__CPROVER_assigns(*insertionPoint)
__CPROVER_ensures(/* linear search: the insertion point lies inside [begin, end] */ IN_LIST(*insertionPoint))
__CPROVER_ensures(/* linear search: every element before the insertion point is a different node that belongs to another document or that the new node comes after (ghost witness) */
    (g_w < OFF(*insertionPoint)) ==> (begin[g_w] != node && (g_other[g_w] == true || g_after[g_w] == true)))
__CPROVER_ensures(/* linear search, several documents: before the insertion point no node of another document follows a node of the own document of the new node (two ghost witnesses) */
    (g_w < g_w2 && g_w2 < OFF(*insertionPoint)) ==> !(g_other[g_w] == false && g_other[g_w2] == true))
__CPROVER_ensures(/* linear search: it stops at the node itself (duplicate: no insert), at the first element of its own document the node does not come after, or where the group of its own document ends */
    (OFF(*insertionPoint) < g_n) ==> ((__CPROVER_return_value == false && begin[OFF(*insertionPoint)] == node)
        || (__CPROVER_return_value == true && begin[OFF(*insertionPoint)] != node
            && (g_other[OFF(*insertionPoint)] == true ? (OFF(*insertionPoint) > 0 && g_other[OFF(*insertionPoint) - 1] == false) : g_after[OFF(*insertionPoint)] == false))))
__CPROVER_ensures(/* linear search: reaching the end means insert */ (OFF(*insertionPoint) == g_n) ==> __CPROVER_return_value == true)
'''
LS_LOOP = r'''
__CPROVER_assigns(current, fInsert, fInOwnDocument)
__CPROVER_loop_invariant(IN_LIST(current) && fInsert == true && (fInOwnDocument == true || fInOwnDocument == false))
__CPROVER_loop_invariant((g_w < OFF(current)) ==> (begin[g_w] != node && (g_other[g_w] == true || g_after[g_w] == true)))
__CPROVER_loop_invariant(/* the flag says that the element just passed belongs to the own document of the node */ fInOwnDocument == true ==> (OFF(current) > 0 && g_other[OFF(current) - 1] == false))
__CPROVER_loop_invariant((g_w < OFF(current) && g_other[g_w] == false) ==> fInOwnDocument == true)
__CPROVER_loop_invariant((g_w < g_w2 && g_w2 < OFF(current)) ==> !(g_other[g_w] == false && g_other[g_w2] == true))
__CPROVER_decreases(g_n - OFF(current))
'''

TEMPLATE = PRELUDE + r'''
@@FN findInsertionPointBinarySearch@@
@@FN findInsertionPointLinearSearch@@

static void xv_havoc(void) { IndexType* a; NodeListIteratorType b; size_t n, w, w2; IndexType k; bool *f, *o; g_idx = a; g_base = b; g_n = n; g_w = w; g_w2 = w2; g_nodeIndex = k; g_after = f; g_other = o; }
void h_binsearch(void) { xv_havoc(); XalanNode* n; NodeListIteratorType b, e, *ip; findInsertionPointBinarySearch(n, b, e, ip); }
void h_linsearch(void) { xv_havoc(); XalanNode* n; NodeListIteratorType b, e, *ip; findInsertionPointLinearSearch(n, b, e, ip); }

/* lemma (loop-free): strictly sorted list + the binary-search postcondition at two arbitrary positions
   => the list with the node inserted at the insertion point is strictly sorted (so: stays duplicate-free and ordered) */
void h_insert_keeps_order(void)
{
    size_t n, ip, i, j; IndexType key, a_i, a_j;
    __CPROVER_assume(n <= MAXN && ip <= n && i < j && j <= n);       /* positions in the NEW list of length n+1 */
    /* old list element at new position q: q < ip -> old[q], q > ip -> old[q-1]; q == ip -> key */
    IndexType old_i, old_j;                                           /* old-list values at the two witness positions */
    __CPROVER_assume(i == ip || j == ip || old_i < old_j);            /* old list strictly sorted (instantiated at the two witnesses) */
    __CPROVER_assume(i == ip || ((i < ip) ? old_i < key : old_i > key)); /* search postcondition at witness i */
    __CPROVER_assume(j == ip || ((j < ip) ? old_j < key : old_j > key)); /* search postcondition at witness j */
    a_i = (i == ip) ? key : old_i;
    a_j = (j == ip) ? key : old_j;
    __CPROVER_assert(a_i < a_j, "lemma: inserting at the insertion point keeps the list strictly ordered (hence duplicate-free)");
    XV_REACH("h_insert_keeps_order");
}

/* lemma (loop-free), lists with nodes of SEVERAL documents: d = document of an element, D = document of the new node, K / idx = position in
   its own document.  Assumed: the old list keeps every document together and is ordered inside each document (instantiated at every triple
   of the positions x < y, ip - 1, ip), the linear-search postcondition at x, y and ip, and what the predicates answer (unit c12_predicates:
   other document -> "other"; same document -> the larger index is after).  Shown: the list with the node inserted at the insertion point
   still keeps every document together and ordered. */
void h_insert_keeps_documents_together(void)
{
    size_t n, ip, x, y; unsigned D, dx, dy, dp, dq; IndexType K, ix, iy, ip_idx, iq; bool stop_is_dup;
    __CPROVER_assume(n <= MAXN && ip <= n && x < y && y < n);
    /* p = ip - 1 (if ip > 0), q = ip (if ip < n): document and index of those elements; x / y may coincide with them */
    if (ip > 0 && x == ip - 1) { __CPROVER_assume(dx == dp && ix == ip_idx); }
    if (ip > 0 && y == ip - 1) { __CPROVER_assume(dy == dp && iy == ip_idx); }
    if (ip < n && x == ip) { __CPROVER_assume(dx == dq && ix == iq); }
    if (ip < n && y == ip) { __CPROVER_assume(dy == dq && iy == iq); }
#define GROUPED(a, da, b, db, c, dc) __CPROVER_assume(!((a) < (b) && (b) < (c) && (da) == (dc)) || (db) == (da))
#define ORDERED(a, da, ia, b, db, ib) __CPROVER_assume(!((a) < (b) && (da) == (db)) || (ia) < (ib))
    /* old list: documents together, ordered inside a document */
    if (ip > 0) { GROUPED(x, dx, ip - 1, dp, y, dy); GROUPED(ip - 1, dp, x, dx, y, dy); GROUPED(x, dx, y, dy, ip - 1, dp); ORDERED(x, dx, ix, ip - 1, dp, ip_idx); ORDERED(ip - 1, dp, ip_idx, x, dx, ix); ORDERED(y, dy, iy, ip - 1, dp, ip_idx); ORDERED(ip - 1, dp, ip_idx, y, dy, iy); }
    if (ip < n) { GROUPED(x, dx, ip, dq, y, dy); GROUPED(ip, dq, x, dx, y, dy); GROUPED(x, dx, y, dy, ip, dq); ORDERED(x, dx, ix, ip, dq, iq); ORDERED(ip, dq, iq, x, dx, ix); ORDERED(y, dy, iy, ip, dq, iq); ORDERED(ip, dq, iq, y, dy, iy); }
    if (ip > 0 && ip < n) { GROUPED(ip - 1, dp, ip, dq, x, dx); GROUPED(ip - 1, dp, ip, dq, y, dy); GROUPED(x, dx, ip - 1, dp, ip, dq); ORDERED(ip - 1, dp, ip_idx, ip, dq, iq); }
    ORDERED(x, dx, ix, y, dy, iy);
    /* search postcondition: before the insertion point: other document, or the node comes after (same document, larger index) */
#define BEFORE_OK(d, i) ((d) != D || K > (i))
    if (x < ip) __CPROVER_assume(BEFORE_OK(dx, ix));
    if (y < ip) __CPROVER_assume(BEFORE_OK(dy, iy));
    if (ip > 0) __CPROVER_assume(BEFORE_OK(dp, ip_idx));
    /* ... no other-document node after an own-document node before the insertion point */
#ifndef XV_OLD_POSTCONDITION      /* self-check job: with the postcondition the search had before fix F33 the lemma must FAIL */
    if (y < ip) __CPROVER_assume(!(dx == D && dy != D));
    if (ip > 0 && x < ip - 1) __CPROVER_assume(!(dx == D && dp != D));
    if (ip > 0 && y < ip - 1) __CPROVER_assume(!(dy == D && dp != D));
#endif
    /* ... the stop element (the node is inserted, so it is not the duplicate case) */
#ifndef XV_OLD_POSTCONDITION
    if (ip < n) __CPROVER_assume(dq != D ? (ip > 0 && dp == D) : !(K > iq) && K != iq);
#else
    if (ip < n) __CPROVER_assume(dq == D && !(K > iq) && K != iq);
#endif
    /* new list: position of an old element e is e (e < ip) or e + 1; the node sits at ip */
    /* the node between x and y */
    if (x < ip && ip <= y) __CPROVER_assert(dx != dy || dx == D, "ALSO when the list holds nodes of several documents: the node is not put between two nodes of one other document");
    /* the node before x and y */
    if (ip <= x) __CPROVER_assert(dy != D || dx == D, "ALSO when the list holds nodes of several documents: no node of another document between the new node and a later node of its document");
    /* the node after x and y */
    if (y < ip) __CPROVER_assert(dx != D || dy == D, "ALSO when the list holds nodes of several documents: no node of another document between an earlier node of its document and the new node");
    /* order inside the node's own document */
    if (x < ip && dx == D) __CPROVER_assert(ix < K, "several documents: the nodes of the document of the new node before it have smaller indexes");
    if (ip <= x && dx == D) __CPROVER_assert(ix > K, "several documents: the nodes of the document of the new node after it have larger indexes");
    if (ip <= y && dy == D) __CPROVER_assert(iy > K, "several documents: the nodes of the document of the new node after it have larger indexes (second witness)");
    XV_REACH("h_insert_keeps_documents_together");
}
'''

UNIT = Unit(
    name='c12_search',
    props=['C12'],
    functions=[
        Fn(ML, r'^findInsertionPointBinarySearch\(', 'findInsertionPointBinarySearch',
           'bool findInsertionPointBinarySearch(XalanNode* node, NodeListIteratorType begin, NodeListIteratorType end, NodeListIteratorType* insertionPoint)',
           head_expect=r'^static bool findInsertionPointBinarySearch\( XalanNode\* node, MutableNodeRefList::NodeListIteratorType begin, MutableNodeRefList::NodeListIteratorType end, MutableNodeRefList::NodeListIteratorType& insertionPoint\)$',
           rules=[
               (r'assert\(\s*node->getNodeType\(\).*?isIndexed\(\) == true\)\);', '/* R11 dropped: assert on node type / indexed owner (caller-side precondition, see unit c12_addnode) */', 1),
               (r'assert\(node != 0\);', '', 1),
               (r'typedef MutableNodeRefList::NodeListIteratorType\s+NodeListIteratorType;', '', 1),
               'SCOPE',
               (r'NodeListIteratorType\s+(\w+)\((.*?)\);', r'NodeListIteratorType \1 = (\2);', 3),
               (r'node->getIndex\(\)', 'xv_node_index(node)', 1),
               (r'assert\(\(\*current\)->getIndex\(\) < theIndex &&\s*\(current \+ 1 == end \|\| \(\*\(current \+ 1\)\)->getIndex\(\) > theIndex\)\);',
                '/* R11 dropped: debug assert about a second list position (needs a second witness; subsumed by the postcondition) */', 1),
               (r'assert\(\(\*current\)->getIndex\(\) > theIndex &&\s*\(current == begin \|\| \(\*\(current\)\)->getIndex\(\) > theIndex\)\);',
                'assert(xv_index_at(current) > theIndex);', 1),
               (r'\(\*\(?(\w+)\)?\)->getIndex\(\)', r'xv_index_at(\1)', None),
               (r'assert\(\*(\w+) != 0\);', r'/* assert(*\1 != 0): elements are never dereferenced here */', 2),
               (r'\binsertionPoint\b', '(*insertionPoint)', None),
           ],
           contract=BS_CONTRACT, loops={0: BS_LOOP}, nloops=1),
        Fn(ML, r'^findInsertionPointLinearSearch\(', 'findInsertionPointLinearSearch',
           'bool findInsertionPointLinearSearch(XalanNode* node, NodeListIteratorType begin, NodeListIteratorType end, NodeListIteratorType* insertionPoint)',
           head_expect=r'^template<class PredicateType> inline bool findInsertionPointLinearSearch\( XalanNode\* node, MutableNodeRefList::NodeListIteratorType begin, MutableNodeRefList::NodeListIteratorType end, MutableNodeRefList::NodeListIteratorType& insertionPoint, const PredicateType isNodeAfterPredicate\)$',
           rules=[
               (r'assert\(node != 0\);', '', 1),
               (r'typedef MutableNodeRefList::NodeListIteratorType\s+NodeListIteratorType;', '', 1),
               (r'NodeListIteratorType\s+current\(begin\);', 'NodeListIteratorType current = (begin);', 1),
               (r'const XalanNode\*\s+child = \*current;', 'const XalanNode* child = *current;', 1),   # must fire: child is the element at `current`
               (r'assert\(child != 0\);', '', 1),
               (r'isNodeAfterPredicate\.m_documentPredicate\(\*node, \*child\)', 'xv_other_at(node, current)', 1),     # the document part of the predicate, by position
               (r'isNodeAfterPredicate\(\*node, \*child\)', 'xv_pred_at(node, current)', 1),     # R6/R8: the predicate instantiation, by position
               (r'\binsertionPoint\b', '(*insertionPoint)', None),
           ],
           contract=LS_CONTRACT, loops={0: LS_LOOP}, nloops=1),
    ],
    template=TEMPLATE,
    jobs=[
        Job('binsearch', 'h_binsearch', enforce=['findInsertionPointBinarySearch'], replace=['xv_index_at', 'xv_node_index'],
            loop_contracts=True, reach=['entry:findInsertionPointBinarySearch', 'after_loop0:findInsertionPointBinarySearch'], timeout=600),
        Job('linsearch', 'h_linsearch', enforce=['findInsertionPointLinearSearch'], replace=['xv_pred_at', 'xv_other_at'],
            loop_contracts=True, reach=['entry:findInsertionPointLinearSearch', 'after_loop0:findInsertionPointLinearSearch'], timeout=600),
        Job('insert_lemma', 'h_insert_keeps_order', dfcc=False, reach=['h_insert_keeps_order'], timeout=120),
        Job('documents_lemma', 'h_insert_keeps_documents_together', dfcc=False, reach=['h_insert_keeps_documents_together'], timeout=300, min_obligations=6),
    ],
    mutants=[
        Mutant('bs_append_le', ML, r'if \(\(\*last\)->getIndex\(\) < theIndex\)', 'if ((*last)->getIndex() <= theIndex)', expect='binary search'),
        Mutant('bs_first_not_advanced', ML, r'first = current \+ 1;', 'first = current;', expect=None),
        Mutant('bs_insert_after_wrong', ML, r'insertionPoint = current \+ 1;', 'insertionPoint = current;', expect='binary search'),
        Mutant('ls_dup_inserts', ML, r'(if\(child == node\)\s*\{[^}]*?)fInsert = false;', r'\1fInsert = true;', expect='linear search'),
        Mutant('ls_group_end_ignored', ML, r'if \(fInOwnDocument == true\)\s*\{', 'if (false)\n            {', expect=None),
        Mutant('ls_flag_never_set', ML, r'\n\s*fInOwnDocument = true;\n', '\n', expect=None),
        Mutant('ls_stops_late', ML, r'else if \(isNodeAfterPredicate\(\*node, \*child\) == false\)', 'else if (isNodeAfterPredicate(*node, *child) == true)', expect='linear search'),
    ],
    mechanisms=['ordered, de-duplicating insert'],
    assumptions=['XalanNode::getIndex() is pure and stable (accessor stubs); the list is strictly ordered by index on entry (representation invariant, consumed through the witness form of xv_index_at)',
                 'template findInsertionPointLinearSearch is proved for an arbitrary predicate whose answers are the ghost arrays g_after (whole predicate) and g_other (its document part); documents_lemma assumes what c12_predicates proves: other document -> the document part answers true, same document -> the larger index is after'],
)
