from xvlib.unit import Fn, Job, Unit, Mutant

ML = 'src/xalanc/XPath/MutableNodeRefList.cpp'

PRELUDE = r'''
#include "xv_shim.h"
typedef unsigned long IndexType;
typedef IndexType XalanNode_IndexType;
typedef struct XalanNode XalanNode;                  /* opaque: never dereferenced */
typedef XalanNode** NodeListIteratorType;
typedef NodeListIteratorType MutableNodeRefList_NodeListIteratorType;
#define MAXN 100000000

/* ghost: the list as an array of document-order indices, its base and length; the key; one arbitrary witness position */
IndexType* g_idx; NodeListIteratorType g_base; size_t g_n; IndexType g_nodeIndex; size_t g_w;
bool* g_after;          /* linear search: g_after[p] = isNodeAfterPredicate(node, element p) */
#define OFF(p) ((size_t)__CPROVER_POINTER_OFFSET(p) / sizeof(XalanNode*))
#define ALIGNED(p) (__CPROVER_POINTER_OFFSET(p) % sizeof(XalanNode*) == 0)
#define IN_LIST(p) (__CPROVER_same_object((p), g_base) && ALIGNED(p) && OFF(p) <= g_n)

/* (*it)->getIndex(): positional read; additionally delivers the representation invariant "strictly
   increasing indices" instantiated at the ghost witness (true of every strictly sorted list for every g_w) */
IndexType xv_index_at(NodeListIteratorType it)
__CPROVER_requires(__CPROVER_same_object(it, g_base) && ALIGNED(it) && OFF(it) < g_n)
__CPROVER_assigns()
__CPROVER_ensures(__CPROVER_return_value == g_idx[OFF(it)])
__CPROVER_ensures(OFF(it) < g_w ==> __CPROVER_return_value < g_idx[g_w])
__CPROVER_ensures(OFF(it) > g_w ==> __CPROVER_return_value > g_idx[g_w])
;
IndexType xv_node_index(XalanNode* n) __CPROVER_requires(1) __CPROVER_assigns() __CPROVER_ensures(__CPROVER_return_value == g_nodeIndex) ;
/* isNodeAfterPredicate(*node, **it): any predicate; its answers are the ghost array g_after */
bool xv_pred_at(XalanNode* node, NodeListIteratorType it)
__CPROVER_requires(__CPROVER_same_object(it, g_base) && ALIGNED(it) && OFF(it) < g_n)
__CPROVER_assigns()
__CPROVER_ensures(__CPROVER_return_value == g_after[OFF(it)])
;
'''

BS_CONTRACT = r'''
__CPROVER_requires(g_n > 0 && g_n <= MAXN && g_w < g_n)
__CPROVER_requires(__CPROVER_is_fresh(begin, g_n * sizeof(XalanNode*)))
__CPROVER_requires(__CPROVER_is_fresh(g_idx, g_n * sizeof(IndexType)))
__CPROVER_requires(end == begin + g_n && g_base == begin)
__CPROVER_requires(__CPROVER_is_fresh(insertionPoint, sizeof(*insertionPoint)))
__CPROVER_assigns(*insertionPoint)
__CPROVER_ensures(/* binary search: when the node is to be inserted the insertion point lies inside [begin, end] */
    __CPROVER_return_value == true ==> (__CPROVER_same_object(*insertionPoint, begin) && ALIGNED(*insertionPoint) && OFF(*insertionPoint) <= g_n))
__CPROVER_ensures(/* binary search: every element before the insertion point has a smaller index and every element from it on a larger one, for EVERY position (ghost witness): inserting there keeps the list strictly ordered and duplicate-free */
    __CPROVER_return_value == true ==> (((g_w < OFF(*insertionPoint)) ==> g_idx[g_w] < g_nodeIndex) && ((g_w >= OFF(*insertionPoint)) ==> g_idx[g_w] > g_nodeIndex)))
'''
BS_LOOP = r'''
__CPROVER_assigns(first, last, current, theCurrentIndex, fInsert)
__CPROVER_loop_invariant(__CPROVER_same_object(first, begin) && __CPROVER_same_object(last, begin) && __CPROVER_same_object(current, begin))
__CPROVER_loop_invariant(ALIGNED(first) && ALIGNED(last) && ALIGNED(current))
__CPROVER_loop_invariant(OFF(first) <= g_n && OFF(last) < g_n && OFF(current) <= g_n && OFF(first) <= OFF(last) + 1)
__CPROVER_loop_invariant(fInsert == true)
__CPROVER_loop_invariant((OFF(first) == 0 && OFF(last) == g_n - 1 && OFF(current) == g_n) || (OFF(current) < g_n && theCurrentIndex != theIndex && theCurrentIndex == g_idx[OFF(current)] && (theCurrentIndex < theIndex ? OFF(first) == OFF(current) + 1 : OFF(last) + 1 == OFF(current))))
__CPROVER_loop_invariant(((g_w < OFF(first)) ==> g_idx[g_w] < theIndex) && ((g_w > OFF(last)) ==> g_idx[g_w] > theIndex))
__CPROVER_decreases(OFF(last) + 1 - OFF(first))
'''

LS_CONTRACT = r'''
__CPROVER_requires(g_n <= MAXN)
__CPROVER_requires(__CPROVER_is_fresh(begin, (g_n + 1) * sizeof(XalanNode*)))
__CPROVER_requires(__CPROVER_is_fresh(g_after, (g_n + 1) * sizeof(bool)))
__CPROVER_requires(end == begin + g_n && g_base == begin)
__CPROVER_requires(__CPROVER_is_fresh(insertionPoint, sizeof(*insertionPoint)))
__CPROVER_assigns(*insertionPoint)
__CPROVER_ensures(/* linear search: the insertion point lies inside [begin, end] */ IN_LIST(*insertionPoint))
__CPROVER_ensures(/* linear search: every element before the insertion point is a different node that the new node comes after (ghost witness) */
    (g_w < OFF(*insertionPoint)) ==> (begin[g_w] != node && g_after[g_w] == true))
__CPROVER_ensures(/* linear search: it stops at the node itself (duplicate: no insert) or at the first element the node does not come after */
    (OFF(*insertionPoint) < g_n) ==> ((__CPROVER_return_value == false && begin[OFF(*insertionPoint)] == node) || (__CPROVER_return_value == true && begin[OFF(*insertionPoint)] != node && g_after[OFF(*insertionPoint)] == false)))
__CPROVER_ensures(/* linear search: reaching the end means insert */ (OFF(*insertionPoint) == g_n) ==> __CPROVER_return_value == true)
'''
LS_LOOP = r'''
__CPROVER_assigns(current, fInsert)
__CPROVER_loop_invariant(IN_LIST(current) && fInsert == true)
__CPROVER_loop_invariant((g_w < OFF(current)) ==> (begin[g_w] != node && g_after[g_w] == true))
__CPROVER_decreases(g_n - OFF(current))
'''

TEMPLATE = PRELUDE + r'''
@@FN findInsertionPointBinarySearch@@
@@FN findInsertionPointLinearSearch@@

static void xv_havoc(void) { IndexType* a; NodeListIteratorType b; size_t n, w; IndexType k; bool* f; g_idx = a; g_base = b; g_n = n; g_w = w; g_nodeIndex = k; g_after = f; }
void h_binsearch(void) { xv_havoc(); XalanNode* n; NodeListIteratorType b, e, *ip; findInsertionPointBinarySearch(n, b, e, ip); }
void h_linsearch(void) { xv_havoc(); XalanNode* n; NodeListIteratorType b, e, *ip; findInsertionPointLinearSearch(n, b, e, ip); }

/* lemma (loop-free): strictly sorted list + the binary-search postcondition at two arbitrary positions
   => the list with the node inserted at the insertion point is strictly sorted (so: stays duplicate-free and ordered) */
void h_insert_keeps_order(void)
{
    size_t n, ip, i, j; IndexType key, a_i, a_j;
    __CPROVER_assume(n <= MAXN && ip <= n && i < j && j <= n);       /* positions in the NEW list of length n+1 */
    /* old list element at new position q: q < ip -> old[q], q > ip -> old[q-1]; q == ip -> key */
    IndexType old_i, old_j;                                           /* old-list values at the two witness positions */
    __CPROVER_assume(i == ip || j == ip || old_i < old_j);            /* old list strictly sorted (instantiated at the two witnesses) */
    __CPROVER_assume(i == ip || ((i < ip) ? old_i < key : old_i > key)); /* search postcondition at witness i */
    __CPROVER_assume(j == ip || ((j < ip) ? old_j < key : old_j > key)); /* search postcondition at witness j */
    a_i = (i == ip) ? key : old_i;
    a_j = (j == ip) ? key : old_j;
    __CPROVER_assert(a_i < a_j, "lemma: inserting at the insertion point keeps the list strictly ordered (hence duplicate-free)");
    XV_REACH("h_insert_keeps_order");
}
'''

UNIT = Unit(
    name='c12_search',
    props=['C12'],
    functions=[
        Fn(ML, r'^findInsertionPointBinarySearch\(', 'findInsertionPointBinarySearch',
           'bool findInsertionPointBinarySearch(XalanNode* node, NodeListIteratorType begin, NodeListIteratorType end, NodeListIteratorType* insertionPoint)',
           head_expect=r'^static bool findInsertionPointBinarySearch\( XalanNode\* node, MutableNodeRefList::NodeListIteratorType begin, MutableNodeRefList::NodeListIteratorType end, MutableNodeRefList::NodeListIteratorType& insertionPoint\)$',
           rules=[
               (r'assert\(\s*node->getNodeType\(\).*?isIndexed\(\) == true\)\);', '/* R11 dropped: assert on node type / indexed owner (caller-side precondition, see unit c12_addnode) */', 1),
               (r'assert\(node != 0\);', '', 1),
               (r'typedef MutableNodeRefList::NodeListIteratorType\s+NodeListIteratorType;', '', 1),
               'SCOPE',
               (r'NodeListIteratorType\s+(\w+)\((.*?)\);', r'NodeListIteratorType \1 = (\2);', 3),
               (r'node->getIndex\(\)', 'xv_node_index(node)', 1),
               (r'assert\(\(\*current\)->getIndex\(\) < theIndex &&\s*\(current \+ 1 == end \|\| \(\*\(current \+ 1\)\)->getIndex\(\) > theIndex\)\);',
                '/* R11 dropped: debug assert about a second list position (needs a second witness; subsumed by the postcondition) */', 1),
               (r'assert\(\(\*current\)->getIndex\(\) > theIndex &&\s*\(current == begin \|\| \(\*\(current\)\)->getIndex\(\) > theIndex\)\);',
                'assert(xv_index_at(current) > theIndex);', 1),
               (r'\(\*\(?(\w+)\)?\)->getIndex\(\)', r'xv_index_at(\1)', None),
               (r'assert\(\*(\w+) != 0\);', r'/* assert(*\1 != 0): elements are never dereferenced here */', 2),
               (r'\binsertionPoint\b', '(*insertionPoint)', None),
           ],
           contract=BS_CONTRACT, loops={0: BS_LOOP}, nloops=1),
        Fn(ML, r'^findInsertionPointLinearSearch\(', 'findInsertionPointLinearSearch',
           'bool findInsertionPointLinearSearch(XalanNode* node, NodeListIteratorType begin, NodeListIteratorType end, NodeListIteratorType* insertionPoint)',
           head_expect=r'^template<class PredicateType> inline bool findInsertionPointLinearSearch\( XalanNode\* node, MutableNodeRefList::NodeListIteratorType begin, MutableNodeRefList::NodeListIteratorType end, MutableNodeRefList::NodeListIteratorType& insertionPoint, const PredicateType isNodeAfterPredicate\)$',
           rules=[
               (r'assert\(node != 0\);', '', 1),
               (r'typedef MutableNodeRefList::NodeListIteratorType\s+NodeListIteratorType;', '', 1),
               (r'NodeListIteratorType\s+current\(begin\);', 'NodeListIteratorType current = (begin);', 1),
               (r'const XalanNode\*\s+child = \*current;', 'const XalanNode* child = *current;', 1),   # must fire: child is the element at `current`
               (r'assert\(child != 0\);', '', 1),
               (r'isNodeAfterPredicate\(\*node, \*child\)', 'xv_pred_at(node, current)', 1),     # R6/R8: the predicate instantiation, by position
               (r'\binsertionPoint\b', '(*insertionPoint)', None),
           ],
           contract=LS_CONTRACT, loops={0: LS_LOOP}, nloops=1),
    ],
    template=TEMPLATE,
    jobs=[
        Job('binsearch', 'h_binsearch', enforce=['findInsertionPointBinarySearch'], replace=['xv_index_at', 'xv_node_index'],
            loop_contracts=True, reach=['entry:findInsertionPointBinarySearch', 'after_loop0:findInsertionPointBinarySearch'], timeout=600),
        Job('linsearch', 'h_linsearch', enforce=['findInsertionPointLinearSearch'], replace=['xv_pred_at'],
            loop_contracts=True, reach=['entry:findInsertionPointLinearSearch', 'after_loop0:findInsertionPointLinearSearch'], timeout=600),
        Job('insert_lemma', 'h_insert_keeps_order', dfcc=False, reach=['h_insert_keeps_order'], timeout=120),
    ],
    mutants=[
        Mutant('bs_append_le', ML, r'if \(\(\*last\)->getIndex\(\) < theIndex\)', 'if ((*last)->getIndex() <= theIndex)', expect='binary search'),
        Mutant('bs_first_not_advanced', ML, r'first = current \+ 1;', 'first = current;', expect=None),
        Mutant('bs_insert_after_wrong', ML, r'insertionPoint = current \+ 1;', 'insertionPoint = current;', expect='binary search'),
        Mutant('ls_dup_inserts', ML, r'(if\(child == node\)\s*\{[^}]*?)fInsert = false;', r'\1fInsert = true;', expect='linear search'),
        Mutant('ls_stops_late', ML, r'else if \(isNodeAfterPredicate\(\*node, \*child\) == false\)', 'else if (isNodeAfterPredicate(*node, *child) == true)', expect='linear search'),
    ],
    mechanisms=['ordered, de-duplicating insert'],
    assumptions=['XalanNode::getIndex() is pure and stable (accessor stubs); the list is strictly ordered by index on entry (representation invariant, consumed through the witness form of xv_index_at)',
                 'template findInsertionPointLinearSearch is proved for an arbitrary predicate whose answers are the ghost array g_after'],
)
