"""C02: comparison of a node-set with a node-set, a string or a number (XPath 1.0 3.4): "true if and only if there is a node in the
node-set (and a node in the second node-set) such that the result of performing the comparison on the string-values (numbers) is true".
The three real loops doCompareNodeSets / doCompareString / doCompareNumber of XObject.cpp (function templates; the two functor parameters
become contract stubs) are proved to return false only if the comparison is false for EVERY pair (ghost-witness pair of indices), true only
if one comparison returned true, and to hand the comparison exactly the string-value of ONE left node and ONE right node, left operand
first.  This discharges what unit c02_xobject assumes about the compareNodeSets family (which loop serves which operand type is the job
`dispatch`)."""
from xvlib.unit import Fn, Job, Unit, Mutant, Block

XO = 'src/xalanc/XPath/XObject.cpp'
XOH = 'src/xalanc/XPath/XObject.hpp'
ENUM = Block(XOH, r'^\s*enum\s+eObjectType\s*\{', 'eObjectType',
             rules=[(r'enum\s+eObjectType', 'typedef enum', 1), (r'\}\s*;', '} XObject_eObjectType;', 1)])
TEMPLATE = r'''
#include "xv_shim.h"
typedef struct XalanNode XalanNode; typedef struct Ctx XPathExecutionContext; typedef struct NL NodeRefListBase; typedef struct XO XObject;
/* a cached string as the loops see it: how many string-values were appended since the last clear(), and whose the first one was */
typedef struct { size_t count; int list; size_t idx; } XvStr;
enum { L_NONE = 0, L_LHS = 1, L_RHS = 2 };
XvStr g_s1, g_s2;
const NodeRefListBase *g_lhs, *g_rhs; size_t g_len1, g_len2;
size_t g_wi, g_wk;                 /* the arbitrary pair of indices the universal statement is instantiated at */
bool g_cmp_w;                      /* what the comparison gives for that pair */
bool g_done;                       /* the comparison was made for that pair */
bool g_hit;                        /* some comparison returned true */
const XalanNode* g_last_node; int g_last_list; size_t g_last_idx;
const XObject* g_rhs_obj; double g_rhs_num; double g_cur_num; size_t g_cur_idx; bool g_cur_valid;
#define SAMEBITS(a, b) ((a) == (b) || ((a) != (a) && (b) != (b)))
size_t xv_getLength(const NodeRefListBase* l) __CPROVER_requires(l == g_lhs || l == g_rhs) __CPROVER_assigns()
__CPROVER_ensures(__CPROVER_return_value == (l == g_lhs ? g_len1 : g_len2)) ;
const XalanNode* xv_item(const NodeRefListBase* l, size_t i)
__CPROVER_requires(/* item() inside the list */ (l == g_lhs && i < g_len1) || (l == g_rhs && i < g_len2))
__CPROVER_assigns(g_last_node, g_last_list, g_last_idx)
__CPROVER_ensures(__CPROVER_return_value != 0 && g_last_node == __CPROVER_return_value && g_last_idx == i && g_last_list == (l == g_lhs ? L_LHS : L_RHS)) ;
/* theTypeFunction(node, string): getStringFromNode APPENDS the string-value of the node */
void xv_string_of(const XalanNode* n, XvStr* s)
__CPROVER_requires(n == g_last_node && (s == &g_s1 || s == &g_s2))
__CPROVER_assigns(s->count, s->list, s->idx)
__CPROVER_ensures(s->count == __CPROVER_old(s->count) + 1)
__CPROVER_ensures(__CPROVER_old(s->count) == 0 ? (s->list == g_last_list && s->idx == g_last_idx) : (s->list == __CPROVER_old(s->list) && s->idx == __CPROVER_old(s->idx))) ;
void xv_clear(XvStr* s) __CPROVER_requires(s == &g_s1 || s == &g_s2) __CPROVER_assigns(s->count) __CPROVER_ensures(s->count == 0) ;
/* theCompareFunction(string, string) */
bool xv_cmp_ss(const XvStr* a, const XvStr* b)
__CPROVER_requires(/* the left operand is the string-value of exactly one node of the left node-set */ a->count == 1 && a->list == L_LHS)
__CPROVER_requires(/* the right operand is the string-value of exactly one node of the right node-set */ b->count == 1 && b->list == L_RHS)
__CPROVER_assigns(g_done, g_hit)
__CPROVER_ensures(__CPROVER_return_value == true || __CPROVER_return_value == false)
__CPROVER_ensures((a->idx == g_wi && b->idx == g_wk) ? (g_done == true && __CPROVER_return_value == g_cmp_w) : g_done == __CPROVER_old(g_done))
__CPROVER_ensures(g_hit == (__CPROVER_return_value == true ? true : __CPROVER_old(g_hit))) ;
/* theCompareFunction(string, XObject) */
bool xv_cmp_so(const XvStr* a, const XObject* b)
__CPROVER_requires(/* the left operand is the string-value of exactly one node of the node-set */ a->count == 1 && a->list == L_LHS)
__CPROVER_requires(/* the right operand is the other object */ b == g_rhs_obj)
__CPROVER_assigns(g_done, g_hit)
__CPROVER_ensures(__CPROVER_return_value == true || __CPROVER_return_value == false)
__CPROVER_ensures((a->idx == g_wi) ? (g_done == true && __CPROVER_return_value == g_cmp_w) : g_done == __CPROVER_old(g_done))
__CPROVER_ensures(g_hit == (__CPROVER_return_value == true ? true : __CPROVER_old(g_hit))) ;
/* theNumberFunction(node): number(string-value) */
double xv_number_of(const XalanNode* n)
__CPROVER_requires(n == g_last_node && g_last_list == L_LHS)
__CPROVER_assigns(g_cur_num, g_cur_idx, g_cur_valid)
__CPROVER_ensures(SAMEBITS(__CPROVER_return_value, g_cur_num) && g_cur_idx == g_last_idx && g_cur_valid == true) ;
/* theCompareFunction(double, double) */
bool xv_cmp_nn(double a, double b)
__CPROVER_requires(/* the left operand is the number of one node of the node-set */ g_cur_valid == true && SAMEBITS(a, g_cur_num))
__CPROVER_requires(/* the right operand is the other number */ SAMEBITS(b, g_rhs_num))
__CPROVER_assigns(g_done, g_hit, g_cur_valid)
__CPROVER_ensures(__CPROVER_return_value == true || __CPROVER_return_value == false)
__CPROVER_ensures(g_cur_valid == false)
__CPROVER_ensures((g_cur_idx == g_wi) ? (g_done == true && __CPROVER_return_value == g_cmp_w) : g_done == __CPROVER_old(g_done))
__CPROVER_ensures(g_hit == (__CPROVER_return_value == true ? true : __CPROVER_old(g_hit))) ;
#define BOOLS (XV_ISBOOL(g_done) && XV_ISBOOL(g_hit) && XV_ISBOOL(g_cmp_w))
#define XV_ISBOOL(b) ((b) == true || (b) == false)
@@FN doCompareNodeSets@@
@@FN doCompareString@@
@@FN doCompareNumber@@
#ifdef XV_DISPATCH
@@BLOCK eObjectType@@
/* ---- compareNodeSets: which loop serves which type of right operand ---- */
enum { K_NONE = 0, K_NODESETS, K_STRING, K_NUMBER, K_PLAIN };
const XObject *g_L, *g_R; int g_kind; int g_ncalls; bool g_res; bool g_lbool; double g_rnum; double g_plain_l;
const NodeRefListBase* xv_nodeset(const XObject* o) __CPROVER_requires(o == g_L || o == g_R) __CPROVER_assigns() __CPROVER_ensures(__CPROVER_return_value == (o == g_L ? g_lhs : g_rhs)) ;
double xv_num(const XObject* o) __CPROVER_requires(/* only the right operand is converted to a number as a whole */ o == g_R) __CPROVER_assigns() __CPROVER_ensures(SAMEBITS(__CPROVER_return_value, g_rnum)) ;
bool xv_boolean(const XObject* o) __CPROVER_requires(o == g_L) __CPROVER_assigns() __CPROVER_ensures(__CPROVER_return_value == g_lbool) ;
#define LOOPSTUB(name, kind, extra_req) __CPROVER_requires(l == g_lhs && (extra_req)) __CPROVER_assigns(g_kind, g_ncalls) \
    __CPROVER_ensures(g_kind == kind && g_ncalls == __CPROVER_old(g_ncalls) + 1 && __CPROVER_return_value == g_res) ;
bool xv_doCompareNodeSets(const NodeRefListBase* l, const NodeRefListBase* r) LOOPSTUB(xv_doCompareNodeSets, K_NODESETS, r == g_rhs)
bool xv_doCompareString(const NodeRefListBase* l, const XObject* r) LOOPSTUB(xv_doCompareString, K_STRING, r == g_R)
bool xv_doCompareNumber(const NodeRefListBase* l, double r) LOOPSTUB(xv_doCompareNumber, K_NUMBER, SAMEBITS(r, g_rnum))
bool xv_numcmp(double a, double b) __CPROVER_requires(SAMEBITS(b, g_rnum)) __CPROVER_assigns(g_kind, g_ncalls, g_plain_l)
__CPROVER_ensures(g_kind == K_PLAIN && g_ncalls == __CPROVER_old(g_ncalls) + 1 && g_plain_l == a && __CPROVER_return_value == g_res) ;
@@FN compareNodeSets@@
void h_dispatch(void)
{ const XObject *a, *b; const NodeRefListBase *c, *d; bool e, f; double g; int t; g_L = a; g_R = b; g_lhs = c; g_rhs = d; g_kind = K_NONE; g_ncalls = 0; g_res = XV_BOOL(e); g_lbool = XV_BOOL(f); g_rnum = g; g_plain_l = 7.0;
  compareNodeSets(g_L, g_R, (XObject_eObjectType)t, 0); }
#endif
static void xv_havoc(void)
{ const NodeRefListBase *a, *b; size_t n1, n2, wi, wk, li, ci; bool c; const XalanNode* ln; int ll; const XObject* o; double d, e;
  g_lhs = a; g_rhs = b; g_len1 = n1; g_len2 = n2; g_wi = wi; g_wk = wk; g_cmp_w = XV_BOOL(c); g_done = false; g_hit = false;
  g_last_node = ln; g_last_list = ll; g_last_idx = li; g_rhs_obj = o; g_rhs_num = d; g_cur_num = e; g_cur_idx = ci; g_cur_valid = false;
  g_s1.count = 0; g_s2.count = 0; g_s1.list = L_NONE; g_s2.list = L_NONE; g_s1.idx = li; g_s2.idx = ci; }
void h_nodesets(void) { xv_havoc(); doCompareNodeSets(g_lhs, g_rhs, 0); }
void h_string(void) { xv_havoc(); doCompareString(g_lhs, g_rhs_obj, 0); }
void h_number(void) { xv_havoc(); doCompareNumber(g_lhs, g_rhs_num); }
'''
COMMON = [(r'NodeRefListBase::size_type', 'size_t', None),
          (r'\b(theLHSNodeSet|theRHSNodeSet)\.getLength\(\)', r'xv_getLength(\1)', (1, 2)),
          (r'\b(theLHSNodeSet|theRHSNodeSet)\.item\(', r'xv_item(\1, ', (1, 2)),
          (r'assert\(the[LR]HSNode != 0\);', '', (1, 2)),
          'SCOPE']
RNS = [(r'const GetCachedString\s+s1\(executionContext\);', 'XvStr* const s1 = &g_s1;', 1),
       (r'const GetCachedString\s+s2\(executionContext\);', 'XvStr* const s2 = &g_s2;', 1),
       (r'\b(s[12])\.get\(\)\.clear\(\)', r'xv_clear(\1)', 2),
       (r'theTypeFunction\(\*(the[LR]HSNode), (s[12])\.get\(\)\)', r'xv_string_of(\1, \2)', 2),
       (r'theCompareFunction\((s[12])\.get\(\), (s[12])\.get\(\)\)', r'xv_cmp_ss(\1, \2)', 1)] + COMMON
RS = [(r'XPathExecutionContext::GetCachedString\s+theGuard\(executionContext\);', '', 1),
      (r'XalanDOMString&\s+theLHS = theGuard\.get\(\);', 'XvStr* const theLHS = &g_s1;', 1),
      (r'theStringFunction\(\*theLHSNode, theLHS\)', 'xv_string_of(theLHSNode, theLHS)', 1),
      (r'theCompareFunction\(theLHS, theRHS\)', 'xv_cmp_so(theLHS, theRHS)', 1),
      (r'theLHS\.clear\(\)', 'xv_clear(theLHS)', 1)] + COMMON
RN = [(r'theNumberFunction\(\*theLHSNode\)', 'xv_number_of(theLHSNode)', 1),
      (r'theCompareFunction\(theLHS, theRHS\)', 'xv_cmp_nn(theLHS, theRHS)', 1)] + COMMON
PRE = '__CPROVER_requires(theLHSNodeSet == g_lhs && g_lhs != g_rhs && g_done == false && g_hit == false && BOOLS && g_s1.count == 0 && g_s2.count == 0 && g_cur_valid == false)\n'
POST1 = '''__CPROVER_ensures(/* false only if the comparison is false for every node (instantiated at the arbitrary index g_wi) */
    __CPROVER_return_value == false ==> (g_wi < g_len1 ==> (g_done == true && g_cmp_w == false)))
__CPROVER_ensures(/* true only if the comparison was true for some node */ __CPROVER_return_value == true ==> g_hit == true)
__CPROVER_ensures(g_hit == true ==> __CPROVER_return_value == true)'''
INV1 = '''__CPROVER_loop_invariant(i <= len1 && BOOLS && XV_ISBOOL(theResult) && theResult == g_hit)
__CPROVER_loop_invariant(/* every node passed so far compared false */ (theResult == false && g_wi < i) ==> (g_done == true && g_cmp_w == false))
__CPROVER_decreases(len1 - i)'''
UNIT = Unit(
    name='c02_nodesetcmp',
    props=['C02'],
    functions=[
        Fn(XO, r'^doCompareNodeSets\(', 'doCompareNodeSets', 'bool doCompareNodeSets(const NodeRefListBase* theLHSNodeSet, const NodeRefListBase* theRHSNodeSet, XPathExecutionContext* executionContext)',
           head_expect=r'^template<class CompareFunction, class TypeFunction> inline bool doCompareNodeSets\( const NodeRefListBase& theLHSNodeSet, const NodeRefListBase& theRHSNodeSet, const TypeFunction& theTypeFunction, const CompareFunction& theCompareFunction, XPathExecutionContext& executionContext\)$',
           rules=RNS, nloops=2,
           loops={0: '''__CPROVER_assigns(i, theResult, g_done, g_hit, g_last_node, g_last_list, g_last_idx, g_s1.count, g_s1.list, g_s1.idx, g_s2.count, g_s2.list, g_s2.idx)
__CPROVER_loop_invariant(i <= len1 && BOOLS && XV_ISBOOL(theResult) && theResult == g_hit && g_s1.count == 0 && g_s2.count == 0)
__CPROVER_loop_invariant(/* every pair whose left node was passed compared false */ (theResult == false && g_wi < i && g_wk < len2) ==> (g_done == true && g_cmp_w == false))
__CPROVER_decreases(len1 - i)''',
                  1: '''__CPROVER_assigns(k, theResult, g_done, g_hit, g_last_node, g_last_list, g_last_idx, g_s2.count, g_s2.list, g_s2.idx)
__CPROVER_loop_invariant(k <= len2 && BOOLS && XV_ISBOOL(theResult) && theResult == g_hit && g_s2.count == 0)
__CPROVER_loop_invariant(/* the left string stays the string-value of node i alone */ g_s1.count == 1 && g_s1.list == L_LHS && g_s1.idx == i)
__CPROVER_loop_invariant((theResult == false && g_wi < i && g_wk < len2) ==> (g_done == true && g_cmp_w == false))
__CPROVER_loop_invariant(/* every right node passed so far compared false with left node i */ (theResult == false && g_wi == i && g_wk < k) ==> (g_done == true && g_cmp_w == false))
__CPROVER_decreases(len2 - k)'''},
           contract=PRE + '''__CPROVER_requires(theRHSNodeSet == g_rhs)
__CPROVER_assigns(g_done, g_hit, g_last_node, g_last_list, g_last_idx, g_s1.count, g_s1.list, g_s1.idx, g_s2.count, g_s2.list, g_s2.idx)
__CPROVER_ensures(/* false only if the comparison is false for every pair of nodes (instantiated at the arbitrary pair g_wi, g_wk) */
    __CPROVER_return_value == false ==> ((g_wi < g_len1 && g_wk < g_len2) ==> (g_done == true && g_cmp_w == false)))
__CPROVER_ensures(/* true only if the comparison was true for some pair */ __CPROVER_return_value == true ==> g_hit == true)
__CPROVER_ensures(g_hit == true ==> __CPROVER_return_value == true)
__CPROVER_ensures(/* the cached strings are left empty */ g_s1.count == 0 && g_s2.count == 0)'''),
        Fn(XO, r'^doCompareString\(', 'doCompareString', 'bool doCompareString(const NodeRefListBase* theLHSNodeSet, const XObject* theRHS, XPathExecutionContext* executionContext)',
           head_expect=r'^template<class CompareFunction, class StringFunction> inline bool doCompareString\( const NodeRefListBase& theLHSNodeSet, const StringFunction& theStringFunction, const XObject& theRHS, const CompareFunction& theCompareFunction, XPathExecutionContext& executionContext\)$',
           rules=RS, nloops=1,
           loops={0: '__CPROVER_assigns(i, theResult, g_done, g_hit, g_last_node, g_last_list, g_last_idx, g_s1.count, g_s1.list, g_s1.idx)\n__CPROVER_loop_invariant(g_s1.count == 0)\n' + INV1},
           contract=PRE + '''__CPROVER_requires(theRHS == g_rhs_obj)
__CPROVER_assigns(g_done, g_hit, g_last_node, g_last_list, g_last_idx, g_s1.count, g_s1.list, g_s1.idx)
''' + POST1),
        Fn(XO, r'^doCompareNumber\(', 'doCompareNumber', 'bool doCompareNumber(const NodeRefListBase* theLHSNodeSet, const double theRHS)',
           head_expect=r'^template<class CompareFunction, class NumberFunction> inline bool doCompareNumber\( const NodeRefListBase& theLHSNodeSet, const NumberFunction& theNumberFunction, const double theRHS, const CompareFunction& theCompareFunction\)$',
           rules=RN, nloops=1,
           loops={0: '__CPROVER_assigns(i, theResult, g_done, g_hit, g_last_node, g_last_list, g_last_idx, g_cur_num, g_cur_idx, g_cur_valid)\n__CPROVER_loop_invariant(g_cur_valid == false)\n' + INV1},
           contract=PRE + '''__CPROVER_requires(SAMEBITS(theRHS, g_rhs_num))
__CPROVER_assigns(g_done, g_hit, g_last_node, g_last_list, g_last_idx, g_cur_num, g_cur_idx, g_cur_valid)
''' + POST1),
        Fn(XO, r'^compareNodeSets\(', 'compareNodeSets', 'bool compareNodeSets(const XObject* theLHS, const XObject* theRHS, XObject_eObjectType theRHSType, XPathExecutionContext* executionContext)',
           head_expect=r'^template<class StringCompareFunction, class NumberCompareFunction> inline bool compareNodeSets\( const XObject& theLHS, const XObject& theRHS, XObject::eObjectType theRHSType, const StringCompareFunction& theStringCompareFunction, const NumberCompareFunction& theNumberCompareFunction, XPathExecutionContext& executionContext\)$',
           rules=[(r'XObject::(eType\w+)', r'\1', None),
                  (r'\b(theLHS|theRHS)\.nodeset\(\)', r'xv_nodeset(\1)', None),
                  (r'\btheRHS\.num\(executionContext\)', 'xv_num(theRHS)', (1, 6)),
                  (r'\b(theLHS|theRHS)\.boolean\(executionContext\)', r'xv_boolean(\1)', 1),
                  (r'doCompareNodeSets\(\s*(xv_nodeset\(\w+\)),\s*(xv_nodeset\(\w+\)),\s*getStringFromNodeFunction\(executionContext\),\s*theStringCompareFunction,\s*executionContext\)', r'xv_doCompareNodeSets(\1, \2)', (1, 3)),
                  (r'doCompareNumber\(\s*(xv_nodeset\(\w+\)),\s*getNumberFromNodeFunction\(executionContext\),\s*([^,]+),\s*theNumberCompareFunction\)', r'xv_doCompareNumber(\1, \2)', (1, 4)),
                  (r'doCompareString\(\s*(xv_nodeset\(\w+\)),\s*getStringFromNodeFunction\(executionContext\),\s*(\w+),\s*theStringCompareFunction,\s*executionContext\)', r'xv_doCompareString(\1, \2)', (1, 4)),
                  (r'theNumberCompareFunction\(', 'xv_numcmp(', 1),
                  (r'DoubleSupport::isNaN\((\w+)\)', r'XV_ISNAN(\1)', (0, 1)),
                  'SCOPE'],
           nloops=0,
           contract='''__CPROVER_requires(theLHS == g_L && theRHS == g_R && g_L != g_R && g_lhs != g_rhs && g_kind == K_NONE && g_ncalls == 0 && XV_ISBOOL(g_res) && XV_ISBOOL(g_lbool))
__CPROVER_requires(/* the types a caller passes (unit c02_xobject): the four XPath types, a result tree fragment, unknown */ theRHSType == eTypeNodeSet || theRHSType == eTypeString || theRHSType == eTypeNumber || theRHSType == eTypeBoolean || theRHSType == eTypeResultTreeFrag || theRHSType == eTypeUnknown)
__CPROVER_assigns(g_kind, g_ncalls, g_plain_l)
__CPROVER_ensures(/* node-set with node-set (XPath 3.4): some pair of nodes, compared by string-value */ theRHSType == eTypeNodeSet ==> (g_kind == K_NODESETS && g_ncalls == 1 && __CPROVER_return_value == g_res))
__CPROVER_ensures(/* node-set with string: some node whose string-value compares true with the string */ theRHSType == eTypeString ==> (g_kind == K_STRING && g_ncalls == 1 && __CPROVER_return_value == g_res))
__CPROVER_ensures(/* node-set with number: some node whose string-value converted to a number compares true with the number */ theRHSType == eTypeNumber ==> (g_kind == K_NUMBER && g_ncalls == 1 && __CPROVER_return_value == g_res))
__CPROVER_ensures(/* node-set with boolean: boolean(node-set) against the boolean, no loop over the nodes */ theRHSType == eTypeBoolean ==> (g_kind == K_PLAIN && g_ncalls == 1 && g_plain_l == (g_lbool == true ? 1.0 : 0.0) && __CPROVER_return_value == g_res))
__CPROVER_ensures(/* node-set with result tree fragment (XSLT 11.1: the fragment is a node-set with a single root node): some node whose string-value compares true with the string-value of the fragment */
    theRHSType == eTypeResultTreeFrag ==> (g_kind == K_STRING && g_ncalls == 1 && __CPROVER_return_value == g_res))
__CPROVER_ensures(theRHSType == eTypeUnknown ==> (g_ncalls == 0 && __CPROVER_return_value == false))'''),
    ],
    blocks=[ENUM],
    template=TEMPLATE,
    jobs=[Job('dispatch', 'h_dispatch', enforce=['compareNodeSets'], replace=['xv_nodeset', 'xv_num', 'xv_boolean', 'xv_doCompareNodeSets', 'xv_doCompareString', 'xv_doCompareNumber', 'xv_numcmp'], defines=['XV_DISPATCH'], reach='all', timeout=120, min_obligations=6),
          Job('nodesets', 'h_nodesets', enforce=['doCompareNodeSets'], replace=['xv_getLength', 'xv_item', 'xv_string_of', 'xv_clear', 'xv_cmp_ss'], loop_contracts=True, reach='all', timeout=600, min_obligations=10),
          Job('string', 'h_string', enforce=['doCompareString'], replace=['xv_getLength', 'xv_item', 'xv_string_of', 'xv_clear', 'xv_cmp_so'], loop_contracts=True, reach='all', timeout=600, min_obligations=8),
          Job('number', 'h_number', enforce=['doCompareNumber'], replace=['xv_getLength', 'xv_item', 'xv_number_of', 'xv_cmp_nn'], loop_contracts=True, reach='all', timeout=600, min_obligations=8)],
    mutants=[
        Mutant('rhs_string_not_cleared', XO, r'\n                    s2\.get\(\)\.clear\(\);\n                \}\n\n                s1\.get\(\)\.clear\(\);', '\n                }\n\n                s1.get().clear();\n                s2.get().clear();', expect=None),
        Mutant('inner_starts_at_one', XO, r'for\(NodeRefListBase::size_type k = 0; k < len2', 'for(NodeRefListBase::size_type k = 1; k < len2', expect=None),
        Mutant('operands_swapped', XO, r'theCompareFunction\(s1\.get\(\), s2\.get\(\)\)', 'theCompareFunction(s2.get(), s1.get())', expect='left operand'),
        Mutant('string_operand_compared_as_number', XO, r'(else if\(theRHSType == XObject::eTypeString\).*?)theResult = doCompareString\(\s*theLHS\.nodeset\(\),\s*getStringFromNodeFunction\(executionContext\),\s*theRHS,\s*theStringCompareFunction,\s*executionContext\);', r'\1theResult = doCompareNumber(theLHS.nodeset(), getNumberFromNodeFunction(executionContext), theRHS.num(executionContext), theNumberCompareFunction);', expect='node-set with string'),
        Mutant('number_last_skipped', XO, r'(doCompareNumber\(.*?)i < len1 && theResult == false', r'\1i + 1 < len1 && theResult == false', expect='false only if'),
    ],
    mechanisms=['comparison of every pair of types (node-set operands: existential rule)'],
    assumptions=['getStringFromNode appends the string-value of the node to the string (units c13_stringvalue: string-value walks)',
                 'the comparison functors are uninterpreted here: the same pair of operands gives the same answer (what each functor computes: unit c02_nshelpers)',
                 'GetCachedString hands out an empty string (XPathExecutionContextDefault string cache, not under contract)'],
)
