from xvlib.unit import Fn, Job, Unit, Mutant

XO = 'src/xalanc/XPath/XObject.cpp'

TEMPLATE = r'''
#include "xv_shim.h"
typedef struct Ctx XPathExecutionContext; typedef struct XalanNode XalanNode; typedef struct XalanDOMString XalanDOMString; typedef struct NodeRefListBase NodeRefListBase;
enum { SRC_NONE, SRC_CONTEXT_AWARE, SRC_PLAIN, SRC_EMPTY };
int g_src; const XalanNode* g_src_node; double g_num_ctx, g_num_plain, g_num_empty; size_t g_listlen; const XalanNode* g_first;
XalanDOMString* xv_cached_string(XPathExecutionContext* e) __CPROVER_requires(1) __CPROVER_assigns() __CPROVER_ensures(1) ;
/* XObject::string(node, executionContext, string): the string-value as every other evaluation path computes it (honours xsl:strip-space) */
void xv_string_ctx(const XalanNode* n, XPathExecutionContext* e, XalanDOMString* s) __CPROVER_requires(g_src == SRC_NONE) __CPROVER_assigns(g_src, g_src_node) __CPROVER_ensures(g_src == SRC_CONTEXT_AWARE && g_src_node == n) ;
/* deprecated XObject::string(node, string): ignores the execution context */
void xv_string_plain(const XalanNode* n, XalanDOMString* s) __CPROVER_requires(g_src == SRC_NONE) __CPROVER_assigns(g_src, g_src_node) __CPROVER_ensures(g_src == SRC_PLAIN && g_src_node == n) ;
double xv_number_of_string(const XalanDOMString* s, void* mm) __CPROVER_requires(1) __CPROVER_assigns()
__CPROVER_ensures(XV_SAME(__CPROVER_return_value, g_src == SRC_CONTEXT_AWARE ? g_num_ctx : g_src == SRC_PLAIN ? g_num_plain : g_num_empty)) ;
double xv_number_of_empty(void* mm) __CPROVER_requires(g_src == SRC_NONE) __CPROVER_assigns(g_src) __CPROVER_ensures(g_src == SRC_EMPTY && XV_SAME(__CPROVER_return_value, g_num_empty)) ;
void* xv_mm(XPathExecutionContext* e) __CPROVER_requires(1) __CPROVER_assigns() __CPROVER_ensures(1) ;
size_t xv_list_length(const NodeRefListBase* l) __CPROVER_requires(1) __CPROVER_assigns() __CPROVER_ensures(__CPROVER_return_value == g_listlen) ;
const XalanNode* xv_list_item(const NodeRefListBase* l, size_t i) __CPROVER_requires(i < g_listlen) __CPROVER_assigns() __CPROVER_ensures((i == 0 ==> __CPROVER_return_value == g_first) && __CPROVER_return_value != 0) ;

@@FN number_node@@
@@FN number_nodelist@@
static void xv_havoc(void) { double a, b, c; size_t n; const XalanNode *p, *q; __CPROVER_assume(p != 0); g_src = SRC_NONE; g_num_ctx = a; g_num_plain = b; g_num_empty = c; g_listlen = n; g_first = p; g_src_node = q; }
void h_number_node(void) { xv_havoc(); const XalanNode* n; number_node(0, n); }
void h_number_nodelist(void) { xv_havoc(); number_nodelist(0, 0); }
'''
R = ['SCOPE',
     (r'const GetCachedString\s+theGuard\(executionContext\);', '', (0, 1)),
     (r'XalanDOMString&\s+theString = theGuard\.get\(\);', 'XalanDOMString* theString = xv_cached_string(executionContext);', (0, 1)),
     (r'XObject_string\(theNode, executionContext, theString\);', 'xv_string_ctx(theNode, executionContext, theString);', (0, 1)),
     (r'XObject_string\(theNode, theString\);', 'xv_string_plain(theNode, theString);', (0, 1)),
     (r'executionContext\.getMemoryManager\(\)', 'xv_mm(executionContext)', (0, 2)),
     (r'XObject_number\(theString, ', 'xv_number_of_string(theString, ', (0, 1)),
     (r'(?<![\w.>])number\(s_emptyString, ', 'xv_number_of_empty(', (0, 1)),
     (r'theNodeList\.getLength\(\)', 'xv_list_length(theNodeList)', (0, 1)),
     (r'\*theNodeList\.item\(0\)', 'xv_list_item(theNodeList, 0)', (0, 1)),
     (r'theNodeList\.item\(0\)', 'xv_list_item(theNodeList, 0)', (0, 1)),
     (r'(?<![\w.>])number\(executionContext, xv_list_item', 'number_node(executionContext, xv_list_item', (0, 1))]
REPL = ['xv_cached_string', 'xv_string_ctx', 'xv_string_plain', 'xv_number_of_string', 'xv_number_of_empty', 'xv_mm', 'xv_list_length', 'xv_list_item']

UNIT = Unit(
    name='c11_nodenumber',
    props=['C11'],
    functions=[
        Fn(XO, r'^XObject::number\(\s*XPathExecutionContext&\s+executionContext,\s*const XalanNode&', 'number_node',
           'double number_node(XPathExecutionContext* executionContext, const XalanNode* theNode)',
           head_expect=r'^double XObject::number\( XPathExecutionContext& executionContext, const XalanNode& theNode\)$', rules=R, nloops=0,
           contract='''__CPROVER_requires(g_src == SRC_NONE)
__CPROVER_assigns(g_src, g_src_node)
__CPROVER_ensures(/* number(node): the number() of the node's string-value computed WITH the execution context (the value every other path sees, e.g. under xsl:strip-space) */
    g_src == SRC_CONTEXT_AWARE && g_src_node == theNode && XV_SAME(__CPROVER_return_value, g_num_ctx))'''),
        Fn(XO, r'^XObject::number\(\s*XPathExecutionContext&\s+executionContext,\s*const NodeRefListBase&', 'number_nodelist',
           'double number_nodelist(XPathExecutionContext* executionContext, const NodeRefListBase* theNodeList)',
           head_expect=r'^double XObject::number\( XPathExecutionContext& executionContext, const NodeRefListBase& theNodeList\)$', rules=R, nloops=0,
           contract='''__CPROVER_requires(g_src == SRC_NONE)
__CPROVER_assigns(g_src, g_src_node)
__CPROVER_ensures(/* number(node-set): number of the empty string for an empty set, else number(first node in document order) (XPath 4.4) */
    g_listlen == 0 ? (g_src == SRC_EMPTY && XV_SAME(__CPROVER_return_value, g_num_empty)) : (g_src == SRC_CONTEXT_AWARE && g_src_node == g_first && XV_SAME(__CPROVER_return_value, g_num_ctx)))'''),
    ],
    template=TEMPLATE,
    jobs=[Job('number_node', 'h_number_node', enforce=['number_node'], replace=REPL, reach=['entry:number_node'], timeout=120),
          Job('number_nodelist', 'h_number_nodelist', enforce=['number_nodelist'], replace=REPL + ['number_node'], reach=['entry:number_nodelist'], timeout=120)],
    mutants=[Mutant('plain_string', XO, r'XObject::string\(theNode, executionContext, theString\);\s*return XObject::number\(theString', 'XObject::string(theNode, theString);\n\n    return XObject::number(theString', expect='number(node)')],
    mechanisms=['static conversions the specialised paths use'],
    assumptions=['XObject::string(node, executionContext, string) is the string-value conversion used by the string path; DoubleSupport::toDouble is number() of a string (c18 units)'],
)
