"""C04: XalanUTF16Writer (encoding="UTF-16").  Every UTF-16 unit handed to the writer reaches the underlying Writer exactly once and
in order, through the 512-unit buffer or directly; the buffer invariant holds after every operation; all writes stay inside the buffer (C03)."""
from xvlib.unit import Fn, Job, Unit, Mutant, Block

W16 = 'src/xalanc/XMLSupport/XalanUTF16Writer.hpp'
KBUF = Block(W16, r'^\s*enum\s*\{\s*kBufferSize', 'kBufferSize')
MEMBERS = Block(W16, r'^\s*value_type\s+m_buffer\[kBufferSize\];', 'members', end=r'size_type\s+m_bufferRemaining;')
M = [(r'm_writer\.write\(', 'xv_writer_write(', (0, 2)),
     (r'\bm_(buffer|bufferPosition|bufferRemaining)\b', r'self->m_\1', (0, 99)),
     (r'(?<![\w.>])flushBuffer\(\)', 'flushBuffer(self)', (0, 3))]
# inside the copy loop the store through the position pointer is written as the equivalent indexed store into the member array
# (m_bufferPosition always points into m_buffer): after the loop contract havocs the pointer member, cbmc 6.11 resolves "*p = v" to its
# invalid object, while "m_buffer[p - m_buffer] = v" is bounds-checked against the real array
IDX = [(r'\*self->m_bufferPosition = theChars\[i\];', 'self->m_buffer[(size_t)(self->m_bufferPosition - &self->m_buffer[0])] = theChars[i];', 1)]

TEMPLATE = r'''
#include "xv_shim.h"
typedef XalanDOMChar value_type;
@@BLOCK kBufferSize@@
typedef struct XalanUTF16Writer {
@@BLOCK members@@
} XalanUTF16Writer;
/* ghost: units handed to the underlying Writer so far; the run being written and one arbitrary witness index into it; where the witness unit went */
size_t g_flushed; const XalanDOMChar* g_in; size_t g_len; size_t g_w;
#define INV(s) ((s)->m_bufferRemaining <= kBufferSize && (s)->m_bufferPosition == (s)->m_buffer + (kBufferSize - (s)->m_bufferRemaining))
#define WRITER_OK(s) (__CPROVER_is_fresh((s), sizeof(*(s))) && __CPROVER_pointer_in_range_dfcc(&(s)->m_buffer[0], (s)->m_bufferPosition, &(s)->m_buffer[0] + kBufferSize) && INV(s))
#define TOTAL(s) (g_flushed + (kBufferSize - (s)->m_bufferRemaining))
#define OLDTOTAL(s) (__CPROVER_old(g_flushed) + (kBufferSize - __CPROVER_old((s)->m_bufferRemaining)))
bool g_direct;
/* the underlying Writer receives a run of units: the buffer (at most kBufferSize units) or, for long runs, the caller's run as a whole */
void xv_writer_write(const XalanDOMChar* p, size_t start, size_t n)
__CPROVER_requires(start == 0)
__CPROVER_requires(/* what is handed on is the filled part of the buffer, or the whole run of the caller */ __CPROVER_same_object(p, g_in) ? (p == g_in && n == g_len && n > kBufferSize) : n <= kBufferSize)
__CPROVER_assigns(g_flushed, g_direct)
__CPROVER_ensures(g_flushed == __CPROVER_old(g_flushed) + n && g_direct == (__CPROVER_old(g_direct) || __CPROVER_same_object(p, g_in))) ;
@@FN flushBuffer@@
@@FN write_unit@@
@@FN write_units@@
@@FN write_at@@
static void xv_havoc(void) { size_t a, b, c; const XalanDOMChar* p; g_flushed = a; g_len = b; g_w = c; g_in = p; g_direct = false; }
void h_flush(void) { xv_havoc(); XalanUTF16Writer* s; flushBuffer(s); }
void h_write_unit(void) { xv_havoc(); XalanUTF16Writer* s; XalanDOMChar c; write_unit(s, c); }
void h_write_units(void) { xv_havoc(); XalanUTF16Writer* s; const XalanDOMChar* p; size_t n; write_units(s, p, n); }
void h_write_at(void) { xv_havoc(); XalanUTF16Writer* s; const XalanDOMChar* p; size_t a, n; write_at(s, p, a, n); }
'''
CLS = r'class XalanUTF16Writer : public XalanFormatterWriter'
UNIT = Unit(
    name='c04_utf16writer',
    props=['C04', 'C03'],
    blocks=[KBUF, MEMBERS],
    functions=[
        Fn(W16, r'^\s+flushBuffer\(\)', 'flushBuffer', 'void flushBuffer(XalanUTF16Writer* self)', rules=M, nloops=0, after=CLS,
           contract='''__CPROVER_requires(WRITER_OK(self) && g_flushed <= ((size_t)1 << 60) && !__CPROVER_same_object(self, g_in))
__CPROVER_assigns(self->m_bufferPosition, self->m_bufferRemaining, g_flushed, g_direct)
__CPROVER_ensures(__CPROVER_pointer_in_range_dfcc(&self->m_buffer[0], self->m_bufferPosition, &self->m_buffer[0] + kBufferSize))
__CPROVER_ensures(/* flush hands on exactly the buffered units and empties the buffer */ INV(self) && self->m_bufferRemaining == kBufferSize && g_flushed == OLDTOTAL(self) && g_direct == __CPROVER_old(g_direct))'''),
        Fn(W16, r'^\s+write\(value_type\s+theChar\)', 'write_unit', 'void write_unit(XalanUTF16Writer* self, value_type theChar)', rules=M, nloops=0, after=CLS,
           contract='''__CPROVER_requires(WRITER_OK(self) && g_flushed <= ((size_t)1 << 60) && !__CPROVER_same_object(self, g_in))
__CPROVER_assigns(__CPROVER_object_whole(self), g_flushed, g_direct)
__CPROVER_ensures(__CPROVER_pointer_in_range_dfcc(&self->m_buffer[0], self->m_bufferPosition, &self->m_buffer[0] + kBufferSize))
__CPROVER_ensures(INV(self))
__CPROVER_ensures(/* write(unit): exactly one unit, the given one, is appended */ TOTAL(self) == OLDTOTAL(self) + 1 && self->m_bufferRemaining <= kBufferSize - 1 && self->m_buffer[kBufferSize - self->m_bufferRemaining - 1] == theChar)'''),
        Fn(W16, r'^\s+write\(\s*const value_type\*\s+theChars,\s*size_type\s+theLength\)', 'write_units', 'void write_units(XalanUTF16Writer* self, const value_type* theChars, size_t theLength)',
           rules=M + IDX, nloops=1, after=CLS,
           loops={0: '''__CPROVER_assigns(i, __CPROVER_object_whole(self))
__CPROVER_loop_invariant(i <= theLength && theLength <= self->m_bufferRemaining && self->m_bufferRemaining <= kBufferSize && self->m_bufferRemaining == __CPROVER_loop_entry(self->m_bufferRemaining))
__CPROVER_loop_invariant(__CPROVER_same_object(self->m_bufferPosition, self) && (size_t)__CPROVER_POINTER_OFFSET(self->m_bufferPosition) == (size_t)__CPROVER_POINTER_OFFSET(&self->m_buffer[0]) + sizeof(XalanDOMChar) * ((kBufferSize - self->m_bufferRemaining) + i))
__CPROVER_loop_invariant(/* the units copied so far are the units of the run, in order (witness) */ i > g_w ==> self->m_buffer[(kBufferSize - self->m_bufferRemaining) + g_w] == theChars[g_w])
__CPROVER_decreases(theLength - i)'''},
           contract='''__CPROVER_requires(WRITER_OK(self) && g_flushed <= ((size_t)1 << 60) && theLength <= ((size_t)1 << 40) && g_direct == false)
__CPROVER_requires(__CPROVER_is_fresh(theChars, (theLength + 1) * sizeof(XalanDOMChar)) && theChars == g_in && g_len == theLength)
__CPROVER_assigns(__CPROVER_object_whole(self), g_flushed, g_direct)
__CPROVER_ensures(INV(self))
__CPROVER_ensures(/* exactly theLength units are produced, after everything produced before */ TOTAL(self) == OLDTOTAL(self) + theLength)
__CPROVER_ensures(/* a run longer than the buffer goes to the Writer as a whole, after a flush */ g_direct == (theLength > kBufferSize) && (g_direct == true ==> self->m_bufferRemaining == kBufferSize))
__CPROVER_ensures(/* a shorter run lies at the end of the buffer, unit by unit in order (witness) */
    (theLength <= kBufferSize && g_w < theLength) ==> (kBufferSize - self->m_bufferRemaining >= theLength && self->m_buffer[kBufferSize - self->m_bufferRemaining - theLength + g_w] == theChars[g_w]))'''),
        Fn(W16, r'^\s+write\(\s*const value_type\s+chars\[\],\s*size_type\s+start,\s*size_type\s*\)', 'write_at', 'size_t write_at(XalanUTF16Writer* self, const value_type* chars, size_t start, size_t length)',
           rules=M + [(r'(?<![\w.>])write\(chars\[start\]\);', 'write_unit(self, chars[start]);', 1)], nloops=0, after=CLS,
           contract='''__CPROVER_requires(WRITER_OK(self) && g_flushed <= ((size_t)1 << 60) && length <= ((size_t)1 << 40) && start < length)
__CPROVER_requires(__CPROVER_is_fresh(chars, (length + 1) * sizeof(XalanDOMChar)) && !__CPROVER_same_object(self, g_in) && !__CPROVER_same_object(chars, g_in))
__CPROVER_assigns(__CPROVER_object_whole(self), g_flushed, g_direct)
__CPROVER_ensures(/* write(chars, start, length): the unit at start is appended (surrogate halves pass through as they are: the output is UTF-16) and start is returned */
    __CPROVER_return_value == start && TOTAL(self) == OLDTOTAL(self) + 1 && self->m_bufferRemaining <= kBufferSize - 1 && self->m_buffer[kBufferSize - self->m_bufferRemaining - 1] == chars[start] && INV(self))'''),
    ],
    template=TEMPLATE,
    jobs=[Job('flush', 'h_flush', enforce=['flushBuffer'], replace=['xv_writer_write'], reach='all', timeout=300, min_obligations=3),
          Job('write_unit', 'h_write_unit', enforce=['write_unit'], replace=['flushBuffer'], reach='all', timeout=300, min_obligations=3),
          Job('write_units', 'h_write_units', enforce=['write_units'], replace=['flushBuffer', 'xv_writer_write'], loop_contracts=True, reach='all', timeout=900, min_obligations=6),
          Job('write_at', 'h_write_at', enforce=['write_at'], replace=['write_unit'], reach='all', timeout=300, min_obligations=3)],
    mutants=[
        Mutant('flush_when_equal', W16, r'if \(m_bufferRemaining < theLength\)', 'if (m_bufferRemaining <= theLength - 1 && theLength > 1)', expect=None),
        Mutant('no_flush_before_direct', W16, r'(if \(theLength > kBufferSize\)\s*\{\s*)flushBuffer\(\);', r'\1', expect=None),
        Mutant('remaining_not_updated', W16, r'\n            m_bufferRemaining -= theLength;', '', expect=None),
        Mutant('unit_flush_at_one', W16, r'if \(m_bufferRemaining == 0\)', 'if (m_bufferRemaining == 1)', expect=None),
    ],
    mechanisms=['writer layer per encoding (XalanUTF16Writer)'],
    assumptions=['the underlying Writer (XalanOutputStreamPrintWriter) writes the units it is given in its own byte order with a BOM (not under contract)',
                 'UTF-16 output passes units through unchanged; well-formedness of surrogate pairs in the OUTPUT follows from that of the input and is not checked by this writer'],
)
