"""C20: XalanVector::insert(pos, first, last) into the middle of a vector that has enough capacity (the block that shifts the tail in
place).  The tail is moved with calls whose LIBRARY PRECONDITIONS hold: std::copy only when the destination does not start inside the source
range, std::copy_backward only when the destination does not end inside it (overlapping ranges shifted to the right need copy_backward);
every element read lies inside the source range or the original vector.  Sizes and element values are not tracked here (the exact-size
postcondition needs (a - b) + b == a over 64-bit adders in three loops, which no installed back end finished in 5 minutes): they follow from the std semantics of copy / copy_backward once their preconditions hold."""
from xvlib.unit import Fn, Job, Unit, Mutant, Block

XV = 'src/xalanc/Include/XalanVector.hpp'
L_PUSH = '''__CPROVER_assigns(%(it)s, g_size)
__CPROVER_loop_invariant(%(it)s <= %(end)s && %(it)s >= __CPROVER_loop_entry(%(it)s) && g_size >= __CPROVER_loop_entry(g_size) && g_size <= g_cap)
__CPROVER_decreases(%(end)s - %(it)s)'''
MID = Block(XV, r'^\s*const iterator\s+theOriginalEnd = end\(\);', 'insert_middle', after=r'^\s+insert\(\s*iterator\s+thePosition,\s*const_iterator\s+theFirst,\s*const_iterator\s+theLast\)',
            end=r'std::copy\(theFirst, theLast, thePosition\);\s*\}',
            rules=[(r'const iterator\s+theOriginalEnd = end\(\);', 'const iterator theOriginalEnd = xv_end();', 1),
                   (r'(?<![\w.>])local_distance\(', 'xv_distance(', 1),
                   (r'const const_iterator\s+toInsertSplit', 'const src_iterator toInsertSplit', 1),
                   (r'const_iterator\s+toInsertIter = toInsertSplit;', 'src_iterator toInsertIter = toInsertSplit;', 1),
                   (r'doPushBack\(\*toInsertIter\);(\s*\+\+toInsertIter;\s*\}\s*toInsertIter = thePosition;)', r'xv_push_back_from_source(toInsertIter);\1', 1),
                   (r'toInsertIter = thePosition;\s*while \(toInsertIter !=\s+theOriginalEnd\)\s*\{\s*doPushBack\(\*toInsertIter\);\s*\+\+toInsertIter;', 'iterator toInsertIter2 = thePosition;\n                    while (toInsertIter2 != theOriginalEnd)\n                    {\n                        xv_push_back_from_self(toInsertIter2);\n\n                        ++toInsertIter2;', 1),
                   (r'const_iterator\s+toMoveIter = end\(\) - theInsertSize;', 'iterator toMoveIter = xv_end() - theInsertSize;', 1),
                   (r'doPushBack\(\*toMoveIter\);', 'xv_push_back_from_self(toMoveIter);', 1),
                   (r'std::copy_backward\(([^,;]+),([^,;]+),([^,;]+)\);', r'xv_copy_backward_self(\1,\2,\3);', (0, 2)),
                   (r'std::copy\(theFirst, ([^,;]+), thePosition\);', r'xv_copy_from_source(theFirst, \1, thePosition);', (0, 2)),
                   (r'std::copy\(([^,;]+),([^,;]+),([^,;]+)\);', r'xv_copy_self(\1,\2,\3);', (0, 2))],
            loops={0: L_PUSH % {'it': 'toInsertIter', 'end': 'theLast'}, 1: L_PUSH % {'it': 'toInsertIter2', 'end': 'theOriginalEnd'}, 2: L_PUSH % {'it': 'toMoveIter', 'end': 'theOriginalEnd'}}, nloops=3)
TEMPLATE = r'''
#include "xv_shim.h"
typedef size_t size_type; typedef size_t iterator; typedef size_t const_iterator;   /* positions in this vector */
typedef size_t src_iterator;                                                        /* positions in the source range (another container) */
#define XV_BIG ((size_t)1 << 40)
size_t g_size, g_cap, g_size0, g_src_first, g_src_last;
size_t xv_end(void) __CPROVER_requires(1) __CPROVER_assigns() __CPROVER_ensures(__CPROVER_return_value == g_size) ;
size_t xv_distance(size_t a, size_t b) __CPROVER_requires(a <= b) __CPROVER_assigns() __CPROVER_ensures(__CPROVER_return_value == b - a) ;
void xv_push_back_from_source(src_iterator it) __CPROVER_requires(it >= g_src_first && it < g_src_last)
__CPROVER_assigns(g_size) __CPROVER_ensures(g_size >= __CPROVER_old(g_size) && g_size <= g_cap) ;
void xv_push_back_from_self(iterator it) __CPROVER_requires(/* an element that existed when the insert began */ it < g_size0) __CPROVER_assigns(g_size) __CPROVER_ensures(g_size >= __CPROVER_old(g_size) && g_size <= g_cap) ;
/* std::copy(first, last, d_first) inside this vector: [alg.copy] requires that d_first is not in [first, last) */
void xv_copy_self(iterator first, iterator last, iterator d_first)
__CPROVER_requires(first <= last && last <= g_size && d_first + (last - first) <= g_size)
__CPROVER_requires(/* std::copy precondition: the destination does not START inside the source range (a shift to the right needs copy_backward) */ !(d_first >= first && d_first < last))
__CPROVER_assigns() __CPROVER_ensures(1) ;
/* std::copy_backward(first, last, d_last): [alg.copy] requires that d_last is not in (first, last] */
void xv_copy_backward_self(iterator first, iterator last, iterator d_last)
__CPROVER_requires(first <= last && last <= g_size && d_last <= g_size && d_last >= (last - first))
__CPROVER_requires(/* std::copy_backward precondition: the destination does not END inside the source range */ !(d_last > first && d_last <= last))
__CPROVER_assigns() __CPROVER_ensures(1) ;
void xv_copy_from_source(src_iterator first, src_iterator last, iterator d_first)
__CPROVER_requires(first >= g_src_first && first <= last && last <= g_src_last && /* overwrites elements of this vector only */ d_first + (last - first) <= g_size) __CPROVER_assigns() __CPROVER_ensures(1) ;
/* the block "insert into the middle of the vector that has enough capacity" of XalanVector::insert(pos, first, last), cut out of the function */
void insert_middle(iterator thePosition, src_iterator theFirst, src_iterator theLast, size_type theInsertSize)
__CPROVER_requires(g_size == g_size0 && g_size <= XV_BIG && g_cap <= XV_BIG && theFirst == g_src_first && theLast == g_src_last && theFirst <= theLast && theLast <= XV_BIG && theInsertSize == theLast - theFirst && theInsertSize >= 1)
__CPROVER_requires(/* this branch: not at the end, and the capacity suffices */ thePosition < g_size && g_size + theInsertSize <= g_cap)
__CPROVER_assigns(g_size)
__CPROVER_ensures(g_size >= g_size0)
{
    XV_REACH("entry:insert_middle");
@@BLOCK insert_middle@@
    XV_REACH("exit:insert_middle");
}
void h_insert_middle(void) { size_t a, c, f, l, p, n; g_size = a; g_size0 = a; g_cap = c; g_src_first = f; g_src_last = l; insert_middle(p, f, l, n); }
'''
UNIT = Unit(
    name='c20_vector_insertrange',
    props=['C20', 'C03'],
    blocks=[MID],
    functions=[],
    template=TEMPLATE,
    jobs=[Job('insert_middle', 'h_insert_middle', enforce=['insert_middle'], replace=['xv_end', 'xv_distance', 'xv_push_back_from_source', 'xv_push_back_from_self', 'xv_copy_self', 'xv_copy_backward_self', 'xv_copy_from_source'],
              loop_contracts=True, reach=['entry:insert_middle', 'exit:insert_middle'], timeout=600, min_obligations=8)],
    mutants=[
        Mutant('tail_shifted_with_forward_copy', XV, r'std::copy_backward\(thePosition, theOriginalEnd - theInsertSize, theOriginalEnd\);', 'std::copy(thePosition, theOriginalEnd - theInsertSize, thePosition + theInsertSize);', expect='std::copy precondition'),
        Mutant('source_split_past_the_range', XV, r'const const_iterator    toInsertSplit = theFirst \+ theRightSplitSize;', 'const const_iterator    toInsertSplit = theFirst + theRightSplitSize + 1;', expect=None),
    ],
    mechanisms=['XalanVector range insert', 'vector growth, insert and erase with element shifting'],
    assumptions=['only the in-place block of insert(pos, first, last) is under contract (cut out as a block); the append branch and the reallocating branch (temporary vector + swap) are not',
                 'std::copy / std::copy_backward are stubs carrying the [alg.copy] preconditions; element values are not tracked; the source range belongs to another container; positions are element indices'],
)
