"""C06: destroyStylesheet / destroyParsedSource on one transformer.  The transformer owns its compiled stylesheets and parsed sources through
two vectors of pointers.  Destroying one object removes exactly that pointer (so nothing dangling stays behind for the destructor to delete
again), destroys exactly that object, and leaves every other object owned and valid ("compiled stylesheets and parsed sources stay valid
and unchanged until destroyed"); an object this transformer does not own is refused with -1 and nothing changes."""
from xvlib.unit import Fn, Job, Unit, Mutant

XT = 'src/xalanc/XalanTransformer/XalanTransformer.cpp'
TEMPLATE = r'''
#include "xv_shim.h"
typedef struct Obj Obj; typedef struct Self Self; typedef long iterator;
#define NONE (-1L)
/* ghost: the ownership vector seen through two tracked objects: X (the one to destroy; g_px its position or NONE) and Y (any other owned
   object, at g_py); its length; what was destroyed */
const Obj* g_X; const Obj* g_Y; long g_px, g_py, g_n; bool g_dup_x; const Obj* g_destroyed; bool g_error_loaded;
iterator xv_find(Self* s, const Obj* o) __CPROVER_requires(o == g_X) __CPROVER_assigns() __CPROVER_ensures(__CPROVER_return_value == (g_px == NONE ? g_n : g_px)) ;
iterator xv_end(Self* s) __CPROVER_requires(1) __CPROVER_assigns() __CPROVER_ensures(__CPROVER_return_value == g_n) ;
void xv_erase(Self* s, iterator i) __CPROVER_requires(/* erase of an element */ i >= 0 && i < g_n) __CPROVER_assigns(g_n, g_px, g_py)
__CPROVER_ensures(g_n == __CPROVER_old(g_n) - 1 && g_px == (__CPROVER_old(g_px) == i ? NONE : __CPROVER_old(g_px) > i ? __CPROVER_old(g_px) - 1 : __CPROVER_old(g_px))
    && g_py == (__CPROVER_old(g_py) == i ? NONE : __CPROVER_old(g_py) > i ? __CPROVER_old(g_py) - 1 : __CPROVER_old(g_py))) ;
const Obj* xv_deref(Self* s, iterator i) __CPROVER_requires(i >= 0 && i < g_n) __CPROVER_assigns()
__CPROVER_ensures((i == g_px ==> __CPROVER_return_value == g_X) && (i == g_py ==> __CPROVER_return_value == g_Y) && ((i != g_px && i != g_py) ==> (__CPROVER_return_value != g_X && __CPROVER_return_value != g_Y))) ;
iterator xv_back_pos(Self* s) __CPROVER_requires(g_n >= 1) __CPROVER_assigns() __CPROVER_ensures(__CPROVER_return_value == g_n - 1) ;
void xv_set(Self* s, iterator i, const Obj* v) __CPROVER_requires(i >= 0 && i < g_n) __CPROVER_assigns(g_px, g_py, g_dup_x)
__CPROVER_ensures(g_px == (v == g_X ? i : (__CPROVER_old(g_px) == i ? NONE : __CPROVER_old(g_px))) && g_dup_x == (__CPROVER_old(g_dup_x) || (v == g_X && __CPROVER_old(g_px) != NONE && __CPROVER_old(g_px) != i))
    && g_py == (v == g_Y ? (__CPROVER_old(g_py) == NONE || __CPROVER_old(g_py) == i ? i : __CPROVER_old(g_py)) : (__CPROVER_old(g_py) == i ? NONE : __CPROVER_old(g_py)))) ;
void xv_pop_back(Self* s) __CPROVER_requires(g_n >= 1) __CPROVER_assigns(g_n, g_px, g_py)
__CPROVER_ensures(g_n == __CPROVER_old(g_n) - 1 && g_px == (__CPROVER_old(g_px) == g_n ? NONE : __CPROVER_old(g_px)) && g_py == (__CPROVER_old(g_py) == g_n ? NONE : __CPROVER_old(g_py))) ;
void xv_load_error(Self* s) __CPROVER_requires(1) __CPROVER_assigns(g_error_loaded) __CPROVER_ensures(g_error_loaded == true) ;
void xv_destroy(Self* s, const Obj* o)
__CPROVER_requires(/* the object destroyed is the one asked for, once, and the vector no longer refers to it */ o == g_X && g_destroyed == 0 && g_px == NONE && g_dup_x == false)
__CPROVER_assigns(g_destroyed) __CPROVER_ensures(g_destroyed == o) ;
@@FN destroyStylesheet@@
@@FN destroyParsedSource@@
static void xv_havoc(void) { const Obj *x, *y; long a, b, n; __CPROVER_assume(x != 0 && y != 0 && x != y && n >= 0 && n < (1L << 40) && (a == NONE || (a >= 0 && a < n)) && b >= 0 && b < n && a != b);
  g_X = x; g_Y = y; g_px = a; g_py = b; g_n = n; g_dup_x = false; g_destroyed = 0; g_error_loaded = false; }
void h_destroyStylesheet(void) { xv_havoc(); destroyStylesheet(0, g_X); }
void h_destroyParsedSource(void) { xv_havoc(); destroyParsedSource(0, g_X); }
'''
VEC = r'm_(?:compiledStylesheets|parsedSources)'
R = [(r'using std::find;', '', (0, 1)),
     (r'const (?:CompiledStylesheetPtrVectorType|ParsedSourcePtrVectorType)::iterator\s+i\s*=\s*(?:std::)?find\(\s*' + VEC + r'\.begin\(\),\s*' + VEC + r'\.end\(\),\s*(\w+)\);', r'const iterator i = xv_find(self, \1);', 1),
     (VEC + r'\.end\(\)', 'xv_end(self)', (0, 2)),
     (r'LoadErrorMessage\([^;]*\);', 'xv_load_error(self);', 1),
     (VEC + r'\.erase\(i\);', 'xv_erase(self, i);', (0, 1)),
     (VEC + r'\.back\(\) = ([^;]+);', r'xv_set(self, xv_back_pos(self), \1);', (0, 1)),
     (r'\*i = ' + VEC + r'\.back\(\);', 'xv_set(self, i, xv_deref(self, xv_back_pos(self)));', (0, 1)),
     (VEC + r'\.back\(\)', 'xv_deref(self, xv_back_pos(self))', (0, 1)),
     (r'(?<![\w])\*i\b', 'xv_deref(self, i)', (0, 2)),
     (VEC + r'\.pop_back\(\);', 'xv_pop_back(self);', (0, 1)),
     (r'XalanDestroy\(\s*m_memoryManager,\s*const_cast<\w+\*>\((\w+)\)\);', r'xv_destroy(self, \1);', (1, 2))]
CONTRACT = '''__CPROVER_requires(%(p)s == g_X && g_X != 0 && g_Y != 0 && g_X != g_Y && g_n >= 0 && g_n < (1L << 40) && (g_px == NONE || (g_px >= 0 && g_px < g_n)) && g_py >= 0 && g_py < g_n && g_px != g_py && g_dup_x == false && g_destroyed == 0 && g_error_loaded == false)
__CPROVER_assigns(g_n, g_px, g_py, g_dup_x, g_destroyed, g_error_loaded)
__CPROVER_ensures(/* an object of this transformer: removed from the ownership vector, destroyed, 0 returned; every other object is still owned */
    __CPROVER_old(g_px) != NONE ==> (__CPROVER_return_value == 0 && g_destroyed == g_X && g_px == NONE && g_dup_x == false && g_n == __CPROVER_old(g_n) - 1 && g_py != NONE && g_py < g_n))
__CPROVER_ensures(/* not an object of this transformer: -1, an error message, nothing destroyed or removed */
    __CPROVER_old(g_px) == NONE ==> (__CPROVER_return_value == -1 && g_error_loaded == true && g_destroyed == 0 && g_n == __CPROVER_old(g_n) && g_py == __CPROVER_old(g_py)))'''
STUBS = ['xv_find', 'xv_end', 'xv_erase', 'xv_deref', 'xv_back_pos', 'xv_set', 'xv_pop_back', 'xv_load_error', 'xv_destroy']
UNIT = Unit(
    name='c06_destroy',
    props=['C06', 'C03'],
    functions=[
        Fn(XT, r'^XalanTransformer::destroyStylesheet\(', 'destroyStylesheet', 'int destroyStylesheet(Self* self, const Obj* theStylesheet)', rules=R, nloops=0, contract=CONTRACT % {'p': 'theStylesheet'}),
        Fn(XT, r'^XalanTransformer::destroyParsedSource\(', 'destroyParsedSource', 'int destroyParsedSource(Self* self, const Obj* theParsedSource)', rules=R, nloops=0, contract=CONTRACT % {'p': 'theParsedSource'}),
    ],
    template=TEMPLATE,
    jobs=[Job(n, 'h_' + n, enforce=[n], replace=STUBS, reach='all', timeout=120, min_obligations=4) for n in ('destroyStylesheet', 'destroyParsedSource')],
    mutants=[
        Mutant('swap_remove_reversed', XT, r'        m_compiledStylesheets\.erase\(i\);\n', '        m_compiledStylesheets.back() = *i;\n\n        m_compiledStylesheets.pop_back();\n', expect=None),
        Mutant('parsed_source_not_removed', XT, r'        m_parsedSources\.erase\(i\);\n', '', expect='no longer refers'),
        Mutant('unknown_stylesheet_destroyed_anyway', XT, r'(InvalidCompiledStylesheetProvided,\s*m_errorMessage\);\s*)return -1;', r'\1XalanDestroy(m_memoryManager, const_cast<XalanCompiledStylesheet*>(theStylesheet)); return -1;', expect=None),
    ],
    mechanisms=['ownership of compiled stylesheets and parsed sources'],
    assumptions=['the ownership vectors hold each owned object once (representation invariant, assumed); std::find returns the first position of the pointer or end(); XalanVector erase / back / pop_back have the std::vector meaning, observed through two tracked objects',
                 'XalanDestroy destroys and frees the object; the destructor of the transformer deletes whatever the vectors still hold'],
)
